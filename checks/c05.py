"""C05 — a CPU limit is a hard, exact and uninterceptable bound.

Theorems: lean/GoluaVerif/Props/C05.lean (kill_exact, kill_monotone, no_step_after_kill, …) over Model.Ctx /
Model.CallCtx on the regenerated Generated.Resources.  Correspondence: the context-stack model against the real
runtime (level B, exhaustive depth 3) and, at Lua level, generated programs (loops, pcall / coroutine / handler /
to-be-closed wrappers, bulk-charging library calls) under runtime.callcontext{kill={cpu=L}} with L swept around the
program's own usage u: killed <=> L <= u, identical results when not killed, host-callback trace of a killed run is
a prefix of the unlimited one, reported used < L."""
from . import common, ctxlib, luaquota, quotaprobes
from .luaquota import HUGE

PROBES = [
    ("probe:pcall-bulk-find",
     "local s = ('a'):rep(100000)\n"
     "local function body() local ok, msg = P(string.find, s, 'b', 1, true) emit('after', ok) "
     "local t = {} for i = 1, 100 do t[i] = i end emit('continued') return 'R' end\n", 50000),
    ("probe:coroutine-close-after-kill",
     "local co = coroutine.create(function() local g <close> = setmetatable({}, {__close = function() "
     "local n = 0 for i = 1, 200000 do n = n + 1 end emit('CLOSEburned', n) end}) while true do end end)\n"
     "local function body() coroutine.resume(co) return 'R' end\n", 10000),
    ("probe:tbc-coroutine-under-pcall",
     "local function body() local w1 = coroutine.wrap(function() local w2 = coroutine.wrap(function() "
     "local g <close> = setmetatable({}, {__close = function() end}) while true do end end) pcall(w2) end) "
     "emit('after', (pcall(w1))) return 'R' end\n", 60000),
    ("probe:xpcall-handler",
     "local function body() emit(xpcall(function() while true do end end, function(m) emit('HANDLER') return m end)) return 'R' end\n", 5000),
    ("probe:pcall-loop-forever",
     "local function body() while true do P(function() local x = 0 for i = 1, 50 do x = x + i end end) end end\n", 20000),
    ("probe:gc-handler",
     "local function body() for i = 1, 100000 do setmetatable({}, {__gc = function() emit('GC') end}) end return 'R' end\n", 20000),
]


def wrap(outer_and_body, limit):
    return (luaquota.PRELUDE + outer_and_body +
            "local ctx, r = runtime.callcontext({kill = {cpu = %d}}, body)\n"
            "emit('S', ctx.status, ctx.used.cpu or 0, ctx.used.memory or 0, r)\n" % limit)


def judge(ctx, tags, src_of, base, r, L, u):
    """checks one limited run against the unlimited one; returns True if it counted as compared"""
    key_in = "%s:L=%d" % (tags, L)
    replay = "c05 lua\n" + src_of(L)
    if r.cls in ("crash", "timeout", "panic"):
        ctx.violation("runner-%s:cpu:%s" % (r.cls, key_in), "the interpreter ended with %s (%s) under kill={cpu=%d}" % (r.cls, r.ret, L), replay)
        return True
    if r.intercepted:
        ctx.violation("kill-intercepted:cpu:" + key_in, "Lua code received the kill as an ordinary pcall error and went on running "
                      "in the limited context (program %s, limit %d, unlimited usage %d)" % (tags, L, u), replay)
        return True
    if r.status is None:
        ctx.violation("no-status:cpu:" + key_in, "runner class %s, no status line" % r.cls, replay)
        return True
    if luaquota.ctx_intercept(r.body, base.body):
        ctx.violation("kill-intercepted-by-callcontext:cpu:" + key_in, "an inner runtime.callcontext was killed by the cpu limit inherited from the "
                      "enclosing context and reported 'killed' to Lua code that went on running (program %s, limit %d)" % (tags, L), replay)
        return True
    killed = r.status == "killed"
    if killed and not luaquota.is_prefix(r.body, base.body):
        i = luaquota.first_divergence(r.body, base.body)
        ev = luaquota.dec(r.body[i]) if i < len(r.body) else ""
        if ev.startswith("CLOSE"):
            ctx.violation("close-handler-runs-after-kill:coroutine", "a __close handler of a coroutine ran after the context "
                          "was killed (program %s, limit %d); reported used.cpu=%s" % (tags, L, r.ucpu), replay)
        else:
            ctx.violation("trace-after-kill:cpu:" + key_in, "host callback trace of the killed run is not a prefix of the "
                          "unlimited run: event %d is %r" % (i, ev), replay)
        return True
    if killed != (L <= u):
        ctx.violation("kill-not-exact:cpu:" + key_in, "unlimited usage u=%d, limit L=%d, status %s (expected killed <=> L <= u)"
                      % (u, L, r.status), replay)
        return True
    if r.ucpu is not None and r.ucpu >= L:
        if killed and r.body and luaquota.dec(r.body[-1]).startswith("CLOSE"):
            # the handler's own emit is the last host event and the counter passed the limit: it ran after the kill
            ctx.violation("close-handler-runs-after-kill:coroutine", "a __close handler of a coroutine ran, unmetered, after the "
                          "context was killed: reported used.cpu=%d with kill.cpu=%d (program %s)" % (r.ucpu, L, tags), replay)
        else:
            ctx.violation("used-reaches-kill:cpu:" + key_in, "ctx.used.cpu=%d with kill.cpu=%d" % (r.ucpu, L), replay)
    if not killed and (r.body != base.body or r.ret != base.ret or r.ucpu != u or r.status != base.status):
        ctx.violation("result-differs:cpu:" + key_in, "not killed, yet trace/result/usage differ from the unlimited run "
                      "(used %s vs %d, status %s vs %s)" % (r.ucpu, u, r.status, base.status), replay)
    return True


def lua_leg(ctx, binpath, nprog, width):
    rng = common.Rng(ctx.seed * 1000003 + 5)
    progs = []
    for k in range(nprog):
        g = luaquota.Gen(rng, "cpu")
        body = g.body()
        progs.append(("g%d" % k, "+".join(g.tags), "local function body()\n  " + body + "\n  return 'R'\nend\n"))
    for name, src, lim in PROBES:
        progs.append((name, name, src))
    # unlimited runs (twice: determinism)
    batch = []
    probe_lim = {n: l for n, _, l in PROBES}
    for pid, tags, src in progs:
        if pid in probe_lim:
            continue            # probes need not terminate when unlimited
        batch.append((pid + ":u", wrap(src, HUGE)))
        batch.append((pid + ":v", wrap(src, HUGE)))
    res = luaquota.run_batch(binpath, batch)
    sweep = []
    info = {}
    for pid, tags, src in progs:
        b, b2 = res.get(pid + ":u"), res.get(pid + ":v")
        if pid in probe_lim:
            sweep.append((pid + ":" + str(probe_lim[pid]), wrap(src, probe_lim[pid])))
            info[pid] = (tags, src, b, None)
            continue
        if b is None or b.cls != "ok" or b.status != "done" or b.ucpu is None:
            ctx.violation("unlimited-run-failed:" + tags, "unlimited run ended %s / %s" % (b and b.cls, b and b.status),
                          "c05 lua\n" + wrap(src, HUGE))
            continue
        if b2 is None or (b.body, b.ucpu, b.ret) != (b2.body, b2.ucpu, b2.ret):
            ctx.violation("nondeterministic:cpu:" + tags, "two unlimited runs differ: used %s vs %s" % (b.ucpu, b2 and b2.ucpu),
                          "c05 lua\n" + wrap(src, HUGE))
            continue
        u = b.ucpu
        Ls = set(range(1, min(u, width) + 1)) | {max(1, u + d) for d in (-2, -1, 0, 1, 2)} | {2 * u + 1}
        for _ in range(8):
            Ls.add(1 + rng.below(max(1, u)))
        info[pid] = (tags, src, b, u)
        for L in sorted(Ls):
            sweep.append(("%s:%d" % (pid, L), wrap(src, L)))
    sweep.sort(key=lambda x: not x[0].startswith("probe:"))
    res2 = luaquota.run_batch(binpath, sweep)
    for rid, _ in sweep:
        pid, _, Ls = rid.rpartition(":")
        L = int(Ls)
        tags, src, base, u = info[pid]
        r = res2.get(rid)
        if r is None:
            continue
        if u is None:       # probe: base run may not terminate / be meaningful; judge against an empty prefix rule
            judge_probe(ctx, tags, src, r, L)
            continue
        judge(ctx, tags, lambda LL, src=src: wrap(src, LL), base, r, L, u)
        near = abs(L - u) <= 2
        inside = r.status == "killed" and any(t.startswith(("pcall", "coro", "xpcall", "close", "p", "ctx", "W:")) for t in tags.split("+"))
        ctx.case("%s|%d" % (tags, L), near or inside)
        ctx.count("lua:" + (r.status or r.cls))
        if near:
            ctx.count("lua:L-within-2-of-u")
    for pid in list(info)[:4]:
        tags, src, b, u = info[pid]
        if u is not None:
            ctx.sample("program %s: unlimited cpu usage %d, trace length %d" % (tags, u, len(b.body)))


def judge_probe(ctx, tags, src, r, L):
    replay = "c05 lua\n" + wrap(src, L)
    ctx.case("%s|%d" % (tags, L), True)
    ctx.count("probe:" + (r.status or r.cls))
    if r.cls == "killed":
        ctx.violation("kill-escapes-callcontext:%s" % tags.replace("probe:", ""), "the ContextTerminationError of a context created by "
                      "runtime.callcontext escaped rt.Call of the unlimited top-level chunk as a raw Go panic (%s); host trace %s"
                      % (luaquota.msg_of(r)[:80], [luaquota.dec(x) for x in r.body][:5]), replay)
        return
    if r.cls in ("crash", "timeout", "panic"):
        ctx.violation("runner-%s:cpu:%s" % (r.cls, tags), "probe ended with %s (%s)" % (r.cls, r.ret), replay)
        return
    if r.intercepted:
        ctx.violation("kill-intercepted:cpu:" + tags, "Lua code received the kill as an ordinary pcall error and went on running "
                      "in the limited context (%s, limit %d)" % (tags, L), replay)
        return
    body = [luaquota.dec(x) for x in r.body]
    if any(x.startswith("CLOSE") for x in body):
        ctx.violation("close-handler-runs-after-kill:coroutine", "a __close handler of a coroutine ran, unmetered, after the "
                      "context was killed (%s, limit %d); reported used.cpu=%s" % (tags, L, r.ucpu), replay)
        return
    if "HANDLER" in body or "GC" in body and r.status == "killed" and r.ucpu is not None and r.ucpu >= L:
        ctx.violation("handler-runs-after-kill:%s" % tags, "handler event after the kill: %s" % body[:6], replay)
    if r.status != "killed":
        ctx.violation("probe-not-killed:%s" % tags, "expected status killed, got %s" % r.status, replay)
    if r.ucpu is not None and r.ucpu >= L:
        ctx.violation("used-reaches-kill:cpu:%s" % tags, "ctx.used.cpu=%d with kill.cpu=%d" % (r.ucpu, L), replay)


def run(ctx):
    ctx.rule = ("case = (generated Lua program, cpu limit L) run on the real interpreter; non-trivial = L within 2 of the "
                "program's unlimited usage u, or the kill lands inside a pcall / coroutine / handler / to-be-closed wrapper; "
                "plus context-stack histories as in C07 (non-trivial = two nested contexts and a boundary value)")
    ctx.assumptions = [
        "CPU accounting is taken as the counter runtime.callcontext reports; 'real work between two increments is bounded' is "
        "not decided here (no instruction-level instrumentation); see DESIGN section 6 Partial",
        "no-overflow hypothesis n + L <= 2^64 for kill_exact (limits from Lua are < 2^63, amounts are lengths)",
        "'no single operation runs unmetered' is decided for the scanning templates of checks/quotaprobes.py CPU_AMPLIFY only "
        "(charged CPU against a lower bound in the size parameter), not for every library function",
        "a generated program's sequence of CPU requests up to the kill point does not depend on L (deterministic VM): "
        "checked by the identical-trace comparison, not proved",
    ]
    msgs = common.regen(ctx)
    for m in msgs:
        ctx.obligations.append({"name": "translate:" + m.split(":")[0].split(" ")[-1], "ok": False, "axioms": [], "note": m})
    quotaprobes.regen_recover_sites(ctx)
    common.prove(ctx)
    common.build_oracle()
    h = common.build_go("c07", "cmd/c07")
    ctx.log("proofs re-checked; context-stack correspondence")
    if ctx.tier == "thorough":
        ctxlib.flat_leg(ctx, h, ["exh", "3"], "exh3")
        ctxlib.flat_leg(ctx, h, ["rand", "30000"], "rand")
    else:       # a third of the depth-3 enumeration (C07 runs all of it), chosen by the seed
        ctxlib.flat_leg(ctx, h, ["exh", "3", str(ctx.seed % 3), "3"], "exh3/3")
    # bracketed CallContext trees against Model.CallCtx: the propagation of terminations (inherited flags) is
    # not observable through the public API, only through behaviour
    from . import ctxcall
    ctxcall.call_leg(ctx, h, 20000 if ctx.tier == "thorough" else 4000)
    ctx.log("Lua-level sweep")
    runner = common.build_go("c05", "cmd/c05")
    if ctx.tier == "thorough":
        lua_leg(ctx, runner, 400, 200)
    else:
        lua_leg(ctx, runner, 60, 25)
    ctx.log("callback sites, CPU amplification")
    # the limit hit inside every kind of callback (sort comparator, metamethods, gsub / load callbacks, message
    # handlers, __close on every exit path, __gc) with a pcall around: not interceptable at any recover site
    quotaprobes.callback_leg(ctx, runner, "cpu")
    # scanning library calls must charge CPU that grows with the work they do
    quotaprobes.cpu_amplify_leg(ctx, runner, ctx.tier == "thorough")
    # size-taking calls that are not pattern scans: charged CPU + memory grows with the work, killed under small limits
    quotaprobes.work_amplify_leg(ctx, runner)


def replay(ctx, path):
    txt = open(path).read()
    if "c05 lua\n" in txt:
        src = txt.split("c05 lua\n", 1)[1]
        runner = common.build_go("c05", "cmd/c05")
        res = luaquota.run_batch(runner, [("replay", src)])
        r = res.get("replay")
        print("class:", r.cls, "status:", r.status, "used.cpu:", r.ucpu, "used.memory:", r.umem, "ret:", r.ret)
        print("host trace:", [luaquota.dec(x) for x in r.body][:60])
        return 1 if (r.intercepted or r.cls != "ok") else 0
    from . import c07
    return c07.replay(ctx, path)
