"""C13 — string.dump followed by load reproduces the function.

Theorems: lean/GoluaVerif/Props/C13.lean over Model.Marshal (the byte format of runtime/marshal.go).
Correspondence (harness/cmd/c13, lean/Oracle/C13.lean):
  level B  Model.Refactor.refactor applied to the exported UNREFACTORED prototype + the chunk's shared constant vector
           gives exactly the tree RefactorCodeConsts produced; the prototype tree of every generated function (exported through the verif hook VerifCodeFields after
           RefactorCodeConsts) is encoded by Model.marshal to exactly the bytes string.dump returned; Model.unmarshal of
           the real bytes gives the tree back and re-encodes to the same bytes; Model.load agrees with golua's load on
           damaged dumps (ok / err / panic);
  level A  (Go only) f versus load(string.dump(f)) on 7 argument tuples: same results, same error values including the
           chunkname:line prefix, compared by subtype and bit pattern; every dump is TAKEN first and verified only after all
           other dumps and allocation-heavy calls (the kept string must still equal a fresh dump and load correctly);
           dump(load(dump f)) = dump f; every truncated dump is
           rejected; no damaged dump panics, hangs or takes the process down (child process, RLIMIT_AS, timeout)."""
import binascii
import os
import resource
import subprocess
from . import common


def limit_as():
    resource.setrlimit(resource.RLIMIT_AS, (3 << 29, 3 << 29))  # = Model.Marshal.allocLimit


def gen_nontrivial(toks):
    """has a nested prototype, or constants of >= 2 types, or varargs / upvalues beyond _ENV"""
    nested = toks.count("C") > 1
    kinds = {t[0] for t in toks if t and t[0] in "IDS" and len(t) > 1}
    return nested or len(kinds) >= 2


def check_gen(ctx, lines):
    exp = common.run_oracle("c13", lines)
    if len(exp) != len(lines):
        raise common.BuildError("oracle returned %d lines for %d inputs" % (len(exp), len(lines)))
    nt = {}
    for line, e in zip(lines, exp):
        if " = " not in line:
            if line.startswith("skip "):
                ctx.count("gen:skipped-does-not-compile")
                continue
            raise common.BuildError("unexpected harness line: " + line[:200])
        lhs, rhs = line.split(" = ", 1)
        t = lhs.split(" ")
        kind, fid = t[0], t[1]
        if kind == "seq":
            # operation sequence on ONE live function: the state (dump bytes, error positions of the live function and of
            # load(dump f)) after every operation must be the state before the first
            states = rhs.split(" | ")
            ctx.case("seq " + fid, True)
            ctx.count("seq:len%d" % len(fid))
            for k, st in enumerate(states[1:], 1):
                if st != states[0]:
                    a, b = states[0].split(" "), st.split(" ")
                    what = []
                    if a[0] != b[0]:
                        what.append("string.dump(f) returns other bytes")
                    if len(a) > 1 and len(b) > 1 and a[1] != b[1]:
                        what.append("the live function reports other errors/positions")
                    if len(a) > 2 and len(b) > 2 and a[2] != b[2]:
                        what.append("load(string.dump(f)) reports other errors/positions")
                    ctx.violation("history %s" % fid[:k],
                                  "after the operations %s on one function (D dump, S dump strip=true, F strip=false, N strip=nil, C call, "
                                  "E failing call, K dump nested closures, L load stripped dump): %s" % (fid[:k], "; ".join(what) or "state differs"),
                                  "c13 seq %s\nbefore: %s\nafter:  %s\n" % (fid[:k], states[0][:600], st[:600]))
                    break
            continue
        if kind == "unit":
            ctx.case("unit " + fid, True)
            ctx.count("refactor:unit-consts<%d" % (1 << len(t).bit_length()))
            if e == "bad-line":
                raise common.BuildError("oracle could not parse the unit of " + fid)
            if e != "R=1":
                ctx.violation("model refactor " + fid,
                              "Model.Refactor.refactor of the exported prototype and shared constant vector differs from the tree "
                              "RefactorCodeConsts produced: " + e,
                              "c13 src %s\noracle: %s\n" % (fid, e), found_input=False)
        elif kind == "dump":
            nt[fid] = gen_nontrivial(t[2:])
            ctx.case("dump " + fid + " " + rhs[:64], nt[fid])
            ctx.count("dump:bytes<%d" % (1 << (len(rhs) // 2).bit_length()))
            ctx.count("dump:prototypes=%d" % min(t.count("C"), 8))
            if not rhs.startswith("x"):
                ctx.violation("dump-fails " + fid, "string.dump did not return a string: " + rhs[:200],
                              "c13 src %s\nobserved %s\n" % (fid, rhs[:300]))
                continue
            if e == "bad-line":
                raise common.BuildError("oracle could not parse the tree of " + fid)
            if not e.startswith("m=1 u=1 r=1"):
                ctx.violation("model dump " + fid, "Model.marshal / unmarshal disagree with string.dump's bytes: " + e,
                              "c13 src %s\noracle: %s\n%s\n" % (fid, e, line[:4000]), found_input=False)
        elif kind == "beh":
            a, b = rhs.split(" || ")
            ctx.case("beh " + fid + " " + t[2] + " " + a[:80], nt.get(fid, False))
            ctx.count("beh:" + a.split("(")[0])
            if a != b:
                ctx.violation("behaviour %s %s" % (fid, t[2]),
                              "f and load(string.dump(f)) differ on %s: %s versus %s" % (t[2], a[:300], b[:300]),
                              "c13 src %s\nargs %s\nf:      %s\nloaded: %s\n" % (fid, t[2], a, b))
        elif kind == "redump":
            s = rhs.split(" ")
            ctx.case("redump " + fid, nt.get(fid, False))
            if s[1] != s[0]:
                ctx.violation("redump " + fid, "string.dump(load(string.dump(f))) differs from string.dump(f)",
                              "c13 src %s\nsha %s\n" % (fid, rhs))
            if s[2] != s[0]:
                ctx.violation("dump-not-deterministic " + fid, "two calls of string.dump(f) returned different bytes",
                              "c13 src %s\nsha %s\n" % (fid, rhs))
    for l in lines[:: max(1, len(lines) // 4)][:4]:
        ctx.sample(l[:300])


def crash_class(err, rc):
    if any(m in err for m in ("out of memory", "cannot allocate", "pthread_create failed", "Resource temporarily unavailable",
                              "mmap", "errno=12")):
        return "out-of-memory"
    if rc == 124:
        return "timeout"
    if "panic" in err:
        return "panic"
    return "exit-%d" % rc


def run_mal(ctx, h):
    """damaged dumps: a child process per stretch; a crash is recorded and the child restarted after the culprit"""
    start = 0
    lines = []
    crashes = 0
    rc, gen_out, gen_err = common.run_harness(h, ["malgen", ctx.tier])
    if rc != 0:
        raise common.BuildError("c13 malgen failed: " + gen_err[-1500:])
    inputs = os.path.join(common.BUILD, "c13-mal-inputs-%d.txt" % os.getpid())
    with open(inputs, "w") as f:
        f.write(gen_out)
    while True:
        errpath = os.path.join(common.BUILD, "c13-mal-stderr.txt")
        with open(errpath, "w") as ef:
            try:
                p = subprocess.run([h, "mal", inputs, str(start)], stdout=subprocess.PIPE, stderr=ef, text=True,
                                   errors="replace", timeout=45, preexec_fn=limit_as, env=dict(os.environ, GOMEMLIMIT="1GiB", GOTRACEBACK="none"))
                out, rc = p.stdout, p.returncode
            except subprocess.TimeoutExpired as ex:
                out = ex.stdout.decode("utf8", "replace") if isinstance(ex.stdout, bytes) else (ex.stdout or "")
                rc = 124
        err = "timeout" if rc == 124 else open(errpath, errors="replace").read(20000)
        got = out.split("\n")
        if got and got[-1] == "":
            got.pop()
        done = [l for l in got if " = " in l]
        lines += done
        pending = [l for l in got if " = " not in l and l.startswith("load ")]
        if rc == 0 and not pending:
            break
        if not pending:
            raise common.BuildError("c13 mal died without a pending input: rc=%d %s" % (rc, err[-500:]))
        crashes += 1
        lines.append(pending[0] + " = crash:" + crash_class(err, rc))
        start = int(pending[0].split(" ")[1]) + 1
        if crashes > (40 if ctx.tier == "quick" else 2000):
            raise common.BuildError("c13 mal: too many crashes")
    try:
        os.remove(inputs)
    except OSError:
        pass
    exp = common.run_oracle("c13", lines)
    for line, e in zip(lines, exp):
        lhs, got = line.split(" = ", 1)
        t = lhs.split(" ")
        kind, hx = t[2], t[3][1:]
        ctx.case("load " + hx[:200], True)
        ctx.count("load:%s:%s" % (kind.rstrip("0123456789"), got.split(":")[0]))
        head = hx[:96]
        replay = "c13 malone %s\nobserved %s\nmodel    %s\n" % (hx, got, e)
        if got.startswith("crash"):
            if e not in ("crash", "err"):
                ctx.violation("model load %s x%s" % (kind, head), "golua: %s; Model.Marshal.load says: %s" % (got, e), replay, found_input=False)
            ctx.violation("load-crash %s %s len=%d x%s" % (got[6:], kind, len(hx) // 2, head),
                          "load() of a damaged dump took the process down (%s): sizes read from the input are passed to "
                          "make() before any of the data is read or the budget is consumed" % got[6:], replay)
            continue
        if got.startswith("panic"):
            what = "negative-upvaluecount" if "makeslice" in got and e == "panic" else "other"
            ctx.violation("load-panic %s %s len=%d x%s" % (what, kind, len(hx) // 2, head),
                          "a Go run-time panic escaped load() of a damaged dump: " + got[6:], replay)
            continue
        if kind.startswith("trunc") and got == "ok":
            ctx.violation("load-accepts-truncated-dump missing=%s len=%d" % (kind[5:], len(hx) // 2),
                          "a dump with its last %s byte(s) cut off was loaded without error (readString accepts a short read: "
                          "the string is silently padded with zeros)" % kind[5:], replay)
        if e == "crash":
            ctx.count("load:model-says-huge-allocation:" + got.split(":")[0])
        elif e in ("ok", "err", "panic") and got != e:
            ctx.violation("model load %s x%s" % (kind, head), "golua: %s; Model.Marshal.load says: %s" % (got, e), replay,
                          found_input=False)
    ctx.extra["damaged_dumps"] = len(lines)
    ctx.extra["child_crashes"] = crashes


def run(ctx):
    ctx.rule = ("size-parameterised shapes (N = 10/199/200/201/1000 sibling closures, nesting up to the compiler's limit, wide x deep, "
                "300-700 constants, line tables beyond 16 bits) and all operation sequences of length <= 4 over 8 operations on one live "
                "function; cases = one generated Lua chunk (15 hand-written shapes + seeded random chunks with nested closures capturing "
                "locals, constants of every type incl. NaN/-0.0/minint/strings with zeros, varargs, loops, globals, errors with "
                "line info, 120-statement functions) dumped, exported and compared; each behavioural case = (function, argument "
                "tuple); each damaged dump = one load() call; non-trivial = the prototype has a nested prototype or constants of "
                ">= 2 types (every damaged dump counts); distinct by canonical text")
    ctx.assumptions = [
        "memory/CPU budgets of MarshalConst/UnmarshalConst are not modelled (unlimited runtime)",
        "the loaded function is compared with the original by running both (Go only); the VM itself is not modelled here",
        "strip=true of string.dump is ignored by golua (TODO in dump.go): it is exercised in the operation sequences, whose "
        "invariants (plain dump bytes and error positions never change) hold whether or not strip is honoured",
    ]
    msgs = common.regen(ctx)
    for m in msgs:
        ctx.obligations.append({"name": "translate:" + m.split(":")[0].split(" ")[-1], "ok": False, "axioms": [], "note": m})
    common.prove(ctx)
    common.build_oracle()
    h = common.build_go("c13", "cmd/c13")
    rc, out, err = common.run_harness(h, ["gen", ctx.tier], env={"GOMEMLIMIT": "6GiB"})
    if rc != 0:
        raise common.BuildError("c13 harness gen failed: " + err[-2000:])
    lines = out.split("\n")[:-1]
    check_gen(ctx, lines)
    ctx.log("gen: %d lines" % len(lines))
    run_mal(ctx, h)
    rc, out, err = common.run_harness(h, ["latent"])
    ctx.extra["dump_go_marshal_error_path"] = out.strip()


def replay(ctx, path):
    h = common.build_go("c13", "cmd/c13")
    for line in open(path):
        if line.startswith("c13 src "):
            rc, out, err = common.run_harness(h, ["src", line.split()[2]])
            print(out)
        elif line.startswith("c13 seq "):
            rc, out, err = common.run_harness(h, ["seq", line.split()[2]])
            for st in out.strip().split(" = ", 1)[-1].split(" | "):
                print(st[:300])
        elif line.startswith("c13 malone "):
            p = subprocess.run([h, "malone", line.split()[2]], stdout=subprocess.PIPE, stderr=subprocess.PIPE, text=True,
                               errors="replace", timeout=60, preexec_fn=limit_as)
            print(p.stdout.strip() or ("process died rc=%d: %s" % (p.returncode, p.stderr[:400])))
    return 0
