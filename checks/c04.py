"""C04 — no Lua source or program can crash the embedding Go process.

Theorems (Props/C04.lean): bytecode field encoders/decoders of code/opcodes.go (REGENERATED as
Generated.Opcode): round trips, field disjointness, SetOffset/SetKIndex locality, type prefixes,
KIndexFromInt/Index8FromInt succeed iff in range, int16 offset truncation counter-example; the
compile-path limit model (Model/Limits.lean): which excesses are compile errors and which are raw
panics / wrong code (proved counter-examples).

Crash search (harness/cmd/c04, supporting the theorems and giving failing inputs):
  texts      token-alphabet strings (<=2 exhaustive, 3 sampled/exhaustive, 4 sampled), framed variants,
             token-level mutations and truncations of a corpus of 40 valid programs -> compile at the
             root context, run under a CPU+memory limit, under recover, in supervised worker processes
  templates  size-parameterised adversarial programs, each (template, N) in a child process with
             timeout / GOMEMLIMIT / RLIMIT_AS; results checked where the program is within all limits
  calls      every Go function reachable from _G, package.loaded.* and the metatables of standard values
             x argument tuples from the edge-value pool
  limits     size-parameterised programs around each modelled limit: the Lean model's prediction
             (ok / compile error / panic / wrong code) must be what the compiler does
A Go panic reaching the harness, a dead process, an internal Go runtime error surfaced as an error
message, or a wrong result = violation."""
import binascii
import os
import re
import subprocess
import tempfile
import time

from . import common

# HANG: a one-program template that answered neither in 10 s nor, run again, in 30 s (deadlock / endless loop)
BAD = ("PANIC", "CRASH", "WRONG", "INTERNAL", "HANG")
RACE_SIG = "panic: Too much mem released|runtime.Thread.end(via ReleaseMem)"


def unhex(h):
    if h == "-" or not h:
        return ""
    try:
        return binascii.unhexlify(h).decode("utf8", "backslashreplace")
    except (binascii.Error, ValueError):
        return h


def show(src):
    """printable canonical form of a source text"""
    out = []
    for ch in src:
        o = ord(ch)
        if ch == "\\":
            out.append("\\\\")
        elif 32 <= o < 127:
            out.append(ch)
        elif ch == "\n":
            out.append("\\n")
        else:
            out.append("\\x%02x" % o if o < 256 else ch)
    return "".join(out)


def start(h, args, env=None):
    e = dict(os.environ)
    e.setdefault("GOMEMLIMIT", "4GiB")
    if env:
        e.update(env)
    out = tempfile.TemporaryFile(mode="w+", errors="replace")
    err = tempfile.TemporaryFile(mode="w+", errors="replace")
    p = subprocess.Popen([h] + args, stdout=out, stderr=err, env=e, stdin=subprocess.DEVNULL)
    return p, out, err


def finish_proc(p, out, err, timeout, what):
    try:
        rc = p.wait(timeout=timeout)
    except subprocess.TimeoutExpired:
        p.kill()
        p.wait()
        raise common.BuildError("c04 harness phase %s did not finish in %ds" % (what, timeout))
    out.seek(0)
    err.seek(0)
    o, e = out.read(), err.read()
    if rc != 0:
        raise common.BuildError("c04 harness phase %s failed rc=%d: %s" % (what, rc, e[-2000:]))
    return o.split("\n")[:-1], e


def mem_release_key(phase, name, detail):
    """The three 'Too much mem released' defects are shared with C06 and keyed identically there."""
    if "Too much mem released" not in detail:
        return None
    if name == "memctx-coroutine-finishes-inside":
        return "mem-release-underflow:coroutine-finished-in-inner-context"
    if name == "memctx-load-compile-error":
        return "mem-release-underflow:load-compile-error-double-release"
    if "Thread.end(via ReleaseMem)" in detail:
        return "mem-release-underflow:coroutine-end"
    return None


def corpus_files():
    d = os.path.join(common.ROOT, "corpus", "C04")
    out = []
    if os.path.isdir(d):
        for f in sorted(os.listdir(d)):
            if f.endswith(".lua") or f.endswith(".txt"):
                out.append(os.path.join(d, f))
    return out


def do_texts(ctx, lines):
    valid_seen = 0
    for l in lines:
        f = l.split(" ")
        if len(f) < 6 or f[0] != "text":
            raise common.BuildError("c04 texts: bad line " + l[:200])
        src, cls, detail, flags, kind = unhex(f[1]), f[2], unhex(f[3]), f[4], f[5]
        canon = show(src)
        ctx.case("text:" + canon, "s" in flags or "c" in flags or cls in BAD)
        ctx.count("texts:%s:%s" % (kind, cls))
        if kind == "mut-v":
            valid_seen += 1
            if cls != "ok" and not (cls == "CRASH" and mem_release_key("texts", "", detail)):
                # a corpus program that is valid Lua 5.4 does not run: either a golua defect or a harness bug
                ctx.violation("corpus-program-fails:%s:%s:%s" % (cls, detail, canon[:60]),
                              "a valid corpus program does not compile/run: %s %s" % (cls, detail),
                              "c04 replay text %s\n# source:\n%s\n" % (f[1], src))
                continue
        if cls in BAD or cls == "TIMEOUT":
            key = mem_release_key("texts", "", detail) if cls == "CRASH" else None
            if key is None:
                lim = 300 if cls != "TIMEOUT" else 6000
                key = "text:%s:%s:%s" % (cls, detail, canon if len(canon) <= lim else canon[:lim] + "...")
            else:
                key = key  # one family, the input is in the replay file
            ctx.violation(key, "source text -> %s %s" % (cls, detail),
                          "c04 replay text %s\n# outcome %s %s\n# source:\n%s\n" % (f[1], cls, detail, src))
    for l in lines[:: max(1, len(lines) // 4)][:4]:
        f = l.split(" ")
        ctx.sample({"text": show(unhex(f[1]))[:120], "class": f[2], "detail": unhex(f[3])[:80], "kind": f[5]})
    return valid_seen


def do_templates(ctx, lines):
    mins = {}
    rows = []
    for l in lines:
        f = l.split(" ")
        if len(f) < 5 or f[0] not in ("template", "minimal"):
            raise common.BuildError("c04 templates: bad line " + l[:200])
        name, n, cls, detail = f[1], int(f[2]), f[3], unhex(f[4])
        if f[0] == "minimal":
            mins[name] = (n, cls, detail)
            continue
        rows.append((name, n, cls, detail))
        ctx.case("template:%s:%d" % (name, n), True)
        ctx.count("templates:%s" % cls)
    first_bad = {}
    for name, n, cls, detail in rows:
        if cls in BAD and name not in first_bad:
            first_bad[name] = (n, cls, detail)
    for name, (n, cls, detail) in first_bad.items():
        if name in mins:
            n, cls, detail = mins[name]
        key = mem_release_key("templates", name, detail)
        if key is None:
            key = "template:%s:N=%d:%s:%s" % (name, n, cls, detail)
        ctx.violation(key, "template %s with N=%d -> %s %s" % (name, n, cls, detail),
                      "c04 replay template %s %d\n# outcome %s %s\n" % (name, n, cls, detail))
    for name, n, cls, detail in rows[:: max(1, len(rows) // 4)][:4]:
        ctx.sample({"template": name, "N": n, "class": cls, "detail": detail[:80]})
    ctx.extra["templates_inconclusive_timeouts"] = sorted({"%s:%d" % (n, k) for n, k, c, d in rows
                                                            if c == "TIMEOUT"})


def do_calls(ctx, lines):
    fns = [l[3:] for l in lines if l.startswith("fn ")]
    ctx.extra["go_functions_reached"] = len(fns)
    best = {}
    shown = 0
    for l in lines:
        if l.startswith("fn "):
            continue
        f = l.split(" ")
        if len(f) < 6 or f[0] != "call":
            raise common.BuildError("c04 calls: bad line " + l[:200])
        path, args, cls, detail, flags = f[1], f[2], f[3], unhex(f[4]), f[5]
        if cls == "skipped":
            ctx.count("calls:skipped")
            continue
        ctx.case("call:%s(%s)" % (path, args), "a" not in flags)
        ctx.count("calls:%s" % cls)
        if shown < 4 and cls in ("ok", "killed") and args.count(",") >= 1:
            ctx.sample({"call": "%s(%s)" % (path, args), "class": cls})
            shown += 1
        if cls in BAD or cls == "TIMEOUT":
            mk = mem_release_key("calls", "", detail) if cls == "CRASH" else None
            if mk is not None:
                ctx.violation(mk, "call %s(%s) -> %s %s" % (path, args, cls, detail),
                              "c04 replay call %s %s\n# outcome %s %s\n" % (path, args, cls, detail))
                continue
            k = (path, cls, detail)
            nargs = 0 if args == "()" else args.count(",") + 1
            if k not in best or (nargs, args) < best[k]:
                best[k] = (nargs, args)
    for (path, cls, detail), (nargs, args) in best.items():
        ctx.violation("call:%s(%s):%s:%s" % (path, args, cls, detail),
                      "library call %s(%s) -> %s %s" % (path, args, cls, detail),
                      "c04 replay call %s %s\n# outcome %s %s\n" % (path, args, cls, detail))


def do_limits(ctx, lines):
    """observed outcome per (limit template, size) vs the Lean Limits model's prediction"""
    if not lines:
        return
    exp = common.run_oracle("c04", lines)
    if len(exp) != len(lines):
        raise common.BuildError("oracle c04 returned %d lines for %d inputs" % (len(exp), len(lines)))
    for l, e in zip(lines, exp):
        f = l.split(" ")
        kind, size, got = f[1], f[2], f[3]
        ctx.case("limit:%s:%s" % (kind, size), True)
        ctx.count("limits:%s:%s" % (kind, got))
        if e == "?":
            ctx.count("limits:unmodelled")
            continue
        if e != got:
            ctx.violation("limit-model:%s:%s:observed=%s:model=%s" % (kind, size, got, e),
                          "Model.Limits predicts %s for %s with size %s, the compiler does %s" % (e, kind, size, got),
                          "c04 replay limit %s %s\nobserved %s\nmodel %s\n" % (kind, size, got, e),
                          found_input=(got in ("panic", "wrong") and e not in ("panic", "wrong")))
    ctx.sample({"limits_lines": lines[:3], "model": exp[:3]})


def regen_panic_sites(ctx):
    """fact extractor: panic sites of ircomp/ and code/ + what CompileQueue's recover does -> Generated/PanicSites.lean"""
    import hashlib
    exe = os.path.join(common.BIN, "panicsites")
    with common.Lock("regen"):
        rc, o = common.sh(["go", "build", "-o", exe, "./panicsites"], cwd=os.path.join(common.ROOT, "extract"),
                          env=common.GOENV, timeout=600)
        if rc != 0:
            raise common.BuildError("building extract/panicsites failed:\n" + o)
        out = os.path.join(common.LEAN, "GoluaVerif", "Generated", "PanicSites.lean")
        rc, o = common.sh([exe, "-repo", common.REPO, "-out", out], timeout=300)
        if rc != 0:
            raise common.BuildError("extract/panicsites failed:\n" + o)
    ctx.generated_hashes["PanicSites.lean"] = hashlib.sha256(open(out, "rb").read()).hexdigest()[:16]


def run(ctx):
    ctx.rule = ("cases = source texts (alphabet strings, framed strings, mutated/truncated corpus programs) compiled and run "
                "under recover; (template, N) programs run in child processes; (Go function, argument tuple) calls; (limit, size) "
                "programs compared with Model.Limits.  Non-trivial: a text that golua's scanner tokenises completely (reaches the "
                "parser) or that misbehaves; a call tuple not rejected by the arity check; every template/limit case. "
                "Distinct by canonical text / (template,N) / (function,tuple)")
    ctx.assumptions = [
        "outside the modelled components (opcode field encoders, compile-path limit checks) C04 is exploration: the search "
        "covers only the inputs listed in coverage.input_distribution",
        "memory exhaustion in a context WITHOUT a memory limit is the host's choice and not counted (pure Lua recursion has no depth limit in golua)",
        "TIMEOUT of a size-parameterised template child is inconclusive (listed under templates_inconclusive_timeouts); "
        "a one-program template that does not answer in 10 s and again in 30 s is class HANG, a violation",
        "fatal 'out of memory' is observed under RLIMIT_AS=8GiB in the child processes",
        "load() of corrupted binary chunks is only checked not to crash at load time; such chunks are not executed",
    ]
    msgs = common.regen(ctx)
    regen_panic_sites(ctx)
    for m in msgs:
        if " Opcode." in m or "type Reg" in m:
            ctx.obligations.append({"name": "translate:" + m.split(":")[0].split(" ")[-1], "ok": False, "axioms": [], "note": m})
    # the harness phases only need the Go binary: they are started first and the proofs are re-checked
    # (and the oracle rebuilt) while they run; the oracle is needed for the limits comparison at the end
    try:
        h = common.build_go("c04", "cmd/c04")
    except common.BuildError:
        common.prove(ctx)
        raise
    tier = ctx.tier
    t0 = time.time()
    files = corpus_files()
    ctx.extra["corpus_files"] = [os.path.basename(f) for f in files]
    budget = 600 if tier == "quick" else 7200
    allp = {
        "texts": ["texts", tier] + files,
        "templates": ["templates", tier],
        "calls": ["calls", tier],
        "limits": ["limits", tier],
    }
    only = os.environ.get("C04_PHASES")  # debugging aid: run a subset of the phases (the evidence says so)
    if only:
        ctx.extra["phases_restricted_to"] = only
    procs = {k: start(h, a) for k, a in allp.items() if not only or k in only.split(",")}
    try:
        common.prove(ctx)
        common.build_oracle()
    except BaseException:
        for p, o, e in procs.values():
            p.kill()
        raise
    res = {}
    for name, (p, o, e) in procs.items():
        res[name], errtxt = finish_proc(p, o, e, budget, name)
        ctx.log("phase %s: %d lines (%.0fs)" % (name, len(res[name]), time.time() - t0))
    if "texts" in res:
        ctx.extra["valid_corpus_programs"] = do_texts(ctx, res["texts"])
    if "templates" in res:
        do_templates(ctx, res["templates"])
    if "calls" in res:
        do_calls(ctx, res["calls"])
    if "limits" in res:
        do_limits(ctx, res["limits"])
    ctx.extra["violation_keys"] = sorted(v.key[:400] for v in ctx.violations)
    ctx.extra["exhaustive"] = False
    ctx.extra["exhaustive_parts"] = (
        "alphabet strings of length <= 2 (and length 3 in the thorough tier); argument tuples of arity <= 1 "
        "(and arity 2 in the thorough tier) for every reachable Go function")


def replay(ctx, path):
    h = common.build_go("c04", "cmd/c04")
    rc = 0
    for line in open(path):
        if line.startswith("c04 replay "):
            args = line.split()[2:]
            if args and args[0] == "limit":
                common.build_oracle()
                r, out, err = common.run_harness(h, ["limits", "one"] + args[1:])
                print(out.strip())
                print("model:", common.run_oracle("c04", [out.strip()])[0])
                continue
            try:
                r, out, err = common.run_harness(h, ["replay"] + args, timeout=600)
            except subprocess.TimeoutExpired:
                print("timeout")
                continue
            print(out.strip())
            if r != 0:
                print("harness died rc=%d\n%s" % (r, err[-3000:]))
    return rc
