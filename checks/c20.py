"""C20 — independent runtimes are isolated.

static : extract/gofacts regenerates Generated/Globals.lean: every package-level var of the golua module (and
         process-wide state outside it: math/rand's global source, debug.SetGCPercent, os.Std*) with the functions
         that write it after init and are reachable from runtime.New / a library loader / a registered Go function.
         Props/C20.lean: generic frame_noninterference (+ benign-write variant) and the per-run instance over the
         regenerated table against Spec.Isolation's allow-list.  Every non-allow-listed pair is a violation.
dynamic: harness/cmd/c20 replays pairs of programs in two runtimes (interleaved per statement under several
         schedules, and concurrently on goroutines; thorough: under the race detector) against their solo runs."""
import os
import re
import subprocess

from . import common

MOD = "github.com/arnodel/golua/"


def short(s):
    return s.replace(MOD, "")


def static_part(ctx, facts):
    ctx.extra["package_level_vars"] = len(facts["globals"])
    ctx.extra["vars_written_after_init"] = sorted({short(g["name"]) for g in facts["globals"] if g["writers"]})
    ctx.extra["roots"] = len(facts["roots"])
    byvar = {}
    for g in facts["globals"]:
        for w in g["writers"]:
            byvar.setdefault((short(g["name"]), short(w["fn"])), []).append(w)
    verdicts = common.run_oracle("c20", [])
    listed = set()
    for line in verdicts:
        v, var, fn = line.split(" ", 2)
        listed.add((var, fn))
        ctx.count("shared:" + v)
        ws = byvar.get((var, fn), [{}])
        how = "; ".join("%s at %s (reachable from %s)" % (w.get("kind", "?"), w.get("pos", "?"), short(w.get("from", "?"))) for w in ws[:3])
        if v == "allowed":
            continue
        ctx.violation("shared:%s:%s" % (var, fn),
                      "%s is written after init by %s, which a running runtime can reach: %s%s"
                      % (var, fn, how, "" if v == "recordedDefect" else "  [not in Spec.Isolation: new shared state]"),
                      "c20 static\nvariable %s\nwriter   %s\n%s\n" % (var, fn, how), found_input=True)
    fromjson = {(short(a), short(b)) for a, b in facts["sharedWriters"]}
    ctx.obligations.append({"name": "globals_table_consistent", "ok": fromjson == listed, "axioms": [],
                            "note": "Generated/Globals.lean (read by the oracle) lists the same pairs as facts.json"})
    ctx.sample("%d package-level variables and process-wide states examined; written after init and reachable: %s"
               % (len(facts["globals"]), sorted(listed)))


RACE_TOP = re.compile(r"^  (\S+)\(\)\n\s+\S+:\d+", re.M)


def race_keys(stderr):
    keys = {}
    for blk in stderr.split("WARNING: DATA RACE")[1:]:
        blk = blk.split("==================")[0]
        secs = re.split(r"\n(?=(?:Write|Read|Previous write|Previous read) at)", blk)
        tops = []
        for s in secs:
            if re.match(r"\s*(Write|Read|Previous write|Previous read) at", s):
                m = RACE_TOP.search(s)
                if m:
                    tops.append(short(m.group(1)))
        if tops:
            k = "race:" + "|".join(sorted(set(tops)))
            keys.setdefault(k, blk.strip()[:1500])
    return keys


def consume(ctx, out, label):
    witnesses = {}
    for l in out.split("\n"):
        p = l.split(" ")
        if p[0] in ("pair", "conc", "cpair"):
            if p[0] in ("pair", "cpair"):
                a, b, sched, res, nt = p[1:6]
            else:
                a, b, res, nt = p[1:5]
                sched = "concurrent"
            ctx.case("%s %s %s %s" % (label, a, b, sched), nt == "1")
            ctx.count(label + ":" + res)
        elif p[0] == "witness":
            key, which, idx, want, got = p[1:6]
            sched = " ".join(p[6:])
            witnesses.setdefault(key, (which, idx, want, got, sched))
    for key, (which, idx, want, got, sched) in sorted(witnesses.items()):
        try:
            w, g = bytes.fromhex(want).decode(), bytes.fromhex(got).decode()
        except ValueError:
            w, g = want, got
        frs = key.split(":")[-1]
        if key.startswith("cfg:"):
            ca, cb = key.split(":")[1].split("|")
            ctx.violation("interfere:" + key,
                          "a runtime created as '%s' and a runtime created as '%s' in one process: program %s (fragment %s) no longer computes what it "
                          "computes alone in a runtime created the same way (statement %s: alone %s, together %s; %s)"
                          % (ca, cb, which, frs, idx, w, g, sched),
                          "c20 config %s %s %s\nprogram %s statement %s: solo %s, with the other runtime %s\n" % (ca, cb, sched.split(" ")[0], which, idx, w, g))
            continue
        ctx.violation("interfere:" + key,
                      "running %s in another runtime of the same process changes what program %s computes (statement %s: alone %s, together %s; schedule %s)"
                      % (frs, which, idx, w, g, sched),
                      "c20 replay %s\nschedule %s\nprogram %s statement %s: solo %s, with the other runtime %s\n"
                      % (frs.replace("|", " "), sched, which, idx, w, g))
    if len(ctx.samples) < 10:
        for l in out.split("\n")[:: max(1, len(out.split("\n")) // 4)][:4]:
            ctx.sample(label + " " + l)


def run(ctx):
    ctx.rule = ("cases = (program A, program B, schedule): both run alone, then interleaved statement by statement in two runtimes of one "
                "process (and concurrently on two goroutines), traces compared with the solo runs; non-trivial = A and B touch the same kind "
                "of library state (globals, string metatable, package.loaded, random generator, collector, io defaults, quotas...) and at "
                "least one of them writes it, or (config cases) the two runtimes are created in different ways (RuntimeOptions quotas/flags/"
                "pool sizes, own warner and stdout, a subset of the libraries, another load order), one created and closed before the other "
                "exists or both alive; solo baselines come from clean child processes; distinct by canonical text")
    ctx.assumptions += [
        "the package-level-variable analysis follows stores, map updates, delete/append, pointer-receiver method calls and pointers passed "
        "down into callees (context-insensitive taint with carriers); it does not follow pointers returned through more than one accessor",
        "process-wide state outside the module is recognised by name: math/rand top-level functions, runtime/debug.Set*, os.Setenv/Chdir, log.Set*, os.Std*",
        "data-race freedom in the binary is only sampled by the race detector (thorough tier), the proof is about the model of shared state",
    ]
    common.regen(ctx)
    facts = common.gofacts(ctx)
    common.write_root()
    common.prove(ctx)
    common.build_oracle()
    static_part(ctx, facts)
    h = common.build_go("c20", "cmd/c20")
    rc, out, err = common.run_harness(h, ["pairs", ctx.tier], timeout=3000)
    if rc != 0:
        raise common.BuildError("c20 harness failed: " + err[-2000:])
    consume(ctx, out, "interleaved")
    rc, out, err = common.run_harness(h, ["concurrent", ctx.tier], timeout=3000)
    if rc != 0:
        raise common.BuildError("c20 harness (concurrent) failed: " + err[-2000:])
    consume(ctx, out, "concurrent")
    rc, out, err = common.run_harness(h, ["stress", ctx.tier], timeout=3000)
    if rc != 0:
        raise common.BuildError("c20 harness (stress) failed: " + err[-2000:])
    consume(ctx, out, "stress")
    # runtimes created in different ways (options, warner, library subsets / load order), each ordered pair in its own process
    rc, out, err = common.run_harness(h, ["config", ctx.tier], timeout=3000)
    if rc != 0:
        raise common.BuildError("c20 harness (config) failed: " + err[-2000:])
    consume(ctx, out, "config")
    if ctx.tier == "thorough":
        hr = common.build_go("c20race", "cmd/c20", race=True)
        for procs in ("2", "8"):
            rc, out, err = common.run_harness(hr, ["concurrent", "race"], timeout=3000,
                                              env={"GORACE": "halt_on_error=0 exitcode=0", "GOMAXPROCS": procs, "C20_NO_STDERR_CAPTURE": "1"})
            if rc != 0:
                raise common.BuildError("c20 race harness failed: " + err[-2000:])
            consume(ctx, out, "race" + procs)
            rc, out2, err2 = common.run_harness(hr, ["config", "race"], timeout=3000,
                                                env={"GORACE": "halt_on_error=0 exitcode=0", "GOMAXPROCS": procs, "C20_NO_STDERR_CAPTURE": "1"})
            if rc != 0:
                raise common.BuildError("c20 race harness (config) failed: " + err2[-2000:])
            consume(ctx, out2, "race-config" + procs)
            rc, out3, err3 = common.run_harness(hr, ["stress", "race"], timeout=3000,
                                                env={"GORACE": "halt_on_error=0 exitcode=0", "GOMAXPROCS": procs, "C20_NO_STDERR_CAPTURE": "1"})
            if rc != 0:
                raise common.BuildError("c20 race harness (stress) failed: " + err3[-2000:])
            consume(ctx, out3, "race-stress" + procs)
            err = err + "\n" + err2 + "\n" + err3
            for k, blk in sorted(race_keys(err).items()):
                ctx.count("race-report")
                ctx.violation(k, "the race detector reports a data race between two runtimes used from two goroutines",
                              "c20 race\n" + blk + "\n")
    # which recorded static defects were also seen dynamically on this run
    seen = {v.key for v in ctx.violations}
    ctx.extra["dynamic_confirmation"] = {
        "math/rand.globalRand": any(k.startswith("interfere:rand:") for k in seen),
        "lib/base.gcRunning + debug.SetGCPercent": any(k.startswith("interfere:gc:") for k in seen),
        "lib/base.ipairsIterator/nextGoFunc (race, thorough only)": any(k.startswith("race:") and "SolemnlyDeclareCompliance" in k for k in seen),
    }


def replay(ctx, path):
    txt = open(path).read()
    print(txt)
    if "c20 static" in txt:
        facts = common.gofacts(ctx)
        for a, b in facts["sharedWriters"]:
            print("shared now:", short(a), "<-", short(b))
        return 0
    h = common.build_go("c20", "cmd/c20")
    for line in txt.splitlines():
        if line.startswith("c20 config "):
            p = line.split(" ")
            rc, out, err = common.run_harness(h, ["cfgcase", p[2], p[3], p[4], "quota,strmeta,globals,pkg,iodefault,output,heavy+flagsctx"])
            print("raw traces of the pair (ta = runtime A, tb = runtime B) in a clean process:")
            print(out)
        if line.startswith("c20 replay "):
            p = line.split(" ")
            if len(p) >= 4:
                rc, out, err = common.run_harness(h, ["replay", p[2], p[3]])
                print(out)
    return 0
