"""C14 — build options never change behaviour.
Theorems (Props/C14.lean): the register pool hands out zeroed sets of the exact size and is
observationally equivalent to plain allocation for every client program (Model.Pools).
Tie: (B) the model is run against the real valuePool through a verif hook on disciplined random
client programs (identities, lengths, contents compared); (A) the same harness source is built under
every tag set {default, noregpool, nocontpool, noregpool+nocontpool, noquotas, safepool} and the
host-visible traces of pool-stressing templates (and generated programs, when present) must be
identical to the default build's."""
import os
from . import common

TAGSETS = [
    ("default", ()),
    ("noregpool", ("noregpool",)),
    ("nocontpool", ("nocontpool",)),
    ("noregpool+nocontpool", ("noregpool", "nocontpool")),
    ("noquotas", ("noquotas",)),
    ("safepool", ("safepool",)),
]


def extra_program_files(ctx):
    """generated programs shared with C01 (written by checks/c01 tooling when available)"""
    d = os.path.join(common.ROOT, "corpus", "C14")
    out = []
    if os.path.isdir(d):
        for f in sorted(os.listdir(d)):
            if f.endswith(".lua"):
                out.append(os.path.join(d, f))
    return out


def gen_programs(ctx):
    """ask the C01 generator (if built) for Lua programs; returns a file path or None"""
    try:
        from . import c01
    except Exception:
        return None
    gen = getattr(c01, "generate_lua_programs", None)
    if gen is None:
        return None
    try:
        return gen(ctx, 150 if ctx.tier == "quick" else 3000)
    except Exception as e:  # the generator is optional here
        ctx.notes.append("C01 generator unavailable for C14: %r" % (e,))
        return None


def run(ctx):
    ctx.rule = ("cases = (program, tag set): a pool-stress template or generated program run under a build with that tag "
                "set, trace compared with the default build; plus pool client programs (get/write/read/release sequences) "
                "compared op by op with Model.Pools; non-trivial = program trace has >= 2 events or the client program "
                "reuses a pooled set; distinct by canonical text")
    ctx.assumptions = [
        "programs are deterministic and do not use quotas (noquotas legitimately disables runtime.callcontext limits)",
        "the VM releases a register set / continuation only when nothing references it (VM discipline): tied by the "
        "trace equality across builds, not proved",
    ]
    common.prove(ctx)
    common.build_oracle()
    bins = {}
    for name, tags in TAGSETS:
        bins[name] = common.build_go("c14-" + name.replace("+", "-"), "cmd/c14", tags=("verif",) + tags)
    # (B) model vs real pool
    n = 400 if ctx.tier == "quick" else 20000
    rc, out, err = common.run_harness(bins["default"], ["pool", str(n)])
    if rc != 0:
        raise common.BuildError("c14 pool harness failed: " + err[-2000:])
    lines = out.split("\n")[:-1]
    rc, out, err = common.run_harness(bins["default"], ["cpool", str(n // 4)])
    if rc != 0:
        raise common.BuildError("c14 cpool harness failed: " + err[-2000:])
    lines += out.split("\n")[:-1]
    exp = common.run_oracle("c14", lines)
    prog = []
    reused = False
    seen_ids = set()
    def flush():
        nonlocal prog, reused, seen_ids
        if prog:
            ctx.case("\n".join(prog), reused)
        prog, reused, seen_ids = [], False, set()
    for line, e in zip(lines, exp):
        op, got = line.split(" = ")
        if op.startswith("new") or op.startswith("cnew"):
            flush()
        prog.append(op)
        if op.startswith("get") or op.startswith("cget"):
            i = got.split(" ")[0]
            if i != "0" and i in seen_ids:
                reused = True
            seen_ids.add(i)
        ctx.count("pool:" + op.split(" ")[0])
        if got != e:
            key = "pool-model: " + " ; ".join(prog[-12:])
            ctx.violation(key, "real valuePool returned %r, Model.Pools %r" % (got, e),
                          "pool program (size 10, maxAge 10):\n" + "\n".join(prog) + "\nobserved %s\nmodel %s\n" % (got, e),
                          found_input=False)
            break
    flush()
    ctx.sample({"pool_program": lines[:12]})
    # (A) traces across builds
    files = extra_program_files(ctx)
    g = gen_programs(ctx)
    if g:
        files.append(g)
    ref = None
    for name, tags in TAGSETS:
        rc, out, err = common.run_harness(bins[name], ["prog"] + files, timeout=1200)
        if rc != 0:
            ctx.violation("build %s crashed" % name, "harness exit %d under tags %s" % (rc, name),
                          "c14 prog under %s\n%s" % (name, err[-3000:]))
            continue
        res = {}
        for l in out.split("\n")[:-1]:
            parts = l.split(" ", 2)
            res[parts[1]] = parts[2]
        if ref is None:
            ref = res
            for k in list(res)[:3]:
                ctx.sample({"program": k, "default_build_result": res[k][:200]})
            continue
        for k, v in ref.items():
            nontriv = v.count(";") >= 1
            ctx.case(name + "|" + k, nontriv)
            ctx.count("build:" + name)
            if res.get(k) != v:
                ctx.violation("%s differs under %s" % (k, name),
                              "trace under tag set %s differs from the default build" % name,
                              "program %s\ndefault: %s\n%s: %s\n" % (k, v, name, res.get(k)))


def replay(ctx, path):
    print(open(path).read())
    return 0
