"""C10 — to-be-closed variables.  Theorems: lean/GoluaVerif/Props/C10.lean (compile_correct:
the close-stack machine running the compiled program produces exactly the handler calls the
manual prescribes, for every program of the mini-language and every handler behaviour).
Correspondence: programs generated from the mini-language, rendered to Lua, run on golua with
__close handlers recording through host callbacks; level A = golua's event log vs Spec.Tbc.run,
level B = golua vs Model (runVM ∘ compile) and golua's clpush/cltrunc skeleton (from its own
disassembler) vs Model.TbcCompile's."""
import re
from . import common


def features(prog, hs):
    ntbc = len(re.findall(r"T\d+", prog))
    return ntbc, hs != "-"


def match_expected(got, expect):
    """static cases: `~` in the expected log stands for any error object (not nil)"""
    g, x = got.split(","), expect.split(",")
    if len(g) != len(x):
        return False
    for a, b in zip(g, x):
        if b.endswith(":~"):
            if not a.startswith(b[:-1]) or a.endswith(":n"):
                return False
        elif a != b:
            return False
    return True


def compare_static(ctx, lines):
    for line in lines:
        inp, _, res = line.partition(" = ")
        got = res.split(" ")[0]
        _, name, expect = inp.split(" ")
        ctx.case("static " + name, True)
        ctx.count("static")
        if not match_expected(got, expect):
            ctx.violation("static " + name, "golua's events: %s; the manual prescribes: %s (~ = some error)" % (got, expect),
                          "c10 static %s\nobserved %s\nexpected %s\n" % (name, got, expect))
    for l in lines[:3]:
        ctx.sample(l)


def compare(ctx, impl_lines, label):
    exp = common.run_oracle("c10", impl_lines)
    if len(exp) != len(impl_lines):
        raise common.BuildError("oracle returned %d lines for %d inputs" % (len(exp), len(impl_lines)))
    for line, e in zip(impl_lines, exp):
        if e == "bad-line":
            raise common.BuildError("oracle could not parse: " + line)
        inp, _, res = line.partition(" = ")
        got, _, sk = res.partition(" ")
        variant, prog, hs = inp.split(" ")
        spec, model, msk = e.split(";")
        ntbc, raising = features(prog, hs)
        ctx.case(inp, ntbc >= 2 or raising)
        ctx.count(label + ":" + variant)
        for k in "KGREZYPCLFV":
            if k in prog:
                ctx.count("construct:" + k)
        if raising:
            ctx.count("raising-handler")
        replay = "c10 replay %s\nobserved %s\nexpected %s\nmodel    %s\n" % (inp, got, spec, model)
        if variant == "coclose" and "Y" in prog and "P(" in prog:
            ctx.count("coclose-with-pcall")
        if got != spec:
            ctx.violation(inp, "golua's __close calls: %s; the manual prescribes: %s" % (got, spec), replay)
        if got != model:
            ctx.violation("levelB " + inp,
                          "golua (%s) and the close-stack model (%s) differ: Props/C10 is no longer about this code" % (got, model),
                          replay, found_input=(got != spec))
        if sk != "-" and sk != msk:
            ctx.violation("skeleton " + inp,
                          "golua emits %s, Model.TbcCompile emits %s: the compile model no longer mirrors ir/builder.go" % (sk, msk),
                          replay + "golua skeleton %s\nmodel skeleton %s\n" % (sk, msk), found_input=(got != spec))
        elif sk != "-":
            ctx.count("skeleton-compared")
    for l in impl_lines[:: max(1, len(impl_lines) // 5)][:5]:
        ctx.sample(l)


def confirm_alone(ctx, h, limit=80):
    """A violating case may be the victim of an earlier one (all cases of a run share one golua runtime, and a
    broken protected call can leave pending values or continuations behind).  Re-run the shortest violating
    programs alone: those that fail alone are the ones to report first; the others are kept, marked."""
    cands = [v for v in ctx.violations if v.found_input and v.key.split(" ")[0] in ("pcall", "co", "trail", "coclose")]
    cands.sort(key=lambda v: (len(v.key), v.key))
    for v in cands[:limit]:
        variant, prog, hs = v.key.split(" ")
        rc, out, err = common.run_harness(h, ["replay", variant, prog, hs])
        line = out.strip().split("\n")[-1] if out.strip() else ""
        if not line:
            continue
        exp = common.run_oracle("c10", [line])[0]
        got = line.partition(" = ")[2].split(" ")[0]
        if exp != "bad-line" and got == exp.split(";")[0]:
            v.found_input = False
            v.desc += "  [passes when run alone: fails only after earlier cases in the same runtime]"
    for v in cands[limit:]:
        v.found_input = False
        v.desc += "  [not re-run alone]"


def run(ctx):
    ctx.rule = ("cases = (variant, program, handler behaviours): chains of up to 3 nested constructs (do-block, loop, pcall'd function, "
                "called function, generic for with a closing value) with to-be-closed declarations before/after every construct (<= 3), every "
                "exit kind (fall through, break, goto out of k blocks, return, return f(), error, non-closable value, yield+close) at every level, handlers that raise (always / only "
                "without / only with an error in flight), enumerated (quick: depth <= 1 fully, seeded samples of depth 2 and 3; "
                "thorough: depth <= 2 fully, 1 in 20 of depth 3), rendered under pcall, as a coroutine body, with trailing labels, loops as for / repeat-until (condition sees the body's "
                "variable), the generic for's four values through 11 expression-list shapes (explicit, out of calls, table.unpack, `...` with 3/4/5 "
                "values, a parenthesised call), <close> mixed with <const>; hand-written static cases (multiple <close>, __close looked up raw, "
                "replaced / removed after the declaration, goto out of nested loops, backward goto, continue, return value before close); plus seeded random wider programs "
                "incl. coroutines closed at a yield; non-trivial = >= 2 to-be-closed values or a raising handler; distinct by canonical text")
    ctx.assumptions = [
        "the Lua rendering of the mini-language (harness/cmd/c10 render) is faithful: do/for/pcall(function)/(function)()/goto/break/return/error",
        "control flow itself (jumps landing at the right instruction) is C01's subject; the model keeps control structured",
    ]
    common.regen(ctx)
    ctx.log('regenerated')
    common.prove(ctx)
    ctx.log('theorems re-checked')
    common.build_oracle()
    ctx.log('oracle built')
    h = common.build_go("c10", "cmd/c10")
    rc, out, err = common.run_harness(h, ["static"])
    if rc != 0:
        raise common.BuildError("c10 harness failed: " + err[-2000:])
    compare_static(ctx, out.split("\n")[:-1])
    rc, out, err = common.run_harness(h, ["chains", ctx.tier])
    if rc != 0:
        raise common.BuildError("c10 harness failed: " + err[-2000:])
    lines = out.split("\n")[:-1]
    compare(ctx, lines, "chains")
    ctx.extra["chain_lines"] = len(lines)
    n = 4000 if ctx.tier == "quick" else 100000
    rc, out, err = common.run_harness(h, ["random", str(n)])
    if rc != 0:
        raise common.BuildError("c10 harness failed: " + err[-2000:])
    compare(ctx, out.split("\n")[:-1], "random")
    if ctx.violations:
        confirm_alone(ctx, h)


def replay(ctx, path):
    h = common.build_go("c10", "cmd/c10")
    common.build_oracle()
    for line in open(path):
        if line.startswith("c10 static "):
            rc, out, err = common.run_harness(h, ["static", line.split()[2]])
            print(err.strip())
            print(out.strip())
        if line.startswith("c10 replay "):
            args = line.split()[2:]
            rc, out, err = common.run_harness(h, ["replay"] + args)
            print(err.strip())
            print(out.strip())
            o = common.run_oracle("c10", [out.strip()])[0]
            spec, model, msk = o.split(";")
            print("expected (manual):", spec)
            print("model (close-stack machine on the compiled program):", model)
            print("model skeleton:", msk)
    return 0
