"""C18 — finalisers and release.  Theorems: lean/GoluaVerif/Props/C18.lean over Model.ClonePool /
Model.GcRuntime (hand-written mirrors of runtime/internal/luagc/clonepool.go and of the call sites in
runtime.go, thread.go, runtimecontextmanager.go).  Correspondence (harness/cmd/c18, oracle mode c18):
  pool  level B  histories on the real ClonePool (Go finalisers captured by the verif hook and fired
                 deterministically) vs Model.ClonePool: per-op outputs, final private state, registrations;
        level A  the implementation's outputs vs Spec.Gc (descending markOrder, at most once per epoch)
  rt    level B  histories on a real Runtime (values with __gc, releasable userdata, re-marks, CallContexts
                 done|error|killed, PushContext, Close) vs Model.GcRuntime: the finalise/release log per op;
        level A  the implementation's log vs Spec.Gc
  lua   level A  Lua scripts under Go's real collector, logs validated against Spec.Gc (GC timing free)
  crash          Lua programs that re-mark a value in another context's pool, in a child process."""
import os
import re
import subprocess
from . import common

def nontrivial_pool(ops):
    seen = set()
    closed = False
    for op in ops:
        if op in ("AF", "AR", "FA", "PO"):
            closed = True
        elif op.startswith("f:") and not closed:
            return True
        elif op[0] == "m" and op[1] in "123":
            k = op.split(":")[1][1:].split(".")[0]
            if k in seen:
                return True
            seen.add(k)
    return False


def nontrivial_rt(ops):
    closed = False
    for op in ops:
        if op == "cl":
            closed = True
        elif op.startswith("fi:") and not closed:
            return True
        elif op.startswith("rm") or op == "ek":
            return True
    return False


def nontrivial_lua(toks):
    seen = set()
    closed = False
    for t in toks:
        if t == "C":
            closed = True
        elif t.startswith("G:") and not closed:
            return True
        elif t == "E:killed":
            return True
        elif t.startswith("M:"):
            k = t.split(":")[1]
            if k in seen:
                return True
            seen.add(k)
    return False


class Best:
    """keeps, per violation class, the shortest witness of this run"""

    def __init__(self):
        self.best = {}

    def add(self, cls, line, desc, replay, found_input=True):
        cur = self.best.get(cls)
        if cur is None or len(line) < len(cur[0]):
            self.best[cls] = (line, desc, replay, found_input)

    def flush(self, ctx):
        for cls, (line, desc, replay, found) in sorted(self.best.items()):
            ctx.violation(cls, desc, replay, found_input=found)


def split_line(line):
    lhs, _, rhs = line.partition(" = ")
    toks = lhs.split(" ")
    return toks[0], toks[1:], rhs


def reasons_of(verdict):
    """'bad a:1 b:2' -> [('a','1'),('b','2')]"""
    out = []
    for r in verdict.split(" ")[1:]:
        name, _, k = r.partition(":")
        out.append((name, k))
    return out


def compare_leg(ctx, best, leg, lines):
    exp = common.run_oracle("c18", lines)
    if len(exp) != len(lines):
        raise common.BuildError("oracle returned %d lines for %d inputs" % (len(exp), len(lines)))
    for line, e in zip(lines, exp):
        _, ops, impl = split_line(line)
        if e == "bad-line" or impl.startswith("bad-"):
            raise common.BuildError("harness/oracle protocol error on: %s -> %s" % (line, e))
        parts = e.split(" ; ")
        fields = dict(p.split("=", 1) for p in parts if "=" in p and not p.startswith("L"))
        verdict = fields.get("A", "ok")
        model = " ; ".join(p for p in parts if not p.startswith("A="))
        nt = nontrivial_pool(ops) if leg == "pool" else nontrivial_rt(ops)
        ctx.case(leg + " " + " ".join(ops), nt)
        ctx.count(leg + ":len%02d" % min(len(ops), 20))
        for op in ops:
            ctx.count(leg + ":op:" + re.sub(r"[0-9.:]+.*", "", op))
        hist = "%s %s" % (leg, " ".join(ops))
        replay = "c18 replay %s\nobserved %s\nmodel    %s\n" % (hist, impl, model)
        if impl != model:
            best.add("B %s model-and-implementation-differ" % leg, line,
                     "level B: the real code and the Lean model (Model.%s) disagree on history `%s`; the theorems of "
                     "Props/C18.lean are about the model and have lost their tie to this code" % (
                         "ClonePool" if leg == "pool" else "GcRuntime", hist), replay, found_input=False)
            ctx.count(leg + ":levelB-differs")
        if "ds=1" in impl:
            # runtime.SetFinalizer was called on an object that already carried a finaliser: the Go runtime throws
            ctx.count(leg + ":setfinalizer-twice")
            best.add("A %s fatal-finalizer-already-set" % leg, line,
                     "history `%s`: SetFinalizer is called on an object that already has a finaliser; the real "
                     "runtime.SetFinalizer throws `finalizer already set` (the process dies); expected: Mark clears "
                     "before it sets and a value is looked after by one pool only" % hist, replay)
        if "panic" in impl.split(" ; ")[0].split(" "):
            ctx.count(leg + ":mark-after-release-panics")
        ctx.count(leg + ":levelA:" + (verdict if verdict in ("ok", "fatal", "undisciplined") else "bad"))
        if verdict not in ("ok", "fatal", "undisciplined"):
            if leg == "pool":
                best.add("A pool " + verdict, line, "history `%s`: the pool's outputs violate Spec.Gc: %s" % (hist, verdict), replay)
            else:
                for name, k in reasons_of(verdict):
                    cls = "A rt " + name
                    best.add(cls, line,
                             "history `%s`: %s for value %s (expected: __gc runs exactly once by the time the owning context "
                             "or the runtime is closed)" % (hist, name, k), replay)
    for l in lines[:: max(1, len(lines) // 4)][:4]:
        ctx.sample(l)


def lua_leg(ctx, best, h):
    rc, out, err = common.run_harness(h, ["lua", ctx.tier], timeout=3000)
    if rc != 0:
        first = ([l for l in err.split("\n") if l.strip()] or ["?"])[0][:200]
        best.add("A lua harness-died", "lua", "the Lua-level leg died (rc=%d): %s" % (rc, first),
                 "c18 lua %s\nobserved rc=%d %s\nexpected every scenario to run to completion\n" % (ctx.tier, rc, first))
        return
    lines = out.split("\n")[:-1]
    exp = common.run_oracle("c18", lines)
    for line, e in zip(lines, exp):
        _, toks, info = split_line(line)
        name, seed, status, gcb = (info.split(" ") + ["", "", "", ""])[:4]
        if e == "bad-line" or status != "ok":
            raise common.BuildError("c18 lua scenario did not run: %s -> %s" % (line, e))
        ctx.case(line.split(" = ")[0], nontrivial_lua(toks))
        ctx.count("lua:" + name)
        replay = "c18 replaylua %s %s\nobserved %s\nverdict  %s\n" % (name, seed, " ".join(toks), e)
        if e != "ok":
            for rname, k in reasons_of(e):
                cls = "A lua " + rname
                best.add(cls, line, "scenario %s seed %s: %s for value %s; log: %s" % (name, seed, rname, k, " ".join(toks)), replay)
    for l in lines[:3]:
        ctx.sample(l)


def crash_leg(ctx, best, h):
    for name in ("cross1", "cross2"):
        try:
            p = subprocess.run([h, "crash", name], stdout=subprocess.PIPE, stderr=subprocess.PIPE, text=True,
                               errors="replace", timeout=120)
            rc, out, err = p.returncode, p.stdout, p.stderr
        except subprocess.TimeoutExpired:
            rc, out, err = 124, "", "timeout"
        ctx.case("crash " + name, True)
        ctx.count("crash:" + name)
        if rc == 0 and out.startswith("survived ok"):
            continue
        what = "fatal-finalizer-already-set" if "finalizer already set" in err else "child-died"
        best.add("A lua %s" % what, name,
                 "Lua program %s (a table with __gc is given a metatable with __gc again inside/outside an isolating "
                 "runtime.callcontext): the process dies with `%s`" % (name, (err.strip().split("\n") or [""])[0][:120]),
                 "c18 crash %s\nobserved rc=%d %s\nexpected survived ok\n" % (name, rc, (err.strip().split("\n") or [""])[0][:200]))


def run(ctx):
    ctx.rule = ("cases = event histories (pool ops / runtime ops / Lua scripts); non-trivial = the history contains a Go "
                "finaliser firing before close, or a re-mark of an already marked value, or a killed context; distinct by "
                "canonical op text")
    ctx.assumptions = [
        "Go's collector runs a finaliser only for an object that carries a registration and that nothing references "
        "(EnvOK in Model.ClonePool); the deterministic legs replace runtime.SetFinalizer by the verif collector",
        "runtime.SetFinalizer throws when an object already has a finaliser (modelled as `fatal`; observed in the crash leg)",
        "sort.Sort on pairwise distinct markOrders is the model's insertion sort",
        "the UnsafePool / SafePool variants are not modelled (default build only)",
        "limited contexts: CPU/memory accounting of finalisers is not part of the model (C05/C06)",
    ]
    common.prove(ctx)
    ctx.log("theorems re-checked")
    common.build_oracle()
    h = common.build_go("c18", "cmd/c18")
    ctx.log("oracle and harness built")
    best = Best()
    for leg in ("pool", "rt"):
        # streamed through a file and compared in chunks: the thorough tier prints millions of histories
        tmp = os.path.join(common.BUILD, "c18-%s-%d.txt" % (leg, os.getpid()))
        try:
            with open(tmp, "w") as f:
                p = subprocess.run([h, leg, ctx.tier], stdout=f, stderr=subprocess.PIPE, text=True, errors="replace",
                                   timeout=6000, env=dict(os.environ, GOMEMLIMIT=os.environ.get("GOMEMLIMIT", "6GiB")))
            if p.returncode != 0:
                raise common.BuildError("c18 %s leg failed: %s" % (leg, p.stderr[-2000:]))
            total = 0
            chunk = []
            with open(tmp) as f:
                for line in f:
                    chunk.append(line.rstrip("\n"))
                    if len(chunk) >= 200000:
                        compare_leg(ctx, best, leg, chunk)
                        total += len(chunk)
                        chunk = []
            if chunk:
                compare_leg(ctx, best, leg, chunk)
                total += len(chunk)
        finally:
            try:
                os.remove(tmp)
            except OSError:
                pass
        ctx.extra[leg + "_histories"] = total
        ctx.log("%s leg: %d histories" % (leg, total))
    lua_leg(ctx, best, h)
    crash_leg(ctx, best, h)
    best.flush(ctx)


def replay(ctx, path):
    h = common.build_go("c18", "cmd/c18")
    common.build_oracle()
    for line in open(path):
        if not line.startswith("c18 "):
            continue
        args = line.split()[1:]
        if args[0] == "crash":
            p = subprocess.run([h] + args, stdout=subprocess.PIPE, stderr=subprocess.PIPE, text=True, errors="replace")
            print("rc=%d" % p.returncode, (p.stdout + p.stderr).strip().split("\n")[0])
            continue
        rc, out, err = common.run_harness(h, args)
        out = out.strip()
        print(out)
        if out:
            print("oracle:", common.run_oracle("c18", [out])[0])
    return 0
