"""C01 — compiled programs behave as the manual prescribes.

Theorems: lean/GoluaVerif/Props/C01.lean about the executable reference semantics Spec.Lua
(fuel monotonicity / determinism, fresh loop variables, assignment order, truncation / expansion,
method calls, pcall).  Correspondence: programs from the type- and scope-directed generator
(harness/cmd/c01) are rendered as Lua text in three renderings and run through the whole golua
pipeline; the same programs as S-expressions are run by the compiled Lean interpreter (oracle mode
c01); event traces, results, error values and `chunk:line:` prefixes are diffed.  A disagreement is
first attributed to a known defect by a semantics-preserving rewrite that avoids exactly that defect
(the rewritten program must agree); what no rewrite explains is delta-debugged and reported with the
shrunk program as its key.  The same machinery, with error sites injected, serves C11 (checks/c11.py)."""
import os
import re
import subprocess
import tempfile
from concurrent.futures import ThreadPoolExecutor

from . import common

MODE = "c01"
# rewrites tried (in this order) to attribute a disagreement; each avoids one recorded defect
# (all the recorded defects were repaired in /repo: no rewrite is in use; the mechanism stays for future findings)
REWRITES = {"c01": [], "c11": []}
FEATURES = ("closure", "vararg", "multi-assign", "loop", "goto", "metamethod", "error", "coroutine")
OUT_RE = re.compile(r"^T\[(.*)\] (ok|err)\[(.*)\]$")


HARNESS_ENV = {}
ORACLE_FUEL = None


def harness(h, args, timeout=3000):
    rc, out, err = common.run_harness(h, args, timeout=timeout, env=HARNESS_ENV or None)
    if rc != 0:
        raise common.BuildError("c01 harness %s failed rc=%d: %s" % (" ".join(args[:3]), rc, err[-2000:]))
    return out.split("\n")[:-1]


ORACLE_AS_LIMIT = 16 << 30      # address space of one reference-interpreter process
OOM_PROGRAMS = []


def _oracle_run(feed, fuel):
    import resource
    import subprocess

    def lim():
        resource.setrlimit(resource.RLIMIT_AS, (ORACLE_AS_LIMIT, ORACLE_AS_LIMIT))
    return subprocess.run([common.ORACLE, "c01"] + ([str(fuel)] if fuel else []), input="\n".join(feed) + "\n",
                          stdout=subprocess.PIPE, stderr=subprocess.PIPE, text=True, timeout=3000, preexec_fn=lim)


def oracle(lines, fuel=None):
    """the reference interpreter on the P/R lines.  A generated program may legitimately build data that grows
    exponentially (golua then runs into the harness' limits and the pair is discarded like a fuel exhaustion); the Lean
    evaluator has fuel but no memory bound, so its process runs under an address-space limit and a program that
    exhausts it is isolated by bisection and discarded (`oof-mem`), never reported."""
    fuel = fuel or ORACLE_FUEL
    feed = [l for l in lines if l.startswith("P ") or l.startswith("R ")]
    exp = {}
    if not feed:
        return exp
    order, by = [], {}
    for l in feed:
        pid = l.split(" ", 2)[1]
        if pid not in by:
            by[pid] = []
            order.append(pid)
        by[pid].append(l)

    def solve(pids):
        p = _oracle_run([l for pid in pids for l in by[pid]], fuel)
        if p.returncode == 0:
            for l in p.stdout.split("\n"):
                w = l.split(" ", 2)
                if len(w) == 3:
                    exp[(w[0], w[1])] = w[2]
            return
        if len(pids) == 1:
            if "out of memory" not in p.stderr and p.returncode not in (-9, 1, 134, -6):
                raise common.BuildError("oracle c01 failed rc=%d on %s: %s" % (p.returncode, pids[0], p.stderr[-2000:]))
            OOM_PROGRAMS.append(pids[0])
            for l in by[pids[0]]:
                w = l.split(" ")
                if w[0] == "R" and len(w) >= 3:
                    exp[(w[1], w[2])] = "oof-mem"
            return
        h = len(pids) // 2
        solve(pids[:h])
        solve(pids[h:])

    solve(order)
    return exp


def discard(o):
    return o.startswith("oof") or o.startswith("unsup")


def n_events(o):
    m = OUT_RE.match(o)
    if not m or not m.group(1):
        return 0
    return m.group(1).count("|") + 1


def first_diff(g, o):
    mg, mo = OUT_RE.match(g), OUT_RE.match(o)
    if not mg or not mo:
        return "golua: %s\noracle: %s" % (g[:300], o[:300])
    eg, eo = mg.group(1).split("|") + [mg.group(2) + ":" + mg.group(3)], mo.group(1).split("|") + [mo.group(2) + ":" + mo.group(3)]
    i = 0
    while i < min(len(eg), len(eo)) and eg[i] == eo[i]:
        i += 1
    return "first difference at event %d: golua %s / manual %s" % (
        i, eg[i] if i < len(eg) else "(end)", eo[i] if i < len(eo) else "(end)")


def compare(ctx, lines, exp, label):
    """Diff golua's G lines against the oracle.  Returns {program id: [(style, tag, golua, oracle)]} of disagreements."""
    feats = {}
    for l in lines:
        if l.startswith("F "):
            p = l.split(" ")
            feats[p[1]] = set(p[2].split(",")) if len(p) > 2 and p[2] else set()
    bad = {}
    for l in lines:
        if not l.startswith("G "):
            continue
        _, pid, style, tag, res = l.split(" ", 4)
        o = exp.get((pid, tag))
        if o is None:
            raise common.BuildError("oracle gave no answer for %s %s" % (pid, tag))
        if o.startswith("parse-error") or o.startswith("no-such-program"):
            raise common.BuildError("oracle could not read program %s: %s" % (pid, o))
        if discard(o):
            ctx.count("discarded:" + o.split(" ")[0])
            continue
        f = feats.get(pid, set())
        nontriv = n_events(o) >= 3 and len(f & set(FEATURES)) >= 2
        ctx.case("%s %s %s %s" % (pid, style, tag, o), nontriv)
        ctx.count(label + ":" + style)
        if res != o:
            bad.setdefault(pid, []).append((style, tag, res, o))
    return bad


def constant_trace_fraction(exp):
    by = {}
    for (pid, tag), o in exp.items():
        if not discard(o):
            by.setdefault(pid, set()).add(o)
    if not by:
        return 0.0
    return sum(1 for s in by.values() if len(s) == 1) / len(by)


def prog_lines(lines, pid):
    return [l for l in lines if (l.startswith("P ") or l.startswith("R ")) and l.split(" ")[1] == pid]


def shrink(h, plines):
    """Delta-debug one program (P/R lines).  Returns (key, report text)."""
    with tempfile.NamedTemporaryFile("w", suffix=".txt", delete=False) as f:
        f.write("\n".join(plines) + "\n")
        path = f.name
    try:
        rc, out, err = common.run_harness(h, ["shrink", common.ORACLE, path], timeout=180)
    except subprocess.TimeoutExpired:
        return None, "(shrinking timed out)"
    finally:
        os.unlink(path)
    key = None
    for l in out.split("\n"):
        if l.startswith("KEY "):
            key = l[4:]
    return key, out


def attribute(ctx, h, mode, nargs, bad, lines):
    """Explain disagreeing programs by the recorded defects: apply all the defect-avoiding rewrites (each is
    semantics-preserving per the manual and touches only the construct its defect concerns); a program whose
    rewritten form agrees with the reference semantics in every rendering and argument tuple is attributed to the
    rewrites that actually changed it."""
    idx_of = {pid: pid.rsplit("-", 1)[1] for pid in bad}
    pid_of = {v: k for k, v in idx_of.items()}
    rewrites = REWRITES[mode]
    if not rewrites:
        return {}, dict(bad)
    out = harness(h, ["rewrite", mode, "+".join(rewrites), str(nargs)] + sorted(idx_of.values(), key=int))
    exp = oracle(out)
    still, applied = set(), {}
    for l in out:
        if l.startswith("W "):
            p = l.split(" ")
            applied[p[1].split("~")[0]] = p[2] if len(p) > 2 else ""
        elif l.startswith("G "):
            _, rid, style, tag, res = l.split(" ", 4)
            o = exp.get((rid, tag), "missing")
            if res != o or discard(o):
                still.add(rid.split("~")[0])
    explained, unexplained = {}, {}
    for pid in bad:
        if pid in still or not applied.get(pid):
            unexplained[pid] = bad[pid]
        else:
            explained[pid] = applied[pid]
    return explained, unexplained


DEFECT_TEXT = {}


def run_mode(ctx, mode, n_quick, n_thorough):
    ctx.rule = ("case = (program, rendering, argument tuple) whose reference run finished; non-trivial = the trace has >= 3 events "
                "and the program exercises >= 2 of {closure, vararg, multi-assign, loop, goto, metamethod, error}; distinct by "
                "(program, rendering, args, outcome)")
    ctx.assumptions = [
        "float + - * / ^ are parameters of the reference semantics; the oracle instantiates them with the hardware (Lean Float); ^ is only generated with exact results",
        "the Go generator, the renderers, the S-expression reader and the canonicaliser of golua's error texts (message -> class) are trusted",
        "coroutines, os/io, string.format, pairs order, tostring of floats/tables/functions, # on tables with holes are outside the reference semantics and excluded by the generator",
        "evaluation order of operands is not fixed by the manual: the generator allows at most one impure operand per operand list",
    ]
    global ORACLE_FUEL
    if ctx.tier == "thorough":
        # long histories of caught errors: ~5000 iterations in a quarter of the long-history programs
        HARNESS_ENV["C01_LONG"] = "5000"
        ORACLE_FUEL = 30000
    common.prove(ctx)
    ctx.log("theorems checked")
    common.build_oracle()
    h = common.build_go("c01", "cmd/c01")
    ctx.log("oracle and harness built")
    nargs = 2
    # 1. corpus: minimised past failures and hand-picked programs, every rendering
    cdir = os.path.join(common.ROOT, "corpus", ctx.prop)
    files = sorted(os.path.join(cdir, f) for f in os.listdir(cdir) if f.endswith(".txt")) if os.path.isdir(cdir) else []
    all_bad = {}
    all_lines = []
    if files:
        out = harness(h, ["sexp"] + files)
        exp = oracle(out)
        for pid, items in compare(ctx, out, exp, "corpus").items():
            fn = files[int(pid[4:])]
            style, tag, res, o = items[0]
            key = None
            for l in open(fn):
                if l.startswith("# key: "):
                    key = l[7:].strip()
            ctx.violation(key or ("corpus:" + os.path.basename(fn)),
                          "corpus program %s: %s" % (os.path.basename(fn), first_diff(res, o)),
                          "\n".join(prog_lines(out, pid)) + "\n# golua (%s %s): %s\n# manual: %s\n" % (style, tag, res, o))
    # 2. generated programs, in batches (bounded memory in the thorough tier)
    n = n_quick if ctx.tier == "quick" else n_thorough
    workers = 4
    batch = 1200
    nprog = 0
    const_num = const_den = 0
    seen_names = {}
    shrink_budget = 4
    for start in range(0, n, batch):
        cnt = min(batch, n - start)
        chunk = (cnt + workers - 1) // workers
        jobs = [(start + i * chunk, min(chunk, cnt - i * chunk)) for i in range(workers) if i * chunk < cnt]
        with ThreadPoolExecutor(max_workers=workers) as ex:
            outs = list(ex.map(lambda j: harness(h, ["gen", mode, str(j[1]), str(j[0]), str(nargs)]), jobs))
        lines = [l for o in outs for l in o]
        n_oom = len(OOM_PROGRAMS)
        exp = oracle(lines)
        if len(OOM_PROGRAMS) > n_oom:
            ctx.count("discarded:reference-interpreter-out-of-memory", len(OOM_PROGRAMS) - n_oom)
        bad = compare(ctx, lines, exp, "generated")
        for l in lines:
            if l.startswith("H "):
                k, v = l[2:].rsplit(" ", 1)
                ctx.count(k, int(v))
        nprog += sum(1 for l in lines if l.startswith("P "))
        by = {}
        for (pid, tag), o in exp.items():
            if not discard(o):
                # ignore the closing `emit("final", …)` event, which always shows the inputs
                by.setdefault(pid, set()).add(re.sub(r"\|?s66696e616c[^|\]]*\]", "]", o, count=1))
        const_num += sum(1 for v in by.values() if len(v) == 1)
        const_den += len(by)
        if start == 0:
            shown = 0
            for l in lines:
                if l.startswith("G ") and shown < 6 and len(l) < 400:
                    ctx.sample(l)
                    shown += 1
        ctx.log("batch at %d: %d programs through golua and the reference interpreter, %d disagree" % (start, cnt, len(bad)))
        # 3. explain disagreements
        if not bad:
            continue
        explained, unexplained = attribute(ctx, h, mode, nargs, bad, lines)
        for pid in sorted(explained, key=lambda p: int(p.rsplit("-", 1)[1])):
            names = explained[pid]
            ctx.count("known-defect:" + names)
            style, tag, res, o = bad[pid][0]
            if names not in seen_names:
                seen_names[names] = True
                report = "\n".join(prog_lines(lines, pid)) + "\n# golua (%s %s): %s\n# manual: %s\n" % (style, tag, res, o)
                desc = "; ".join(DEFECT_TEXT.get(x, x) for x in names.split("+"))
                ctx.violation(names, "golua differs from the manual: %s (program %s; agrees after the defect-avoiding rewrite)" % (desc, pid),
                              "# attributed to: %s\n%s" % (names, report))
        for pid in sorted(unexplained, key=lambda p: int(p.rsplit("-", 1)[1])):
            style, tag, res, o = unexplained[pid][0]
            if any(it[2] == "timeout" for it in unexplained[pid]):
                # a wall-clock timeout may be the machine, not golua: decide again in a fresh harness process
                again = harness(h, ["gen", mode, "1", pid.rsplit("-", 1)[1], str(nargs)])
                exp2 = oracle(again)
                still = [l for l in again if l.startswith("G ") and l.split(" ", 4)[4] != exp2.get((l.split(" ")[1], l.split(" ")[3]))]
                if not still:
                    ctx.count("transient-timeout-retried-ok")
                    continue
            if shrink_budget > 0:
                shrink_budget -= 1
                key, report = shrink(h, prog_lines(lines, pid))
            else:
                key, report = None, ""
            ctx.violation(key or ("unshrunk:" + pid),
                          "golua and the reference semantics disagree on program %s (%s, %s): %s" % (pid, style, tag, first_diff(res, o)),
                          "\n".join(prog_lines(lines, pid)) + "\n# golua (%s %s): %s\n# manual: %s\n%s" % (style, tag, res, o, report))
    ctx.extra["programs"] = nprog
    ctx.extra["renderings"] = ["canon", "paren", "fancy"]
    ctx.extra["argument_tuples_per_program"] = nargs
    ctx.extra["constant_trace_fraction"] = round(const_num / const_den, 3) if const_den else 0.0
    disc = sum(v for k, v in ctx.histogram.items() if k.startswith("discarded:"))
    ctx.extra["discarded_runs"] = disc
    if ctx.evaluations and disc > 0.1 * (disc + ctx.evaluations):
        ctx.obligations.append({"name": "generator_stays_inside_reference_semantics", "ok": False, "axioms": [],
                                "note": "%d of %d runs left the modelled fragment or ran out of fuel" % (disc, disc + ctx.evaluations)})


def run(ctx):
    run_mode(ctx, "c01", 300, 20000)


def replay(ctx, path):
    """Re-run the program of a replay file (P/R lines) through golua (all renderings) and the reference interpreter."""
    common.build_oracle()
    h = common.build_go("c01", "cmd/c01")
    out = harness(h, ["sexp", path])
    exp = oracle(out)
    rc = 0
    for l in out:
        if l.startswith("L "):
            print(l.split(" ", 2)[2] if l.count(" ") >= 2 else "")
    for l in out:
        if l.startswith("G "):
            _, pid, style, tag, res = l.split(" ", 4)
            o = exp.get((pid, tag), "missing")
            same = res == o
            print("%s %s: %s" % (style, tag, "agree" if same else "DISAGREE"))
            print("  observed (golua) :", res[:2000])
            print("  expected (manual):", o[:2000])
            if not same and not discard(o):
                rc = 1
    return rc


def generate_lua_programs(ctx, n):
    """For C14: n generated programs (canonical rendering, generator biased towards what stresses the register,
    continuation and cell pools: deep / tail recursion, closures captured in loops, error unwinding through many
    frames, varargs, many frame sizes, metamethod re-entrancy) as Lua TEXT in one file, separated by lines `--@@`.
    Each program defines `args()` itself and observes itself only through `emit`.  Returns the file path."""
    h = common.build_go("c01", "cmd/c01")
    path = os.path.join(common.BUILD, "c14-generated-programs.lua")
    if os.path.exists(path):
        os.remove(path)
    harness(h, ["luafile", "c14", str(n), path])
    return path
