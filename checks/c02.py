"""C02 — numbers.  Theorems: lean/GoluaVerif/Props/C02.lean over the regenerated
Generated.Arith / Generated.Comp.  Correspondence: boundary lattice × every operator
through the full golua pipeline vs Spec.Num (oracle mode c02)."""
import os
from . import common

BOUNDARY_MARKERS = ("9223372036854775", "-9223372036854775", "9007199254740", "f43e", "fc3e", "f7ff", "ffff", "f434", "fc34")


def canon_result(r):
    if r.startswith("f") and r != "fnan":
        b = int(r[1:], 16)
        if (b >> 52) & 0x7FF == 0x7FF and b & ((1 << 52) - 1):
            return "fnan"
    return r


def nontrivial(parts):
    ops = parts[1:-2]
    kinds = {o[0] for o in ops}
    if len(kinds) > 1:
        return True
    return any(any(m in o for m in BOUNDARY_MARKERS) for o in ops)


STRING_OPS = ("tonumberS", "strarithS", "literal")


def qbytes(hexs):
    """canonical readable form of a byte string for violation keys: printable ASCII except `"` and `\\` as is,
    everything else as \\xNN, in double quotes"""
    out = []
    for c in bytes.fromhex(hexs):
        if 32 <= c < 127 and c not in (34, 92):
            out.append(chr(c))
        else:
            out.append("\\x%02x" % c)
    return '"' + "".join(out) + '"'


def nontrivial_string(hexs, got, exp):
    """numeral string: non-trivial when at least one side takes it for a number and it is not a plain run of
    fewer than 16 decimal digits (so it has a sign, space, point, exponent, hex prefix, or is near a size boundary)"""
    b = bytes.fromhex(hexs)
    accepted = got not in ("n", "E") or exp not in ("n", "E")
    return accepted and not (b.isdigit() and len(b) < 16)


def compare(ctx, impl_lines, label):
    exp = common.run_oracle("c02", impl_lines)
    if len(exp) != len(impl_lines):
        raise common.BuildError("oracle returned %d lines for %d inputs" % (len(exp), len(impl_lines)))
    for line, e in zip(impl_lines, exp):
        parts = line.split(" ")
        op = parts[0]
        if e == "?":
            ctx.count("unchecked:" + op)
            continue
        if e == "bad-line":
            raise common.BuildError("oracle could not parse: " + line)
        got = canon_result(parts[-1])
        inp = " ".join(parts[:-2])
        if op in STRING_OPS and len(parts) == 4 and parts[1].startswith("s"):
            ctx.case(inp, nontrivial_string(parts[1][1:], got, e))
            ctx.count(label + ":" + op)
            if got != e:
                what = {"tonumberS": "tonumber(s)", "strarithS": "s + 0", "literal": "the chunk `return <s>`"}[op]
                ctx.violation("%s %s" % (op, qbytes(parts[1][1:])),
                              "%s for s = %s: golua gives %s, Lua 5.4 (Spec.Numeral) prescribes %s" % (
                                  what, qbytes(parts[1][1:]), got, e),
                              "c02 replay %s\nobserved %s\nexpected %s\n" % (inp, got, e))
            continue
        ctx.case(inp, nontrivial(parts))
        ctx.count(label + ":" + op)
        if got != e:
            ctx.violation("%s" % inp,
                          "golua computes %s, the manual prescribes %s" % (got, e),
                          "c02 replay %s\nobserved %s\nexpected %s\n" % (inp, got, e))
    for l in impl_lines[:: max(1, len(impl_lines) // 6)][:6]:
        ctx.sample(l)


def run(ctx):
    ctx.rule = ("cases = (operator, operands) run through the compiled Lua function `a OP b`; lattice enumerated "
                "exhaustively (all pairs) plus seeded random operands; non-trivial = mixed int/float operands or an "
                "operand from a boundary class (around 2^53, 2^63, minint/maxint, inf, NaN); numeral strings: taken for a "
                "number by golua or by Spec.Numeral and not a short run of decimal digits; distinct by canonical text")
    ctx.assumptions = [
        "float + - * / floor are taken from the hardware (Lean Float) in the oracle, not from the kernel model",
        "pow and transcendental functions are not checked",
        "amd64 float->int conversion (0x8000000000000000 on overflow/NaN) as modelled by F64.toI64",
    ]
    msgs = common.regen(ctx)
    for m in msgs:
        ctx.obligations.append({"name": "translate:" + m.split(":")[0].split(" ")[-1], "ok": False, "axioms": [], "note": m})
    common.prove(ctx)
    common.build_oracle()
    h = common.build_go("c02", "cmd/c02")
    rc, out, err = common.run_harness(h, ["lattice", ctx.tier])
    if rc != 0:
        raise common.BuildError("c02 harness failed: " + err[-2000:])
    lines = out.split("\n")[:-1]
    compare(ctx, lines, "lattice")
    ctx.extra["exhaustive_lattice_lines"] = len(lines)
    n = 200000 if ctx.tier == "quick" else 3000000
    rc, out, err = common.run_harness(h, ["random", str(n)])
    if rc != 0:
        raise common.BuildError("c02 harness failed: " + err[-2000:])
    compare(ctx, out.split("\n")[:-1], "random")
    # numeral strings: tonumber(s), s + 0, literals, against Spec.Numeral (exhaustive short strings over the
    # numeral alphabet, grammar-generated numerals with single-character corruptions, fixed corpus)
    rc, out, err = common.run_harness(h, ["strings", ctx.tier])
    if rc != 0:
        raise common.BuildError("c02 harness (strings) failed: " + err[-2000:])
    lines = out.split("\n")[:-1]
    compare(ctx, lines, "strings")
    ctx.extra["numeral_string_lines"] = len(lines)


def replay(ctx, path):
    h = common.build_go("c02", "cmd/c02")
    for line in open(path):
        if line.startswith("c02 replay "):
            args = line.split()[2:]
            rc, out, err = common.run_harness(h, ["replay"] + args)
            print(out.strip())
            common.build_oracle()
            print("expected", common.run_oracle("c02", [out.strip()])[0])
    return 0
