"""C17 — value serialisation round trips: string.pack / unpack / packsize, string.format %q and the integer /
string directives, tostring / tonumber.

Theorems: lean/GoluaVerif/Props/C17.lean (over Model.Pack/Unpack/PackFmt/Quote, Spec.Quote, Spec.Printf and the
regenerated Generated.PackSize).  Correspondence: harness/cmd/c17 drives the real library functions through compiled
Lua; lean/Oracle/C17.lean prints what the Lean definitions say for the same lines.

Level B (implementation = algorithmic model): packed bytes, unpacked values, packsize, error class, %q text.
Level A (implementation satisfies the law the theorems conclude): unpack(pack(vs)) = vs ++ [len+1] on the values the
real pack produced; packsize = #pack; unrepresentable values and malformed formats are rejected; the %q text LOADED BY
GOLUA equals the original; tonumber(tostring(n)) == n; directive output = C printf (Spec.Printf)."""
import binascii
import os
import resource
import subprocess
from . import common


def unhex(h):
    return binascii.unhexlify(h).decode("latin1")


def show(h):
    """readable rendering of hex bytes for keys (printable ASCII kept, the rest \\xNN)"""
    out = []
    for ch in binascii.unhexlify(h):
        if 32 <= ch < 127 and ch != 92:
            out.append(chr(ch))
        else:
            out.append("\\x%02x" % ch)
    return "".join(out)


def canon_tok(t):
    if len(t) == 17 and t[0] == "f":
        try:
            b = int(t[1:], 16)
        except ValueError:
            return t
        if (b >> 52) & 0x7FF == 0x7FF and b & ((1 << 52) - 1):
            return "fnan"
    return t


def canon(s):
    return " ".join(canon_tok(t) for t in s.split(" "))


def flags(exp):
    parts = exp.split(" | ")
    fl = {}
    if len(parts) > 1:
        for kv in parts[1].split(" "):
            if "=" in kv:
                k, v = kv.split("=", 1)
                fl[k] = v
    return parts[0], fl


def show_vals(toks):
    out = []
    for t in toks:
        if t.startswith("s"):
            out.append('"' + show(t[1:]) + '"')
        else:
            out.append(t)
    return ",".join(out)


X_ASYM = ("Xx", "X ", "XX", "Xz", "X<", "X>", "X=", "X!", "Xc")


def pack_family(fmt, vals, got):
    """name of a known defect family for a pack/unpack level-A failure, or None"""
    return None


class Pack:
    """checks over the pack / packsize / unpack triples of one case"""

    def __init__(self, ctx):
        self.ctx = ctx
        self.last = None  # (fmt, vals, got, model, flags) of the latest pack line

    def nontrivial(self, fmt):
        return any(c in fmt for c in "!X><=") or any(c.isdigit() for c in fmt)

    def line(self, line, exp_full):
        ctx = self.ctx
        lhs, got = line.split(" = ", 1)
        got = canon(got)
        exp, fl = flags(exp_full)
        exp = canon(exp)
        toks = [t for t in lhs.split(" ") if t]
        kind = toks[0]
        fmt = unhex(toks[1][1:])
        inp = "%s %s %s" % (kind, show(toks[1][1:]), " ".join(toks[2:]))
        ctx.case(lhs, self.nontrivial(fmt))
        ctx.count("pack:" + kind + ":" + got.split(" ")[0])
        replay = "c17 replay %s\nobserved %s\nmodel    %s\n" % (lhs, got, exp_full)
        # ---- level B: the algorithmic model
        if exp == "bad-line":
            raise common.BuildError("oracle could not parse: " + line)
        if exp == "err unmodelled":
            ctx.count("pack:unmodelled-coercion")
        elif exp == "err sizeoverflow" and got.startswith("err"):
            pass  # golua reports the overflowing size as whatever error comes next; any error is accepted
        elif got != exp:
            ctx.violation("model " + inp, "golua: %s; Model.Pack says: %s" % (got, exp), replay, found_input=False)
        # ---- level A
        if fl.get("mal") == "1" and got.startswith("ok"):
            ctx.violation("malformed-accepted " + kind + " " + show(toks[1][1:]),
                          "format %r is malformed (unknown option / size outside [1,16] / c without size / trailing X) but %s succeeded" % (fmt, kind), replay)
        if kind in ("unpack", "packsize") and fl.get("abad") == "1" and got.startswith("ok"):
            ctx.violation("%s-accepts-non-power-of-2-alignment %s" % (kind, show(toks[1][1:])),
                          "format %r asks for an alignment that is not a power of 2; string.%s accepted it" % (fmt, kind), replay)
        if kind == "pack":
            vals = toks[2:]
            self.last = (fmt, toks[1], vals, got, fl, lhs)
            if fl.get("rej") == "1" and got.startswith("ok"):
                fam = "pack-accepts-unrepresentable"
                ctx.violation("%s fmt=%s vals=%s" % (fam, show(toks[1][1:]), show_vals(vals)),
                              "a value that the option cannot represent was packed without error: %s" % got, replay)
            if fl.get("acc") == "1" and not got.startswith("ok"):
                fam = "pack-rejects-representable"
                ctx.violation("%s fmt=%s vals=%s" % (fam, show(toks[1][1:]), show_vals(vals)),
                              "well-formed format and representable values, but string.pack raised: %s" % got, replay)
            if got == "panic":
                ctx.violation("pack-panic " + inp, "Go panic in string.pack", replay)
        elif kind == "packsize":
            if got == "panic":
                ctx.violation("packsize-panic " + inp, "Go panic in string.packsize", replay)
            if got.startswith("ok i-"):
                ctx.violation("packsize-negative " + show(toks[1][1:]), "string.packsize returned a negative size: " + got, replay)
            if self.last and self.last[1] == toks[1] and self.last[3].startswith("ok d"):
                n = len(self.last[3][4:]) // 2
                if got.startswith("ok"):
                    if got != "ok i%d" % n:
                        ctx.violation("packsize-differs " + show(toks[1][1:]),
                                      "packsize says %s, pack produced %d bytes" % (got, n), replay)
                elif "s" not in fmt and "z" not in fmt:
                    ctx.violation("packsize-fails " + show(toks[1][1:]), "fixed-size format, pack succeeded, packsize: " + got, replay)
        elif kind == "unpack":
            if got == "panic":
                ctx.violation("unpack-panic fmt=%s data=%s" % (show(toks[1][1:]), toks[2][1:]),
                              "Go panic in string.unpack (the length prefix of an `s` option is not checked against the data)", replay)
            last = self.last
            if last and last[1] == toks[1] and toks[3] == "1" and last[3] == "ok " + toks[2] and last[4].get("exact") == "1":
                want = "ok " + " ".join([canon_tok(v) for v in last[2]] + ["i%d" % (len(toks[2][1:]) // 2 + 1)])
                if got != want:
                    fam = "roundtrip"
                    ctx.violation("%s fmt=%s vals=%s" % (fam, show(toks[1][1:]), show_vals(last[2])),
                                  "unpack(fmt, pack(fmt, v...)) returned %s, expected %s" % (got, want),
                                  "c17 replay %s\nobserved unpack: %s\nexpected: %s\n" % (last[5], got, want))
                self.last = None


def check_quote(ctx, line, exp_full):
    lhs, got = line.split(" = ", 1)
    got = canon(got)
    exp, fl = flags(exp_full)
    exp = canon(exp)
    toks = lhs.split(" ")
    kind = toks[0]
    replay = "c17 replay %s\nobserved %s\nmodel    %s\n" % (lhs, got, exp_full)
    if exp == "bad-line":
        raise common.BuildError("oracle could not parse: " + line)
    ctx.count("q:" + kind)
    g = got.split(" ")
    if kind == "q":
        orig = toks[1]
        raw = binascii.unhexlify(orig[1:])
        ctx.case(lhs, any(b < 32 or b >= 127 for b in raw))
        if got == "panic" or not got.startswith("ok") or len(g) < 3:
            ctx.violation("q-fails " + show(orig[1:]), "string.format('%%q', s) did not return: %s" % got, replay)
            return
        if got != exp:
            ctx.violation("model q " + show(orig[1:]), "golua: %s; Model.Quote/Spec.unquote say: %s" % (got, exp), replay, found_input=False)
        if g[2] != orig:
            np = toks[2][3:]
            fam = "q-nonprintable-rune" if np else "q-string"
            ctx.violation("%s s=%s" % (fam, show(orig[1:])),
                          "load('return '..string.format('%%q', s))() gives %s for s=%s; %%q text: %s (Lua 5.4 writes %s)" % (
                              g[2], orig, show(g[1]), show(fl.get("spec", ""))), replay)
        return
    v = toks[1]
    boundary = any(m in v for m in ("9223372036854775", "7ff", "fff", "0000000000000")) or v in ("i0", "i-1")
    ctx.case(lhs, boundary or kind != "tn")
    if not got.startswith("ok") or len(g) < 5:
        ctx.violation("%s-fails %s" % (kind, v), "golua: " + got, replay)
        return
    text, back, eq, same = g[1], g[2], g[3], g[4]
    if same != "t":
        ctx.count(kind + ":type-changed")
    isnan = canon_tok(v) == "fnan"
    isinf = v in ("f7ff0000000000000", "ffff0000000000000")
    if kind == "tn" and (isnan or isinf):
        return  # the property speaks of finite numbers
    # compared by subtype and BIT PATTERN (any NaN = fnan), not with `==`: -0.0 and 0.0, 1 and 1.0 are `==`
    if kind in ("qi", "qf") or same == "t":
        ok = back == canon_tok(v)
    else:
        # tostring of an integral float has no ".0" in golua, so tonumber gives the integer: what the property asks is ==
        ok = eq == "t"
        ctx.count("tn:integral-float-read-as-integer")
    if not ok:
        ctx.violation("%s %s" % (kind, v), "reading back %s gives %s, not the original %s (== says %s, same subtype: %s)" % (
            show(text), back, canon_tok(v), eq, same), replay)
    if exp != "?":
        e = exp.split(" ")
        if text != e[1]:
            ctx.violation("model %s %s" % (kind, v), "golua wrote %s, the model %s" % (show(text), show(e[1])), replay, found_input=False)
        elif kind == "tn" and back != e[2]:
            ctx.violation("tn-value %s" % v, "tonumber(%s) = %s, Spec says %s" % (show(text), back, e[2]), replay)
        elif kind in ("qi", "qf") and back != e[2]:
            # golua's reader and Spec.evalNumLit disagree on the literal (C12's subject); the law above is what counts here
            ctx.count(kind + ":reader-differs-from-spec")


def fmt_family(d, v, got):
    verb = d[-1:]
    fl = d[1:]
    try:
        n = int(v[1:]) if v.startswith("i") else None
    except ValueError:
        n = None
    if verb in "xX" and "#" in fl and n == 0:
        return "fmt-%#x-zero"
    if verb == "o" and "#" in fl and n == 0 and "." in fl:
        return "fmt-%#.0o-zero"
    if verb in "xX" and "#" in fl and "0" in fl.replace(".0", "") and n:
        return "fmt-%#0x-width"
    if verb in "di" and n == 0 and "." in fl and ("+" in fl or " " in fl):
        return "fmt-%+.0d-zero"
    return None


INCOMPLETE = ("%", "abc%", "%5", "%-", "%.3", "%#", "%d%")
MUST_ERR0 = ("%y", "%5.1q", "%100d", "%.100d", "%d %d", "%s%s")


def check_fmt(ctx, line, exp_full):
    lhs, got = line.split(" = ", 1)
    exp, _ = flags(exp_full)
    toks = lhs.split(" ")
    d = unhex(toks[1][1:])
    v = toks[2] if len(toks) > 2 else ""
    replay = "c17 replay %s\nobserved %s\nexpected %s\n" % (lhs, got, exp)
    ctx.case(lhs, len(d) > 2)
    ctx.count("fmt:" + (d[-1:] if d[-1:].isalpha() else "other"))
    if exp == "bad-line":
        raise common.BuildError("oracle could not parse: " + line)
    want = exp
    if toks[0] == "fmt0" or exp == "?":
        want = None
        if d in INCOMPLETE and not (d == "%d%" and toks[0] == "fmt0"):
            want = "err"
        elif d in MUST_ERR0 and (toks[0] == "fmt0" or d in ("%y", "%5.1q", "%100d", "%.100d")):
            want = "err"
        elif d == "%%":
            want = "ok d25"
    if want is None:
        if got == "panic":
            ctx.violation("fmt-panic %s %s" % (d, v), "Go panic in string.format", replay)
        return
    gotc = "err" if got.startswith("err") else got
    if gotc == want:
        return
    fam = fmt_family(d, v, got)
    key = ("%s dir=%s val=%s" % (fam, d, v)) if fam else ("fmt dir=%s val=%s" % (d, v))
    gs = show(got[4:]) if got.startswith("ok d") else got
    ws = show(want[4:]) if want.startswith("ok d") else want
    ctx.violation(key, "string.format(%r, %s) = %s; C printf / Lua 5.4: %s" % (d, v, gs, ws), replay)


def run_lines(ctx, mode, lines):
    exp = common.run_oracle("c17", lines)
    if len(exp) != len(lines):
        raise common.BuildError("oracle returned %d lines for %d inputs" % (len(exp), len(lines)))
    pk = Pack(ctx)
    for line, e in zip(lines, exp):
        k = line.split(" ", 1)[0]
        if k in ("pack", "unpack", "packsize"):
            pk.line(line, e)
        elif k in ("q", "qi", "qf", "tn"):
            check_quote(ctx, line, e)
        elif k in ("fmt", "fmt0"):
            check_fmt(ctx, line, e)
        else:
            raise common.BuildError("unknown harness line: " + line[:200])
    step = max(1, len(lines) // 3)
    for l in lines[::step][:3]:
        ctx.sample(l[:300])


def limit_as():
    resource.setrlimit(resource.RLIMIT_AS, (4 << 30, 4 << 30))


def run_danger(ctx, h):
    """cases that can kill the process: one child each, address space capped"""
    rc, out, _ = common.run_harness(h, ["danger", "count"])
    n = int(out.strip() or "0")
    for k in range(n):
        try:
            p = subprocess.run([h, "danger", str(k)], stdout=subprocess.PIPE, stderr=subprocess.PIPE, text=True, errors="replace",
                               timeout=60, preexec_fn=limit_as, env=dict(os.environ, GOMEMLIMIT="2GiB"))
            out, rc, err = p.stdout, p.returncode, p.stderr
        except subprocess.TimeoutExpired:
            out, rc, err = "", 124, "timeout"
        ctx.case("danger %d" % k, True)
        ctx.count("danger")
        lines = [l for l in out.split("\n") if l.startswith("unpack ")]
        if rc == 0 and lines:
            run_lines(ctx, "danger", lines)
            continue
        what = "out of memory" if "out of memory" in err else ("timeout" if rc == 124 else "exit %d" % rc)
        ctx.violation("unpack-crash danger-case-%d" % k,
                      "string.unpack with an `s` option whose length prefix exceeds the data took the process down (%s): "
                      "the length is passed to make([]byte, n) before it is compared with the remaining input" % what,
                      "c17 danger %d\nobserved: process died (%s)\nexpected: error 'data string too short'\n%s\n" % (k, what, err[:600]))


def run(ctx):
    ctx.rule = ("cases = one call of string.pack / unpack / packsize / format / tostring+tonumber through compiled Lua; pack formats: "
                "every option x 11 endianness/alignment prefixes x a boundary lattice of values (ints at +-2^(8n-1), +-2^(8n), 0, -1, "
                "min/maxinteger; float32 boundaries, inf, NaN; strings with embedded zeros), all ordered pairs over 21 options, random "
                "3-4 item formats, malformed formats and damaged/truncated data; %q: all strings up to length 3 over a 23-symbol "
                "alphabet of escape classes, every byte, random strings; non-trivial = format with alignment/endianness/size suffix, "
                "string with a control or non-ASCII byte, number from a boundary class, directive with flags/width/precision; "
                "distinct by canonical text")
    ctx.assumptions = [
        "strconv.FormatFloat is a parameter of Model.Quote: float texts are checked only by reading them back (value and subtype)",
        "memory budgets (LinearUnused) of pack/unpack are not modelled: the runtime is unlimited",
        "little-endian amd64: native byte order, sizes and alignment as compiled into golua",
        "string<->number coercions of pack arguments are not modelled (counted as pack:unmodelled-coercion)",
    ]
    msgs = common.regen(ctx)
    for m in msgs:
        ctx.obligations.append({"name": "translate:" + m.split(":")[0].split(" ")[-1], "ok": False, "axioms": [], "note": m})
    common.prove(ctx)
    common.build_oracle()
    h = common.build_go("c17", "cmd/c17")
    for mode in ("pack", "quote", "num", "fmt"):
        rc, out, err = common.run_harness(h, [mode, ctx.tier])
        if rc != 0:
            raise common.BuildError("c17 harness %s failed: %s" % (mode, err[-2000:]))
        lines = out.split("\n")[:-1]
        run_lines(ctx, mode, lines)
        ctx.extra["lines_" + mode] = len(lines)
        ctx.log("%s: %d lines" % (mode, len(lines)))
    run_danger(ctx, h)


def replay(ctx, path):
    h = common.build_go("c17", "cmd/c17")
    common.build_oracle()
    for line in open(path):
        if line.startswith("c17 replay "):
            args = line.split()[2:]
            rc, out, err = common.run_harness(h, ["replay"] + args)
            for l in out.split("\n")[:-1]:
                print(l)
                print("   lean:", common.run_oracle("c17", [l])[0])
        elif line.startswith("c17 danger "):
            k = line.split()[2]
            p = subprocess.run([h, "danger", k], stdout=subprocess.PIPE, stderr=subprocess.PIPE, text=True, errors="replace",
                               timeout=60, preexec_fn=limit_as)
            print(p.stdout.strip() or ("process died rc=%d: %s" % (p.returncode, p.stderr[:300])))
    return 0
