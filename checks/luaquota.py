"""Lua-level leg shared by C05 (cpu), C06 (memory) and C07 (nesting/status): generated Lua programs run
under runtime.callcontext on the real interpreter (harness/cmd/c05), limits swept around the program's own
usage.  Everything random derives from the seed passed in."""
import re
from . import common

HUGE = 1 << 62

PRELUDE = r'''
local pack, unpack = table.pack, table.unpack
local function P(f, ...)
  local r = pack(pcall(f, ...))
  if not r[1] and type(r[2]) == "string" and r[2]:find("limit of %d+ exceeded") then emit("INTERCEPT", (r[2]:match("^(%a+)"))) end
  return unpack(r, 1, r.n)
end
local function closer(tag) return setmetatable({}, {__close = function() emit("CLOSE" .. tag) end}) end
'''


def hexs(s):
    return "s" + s.encode().hex()


LIMIT_MSG = re.compile(r"limit of \d+ exceeded")
INTERCEPT = hexs("INTERCEPT")
SMARK = hexs("S")


class Gen:
    """structure-directed generator of body statements; every statement emits at least one host event"""

    def __init__(self, rng, resource):
        self.rng = rng
        self.resource = resource
        self.uid = 0
        self.tags = []

    def n(self, lo, hi):
        return lo + self.rng.below(hi - lo + 1)

    def loop(self):
        N = self.n(1, 40)
        self.tags.append("loop%d" % N)
        return "do local x = 0 for i = 1, %d do x = x + i * 2 end emit(x) end" % N

    def pcall_loop(self):
        N = self.n(1, 12)
        self.tags.append("pcallloop%d" % N)
        return ("do local acc = 0 for i = 1, %d do local ok, v = P(function(a) if a %% 3 == 0 then error('e' .. a) end "
                "return a * 2 end, i) acc = acc + (ok and v or 1) end emit(acc) end" % N)

    def coro(self):
        N = self.n(1, 10)
        self.tags.append("coro%d" % N)
        return ("do local co = coroutine.wrap(function() for i = 1, %d do coroutine.yield(i) end return 0 end) "
                "local s = 0 for i = 1, %d do s = s + co() end emit(s) end" % (N, N))

    def coro_close(self):
        N = self.n(2, 30)
        self.uid += 1
        self.tags.append("coroclose%d" % N)
        return ("do local co = coroutine.wrap(function() local c <close> = closer('%d') local x = 0 "
                "for i = 1, %d do x = x + i end coroutine.yield(x) return x end) emit(co()) emit(co()) end" % (self.uid, N))

    def rep(self):
        N = self.n(1, 4000)
        self.tags.append("rep%d" % N)
        return "do local s = string.rep('ab', %d) emit(#s) end" % N

    def rep_pcall(self):
        N = self.n(1, 4000)
        self.tags.append("prep%d" % N)
        return "do local ok, s = P(string.rep, 'ab', %d) emit(ok and #s) end" % N

    def find(self):
        N = self.n(1, 3000)
        self.tags.append("find%d" % N)
        return "do local s = string.rep('a', %d) emit(s:find('b', 1, true)) end" % N

    def find_pcall(self):
        N = self.n(1, 3000)
        self.tags.append("pfind%d" % N)
        return "do local s = string.rep('a', %d) emit(P(string.find, s, 'b', 1, true)) end" % N

    def table_ops(self):
        N = self.n(1, 30)
        self.tags.append("tab%d" % N)
        return ("do local t = {} for i = 1, %d do t[i] = (i * 7) %% 13 end table.sort(t) emit(table.concat(t, ',')) end" % N)

    def xpc(self):
        self.tags.append("xpcall")
        return "emit(xpcall(function() error('boom', 0) end, function(m) return 'H:' .. tostring(m) end))"

    def close_var(self):
        N = self.n(1, 20)
        self.uid += 1
        self.tags.append("close%d" % N)
        return "do local c <close> = closer('%d') local x = 0 for i = 1, %d do x = x + 1 end emit(x) end" % (self.uid, N)

    def nested_ctx(self):
        N = self.n(1, 30)
        K = self.n(5, 200)
        self.tags.append("ctx%d_%d" % (N, K))
        return ("do local c2, v = runtime.callcontext({kill = {cpu = %d}}, function() local x = 0 for i = 1, %d do x = x + 1 end "
                "return x end) emit('CTX', c2.status, c2.used.cpu or 0, v) end" % (K, N))

    def fmt(self):
        N = self.n(1, 2000)
        self.tags.append("fmt%d" % N)
        return "do local f = string.rep('x', %d) .. '%%d' emit(#string.format(f, 7)) end" % N

    def callback(self):
        """bounded work inside a callback the library / VM runs: the limit is swept through it like through any code"""
        N = self.n(1, 25)
        k = self.rng.below(6)
        self.uid += 1
        self.tags.append("cb%d_%d" % (k, N))
        burn = "local x = 0 for i = 1, %d do x = x + i end" % N
        if k == 0:
            return ("do local t = {5, 3, 8, 1, 9, 2} P(table.sort, t, function(a, b) %s return a < b end) "
                    "emit(table.concat(t, ',')) end" % burn)
        if k == 1:
            return "do emit((string.gsub('abc', '%%w', function(c) %s return c .. x end))) end" % burn
        if k == 2:
            return ("do local o = setmetatable({}, {__index = function(t, k) %s return x end}) emit(P(function() return o.a + o.b end)) end"
                    % burn)
        if k == 3:
            return ("do emit(P(function() local c <close> = setmetatable({}, {__close = function() %s emit('CLOSEcb%d') end}) "
                    "error('E', 0) end)) end" % (burn, self.uid))
        if k == 4:
            return "do emit(xpcall(function() error('boom', 0) end, function(m) %s return m .. x end)) end" % burn
        return ("do local mt = {__lt = function(a, b) %s return a.v < b.v end} local t = {} for i = 1, 4 do t[i] = setmetatable({v = (i * 3) %% 5}, mt) end "
                "P(table.sort, t) emit(t[1].v, t[4].v) end" % burn)

    def stmt(self):
        if self.rng.below(100) < 14:
            return self.callback()
        k = self.rng.below(100)
        if k < 16:
            return self.loop()
        if k < 28:
            return self.pcall_loop()
        if k < 38:
            return self.coro()
        if k < 46:
            return self.coro_close()
        if k < 54:
            return self.rep()
        if k < 61:
            return self.rep_pcall()
        if k < 67:
            return self.find()
        if k < 73:
            return self.find_pcall()
        if k < 81:
            return self.table_ops()
        if k < 85:
            return self.xpc()
        if k < 91:
            return self.close_var()
        if k < 96:
            return self.fmt()
        return self.nested_ctx()

    def body(self):
        n = 1 + self.rng.below(5)
        inner = "\n  ".join(self.stmt() for _ in range(n))
        return self.wrap(inner)

    def wrap(self, inner):
        """since commit 0426709 a kill must go through any nesting of limit-less brackets: wrap the whole program in
        pcall / xpcall loops, limit-less callcontexts, coroutines"""
        k = self.rng.below(100)
        if k < 30:
            return inner
        if k < 42:
            self.tags.append("W:pcall")
            return "P(function()\n  " + inner + "\n  end)"
        if k < 52:
            self.tags.append("W:pcall2")
            return "P(function() P(function()\n  " + inner + "\n  end) emit('mid') end)"
        if k < 62:
            self.tags.append("W:pcallloop")
            return "for round = 1, 2 do P(function()\n  " + inner + "\n  end) emit('round', round) end"
        if k < 72:
            self.tags.append("W:xpcall")
            return "xpcall(function()\n  " + inner + "\n  end, function(m) emit('HANDLER') return m end)"
        if k < 82:
            self.tags.append("W:ctx")
            return "do local c = runtime.callcontext({}, function()\n  " + inner + "\n  end) emit('CTX', c.status) end"
        if k < 91:
            self.tags.append("W:coro")
            return "coroutine.wrap(function()\n  " + inner + "\n  end)()"
        self.tags.append("W:ctx-pcall-coro")
        return ("do local c = runtime.callcontext({}, function() P(function() coroutine.wrap(function()\n  " + inner +
                "\n  end)() end) end) emit('CTX', c.status) end")


def program(body, resource, limit, outer=""):
    return (PRELUDE + outer + "local function body()\n  " + body + "\n  return 'R'\nend\n"
            "local ctx, r = runtime.callcontext({kill = {%s = %d}}, body)\n"
            "emit('S', ctx.status, ctx.used.cpu or 0, ctx.used.memory or 0, r)\n" % (resource, limit))


class Run:
    __slots__ = ("id", "cls", "kib", "trace", "status", "ucpu", "umem", "ret", "body", "intercepted", "ms")

    def __init__(self, pid, cls, kib, trace):
        self.id, self.cls, self.kib, self.trace = pid, cls, kib, trace
        self.ms = 0
        self.status = self.ucpu = self.umem = self.ret = None
        self.body = trace
        self.intercepted = INTERCEPT in trace or any(
            t.startswith("s") and LIMIT_MSG.search(dec(t)) for t in trace if len(t) < 200)
        if SMARK in trace:
            i = len(trace) - 1 - trace[::-1].index(SMARK)
            tail = trace[i + 1:]
            self.body = trace[:i]
            if len(tail) >= 3 and tail[0].startswith("s"):
                self.status = bytes.fromhex(tail[0][1:]).decode()
                self.ucpu = int(tail[1][1:]) if tail[1].startswith("i") else None
                self.umem = int(tail[2][1:]) if tail[2].startswith("i") else None
                self.ret = tail[3] if len(tail) > 3 else "n"


def run_batch(binpath, progs, timeout=20):
    """progs: list of (id, source).  Returns {id: Run}; a process crash / timeout on one program is recorded as
    class 'crash' / 'timeout' and the batch is resumed after it."""
    out = {}
    todo = list(progs)
    guard = 0
    while todo and guard < 200:
        guard += 1
        inp = "".join("#### %s\n%s\n" % (pid, src) for pid, src in todo)
        rc, so, se = common.run_harness(binpath, ["-timeout", str(timeout)], input=inp, timeout=timeout * len(todo) + 120)
        running = None
        for line in so.split("\n"):
            if line.startswith("R "):
                running = line[2:].strip()
            elif line.startswith("P "):
                head, _, tr = line.partition(" | ")
                w = head.split()
                if len(w) >= 3 and w[2] == "timeout":
                    out[w[1]] = Run(w[1], "timeout", 0, [])
                else:
                    out[w[1]] = Run(w[1], w[2], int(w[3]) if len(w) > 3 else 0, tr.split())
                    out[w[1]].ms = int(w[4]) if len(w) > 4 else 0
                running = None
        if running is not None and running not in out:
            msg = "Too much mem released" if "Too much mem released" in se else se.strip().split("\n")[0][:200] if se.strip() else "exit %d" % rc
            r = Run(running, "crash", 0, [])
            r.ret = msg
            out[running] = r
        done = set(out)
        todo = [(p, s) for p, s in todo if p not in done]
        if rc == 0:
            break
    return out


CTXMARK = hexs("CTX")


def ctx_intercept(run_body, base_body):
    """True if the first difference to the unlimited run lies in the report of a nested runtime.callcontext that says
    'killed': the inner context was killed by a limit it inherited, and the enclosing Lua code went on."""
    i = first_divergence(run_body, base_body)
    if i >= len(run_body):
        return False
    for j in range(i, max(-1, i - 4), -1):
        if run_body[j] == CTXMARK:
            return j + 1 < len(run_body) and dec(run_body[j + 1]) == "killed"
    return False


def is_prefix(a, b):
    return len(a) <= len(b) and b[:len(a)] == a


def first_divergence(a, b):
    for i, (x, y) in enumerate(zip(a, b)):
        if x != y:
            return i
    return min(len(a), len(b))


def msg_of(run):
    """text of the Go panic / error message the runner attached (msg:<hex>) or the crash text"""
    out = run.ret or ""
    for x in run.trace:
        if x.startswith("msg:"):
            try:
                out += " " + bytes.fromhex(x[4:]).decode("utf8", "replace")
            except ValueError:
                pass
    return out


def dec(item):
    if item.startswith("s"):
        try:
            return bytes.fromhex(item[1:]).decode("utf8", "replace")
        except ValueError:
            return item
    return item
