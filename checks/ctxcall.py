"""C07, bracketed legs: (1) random trees of nested Thread.CallContext calls on the real runtime against
Model.CallCtx (level B) and the truthful-status / aligned-stack relations (level A); (2) Lua programs nesting
runtime.callcontext / pcall that observe their own context (kill, used, stop, flags, status, due) — spec relations
only, since the CPU cost of Lua code is not modelled."""
import re
from . import common, luaquota, quotaprobes

STATUS_OF_EXIT = {"done": 1, "error": 2, "killed": 3}


def call_leg(ctx, h, n):
    rc, out, err = common.run_harness(h, ["call", str(n)])
    if rc != 0:
        raise common.BuildError("c07 harness call failed: " + err[-2000:])
    impl = out.split("\n")[:-1]
    model = common.run_oracle("c07", impl)
    if len(model) != len(impl):
        raise common.BuildError("oracle c07 returned %d lines for %d" % (len(model), len(impl)))
    nb = 0
    for k, (a, b) in enumerate(zip(impl, model)):
        tree, _, rest = a.partition(" = ")
        nums = [int(x) for x in re.findall(r"\d+", tree)]
        tame = all(x < (1 << 62) for x in nums)
        depth = 0
        md = 0
        for tok in tree.split():
            if tok == "(":
                depth += 1
                md = max(md, depth)
            elif tok == ")":
                depth -= 1
        ctx.case(tree, md >= 3 and any(x in (0, 1, 2) or x >= (1 << 62) for x in nums))
        ctx.count("call:" + rest.split(" ", 1)[0])
        if k % 601 == 0:
            ctx.sample(a[:300])
        if a != b:
            ctx.count("call:B-mismatch")
            if nb < 4:
                nb += 1
                ctx.violation("B:call:" + tree[2:], "Model.CallCtx and Thread.CallContext differ (level B)\nimplementation: %s\nmodel:          %s"
                              % (rest, b.partition(" = ")[2]), "c07 call\n" + tree + "\n", found_input=False)
        parts = rest.split(" ;")
        exit_ = parts[0].strip()
        results = parts[1].split() if len(parts) > 1 else []
        for r in results:
            d, st, uc, um, ex = r.split(":")
            if STATUS_OF_EXIT.get(ex) != int(st):
                ctx.violation("A:status_truthful:" + tree[2:], "a context whose body ended `%s` reports status %s" % (ex, st),
                              "c07 call\n" + tree + "\n")
        if tame and exit_ in ("done", "error", "crashed"):
            stack = parts[2] if len(parts) > 2 else ""
            if stack.count("|") != 1:
                ctx.violation("A:stack_aligned:" + tree[2:], "context stack not back at the root after the call: " + stack,
                              "c07 call\n" + tree + "\n")
        if exit_.startswith("panic"):
            ctx.violation("A:no_unexpected_panic:" + tree[2:], "unexpected Go panic " + exit_, "c07 call\n" + tree + "\n")


OBS = r'''
local function rv(x) return x or 0 end
local function obs(tag)
  local c = runtime.context()
  local u1 = rv(c.used.cpu)
  local d = c.due
  local u2 = rv(c.used.cpu)
  emit("O", tag, rv(c.kill.cpu), u1, rv(c.stop.cpu), c.flags, c.status, d, u2)
end
local function burn(n) local x = 0 for i = 1, n do x = x + i end return x end
local function fin(tag, c, ...)
  emit("F", tag, c.status, rv(c.kill.cpu), rv(c.used.cpu), rv(c.stop.cpu), c.due, c.flags)
  return ...
end
'''


class NestGen:
    def __init__(self, rng):
        self.rng = rng
        self.n = 0

    def node(self, depth):
        self.n += 1
        tag = "n%d" % self.n
        r = self.rng
        kill = r.choice([None, None, 300, 1000, 5000, 20000])
        stop = r.choice([None, None, None, 100, 2000])
        flags = r.choice([None, None, "cpusafe", "memsafe iosafe"])
        fields = []
        if kill:
            fields.append("kill = {cpu = %d}" % kill)
        if stop:
            fields.append("stop = {cpu = %d}" % stop)
        if flags:
            fields.append("flags = %q" % flags if False else 'flags = "%s"' % flags)
        body = ['obs("%s:in")' % tag]
        for _ in range(1 + r.below(4)):
            k = r.below(100)
            if k < 35:
                body.append("burn(%d)" % r.choice([1, 10, 60, 400, 3000]))
            elif k < 60 and depth < 3:
                body.append('obs("%s:pre")' % tag)
                body.append(self.node(depth + 1))
                body.append('obs("%s:post")' % tag)
            elif k < 75 and depth < 3:
                body.append("pcall(function() " + self.node(depth + 1) + " end)")
            elif k < 79:
                body.append('emit("RAISE", "%s") error("E%s", 0)' % (tag, tag))
            elif k < 83:
                # a pending to-be-closed handler that works while the error unwinds: it runs in this context
                body.insert(1, 'local cl <close> = setmetatable({}, {__close = function() burn(%d) end})'
                            % r.choice([5, 80, 600, 4000]))
                body.append('emit("RAISE", "%s") error("E%s", 0)' % (tag, tag))
            else:
                body.append('obs("%s:mid")' % tag)
        body.append('emit("END", "%s")' % tag)
        return 'fin("%s", runtime.callcontext({%s}, function() %s end))' % (tag, ", ".join(fields), " ".join(body))


PROBE_YIELD = [
    ("probe:yield-inside-pcall-1",
     "local ctx = runtime.callcontext({kill={cpu=100000}}, function() local co = coroutine.create(function() "
     "pcall(coroutine.yield) end) coroutine.resume(co) while true do end end)\nemit('status', ctx.status)\n"),
    ("probe:yield-inside-pcall-2",
     "local ctx = runtime.callcontext({kill={cpu=100000}}, function() local co = coroutine.wrap(function() "
     "pcall(coroutine.yield) end) co() return 1 end)\n"
     "emit('status', ctx.status, runtime.context().kill.cpu or 0)\n"),
]


CLOSE_AFTER_YIELD = (
    "local function probe(tag, wrap)\n"
    "  local inner_used\n"
    "  local ctx = runtime.callcontext({kill={cpu=1000000}}, function()\n"
    "    local k0 = runtime.context().kill.cpu\n"
    "    local co = coroutine.create(function() wrap(function() local x = 0 for i = 1, 50 do x = x + i end coroutine.yield(1) end) end)\n"
    "    coroutine.resume(co)\n"
    "    local closed = coroutine.close(co)\n"
    "    local k1 = runtime.context().kill.cpu\n"
    "    local x = 0 for i = 1, 100 do x = x + i end\n"
    "    inner_used = runtime.context().used.cpu\n"
    "    emit('K', tag, closed, k0, k1)\n"
    "    return 'R'\n"
    "  end)\n"
    "  emit('S', tag, ctx.status, ctx.kill.cpu, ctx.used.cpu >= inner_used, runtime.context().kill.cpu or 0)\n"
    "end\n"
    "probe('pcall', pcall)\n"
    "probe('xpcall', function(f) return xpcall(f, print) end)\n"
    "probe('callcontext', function(f) return runtime.callcontext({}, f) end)\n"
    "probe('pcall-pcall', function(f) return pcall(pcall, f) end)\n"
    "probe('callcontext-limited', function(f) return runtime.callcontext({kill={cpu=5000}}, f) end)\n")


def close_after_yield_leg(ctx, runner):
    """a coroutine that yields inside a nested context and is closed (coroutine.close: the threadClose panic is a
    non-termination panic that CallContext must pop for before re-panicking) before the enclosing limited context
    ends: afterwards the active context is the enclosing one again, and it is the one callcontext hands back,
    charged with everything"""
    r = luaquota.run_batch(runner, [("close-after-yield", CLOSE_AFTER_YIELD)]).get("close-after-yield")
    ctx.case(CLOSE_AFTER_YIELD, True)
    replay = "c07 lua\n" + CLOSE_AFTER_YIELD
    tr = [luaquota.dec(x) if x.startswith("s") else x for x in r.trace]
    if r.cls != "ok":
        ctx.violation("context-stack-misaligned:close-after-yield-in-nested-context:" + r.cls, "chunk ended %s (%s)" % (r.cls, luaquota.msg_of(r)[:120]), replay)
        return
    seen = 0
    for i in range(len(tr)):
        if tr[i] == "K" and i + 4 < len(tr):
            tag, closed, k0, k1 = tr[i + 1:i + 5]
            if closed != "t" or k0 != "i1000000" or k1 != "i1000000":
                ctx.violation("context-stack-misaligned:close-after-yield-in-nested-context:" + tag, "after coroutine.close of a coroutine "
                              "suspended inside %s the active context has kill.cpu %s (enclosing context: %s), close returned %s"
                              % (tag, k1, k0, closed), replay)
        if tr[i] == "S" and i + 5 < len(tr):
            seen += 1
            tag, status, kill, charged, outer = tr[i + 1:i + 6]
            if (status, kill, charged, outer) != ("done", "i1000000", "t", "i0"):
                ctx.violation("context-stack-misaligned:close-after-yield-in-nested-context:" + tag, "callcontext handed back status %s "
                              "kill.cpu %s, fully charged: %s; kill.cpu of the context active afterwards: %s (expected done, 1000000, "
                              "t, 0)" % (status, kill, charged, outer), replay)
    ctx.count("close-after-yield:variants", seen)
    if seen != 5:
        ctx.violation("context-stack-misaligned:close-after-yield-in-nested-context:incomplete", "only %d of 5 variants completed: %s"
                      % (seen, tr[-8:]), replay)


def parse_events(trace):
    """split the host trace into events (lists) starting at the markers O F RAISE END"""
    marks = {luaquota.hexs(m): m for m in ("O", "F", "RAISE", "END")}
    evs = []
    for t in trace:
        if t in marks:
            evs.append([marks[t]])
        elif evs:
            evs[-1].append(luaquota.dec(t) if t.startswith("s") else (int(t[1:]) if t.startswith("i") else t))
    return evs


FLAGBITS = {"memsafe": 1, "cpusafe": 2, "iosafe": 4, "timesafe": 8}


def flagset(s):
    return set(s.split()) if isinstance(s, str) else set()


def check_nest(ctx, pid, src, r):
    replay = "c07 lua\n" + src
    if r.cls != "ok":
        ctx.violation("lua-runner-%s:%s" % (r.cls, pid), "program ended with %s (%s)" % (r.cls, luaquota.msg_of(r)), replay)
        return
    evs = parse_events(r.trace)
    ended, raised = set(), set()
    last_obs = {}
    stack = []        # tags of contexts entered (by their :in observation)
    for e in evs:
        if not (e[0] == "O" and len(e) >= 8 and e[1].endswith(":in")):
            last_obs.pop("pre", None)       # a `pre` observation pairs only with the child entered right after it
        if e[0] == "END":
            ended.add(e[1])
        elif e[0] == "RAISE":
            raised.add(e[1])
        elif e[0] == "O" and len(e) >= 8:
            tag, kill, used, stop, flags, status, due = e[1:8]
            used2 = e[8] if len(e) > 8 else used
            node, _, where = tag.partition(":")
            if status != "live":
                ctx.violation("A:lua:status_live:" + pid, "running context reports status %r" % status, replay)
            if kill and used >= kill:
                ctx.violation("A:lua:used_lt_kill:" + pid, "running context used %d of kill %d" % (used, kill), replay)
            if kill and stop and stop > kill:
                ctx.violation("A:lua:soft_le_hard:" + pid, "stop.cpu %d > kill.cpu %d" % (stop, kill), replay)
            # `used` was read before `due`, `used2` after it (reading costs ticks): due must be false while still below
            # the soft limit afterwards and true once it was reached before
            if (due == "t" and not (stop and used2 >= stop)) or (due != "t" and stop and used >= stop):
                ctx.violation("A:lua:due_iff:" + pid, "due=%s with used %d..%d stop %d" % (due, used, used2, stop), replay)
            if where == "in":
                par = last_obs.get("pre")
                if par is not None:
                    pk, pu, pflags = par
                    if pk and not (kill and kill <= pk - pu):
                        ctx.violation("A:lua:push_hard_le_remaining:" + pid, "child kill.cpu %d, parent had %d - %d left" % (kill, pk, pu), replay)
                    if not flagset(pflags) <= flagset(flags):
                        ctx.violation("A:lua:push_flags_superset:" + pid, "child flags %r, parent %r" % (flags, pflags), replay)
                last_obs.pop("pre", None)
            if where == "pre":
                last_obs["pre"] = (kill, used, flags)
                last_obs["pre-used:" + node] = used
            elif where == "post":
                pu = last_obs.get("pre-used:" + node)
                cu = last_obs.pop("child-used", None)
                if pu is not None and cu is not None and kill and used < pu + cu:
                    ctx.violation("A:lua:pop_charges_parent:" + pid, "parent used %d after a child that used %d (before: %d)" % (used, cu, pu), replay)
        elif e[0] == "F" and len(e) >= 8:
            tag, status, kill, used, stop, due, flags = e[1:8]
            want = "done" if tag in ended else ("error" if tag in raised else "killed")
            # the programs issue unit requests only, so a context killed by its CPU limit has used == kill - 1; a kill may
            # still land between the END / RAISE marker and the actual return / error
            late_kill = status == "killed" and kill and used == kill - 1
            if status != want and not late_kill:
                ctx.violation("A:lua:status_truthful:" + pid, "context %s ended %s but reports %r" % (tag, want, status), replay)
            if status == "killed" and not (kill and used == kill - 1):
                ctx.violation("A:lua:killed_at_limit:" + pid, "context %s reports killed with used %d of kill %d" % (tag, used, kill), replay)
            if kill and used >= kill:
                ctx.violation("A:lua:used_lt_kill:" + pid, "returned context used %d of kill %d" % (used, kill), replay)
            last_obs["child-used"] = used
            ctx.count("lua:ctx-" + status)


def lua_leg(ctx, n):
    runner = common.build_go("c05", "cmd/c05")
    rng = common.Rng(ctx.seed * 1000003 + 7)
    progs = []
    for k in range(n):
        g = NestGen(rng)
        src = OBS + g.node(0) + "\n"
        progs.append(("nest%d" % k, src))
    res = luaquota.run_batch(runner, progs)
    for pid, src in progs:
        r = res.get(pid)
        if r is None:
            continue
        check_nest(ctx, pid, src, r)
        ctx.case(src, src.count("callcontext") >= 2)
    ctx.sample("lua nest program: " + progs[0][1][len(OBS):][:300])
    # pending to-be-closed handlers run in the context being left, under its limits, on every exit path: a
    # handler that burns past the limit ends the context `killed` (not `error`) with bounded consumption
    for res in ("cpu", "memory"):
        quotaprobes.callback_leg(ctx, runner, res, prefix="c07", sites={
            "close-normal-exit", "close-error-exit", "close-error-exit-of-context", "close-error-exit-inner-context",
            "xpcall-handler", "xpcall-handler-in-pcall"})
    close_after_yield_leg(ctx, runner)
    # the coroutine/pcall interleaving that breaks the bracket discipline
    for pid, src in PROBE_YIELD:
        r = luaquota.run_batch(runner, [(pid, src)]).get(pid)
        ctx.case(src, True)
        tr = [luaquota.dec(x) for x in r.trace]
        ctx.count("probe:" + r.cls)
        ok = r.cls == "ok" and len(tr) >= 2 and tr[0] == "status" and tr[1] in ("killed", "done") and (len(tr) < 3 or tr[2] in ("i0",))
        if pid.endswith("-1"):
            ok = r.cls == "ok" and tr[:2] == ["status", "killed"]
        if not ok:
            ctx.violation("context-stack-misaligned:yield-inside-pcall", "a coroutine yielding inside pcall leaves pcall's context on the "
                          "runtime-wide context stack; the enclosing callcontext pops the wrong frame (%s: runner class %s, trace %s, %s)"
                          % (pid, r.cls, tr[:4], luaquota.msg_of(r)[:80]), "c07 lua\n" + src)


def replay(ctx, path):
    txt = open(path).read()
    if "c07 lua\n" in txt:
        src = txt.split("c07 lua\n", 1)[1]
        runner = common.build_go("c05", "cmd/c05")
        r = luaquota.run_batch(runner, [("replay", src)]).get("replay")
        print("class:", r.cls, luaquota.msg_of(r))
        for e in parse_events(r.trace) or [[luaquota.dec(x) for x in r.trace]]:
            print("  ", e)
        return 0 if r.cls == "ok" else 1
    h = common.build_go("c07", "cmd/c07")
    common.build_oracle()
    trees = [l for l in txt.split("\n") if l.startswith("T ")]
    rc, out, err = common.run_harness(h, ["replay"], input="\n".join(trees) + "\n")
    impl = out.split("\n")[:-1]
    model = common.run_oracle("c07", impl)
    bad = 0
    for a, b in zip(impl, model):
        print("impl ", a)
        if a != b:
            print("model", b)
            bad = 1
    return bad
