"""C06 — a memory limit bounds accounted (and, sampled, real) allocation.

Theorems: lean/GoluaVerif/Props/C06.lean (mem_never_reaches_limit, mem_kill_monotone,
release_no_underflow_in_frame, cross-frame counterexample) over Model.Ctx.  Correspondence: context-stack model
against the real runtime (level B) and, at Lua level, generated programs under runtime.callcontext{kill={memory=M}}
with M swept over a grid refined around the kill threshold: killed is monotone in M, reported used < M, identical
results when not killed, host trace of a killed run is a prefix of the unlimited one, the process survives;
amplification templates (one library call with size parameter N up to 2^40 under a small M) must be killed
without the Go heap growing by more than a constant plus a constant times M."""
from . import common, ctxlib, luaquota, quotaprobes
from .luaquota import HUGE


# (name, known-finding key of the defect the probe exhibits on the current code or None, program, limit, expected status)
PROBES = [
    ("probe:coroutine-across-callcontext", None,
     "local co = coroutine.create(function() coroutine.yield(1) return 2 end)\ncoroutine.resume(co)\n"
     "local function body() emit(coroutine.resume(co)) return 'R' end\n", 1000000, "done"),
    ("probe:coroutine-across-pcall", None,
     "local function body() local co = coroutine.wrap(function() return 2 end) emit(pcall(co)) return 'R' end\n", 1000000, "done"),
    ("probe:coroutine-across-two-pcalls", None,
     "local function body() local co = coroutine.wrap(function() coroutine.yield(1) return 2 end) co() "
     "local u0 = runtime.context().used.memory pcall(function() pcall(function() co() end) end) "
     "emit(runtime.context().used.memory < u0) return 'R' end\n", 1000000, "done"),
    ("probe:load-compile-error", None,
     "local src = 'goto nowhere' .. (' '):rep(2000)\n"
     "local function body() for i = 1, 10 do emit(i, (load(src))) end return 'R' end\n", 1000000, "done"),
    ("probe:pcall-rep", None,
     "local function body() local ok, msg = P(string.rep, 'x', 1000000) emit('after', ok) "
     "local t = {} for i = 1, 100 do t[i] = i end emit('continued') return 'R' end\n", 100000, "killed"),
    # a coroutine created in the limited context and finished inside pcall releases its stack charge into the
    # enclosing context (8007e69); the request the pcall context then refuses must still reach the limited
    # context (52f8e49: inherited flag set at push) — the former finding C06-STALE-INHERITED-LIMIT
    ("probe:stale-limit", None,
     "local function body() local co = coroutine.wrap(function() return 1 end) "
     "local ok, msg = P(function() co() local s = string.rep('x', 1500) return #s end) emit('after', ok) "
     "local t = string.rep('y', 1800) emit('continued', #t) return 'R' end\n", 3800, "killed"),
]

# amplification: one call whose allocation depends on N, under a small memory limit
AMPLIFY = [
    ("rep", "string.rep('x', N)"),
    ("rep-sep", "string.rep('x', N // 2, 'y')"),
    ("rep-sep-long-empty-s", "string.rep('', math.min(N, 1 << 24) // 1000 + 2, ('s'):rep(1000))"),
    ("rep-sep-long-short-s", "string.rep('x', math.min(N, 1 << 24) // 2000 + 2, ('s'):rep(2000))"),
    ("concat-sep-long", "table.concat({'a', 'b', 'c', 'd', 'e'}, ('-'):rep(math.min(N, 1 << 24) // 4))"),
    ("rep-method", "('ab'):rep(N)"),
    ("format-width", "string.format('%' .. math.min(N, 99) .. 's', 'x'):rep(N // 99 + 1)"),
    ("unpack", "select('#', table.unpack({}, 1, N))"),
    ("concat-rep", "table.concat({('x'):rep(1000)}, ('y'):rep(N))"),
    ("char", "string.char(table.unpack({65, 66, 67}, 1, math.min(N, 3))):rep(N)"),
    ("utf8char", "utf8.char(0x20AC):rep(N)"),
    ("table-grow", "(function() local t = {} for i = 1, N do t[i] = i end return #t end)()"),
    ("string-grow", "(function() local s = 'x' for i = 1, 60 do s = s .. s if #s > N then break end end return #s end)()"),
    ("coroutine-loop", "(function() local t = {} for i = 1, math.min(N, 100000) do t[i] = coroutine.create(print) end return #t end)()"),
    ("load-big", "load(('local x = 1 '):rep(math.min(N, 200000)))"),
    ("pack", "string.pack('z', ('x'):rep(1000)):rep(N)"),
]


def wrap(outer_and_body, limit):
    return (luaquota.PRELUDE + outer_and_body +
            "local ctx, r = runtime.callcontext({kill = {memory = %d}}, body)\n"
            "emit('S', ctx.status, ctx.used.cpu or 0, ctx.used.memory or 0, r)\n" % limit)


class Reporter:
    """violations of a program that uses coroutines are re-run before being reported: Thread.end releases the
    coroutine's stack charge AFTER handing control back to the resumer (a data race, see C09), so the release can
    land in whatever context the resumer has entered meanwhile — a timing-dependent outcome is attributed to that."""

    def __init__(self, ctx, binpath):
        self.ctx, self.binpath = ctx, binpath
        self.contaminated = set()

    @staticmethod
    def sig(r):
        return (r.cls, r.status, tuple(r.body), r.umem)

    def report(self, tags, key, desc, replay, src=None, orig=None):
        """src: program text or list of texts to re-run; orig: the Run(s) that produced the violation"""
        if src is not None and self.binpath and any(t.startswith("coro") for t in tags.split("+")):
            srcs = src if isinstance(src, list) else [src]
            origs = orig if isinstance(orig, list) else [orig] * len(srcs)
            for text, o in zip(srcs, origs):
                seen = set()
                if o is not None:
                    seen.add(self.sig(o))
                res = luaquota.run_batch(self.binpath, [("rerun%d" % i, text) for i in range(12)])
                for r in res.values():
                    seen.add(self.sig(r))
                if len(seen) > 1:
                    self.ctx.count("lua:timing-dependent")
                    key = "mem-release-race:coroutine-end"
                    desc = ("timing-dependent outcome in a program whose coroutine finishes inside a memory-limited context "
                            "(%d different outcomes of the same program and limit); first seen as: %s" % (len(seen), desc))
                    break
        self.ctx.violation(key, desc, replay)


def judge(ctx, tags, src, base, r, M, rep=None):
    key_in = "%s:M=%d" % (tags, M)
    replay = "c06 lua\n" + wrap(src, M)
    full = wrap(src, M)
    if rep is None:
        rep = Reporter(ctx, None)
    if base is not None and base is not r and r.status is not None and not r.intercepted:
        if luaquota.ctx_intercept(r.body, base.body):
            ctx.violation("kill-intercepted-by-callcontext:memory:" + key_in, "an inner runtime.callcontext (which has no memory limit of its own) "
                          "was killed by the memory limit inherited from the enclosing context, reported status 'killed' to the Lua "
                          "code of that enclosing context, which went on running (program %s, limit %d)" % (tags, M), replay)
            return None
    if r.cls in ("crash", "panic") and "Too much mem released" in luaquota.msg_of(r):
        rep.report(tags, "mem-release-underflow:%s" % key_in, "panic: Too much mem released (process %s)" % r.cls, replay, full, r)
        return None
    if r.cls in ("crash", "timeout", "panic"):
        ctx.violation("runner-%s:memory:%s" % (r.cls, key_in), "the interpreter ended with %s (%s)" % (r.cls, r.ret), replay)
        return None
    if r.intercepted:
        ctx.violation("kill-intercepted:memory:" + key_in, "Lua code received the memory kill as an ordinary pcall/xpcall error and went on "
                      "running in the limited context (program %s, limit %d)" % (tags, M), replay)
        return None
    if r.status is None:
        ctx.violation("no-status:memory:" + key_in, "runner class %s, no status line" % r.cls, replay)
        return None
    killed = r.status == "killed"
    if r.umem is not None and r.umem >= M:
        rep.report(tags, "used-reaches-kill:memory:" + key_in, "ctx.used.memory=%d with kill.memory=%d" % (r.umem, M), replay, full, r)
    if killed and not luaquota.is_prefix(r.body, base.body):
        i = luaquota.first_divergence(r.body, base.body)
        rep.report(tags, "trace-after-kill:memory:" + key_in, "host trace of the killed run is not a prefix of the unlimited run "
                   "(event %d: %r)" % (i, luaquota.dec(r.body[i]) if i < len(r.body) else ""), replay, full, r)
    if not killed and (r.body != base.body or r.ret != base.ret or r.status != base.status):
        rep.report(tags, "result-differs:memory:" + key_in, "not killed, yet trace/result differ from the unlimited run", replay, [full, wrap(src, HUGE)], [r, base])
    return killed


def lua_leg(ctx, binpath, nprog):
    rng = common.Rng(ctx.seed * 1000003 + 6)
    rep = Reporter(ctx, binpath)
    progs = []
    for k in range(nprog):
        g = luaquota.Gen(rng, "memory")
        body = g.body()
        progs.append(("g%d" % k, "+".join(g.tags), "local function body()\n  " + body + "\n  return 'R'\nend\n"))
    # hand-picked programs swept like the generated ones (monotonicity in M, prefix traces): the witness of the
    # former finding C06-STALE-INHERITED-LIMIT (release into the enclosing context, then a refused request)
    progs.append(("corpus0", "corpus:stale-limit",
                  "local function body()\n  local co = coroutine.wrap(function() return 1 end)\n"
                  "  local ok, n = P(function() co() local s = string.rep('x', 1500) return #s end) emit('after', ok, n)\n"
                  "  local t = string.rep('y', 2300) emit('continued', #t)\n  return 'R'\nend\n"))
    # loads of sources much longer than their code, interleaved with live allocations
    progs.append(("corpus1", "corpus:load-comments",
                  "local pad = '--' .. ('c'):rep(3000) .. '\\n'\nlocal srcs = {}\nfor i = 1, 6 do srcs[i] = pad .. 'return ' .. i end\n"
                  "local function body()\n  local keep = {}\n  for i = 1, 6 do\n    local f = load(srcs[i])\n"
                  "    keep[i] = string.rep('k', 2000) emit(i, f())\n  end\n  return 'R'\nend\n"))
    # probes first, each in its own process (they may kill it)
    for name, key, src, lim, want in PROBES:
        res = luaquota.run_batch(binpath, [(name, wrap(src, lim)), (name + ":after", "emit('alive')")])
        r = res.get(name)
        ctx.case(name, True)
        ctx.count("probe:" + (r.cls if r.cls != "ok" else (r.status or "?")))
        replay = "c06 lua\n" + wrap(src, lim)
        text = luaquota.msg_of(r)
        if r.cls in ("crash", "panic") and "Too much mem released" in text:
            ctx.violation("mem-release-underflow:" + name, "panic: Too much mem released — the %s (%s)" % (
                "whole process died" if r.cls == "crash" else "panic escaped the Lua call", name), replay)
        elif r.cls != "ok":
            ctx.violation("runner-%s:memory:%s" % (r.cls, name), "probe ended with %s (%s)" % (r.cls, r.ret), replay)
        elif r.intercepted:
            ctx.violation(key or ("kill-intercepted:memory:" + name), "Lua code received the memory kill as an ordinary pcall "
                          "error and went on running in the limited context (%s, limit %d); final status %s" % (name, lim, r.status), replay)
        elif r.status != want:
            ctx.violation("probe-status:memory:" + name, "expected status %s, got %s" % (want, r.status), replay)
        elif name == "probe:coroutine-across-two-pcalls" and r.body != ["t"]:
            ctx.violation("release-not-returned-to-creator:" + name, "the stack charge of a coroutine finished two pcall levels "
                          "down was not given back to the context that created it (trace %s)" % r.body, replay)
        elif r.umem is not None and r.umem >= lim:
            ctx.violation("used-reaches-kill:memory:" + name, "ctx.used.memory=%d with kill.memory=%d" % (r.umem, lim), replay)
    batch = []
    for pid, tags, src in progs:
        batch.append((pid + ":u", wrap(src, HUGE)))
        batch.append((pid + ":v", wrap(src, HUGE)))
    res = luaquota.run_batch(binpath, batch)
    grid = [1 << k for k in range(6, 25)] + [3 << k for k in range(6, 23, 2)]
    sweep, info = [], {}
    for pid, tags, src in progs:
        b, b2 = res.get(pid + ":u"), res.get(pid + ":v")
        if b is None or b.cls != "ok" or b.status != "done":
            if b is not None and b.cls in ("crash", "panic"):
                judge(ctx, tags, src, b, b, HUGE, rep)
            else:
                ctx.violation("unlimited-run-failed:" + tags, "unlimited run ended %s / %s" % (b and b.cls, b and b.status),
                              "c06 lua\n" + wrap(src, HUGE))
            continue
        if b2 is None or (b.body, b.ret) != (b2.body, b2.ret):
            rep.report(tags, "nondeterministic:memory:" + tags, "two unlimited runs differ", "c06 lua\n" + wrap(src, HUGE), [wrap(src, HUGE), wrap(src, HUGE)], [b, b2])
            continue
        info[pid] = (tags, src, b)
        for M in sorted(set(grid)):
            sweep.append(("%s:%d" % (pid, M), wrap(src, M)))
    res2 = luaquota.run_batch(binpath, sweep)
    # refine around the threshold
    outcome = {pid: {} for pid in info}
    runs = {}
    for rid, _ in sweep:
        pid, _, Ms = rid.rpartition(":")
        r = res2.get(rid)
        if r is not None:
            k = judge(ctx, info[pid][0], info[pid][1], info[pid][2], r, int(Ms), rep)
            if k is not None:
                outcome[pid][int(Ms)] = k
                runs[(pid, int(Ms))] = r
    for rounds in range(2):
        sweep2 = []
        for pid, oc in outcome.items():
            ks = sorted(M for M, k in oc.items() if k)
            oks = sorted(M for M, k in oc.items() if not k)
            if not ks or not oks:
                continue
            lo, hi = max(ks), min(oks)
            if lo < hi - 1:
                step = max(1, (hi - lo) // 12)
                pts = set(range(lo + step, hi, step)) if rounds == 0 else set()
                pts |= {min(hi - 1, lo + d) for d in (1, 2)} | {max(lo + 1, hi - d) for d in (1, 2)}
                if rounds == 1:
                    mid = (lo + hi) // 2
                    pts |= {mid, max(lo + 1, mid - 1), min(hi - 1, mid + 1)}
                for M in sorted(pts):
                    if M not in oc:
                        sweep2.append(("%s:%d" % (pid, M), wrap(info[pid][1], M)))
        res3 = luaquota.run_batch(binpath, sweep2)
        for rid, _ in sweep2:
            pid, _, Ms = rid.rpartition(":")
            r = res3.get(rid)
            if r is not None:
                k = judge(ctx, info[pid][0], info[pid][1], info[pid][2], r, int(Ms), rep)
                if k is not None:
                    outcome[pid][int(Ms)] = k
                    runs[(pid, int(Ms))] = r
    for pid, oc in outcome.items():
        tags, src, b = info[pid]
        Ms = sorted(oc)
        ks = [M for M in Ms if oc[M]]
        oks = [M for M in Ms if not oc[M]]
        thr_lo = max(ks) if ks else 0
        thr_hi = min(oks) if oks else None
        for M in Ms:
            near = thr_hi is not None and (abs(M - thr_hi) <= 2 or abs(M - thr_lo) <= 2)
            inside = oc[M] and any(t.startswith(("pcall", "coro", "xpcall", "close", "p", "ctx", "W:")) for t in tags.split("+"))
            ctx.case("%s|%d" % (tags, M), near or inside)
            ctx.count("lua:" + ("killed" if oc[M] else "done"))
        if ks and oks and max(ks) > min(oks):
            bad_ok = min(oks)
            bad_k = min(M for M in ks if M > bad_ok)
            rep.report(tags, "not-monotone:memory:%s:%d<%d" % (tags, bad_ok, bad_k),
                       "completes with kill.memory=%d but is killed with the larger limit %d" % (bad_ok, bad_k),
                       "c06 lua\n" + wrap(src, bad_k) + "\n-- and with the smaller limit:\n-- " + str(bad_ok),
                       [wrap(src, bad_k), wrap(src, bad_ok)], [runs.get((pid, bad_k)), runs.get((pid, bad_ok))])
    for pid in list(info)[:4]:
        oc = outcome[pid]
        ks = [M for M in oc if oc[M]]
        ctx.sample("program %s: largest killing memory limit tried %s, %d limits" % (info[pid][0], max(ks) if ks else None, len(oc)))


def amplify_leg(ctx, binpath, thorough):
    """one library call with size parameter N under a small memory limit: must end killed (or error), quickly, with
    bounded real allocation"""
    M = 1 << 20
    Ns = [1 << k for k in ((24, 30, 40) if not thorough else (20, 24, 28, 30, 32, 36, 40, 48, 62))]
    batch = []
    for name, expr in AMPLIFY:
        for N in Ns:
            src = ("local N = %d\nlocal function body() local v = %s emit(type(v)) return 'R' end\n" % (N, expr))
            batch.append(("%s:%d" % (name, N), wrap(src, M)))
    res = luaquota.run_batch(binpath, batch, timeout=30)
    for rid, src in batch:
        r = res.get(rid)
        if r is None:
            continue
        name, _, N = rid.rpartition(":")
        ctx.case("amplify|" + rid, True)
        ctx.count("amplify:" + (r.status or r.cls))
        replay = "c06 lua\n" + src
        if r.cls != "ok":
            ctx.violation("amplify-%s:%s" % (r.cls, name), "template %s with N=%s under kill.memory=%d ended with %s (%s)" % (
                name, N, M, r.cls, r.ret), replay)
            continue
        if r.intercepted:
            ctx.violation("kill-intercepted:memory:amplify:" + name, "intercepted in amplification template " + name, replay)
            continue
        if r.umem is not None and r.umem >= M:
            ctx.violation("used-reaches-kill:memory:amplify:" + name, "ctx.used.memory=%d with kill.memory=%d" % (r.umem, M), replay)
        # real allocation: charge-before-allocate means the Go heap cannot have grown by much more than M
        if r.kib > 64 * 1024 + 16 * (M >> 10):
            ctx.violation("allocates-before-charging:%s" % name, "template %s, N=%s: Go TotalAlloc grew by %d KiB under "
                          "kill.memory=%d" % (name, N, r.kib, M), replay)
        ctx.extra.setdefault("amplify_max_alloc_kib", 0)
        ctx.extra["amplify_max_alloc_kib"] = max(ctx.extra["amplify_max_alloc_kib"], r.kib)


def run(ctx):
    ctx.rule = ("case = (generated Lua program, memory limit M) on the real interpreter; non-trivial = M within 2 of the "
                "refined kill threshold, or the kill lands inside a pcall / coroutine / handler wrapper, or an "
                "amplification template; plus context-stack histories as in C07")
    ctx.assumptions = [
        "'Go heap growth <= c*M' is sampled (TotalAlloc delta around amplification templates), not proved",
        "charge-before-allocate is not extracted from the source in this revision (DESIGN 6 (e) fact table not built)",
        "accounted memory is the counter runtime.callcontext reports; its determinism is checked by running every "
        "unlimited program twice",
    ]
    msgs = common.regen(ctx)
    for m in msgs:
        ctx.obligations.append({"name": "translate:" + m.split(":")[0].split(" ")[-1], "ok": False, "axioms": [], "note": m})
    quotaprobes.regen_recover_sites(ctx)
    common.prove(ctx)
    common.build_oracle()
    h = common.build_go("c07", "cmd/c07")
    ctx.log("proofs re-checked; context-stack correspondence")
    if ctx.tier == "thorough":
        ctxlib.flat_leg(ctx, h, ["exh", "3"], "exh3")
        ctxlib.flat_leg(ctx, h, ["rand", "30000"], "rand")
    else:       # a third of the depth-3 enumeration (C07 runs all of it), chosen by the seed
        ctxlib.flat_leg(ctx, h, ["exh", "3", str(ctx.seed % 3), "3"], "exh3/3")
        ctxlib.flat_leg(ctx, h, ["rand", "3000"], "rand")      # cross-context releases need depth >= 4
    # bracketed CallContext trees against Model.CallCtx: the propagation of terminations (inherited flags) is
    # not observable through the public API, only through behaviour
    from . import ctxcall
    ctxcall.call_leg(ctx, h, 20000 if ctx.tier == "thorough" else 4000)
    ctx.log("Lua-level sweep")
    runner = common.build_go("c05", "cmd/c05")
    lua_leg(ctx, runner, 300 if ctx.tier == "thorough" else 40)
    amplify_leg(ctx, runner, ctx.tier == "thorough")
    ctx.log("callback sites, result sizes, load")
    quotaprobes.callback_leg(ctx, runner, "memory")
    quotaprobes.result_size_leg(ctx, runner)
    quotaprobes.load_leg(ctx, runner)
    quotaprobes.vararg_leg(ctx, runner)


def replay(ctx, path):
    txt = open(path).read()
    if "c06 lua\n" in txt:
        src = txt.split("c06 lua\n", 1)[1]
        runner = common.build_go("c05", "cmd/c05")
        res = luaquota.run_batch(runner, [("replay", src)])
        r = res.get("replay")
        print("class:", r.cls, "status:", r.status, "used.cpu:", r.ucpu, "used.memory:", r.umem, "ret:", r.ret)
        print("host trace:", [luaquota.dec(x) for x in r.trace][:60])
        return 1 if (r.intercepted or r.cls != "ok") else 0
    from . import c07
    return c07.replay(ctx, path)
