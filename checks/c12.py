"""C12 — front end.  Theorems: lean/GoluaVerif/Props/C12.lean (parse_render, decode_escape, long_bracket …)
over Spec.Grammar / Model.ParseExp / Model.Literal / Spec.Literal.  Correspondence (harness cmd/c12 drives the
real scanner, parser and ast literal decoding):
  eval   the same trees with numeric-literal leaves: the VALUE golua computes for `return <e>` vs the value of the
         intended tree (oracle: Spec.Num semantics through the C02 oracle functions, exact powers)
  mv     expression lists of every shape (single / multi-valued / parenthesised multi-valued) in every position
         (return, arguments, table fields, assignment, local, for-in): number of values vs Spec.Grammar.explistCount
  badexp corrupted renderings, one token per line: the token golua reports vs Spec.Grammar.firstBad
  fstat  function statements: every name chain (0..3 fields, with/without `:m`, local, global) × parameter list, run inside
         a vararg function (self, fixed parameters, select('#', ...)) and as AST (parameter names, HasDots)
  numeral  numeric literals (c02 harness, literal leg) vs Spec.Numeral.literal
  exp    expression trees × spellings (leaves: names, every primary-expression form, numeric literals): golua's AST vs the generator's tree (level A) and vs Model.ParseExp on
         the same token list (level B); the token list itself is re-derived by Spec.Grammar.render in the oracle
  short/long  literal texts: golua's decoded value vs Model.Literal.decodeShort / decodeLong
  esc    byte strings spelled by Spec.Literal.escape (the function of theorem decode_escape): golua's value vs the bytes
  chunk  valid statement forms in several spellings must be accepted; single-token corruptions whose first
         offending token is known by construction must be reported on that token's line"""
import hashlib
import os
import re
from . import common

BIN_PREC = dict(O=0, A=1, L=2, M=2, G=2, H=2, E=2, N=2, P=3, X=4, B=5, S=6, R=6, C=7, D=8, U=8, T=9, V=9, W=9, Q=9, Y=11)


def q(b):
    out = []
    for c in b:
        if 32 <= c < 127 and c not in (34, 92):
            out.append(chr(c))
        else:
            out.append("\\x%02x" % c)
    return '"' + "".join(out) + '"'


def tree_levels(code):
    return {BIN_PREC[c] if c in BIN_PREC else 10 for c in code if c in BIN_PREC or c in "1234"}


def run_pairs(ctx, lines):
    """lines of kinds exp / eval / mv / short / long from the harness -> compare with the oracle"""
    stripped = [l.split("|")[0] if l.startswith(("exp ", "eval ", "mv ", "badexp ")) else l for l in lines]
    exp = common.run_oracle("c12", stripped)
    if len(exp) != len(lines):
        raise common.BuildError("oracle returned %d lines for %d inputs" % (len(exp), len(lines)))
    for line, e in zip(lines, exp):
        parts = line.split(" ")
        kind = parts[0]
        if e == "bad-line":
            raise common.BuildError("oracle could not parse: " + line[:300])
        if kind == "exp":
            res, srchex, mode = parts[-1].split("|")
            src = bytes.fromhex(srchex)
            if e == "render-mismatch":
                raise common.BuildError("harness renderer disagrees with Spec.Grammar.render on " + line[:300])
            intended = parts[1].replace("'", "")
            ctx.case("exp " + srchex + mode, len(tree_levels(intended)) >= 2)
            ctx.count("exp:" + ("chunk" if mode == "c" else "ParseExp"))
            ctx.count("exp-levels:%d" % len(tree_levels(intended)))
            if e != intended:
                # would falsify theorem parse_render (or the oracle's wiring)
                ctx.violation("model " + parts[1] + " " + parts[2],
                              "Model.ParseExp.parse (render e ps) = %s but e = %s" % (e, intended),
                              "c12 model %s %s\n" % (parts[1], parts[2]), found_input=False)
            if res != intended:
                what = "level A (golua AST vs intended tree)" if res != e or e == intended else "level B"
                ctx.violation("exp " + q(src),
                              "%s: golua parses %s as %s, the grammar (and Model.ParseExp) give %s" % (what, q(src), res, intended),
                              "c12 replay %s s%s\nobserved %s\nexpected %s\n" % ("retsrc" if mode == "c" else "expsrc", srchex, res, intended))
        elif kind == "eval":
            res, srchex = parts[-1].split("|")
            src = bytes.fromhex(srchex)
            if e == "?":
                ctx.count("eval:undecided")  # inexact power / float formatting: the oracle does not answer
                continue
            if res.startswith("f") and res != "fnan":
                bits = int(res[1:], 16)
                if (bits >> 52) & 0x7FF == 0x7FF and bits & ((1 << 52) - 1):
                    res = "fnan"
            intended = parts[1].replace("'", "")
            ctx.case("eval " + srchex, len(tree_levels(intended)) >= 2)
            ctx.count("eval:" + ("error" if e == "E" else "value"))
            if res != e:
                ctx.violation("eval " + q(src),
                              "`return %s` evaluates to %s in golua; the tree %s the grammar assigns to this spelling has the value %s "
                              "(leaves %s)" % (src.decode("latin1"), res, intended, e, parts[2]),
                              "c12 replay evalsrc s%s\nobserved %s\nexpected %s\n" % (srchex, res, e))
        elif kind == "badexp":
            res, srchex, mode = parts[-1].split("|")
            src = bytes.fromhex(srchex)
            ctx.case("badexp " + srchex + mode, e != "ok")
            ctx.count("badexp:" + ("accepted" if e == "ok" else "rejected"))
            if res != e:
                ctx.violation("badexp " + q(src),
                              "tokens %s (one per line, %s): golua %s; the first token no expression continues with "
                              "(Spec.Grammar.firstBad) is %s" % (parts[1], "return <e>" if mode == "c" else "ParseExp",
                                                                 "accepts" if res == "ok" else "reports token " + res,
                                                                 "none (it is an expression)" if e == "ok" else "token " + e),
                              "c12 replay badexp%s s%s\nobserved %s\nexpected %s\n" % (mode, srchex, res, e))
        elif kind == "mv":
            res, cname, form, srchex = parts[-1].split("|")
            ctx.case("mv %s %s %s" % (cname, form, parts[2]), "," in parts[2] or parts[2].startswith("p"))
            ctx.count("mv:" + cname)
            if res != e:
                ctx.violation("mv %s %s %s" % (cname, form, parts[2]),
                              "expression list of shape %s (%s, context %s) delivers %s value(s) in golua; the manual's adjustment "
                              "rule (Spec.Grammar.explistCount) gives %s" % (parts[2], form, cname, res, e),
                              "c12 replay run s%s\nobserved %s\nexpected %s\n" % (srchex, res, e))
        else:
            lit = bytes.fromhex(parts[1][1:])
            got = parts[-1]
            ctx.case(kind + " " + parts[1], (b"\\" in lit) if kind == "short" else True)
            ctx.count(kind + ":" + ("valid" if e != "E" else "malformed"))
            if got != e:
                ctx.violation("%s %s" % (kind, q(lit)),
                              "golua decodes the literal %s as %s, Model.Literal gives %s" % (q(lit), got, e),
                              "c12 replay %s %s\nobserved %s\nexpected %s\n" % (kind, parts[1], got, e))


def run_mvast(ctx, lines):
    """AST marking of multi-valued items in a return list: unparenthesised call / `...` (FunctionCall, Etc) vs
    parenthesised (BFunctionCall, BEtc)"""
    for line in lines:
        _, shape, _, rest = line.split(" ")
        got, form, srchex = rest.split("|")
        want = ",".join(x[0] for x in shape.split(","))
        ctx.case("mvast %s %s" % (form, shape), True)
        ctx.count("mvast")
        if got != want:
            src = bytes.fromhex(srchex)
            ctx.violation("mvast %s %s" % (form, shape),
                          "AST of %s marks its items %s, expected %s (m = multi-valued node, p = truncating node, s = single)" % (q(src), got, want),
                          "c12 replay chunk ok mvast s%s\nobserved %s\nexpected %s\n" % (srchex, got, want))


def run_fstat(ctx, lines):
    """function statements in every name / parameter form: value when called, and AST of the desugared assignment"""
    for line in lines:
        _, want, _, rest = line.split(" ")
        got, form, srchex = rest.split("|")
        ctx.case("fstat " + srchex, True)
        ctx.count("fstat:" + ("ast" if "(" in want else "run"))
        if got != want:
            src = bytes.fromhex(srchex)
            ctx.violation("fstat %s %s" % (form, q(src)),
                          "function statement form %s (kind/chain length+colon/fixed params/vararg): golua gives %s, the manual's "
                          "translation `t.a.b.m = function (self, params) body end` gives %s" % (form, got, want),
                          "c12 replay %s s%s\nobserved %s\nexpected %s\n" % ("fstatast" if "(" in want else "run", srchex, got, want))


def run_literals(ctx):
    """numeric LITERALS (part of this property's statement): the c02 harness' numeral strings, literal leg only,
    against Spec.Numeral.literal (oracle mode c02)"""
    h = common.build_go("c02", "cmd/c02")
    rc, out, err = common.run_harness(h, ["strings", ctx.tier])
    if rc != 0:
        raise common.BuildError("c02 harness (strings) failed: " + err[-2000:])
    lines = [l for l in out.split("\n") if l.startswith("literal ")]
    exp = common.run_oracle("c02", lines)
    if len(exp) != len(lines):
        raise common.BuildError("oracle c02 returned %d lines for %d inputs" % (len(exp), len(lines)))
    for line, e in zip(lines, exp):
        parts = line.split(" ")
        if e == "?":
            ctx.count("numeral:undecided")
            continue
        got = parts[-1]
        lit = bytes.fromhex(parts[1][1:])
        ctx.case("numeral " + parts[1], not lit.isdigit() or len(lit) >= 16)
        ctx.count("numeral:" + ("malformed" if e == "E" else "int" if e.startswith("i") else "float"))
        if got != e:
            ctx.violation("literal " + q(lit),
                          "the chunk `return %s` gives %s in golua, Lua 5.4 (Spec.Numeral.literal) prescribes %s" % (lit.decode("latin1"), got, e),
                          "c12 replay numeral %s\nobserved %s\nexpected %s\n" % (parts[1], got, e))
    ctx.sample(lines[len(lines) // 2] if lines else "(no literal lines)")


def run_chunks(ctx, lines):
    for line in lines:
        _, expect, kind, srchex, _, res = line.split(" ")
        src = bytes.fromhex(srchex[1:])
        want = "ok" if expect == "ok" else "E:" + expect
        ctx.case("chunk " + srchex, kind != "valid" or b"\n" in src or b"--" in src)
        ctx.count("chunk:" + kind.split(":")[0])
        if res != want:
            ctx.violation("chunk %s %s" % (kind, q(src)),
                          "golua answers %s for %s; %s" % (res, q(src), "a valid chunk must be accepted" if expect == "ok" else
                                                           "the first token no valid chunk continues with is on line " +
                                                           (expect.split("@")[0] + " and is `" + bytes.fromhex(expect.split("@")[1]).decode("latin1") + "` (results read line@hex-of-token)"
                                                            if "@" in expect else expect)),
                          "c12 replay chunk %s %s %s\nobserved %s\nexpected %s\n" % (expect, kind, srchex, res, want))


FORMS = "rndmxXuvlckj"


def run_escape(ctx, harness):
    """byte strings spelled by Spec.Literal.escape (oracle `esc`), decoded by golua"""
    rng = common.Rng(ctx.seed ^ 0xE5C)
    n = 6000 if ctx.tier == "quick" else 40000
    pool = [0, 7, 8, 9, 10, 11, 12, 13, 32, 34, 39, 48, 57, 65, 92, 97, 110, 122, 127, 128, 194, 160, 255]
    reqs = []
    for i in range(n):
        ln = rng.below(9)
        bs = bytes(rng.choice(pool) if rng.below(4) else rng.below(256) for _ in range(ln))
        forms = "".join(("Z" if rng.below(8) == 0 else "") + rng.choice(FORMS) for _ in range(ln))
        reqs.append(("'" if rng.below(2) else '"', bs, forms))
    # all bytes × all forms, each followed by a digit / hex letter / newline to stress the context rules
    for b in range(256):
        for f in FORMS:
            reqs.append(('"', bytes([b, rng.choice([48, 57, 102, 10, 32, 92])]), f + rng.choice("rdm")))
    out = common.run_oracle("c12", ["esc %s s%s %s" % (qc, bs.hex(), forms or "-") for qc, bs, forms in reqs])
    lits = []
    for (qc, bs, forms), o in zip(reqs, out):
        lit, dec = o.split(" ")
        if dec != "s" + bs.hex():
            ctx.violation("model esc %s %s" % (bs.hex(), forms),
                          "Model.Literal.decodeShort (Spec.Literal.escape bs choice) = %s but bs = s%s" % (dec, bs.hex()),
                          "c12 model esc %s %s\n" % (bs.hex(), forms), found_input=False)
        lits.append(lit)
    rc, hout, err = common.run_harness(harness, ["stdin"], input="".join("short %s\n" % l for l in lits))
    if rc != 0:
        raise common.BuildError("c12 harness (stdin) failed: " + err[-2000:])
    hl = hout.split("\n")[:-1]
    if len(hl) != len(lits):
        raise common.BuildError("c12 harness returned %d lines for %d literals" % (len(hl), len(lits)))
    for (qc, bs, forms), lit, l in zip(reqs, lits, hl):
        got = l.split(" ")[-1]
        ctx.case("esc " + lit, True)
        ctx.count("esc")
        if got != "s" + bs.hex():
            raw = bytes.fromhex(lit[1:])
            ctx.violation("short " + q(raw), "golua decodes %s as %s, it spells the bytes s%s (Spec.Literal.escape)" % (q(raw), got, bs.hex()),
                          "c12 replay short %s\nobserved %s\nexpected s%s\n" % (lit, got, bs.hex()))
    ctx.sample("esc %s -> %s" % (reqs[0][1].hex(), lits[0]))


def regen_tables(ctx):
    """extract/fronttab: operator tables of ops.go / parser.go / token.go -> Generated/FrontTables.lean"""
    with common.Lock("regen-fronttab"):
        exe = os.path.join(common.BIN, "fronttab")
        os.makedirs(common.BIN, exist_ok=True)
        rc, o = common.sh(["go", "build", "-o", exe, "./fronttab"], cwd=os.path.join(common.ROOT, "extract"),
                          env=common.GOENV, timeout=600)
        if rc != 0:
            raise common.BuildError("building extract/fronttab failed:\n" + o)
        out = os.path.join(common.LEAN, "GoluaVerif", "Generated", "FrontTables.lean")
        rc, o = common.sh([exe, "-repo", common.REPO, "-out", out], timeout=120)
        if rc != 0:
            # the tables could not be read from the tree: the regenerated tie is broken
            ctx.obligations.append({"name": "extract:fronttab", "ok": False, "axioms": [], "note": o[-500:]})
            return
    ctx.generated_hashes["FrontTables.lean"] = hashlib.sha256(open(out, "rb").read()).hexdigest()[:16]


def run(ctx):
    ctx.rule = ("cases = (tree, spelling) | literal text | chunk; non-trivial = tree with operators of ≥ 2 different "
                "binding levels, short literal with an escape, any long bracket, escape-spelled byte string, corrupted chunk "
                "or valid chunk spelled with line breaks/comments; distinct by source text")
    ctx.assumptions = [
        "ast.BinOp lists `l op r1 op r2` of one precedence level denote the left fold (as astcomp/compexp.go compiles them)",
        "error-line cases: the first offending token is known by construction of the corruption (stray closer / illegal "
        "character / keyword where an expression must start; deleted `=`, `then`, `do`, `in`, `,` before a name; deleted "
        "final `end`), not computed from a Lean grammar of statements",
        "statement forms are only checked for acceptance (and error position), their AST shape belongs to C01",
    ]
    regen_tables(ctx)
    common.prove(ctx)
    common.build_oracle()
    h = common.build_go("c12", "cmd/c12")
    rc, out, err = common.run_harness(h, ["all", ctx.tier])
    if rc != 0:
        raise common.BuildError("c12 harness failed: " + err[-2000:])
    lines = out.split("\n")[:-1]
    pairs = [l for l in lines if not l.startswith(("chunk ", "mvast ", "fstat "))]
    chunks = [l for l in lines if l.startswith("chunk ")]
    run_pairs(ctx, pairs)
    run_chunks(ctx, chunks)
    run_mvast(ctx, [l for l in lines if l.startswith("mvast ")])
    run_fstat(ctx, [l for l in lines if l.startswith("fstat ")])
    run_escape(ctx, h)
    run_literals(ctx)
    for l in pairs[:: max(1, len(pairs) // 8)][:8] + chunks[:: max(1, len(chunks) // 3)][:3]:
        ctx.sample(l[:300])
    ctx.extra["harness_lines"] = len(lines)


def replay(ctx, path):
    h = common.build_go("c12", "cmd/c12")
    common.build_oracle()
    for line in open(path):
        if line.startswith("c12 replay numeral "):
            h2 = common.build_go("c02", "cmd/c02")
            rc, out, err = common.run_harness(h2, ["replay", "literal", line.split()[3]])
            print(out.strip())
            print("expected", common.run_oracle("c02", [out.strip()])[0])
        elif line.startswith("c12 replay "):
            f = line.split()[2:]
            rc, out, err = common.run_harness(h, ["stdin"], input=" ".join(f) + "\n")
            print(out.strip())
            if f[0] in ("short", "long"):
                print("expected", common.run_oracle("c12", [out.strip()])[0])
        elif line.startswith("c12 model "):
            f = line.split()[2:]
            if f[0] == "esc":
                print(common.run_oracle("c12", ["esc \" s%s %s" % (f[1], f[2])])[0])
            else:
                print(common.run_oracle("c12", ["exp %s %s = ?" % (f[0], f[1])])[0])
        elif line.startswith(("observed", "expected")):
            print("(recorded) " + line.strip())
    return 0
