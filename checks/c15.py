"""C15 — Lua patterns.

Theorems: lean/GoluaVerif/Props/C15*.lean over Spec.LuaPattern (the manual), Model.ByteSet /
PatBuild / PatMatch / Gsub (hand-written mirrors of lib/stringlib/pattern/*.go and matching.go) and
Generated.ByteSetTable (the named byte sets, regenerated from byteset.go by extract/bytesets).

Correspondence: harness/cmd/c15 drives pattern.New / MatchFromStart / Match (Go) and string.find /
match / gmatch / gsub (compiled Lua) on every pattern of up to N tokens x every subject x every
start position, plus seeded longer ones; oracle mode c15 prints the Spec's answer (level A) and the
mirror's answer (level B) for the same lines.

A level-A disagreement is a failing input.  It is attributed to a *known* defect family only when the
implementation still behaves exactly like the mirror (level B agrees) AND the family's predicate over
the input holds; everything else is an unlisted violation.  A level-B disagreement means the mirror
(and hence the theorems) no longer describe the code.
"""
import multiprocessing
import os
import hashlib
import subprocess

from . import common

TMP = os.path.join(common.BUILD, "tmp", "c15")
FIELDS = ("new", "mfs", "m", "find", "findp", "match", "gmatch", "gsub", "gsub2")
MAX_EXAMPLES_PER_FAMILY = 6


# ---------------------------------------------------------------------------
# attribution of level-A disagreements to known defect families

def classify(field, p, s, init, impl, a, flags):
    """Name of the known defect family that explains impl != a on this field, or None."""
    if field in ("gsub", "gsub2"):
        tag = "" if field == "gsub" else "2"
        if ("rej" + tag) in flags:
            return "gsub-count-rejected-empty"
        return None
    return None


# ---------------------------------------------------------------------------
# one shard: harness -> file, oracle -> file, compare

def parse_fields(tokens):
    d = {}
    for t in tokens:
        k, _, v = t.partition("=")
        d[k] = v
    return d


def unhex(h):
    return "" if h == "-" else bytes.fromhex(h).decode("latin1")


def show(sx):
    return repr(sx)[1:-1].replace(" ", "\\x20")


def compare_files(impl_path, oracle_path, label):
    """Returns a dict of aggregated results (picklable)."""
    res = {"n": 0, "hist": {}, "nontrivial": set(), "samples": [], "known": {}, "unlisted": [], "btie": [], "label": label,
           "bad": None}
    hist = res["hist"]

    def count(k, n=1):
        hist[k] = hist.get(k, 0) + n

    with open(impl_path) as fi, open(oracle_path) as fo:
        for line in fi:
            oline = fo.readline()
            line = line.rstrip("\n")
            oline = oline.rstrip("\n")
            if not oline or oline == "bad-line":
                res["bad"] = "oracle could not handle: " + line[:200]
                return res
            inp, _, impl = line.partition(" = ")
            parts = inp.split(" ")
            if parts[0] == "R":
                ph, sh, rh = parts[1:4]
                p, s, init = unhex(ph), unhex(sh), 1
                case_id = "gsub-repl p=%s s=%s r=%s" % (show(p), show(s), show(unhex(rh)))
                replay = "c15 replay-repl %s %s %s" % (ph, sh, rh)
                kind = "repl"
            else:
                ph, sh, init_s = parts
                p, s, init = unhex(ph), unhex(sh), int(init_s)
                case_id = "p=%s s=%s init=%d" % (show(p), show(s), init)
                replay = "c15 replay %s %s %d" % (ph, sh, init)
                kind = "case"
            I = parse_fields(impl.split(" "))
            ot = oline.split(" ")
            try:
                ia, ib, ix = ot.index("A"), ot.index("B"), ot.index("X")
            except ValueError:
                res["bad"] = "oracle output malformed: " + oline[:200]
                return res
            A = parse_fields(ot[ia + 1:ib])
            B = parse_fields(ot[ib + 1:ix])
            X = parse_fields(ot[ix + 1:])
            flags = X.get("flags", "-").split(",")
            res["n"] += 1
            count(label + ":" + kind)
            if X.get("nt") == "1":
                res["nontrivial"].add(hashlib.blake2b(inp.encode(), digest_size=8).digest())
            if I.get("new") not in (None, "ok"):
                count("pattern-error:" + I["new"])
            for k, v in I.items():
                b = B.get(k)
                b_ok = (b == v)
                if v == "P":
                    count("go-panic-escaped:" + k)
                a = A.get(k)
                if a is None:
                    res["bad"] = "oracle has no field %s for: %s" % (k, line[:200])
                    return res
                if a == "?":
                    count("manual-leaves-open:" + k)
                    a_ok = True
                    va = v
                else:
                    va = v
                    if k in ("mfs", "m") and v != "-":
                        va = v.split("/")[0]
                    elif k == "new":
                        va = "ok" if v == "ok" else "err"
                    a_ok = (a == va)
                if a_ok and b_ok:
                    continue
                text = "%s\nfield %s\nobserved  %s\nexpected  %s   (Spec.LuaPattern, level A)\nmirror    %s   (Model, level B)\n" % (
                    replay, k, v, a, b)
                if not a_ok:
                    fam = classify(k, p, s, init, va, a, flags) if b_ok else None
                    if fam:
                        e = res["known"].setdefault(fam, [0, []])
                        e[0] += 1
                        if len(e[1]) < MAX_EXAMPLES_PER_FAMILY:
                            e[1].append(("%s:%s:%s" % (fam, k, case_id),
                                         "golua returns %s for %s, the manual prescribes %s" % (v, k, a), text))
                    else:
                        if len(res["unlisted"]) < 200:
                            res["unlisted"].append(("mismatch:%s:%s" % (k, case_id),
                                                    "golua returns %s for %s, the manual prescribes %s%s" % (
                                                        v, k, a, "" if b_ok else " (and the mirror computes %s)" % b), text))
                elif not b_ok:
                    if len(res["btie"]) < 200:
                        res["btie"].append(("model-mismatch:%s:%s" % (k, case_id),
                                            "the mirror Model.PatBuild/PatMatch/Gsub computes %s for %s, golua returns %s: the "
                                            "theorems of Props/C15 no longer describe this code (level A still agrees)" % (b, k, v), text))
            if len(res["samples"]) < 3 and X.get("nt") == "1":
                res["samples"].append(line[:300])
    return res


def run_shard(args):
    harness, hargs, label, idx = args
    os.makedirs(TMP, exist_ok=True)
    impl_path = os.path.join(TMP, "impl-%s-%d.txt" % (label, idx))
    out_path = os.path.join(TMP, "oracle-%s-%d.txt" % (label, idx))
    env = dict(os.environ)
    env.setdefault("GOMEMLIMIT", "4GiB")
    with open(impl_path, "w") as f:
        p = subprocess.run([harness] + hargs, stdout=f, stderr=subprocess.PIPE, env=env, timeout=7200)
    if p.returncode != 0:
        return {"bad": "c15 harness %s failed rc=%d: %s" % (" ".join(hargs), p.returncode, p.stderr.decode("utf8", "replace")[-1500:])}
    with open(impl_path) as fi, open(out_path, "w") as fo:
        p = subprocess.run([common.ORACLE, "c15"], stdin=fi, stdout=fo, stderr=subprocess.PIPE, timeout=7200)
    if p.returncode != 0:
        return {"bad": "oracle c15 failed rc=%d: %s" % (p.returncode, p.stderr.decode("utf8", "replace")[-1500:])}
    r = compare_files(impl_path, out_path, label)
    for fn in (impl_path, out_path):
        try:
            os.remove(fn)
        except OSError:
            pass
    return r


def merge(ctx, r, known_total):
    if r.get("bad"):
        raise common.BuildError(r["bad"])
    ctx.evaluations += r["n"]
    ctx.nontrivial |= r["nontrivial"]
    for k, v in r["hist"].items():
        ctx.count(k, v)
    for s in r["samples"]:
        ctx.sample(s)
    for fam, (n, exs) in r["known"].items():
        known_total[fam] = known_total.get(fam, 0) + n
        have = sum(1 for v in ctx.violations if v.key.startswith(fam + ":"))
        for key, desc, text in exs:
            if have >= MAX_EXAMPLES_PER_FAMILY:
                break
            ctx.violation(key, desc, text)
            have += 1
    for key, desc, text in r["unlisted"]:
        ctx.violation(key, desc, text)
    for key, desc, text in r["btie"]:
        ctx.violation(key, desc, text, found_input=False)


def regen_bytesets(ctx):
    """extract/bytesets: regenerate Generated/ByteSetTable.lean from byteset.go / builder.go."""
    with common.Lock("regen"):
        exe = os.path.join(common.BIN, "bytesets")
        os.makedirs(common.BIN, exist_ok=True)
        rc, o = common.sh(["go", "build", "-o", exe, "./bytesets"], cwd=os.path.join(common.ROOT, "extract"), env=common.GOENV, timeout=600)
        if rc != 0:
            raise common.BuildError("building extract/bytesets failed:\n" + o)
        outdir = os.path.join(common.LEAN, "GoluaVerif", "Generated")
        rc, o = common.sh([exe, "-repo", common.REPO, "-out", outdir], timeout=600)
    msgs = [l for l in o.splitlines() if l.startswith("UNTRANSLATABLE")]
    if rc not in (0, 3):
        raise common.BuildError("extract/bytesets failed rc=%d:\n%s" % (rc, o))
    fn = os.path.join(outdir, "ByteSetTable.lean")
    if os.path.exists(fn):
        ctx.generated_hashes["ByteSetTable.lean"] = hashlib.sha256(open(fn, "rb").read()).hexdigest()[:16]
    return msgs


def budget_check(ctx, h):
    """CPU accounting: the units golua charges must cover the number of machine steps the mirror performs
    (Props.C15.work_le_budget: steps + bytes consumed + bytes compared = used), up to the few units the VM
    itself charges for the call."""
    for k, n in ((50, 400), (200, 2000)):
        rc, out, err = common.run_harness(h, ["budget", str(k), str(n)])
        if rc != 0:
            raise common.BuildError("c15 harness budget failed: " + err[-1500:])
        line = out.strip()
        exp = common.run_oracle("c15", [line])[0]
        I = parse_fields(line.partition(" = ")[2].split(" "))
        B = parse_fields(exp.split(" ")[1:])
        cpu, steps, used = int(I["cpu"]), int(B["steps"]), int(B["used"])
        ctx.evaluations += 1
        ctx.count("budget")
        ctx.extra.setdefault("cpu_accounting", []).append({"k": k, "n": n, "cpu_charged": cpu, "model_steps": steps,
                                                           "model_used": used, "wall_us": int(I["wall_us"])})
        if not (steps <= used <= cpu <= used + 64):
            ctx.violation("cpu-accounting:k=%d:n=%d" % (k, n),
                          "string.find(('b'):rep(%d), ('a?'):rep(%d)..'c'): mirror performs %d steps and charges %d units, "
                          "golua charged %d CPU units (expected mirror's charge plus at most 64 for the call itself)" % (
                              n, k, steps, used, cpu),
                          "c15 budget %d %d\nobserved cpu=%d\nmirror steps=%d used=%d\n" % (k, n, cpu, steps, used))


def run(ctx):
    ctx.rule = ("case = (pattern, subject, init) run through pattern.New/MatchFromStart/Match and string.find/match/gmatch/"
                "gsub; all token patterns up to the tier's bound x all subjects over {a,b,(,)} x all start positions, a "
                "seeded slice of longer ones, random long ones; non-trivial = the pattern has a quantifier or a capture "
                "and the mirror machine backtracks at least once on it; distinct by canonical input text")
    ctx.assumptions = [
        "Spec.LuaPattern follows the manual; where the manual is silent the reference lstrlib.c 5.4 behaviour is taken "
        "(position capture back-references never match; init beyond #s+1 answers nil before the pattern is examined); "
        "'%' + alphanumeric non-class, [%a-z], [a-%d], []-x], '^' in gmatch are left open (level A skipped)",
        "at most 9 captures (golua's limit; reference: 32) and at most 10000 items are implementation limits, not in the manual",
        "error classes are compared, not message texts; at level B the builder's error kind is compared",
        "CPU accounting is compared as an inequality (charged units vs mirror steps), not an equality",
    ]
    msgs = common.regen(ctx) + regen_bytesets(ctx)
    common.write_root()
    for m in msgs:
        if "ByteSetTable" in m:
            ctx.obligations.append({"name": "translate:" + m.split(":")[0].split(" ")[-1], "ok": False, "axioms": [], "note": m})
    ctx.log("regenerated")
    common.prove(ctx)
    ctx.log("theorems re-checked")
    common.build_oracle()
    h = common.build_go("c15", "cmd/c15")
    ctx.log("oracle and harness built")
    nproc = min(12, os.cpu_count() or 4)
    jobs = []
    if ctx.tier == "quick":
        nsh = nproc
        # all patterns of <= 2 tokens (full) and a seeded 0.6 % slice of the 3-token ones, subjects up to length 3
        for i in range(nsh):
            jobs.append((h, ["enum", "3", "3", str(i), str(nsh), "6"], "enum3x3", i))
        for i in range(4):
            jobs.append((h, ["random", "25000", str(i)], "random", i))
        jobs.append((h, ["sets", "120"], "sets", 0))
    else:
        nsh = nproc * 4
        for i in range(nsh):
            jobs.append((h, ["enum", "3", "3", str(i), str(nsh), "1000"], "enum3x3-full", i))
        for i in range(nsh):
            jobs.append((h, ["enum", "4", "4", str(i), str(nsh), "1"], "enum4x4-slice", i))
        for i in range(16):
            jobs.append((h, ["random", "200000", str(i)], "random", i))
        for i in range(16):
            jobs.append((h, ["sets", "250", str(i)], "sets", i))
    jobs.append((h, ["repl"], "repl", 0))
    known_total = {}
    with multiprocessing.Pool(nproc) as pool:
        for r in pool.imap_unordered(run_shard, jobs):
            merge(ctx, r, known_total)
    ctx.log("correspondence done")
    for fam, n in sorted(known_total.items()):
        ctx.count("known-family:" + fam, n)
    ctx.extra["exhaustive"] = ctx.tier != "quick"
    ctx.extra["exhaustive_domain"] = ("all patterns of <= %s tokens over %d tokens x all subjects of length <= 3 over "
                                     "{a,b,(,)} x inits 1..#s+2,-1,0,#s+4" % ("2 (3: seeded slice)" if ctx.tier == "quick" else "3", 29))
    budget_check(ctx, h)


def replay(ctx, path):
    h = common.build_go("c15", "cmd/c15")
    common.build_oracle()
    for line in open(path):
        if line.startswith("c15 replay "):
            args = line.split()[2:]
            rc, out, err = common.run_harness(h, ["replay"] + args)
            print("observed", out.strip())
            print("expected", common.run_oracle("c15", [out.strip()])[0])
        elif line.startswith("c15 replay-repl "):
            args = line.split()[2:]
            rc, out, err = common.run_harness(h, ["replay-repl"] + args)
            print("observed", out.strip())
            print("expected", common.run_oracle("c15", [out.strip()])[0])
        elif line.startswith("c15 budget "):
            args = line.split()[2:]
            rc, out, err = common.run_harness(h, ["budget"] + args)
            print("observed", out.strip())
            print("mirror  ", common.run_oracle("c15", [out.strip()])[0])
    return 0
