"""Shared machinery for ./check: building, regenerating, auditing proofs, running the
correspondence, deciding, and writing evidence.  Python 3 stdlib only."""
import fcntl
import threading
import hashlib
import json
import os
import re
import subprocess
import sys
import time

ROOT = os.path.dirname(os.path.dirname(os.path.abspath(__file__)))
REPO = os.environ.get("VERIF_REPO", "/repo")
LEAN = os.path.join(ROOT, "lean")
BUILD = os.path.join(ROOT, ".build")
BIN = os.path.join(BUILD, "bin")
REPLAYS = os.path.join(ROOT, "replays")
# mutation trials (VERIF_REPO != /repo) must never overwrite the committed evidence or replays
EVIDENCE = os.path.join(ROOT, "evidence") if REPO == "/repo" else os.path.join(BUILD, "evidence-mut")
ORACLE = os.path.join(LEAN, ".lake", "build", "bin", "oracle")

MAX_VIOLATION_LINES = 10
ALLOWED_AXIOMS = {"propext", "Classical.choice", "Quot.sound"}
FORBIDDEN_RE = re.compile(
    r"\b(sorry|admit|native_decide|bv_decide|implemented_by|maxHeartbeats\s+0)\b|^\s*axiom\s|\bunsafe\s")

GOENV = dict(os.environ, GOFLAGS="-mod=mod", GOPROXY="off", GOSUMDB="off", GOTOOLCHAIN="local",
             CGO_ENABLED=os.environ.get("CGO_ENABLED", "1"))
LDFLAGS = "-checklinkname=0"

TRUSTED_BASE = [
    "Lean 4.33.0 kernel (axioms per theorem listed under coverage.axioms)",
    "extract/golean (Go->Lean translator) and the fact extractors in extract/",
    "harness/ generators and canonicalisers, checks/*.py, the line-protocol parsers in lean/Oracle",
    "Go toolchain 1.23.5 / amd64 hardware semantics where the model takes them as parameters",
]


def sh(cmd, cwd=None, env=None, timeout=None, input=None):
    """Run a command, return (rc, stdout+stderr)."""
    try:
        p = subprocess.run(cmd, cwd=cwd, env=env, timeout=timeout, input=input,
                           stdout=subprocess.PIPE, stderr=subprocess.STDOUT, text=True, errors="replace")
        return p.returncode, p.stdout
    except subprocess.TimeoutExpired as e:
        out = e.stdout if isinstance(e.stdout, str) else (e.stdout or b"").decode("utf8", "replace")
        return 124, out + "\n[timeout]"


class Lock:
    """Serialises build steps between concurrently running checks (several checks may be started in parallel in
    the same /verif).  Everything that writes or reads the Lean tree — the regenerators (`regen*`) and `lake` —
    shares ONE lock, so that no check ever builds while another rewrites a generated file; Go binaries have one
    lock each.  Re-entrant within a process (threads included)."""

    _state = {}          # path -> [threading.RLock, depth, file]
    _guard = threading.Lock()

    def __init__(self, name):
        os.makedirs(BUILD, exist_ok=True)
        if name == "lake" or name.startswith("regen"):
            name = "leantree"
        self.path = os.path.join(BUILD, name + ".lock")

    def __enter__(self):
        with Lock._guard:
            st = Lock._state.setdefault(self.path, [threading.RLock(), 0, None])
        st[0].acquire()
        if st[1] == 0:
            st[2] = open(self.path, "w")
            fcntl.flock(st[2], fcntl.LOCK_EX)
        st[1] += 1
        return self

    def __exit__(self, *a):
        st = Lock._state[self.path]
        st[1] -= 1
        if st[1] == 0:
            fcntl.flock(st[2], fcntl.LOCK_UN)
            st[2].close()
            st[2] = None
        st[0].release()


class Violation:
    def __init__(self, key, desc, replay_text, found_input=True):
        self.key = key  # canonical, stable identification of the failing input / theorem
        self.desc = desc
        self.replay_text = replay_text
        self.found_input = found_input


class Ctx:
    def __init__(self, prop, tier, seed):
        self.prop = prop
        self.tier = tier
        self.seed = seed
        self.t0 = time.time()
        self.obligations = []  # dicts {name, ok, axioms, note}
        self.evaluations = 0
        self.nontrivial = set()
        self.rule = ""
        self.samples = []
        self.histogram = {}
        self.violations = []
        self.assumptions = []
        self.notes = []
        self.extra = {}
        self.generated_hashes = {}
        self.checker_cmd = ""

    # ---- bookkeeping -------------------------------------------------
    def count(self, bucket, n=1):
        self.histogram[bucket] = self.histogram.get(bucket, 0) + n

    def case(self, canon, nontrivial):
        """Record one compared case; `canon` is its canonical text."""
        self.evaluations += 1
        if nontrivial:
            self.nontrivial.add(hashlib.blake2b(canon.encode("utf8", "replace"), digest_size=8).digest())

    def sample(self, s, limit=12):
        if len(self.samples) < limit:
            self.samples.append(s)

    def violation(self, key, desc, replay_text, found_input=True):
        for v in self.violations:
            if v.key == key:
                return
        self.violations.append(Violation(key, desc, replay_text, found_input))

    def log(self, msg):
        print("[%s %6.1fs] %s" % (self.prop, time.time() - self.t0, msg), flush=True)


# ---------------------------------------------------------------------------
# building

def build_go(name, pkgdir, tags=("verif",), race=False, module="harness"):
    """go build ./<pkgdir> in /verif/<module> -> .build/bin/<name>.  Rebuilds from /repo's working tree
    (module replace => /repo); Go's build cache makes unchanged rebuilds ~1 s."""
    os.makedirs(BIN, exist_ok=True)
    out = os.path.join(BIN, name)
    moddir = os.path.join(ROOT, module)
    if module == "harness":
        sync_gosum()
    tmp = out + ".new.%d" % os.getpid()
    cmd = ["go", "build", "-ldflags=" + LDFLAGS, "-o", tmp]
    if REPO != "/repo" and module == "harness":
        # mutation trials: build against another tree (VERIF_REPO) without touching /repo or go.mod
        alt = os.path.join(BUILD, "harness.alt.mod")
        txt = open(os.path.join(moddir, "go.mod")).read().replace("=> /repo", "=> " + REPO)
        open(alt, "w").write(txt)
        try:
            open(os.path.join(BUILD, "harness.alt.sum"), "w").write(open(os.path.join(REPO, "go.sum")).read())
        except OSError:
            pass
        cmd += ["-modfile=" + alt]
    if tags:
        cmd += ["-tags", ",".join(tags)]
    if race:
        cmd += ["-race"]
    cmd += ["./" + pkgdir]
    with Lock("go-" + name):
        # built next to the target and renamed over it: a check running in parallel (C01/C11 and C05/C06/C07
        # share a harness) never finds the binary missing or half written
        rc, o = sh(cmd, cwd=moddir, env=GOENV, timeout=900)
        if rc == 0:
            os.replace(tmp, out)
        else:
            for f in (tmp, out):     # a tree that no longer builds must not leave a stale binary behind
                try:
                    os.remove(f)
                except OSError:
                    pass
    if rc != 0:
        raise BuildError("go build %s failed:\n%s" % (name, o))
    return out


def sync_gosum():
    src = os.path.join(REPO, "go.sum")
    dst = os.path.join(ROOT, "harness", "go.sum")
    try:
        s = open(src).read()
        if not os.path.exists(dst) or open(dst).read() != s:
            open(dst, "w").write(s)
    except OSError:
        pass


class BuildError(Exception):
    pass


def regen(ctx=None):
    """Regenerate lean/GoluaVerif/Generated/*.lean from /repo.  Returns list of UNTRANSLATABLE messages."""
    with Lock("regen"):
        golean = os.path.join(BIN, "golean")
        os.makedirs(BIN, exist_ok=True)
        rc, o = sh(["go", "build", "-o", golean, "./golean"], cwd=os.path.join(ROOT, "extract"), env=GOENV, timeout=600)
        if rc != 0:
            raise BuildError("building golean failed:\n" + o)
        outdir = os.path.join(LEAN, "GoluaVerif", "Generated")
        rc, o = sh([golean, "-repo", REPO, "-spec", os.path.join(ROOT, "extract", "spec.json"), "-out", outdir],
                   timeout=600)
    msgs = [l for l in o.splitlines() if l.startswith("UNTRANSLATABLE")]
    if rc not in (0, 3):
        raise BuildError("golean failed rc=%d:\n%s" % (rc, o))
    if ctx is not None:
        for fn in sorted(os.listdir(outdir)):
            if fn.endswith(".lean"):
                txt = open(os.path.join(outdir, fn)).read()
                ctx.generated_hashes[fn] = hashlib.sha256(txt.encode()).hexdigest()[:16]
    return msgs


FACTS_JSON = os.path.join(BUILD, "facts.json")


def gofacts(ctx=None):
    """Run the fact extractor extract/gofacts on REPO: rewrites Generated/{Compliance,CallGraph,Globals}.lean and
    .build/facts.json (registrations + declared flags, call graph, certificate, package-level variable writers).
    Returns the parsed facts."""
    with Lock("regen"):
        exe = os.path.join(BIN, "gofacts")
        os.makedirs(BIN, exist_ok=True)
        rc, o = sh(["go", "build", "-o", exe, "./gofacts"], cwd=os.path.join(ROOT, "extract"), env=GOENV, timeout=900)
        if rc != 0:
            raise BuildError("building gofacts failed:\n" + o)
        outdir = os.path.join(LEAN, "GoluaVerif", "Generated")
        for fn in ("Compliance.lean", "CallGraph.lean", "Globals.lean"):
            try:
                os.remove(os.path.join(outdir, fn))
            except OSError:
                pass
        try:
            os.remove(FACTS_JSON)
        except OSError:
            pass
        rc, o = sh([exe, "-repo", REPO, "-out", outdir, "-json", FACTS_JSON], env=GOENV, timeout=900)
        if rc != 0:
            raise BuildError("gofacts failed rc=%d:\n%s" % (rc, o[-3000:]))
        facts = json.load(open(FACTS_JSON))
    if ctx is not None:
        for fn in ("Compliance.lean", "CallGraph.lean", "Globals.lean"):
            txt = open(os.path.join(outdir, fn)).read()
            ctx.generated_hashes[fn] = hashlib.sha256(txt.encode()).hexdigest()[:16]
        ctx.log(o.strip().splitlines()[-1] if o.strip() else "gofacts done")
    return facts


def write_root():
    """lean/GoluaVerif.lean imports every module of the library (so `lake build GoluaVerif` checks all of it)."""
    mods = []
    base = os.path.join(LEAN, "GoluaVerif")
    for d, _, fs in os.walk(base):
        if os.path.basename(d) == "AuditRun":
            continue
        for f in fs:
            if f.endswith(".lean"):
                rel = os.path.relpath(os.path.join(d, f), LEAN)[:-5]
                mods.append(rel.replace(os.sep, "."))
    txt = "".join("import %s\n" % m for m in sorted(mods))
    path = os.path.join(LEAN, "GoluaVerif.lean")
    if not os.path.exists(path) or open(path).read() != txt:
        open(path, "w").write(txt)


def lake_build(targets, timeout=3000):
    with Lock("lake"):
        rc, o = sh(["lake", "build"] + list(targets), cwd=LEAN, timeout=timeout)
    return rc, o


LAKE_ORACLE = ORACLE


def build_oracle():
    """lake build oracle, then a private copy of the executable for this run: another check started in parallel may
    relink .lake/build/bin/oracle (lake removes the file while doing so) while this one is still using it."""
    global ORACLE
    import atexit
    import shutil
    with Lock("lake"):
        rc, o = sh(["lake", "build", "oracle"], cwd=LEAN, timeout=3000)
        if rc != 0:
            raise BuildError("lake build oracle failed:\n" + o[-4000:])
        os.makedirs(BIN, exist_ok=True)
        for f in os.listdir(BIN):       # copies left behind by runs that were killed
            m = re.fullmatch(r"oracle\.(\d+)(\.tmp)?", f)
            if m and not os.path.exists("/proc/" + m.group(1)):
                try:
                    os.remove(os.path.join(BIN, f))
                except OSError:
                    pass
        mine = os.path.join(BIN, "oracle.%d" % os.getpid())
        shutil.copy2(LAKE_ORACLE, mine + ".tmp")
        os.replace(mine + ".tmp", mine)
    if ORACLE == LAKE_ORACLE:
        atexit.register(lambda: os.path.exists(mine) and os.remove(mine))
    ORACLE = mine
    return ORACLE


def theorem_names(path):
    """(name, line) of every `theorem` in a Lean file (top-level, outside comments)."""
    out = []
    depth = 0
    for i, line in enumerate(open(path), 1):
        s = line
        # crude block comment tracking
        j = 0
        while j < len(s):
            if s.startswith("/-", j):
                depth += 1
                j += 2
            elif s.startswith("-/", j) and depth > 0:
                depth -= 1
                j += 2
            else:
                j += 1
        if depth == 0:
            m = re.match(r"\s*(?:@\[[^\]]*\]\s*)?(?:private\s+|protected\s+)?theorem\s+([^\s:({\[]+)", line)
            if m:
                out.append((m.group(1), i))
    return out


def forbidden_scan(paths):
    """grep for sorry/admit/axiom/native_decide/... outside comments.  Returns list of 'file:line: text'."""
    hits = []
    for p in paths:
        depth = 0
        for i, line in enumerate(open(p), 1):
            code = ""
            j = 0
            while j < len(line):
                if line.startswith("/-", j):
                    depth += 1
                    j += 2
                elif line.startswith("-/", j) and depth > 0:
                    depth -= 1
                    j += 2
                elif depth == 0 and line.startswith("--", j):
                    break
                else:
                    if depth == 0:
                        code += line[j]
                    j += 1
            if FORBIDDEN_RE.search(code):
                hits.append("%s:%d: %s" % (os.path.relpath(p, ROOT), i, line.strip()))
    return hits


def lean_sources_for(prop):
    """All hand-written Lean files (the forbidden-word scan covers the whole library)."""
    out = []
    for d, _, fs in os.walk(os.path.join(LEAN, "GoluaVerif")):
        for f in fs:
            if f.endswith(".lean"):
                out.append(os.path.join(d, f))
    for d, _, fs in os.walk(os.path.join(LEAN, "Oracle")):
        for f in fs:
            if f.endswith(".lean"):
                out.append(os.path.join(d, f))
    return sorted(out)


def props_files(prop):
    """Props/<prop>.lean plus Props/<prop>_*.lean (a property's theorems may be split over several files)."""
    d = os.path.join(LEAN, "GoluaVerif", "Props")
    out = []
    for f in sorted(os.listdir(d)):
        if f == prop + ".lean" or (f.startswith(prop + "_") and f.endswith(".lean")):
            out.append(f[:-5])
    return out


def prove(ctx, allowed_extra_axioms=()):
    """Re-check every theorem of GoluaVerif.Props.<prop>[_*] against the regenerated definitions.
    Fills ctx.obligations.  Returns True iff all discharged with allowed axioms only."""
    prop = ctx.prop
    stems = props_files(prop)
    modules = ["GoluaVerif.Props." + s for s in stems]
    ctx.checker_cmd = "lake build %s && lake env lean GoluaVerif/AuditRun/%s.lean  (#print axioms on every theorem)" % (
        " ".join(modules), prop)
    hits = forbidden_scan(lean_sources_for(prop))
    ok_all = True
    built = []
    for stem, module in zip(stems, modules):
        relpath = os.path.join("GoluaVerif", "Props", stem + ".lean")
        names = theorem_names(os.path.join(LEAN, relpath))
        rc, out = lake_build([module])
        if rc == 0:
            built.append((stem, module, names))
            continue
        ok_all = False
        # find which theorems of this file fail; errors elsewhere (imports) fail all of them
        rc2, out2 = sh(["lake", "env", "lean", relpath], cwd=LEAN, timeout=3000)
        errs = re.findall(r"^(\S+?):(\d+):(\d+): error", out2, re.M)
        import_broken = ("unknown module prefix" in out2 or "object file" in out2 or
                         re.search(r"error: .*(does not exist|failed to build|no such file)", out2) is not None)
        errlines = sorted(int(l) for f, l, c in errs if f.endswith(stem + ".lean"))
        if (not errs and rc2 != 0) or any(not f.endswith(stem + ".lean") for f, l, c in errs):
            import_broken = True
        for idx, (n, ln) in enumerate(names):
            nxt = names[idx + 1][1] if idx + 1 < len(names) else 10 ** 9
            bad = import_broken or any(ln <= e < nxt for e in errlines)
            ctx.obligations.append({"name": n, "ok": not bad, "axioms": [],
                                    "note": "does not elaborate against the regenerated definitions" if bad else
                                    "elaborates (axioms not audited because the module as a whole failed)"})
        ctx.notes.append("lake build %s failed:\n%s" % (module, (out if import_broken else out2)[-3000:]))
    if built:
        adir = os.path.join(LEAN, "GoluaVerif", "AuditRun")
        os.makedirs(adir, exist_ok=True)
        afile = os.path.join(adir, prop + ".lean")
        txt = "import GoluaVerif.Audit\n" + "".join("import %s\n" % m for _, m, _ in built) + \
              "".join("#audit_module %s\n" % m for _, m, _ in built)
        if not os.path.exists(afile) or open(afile).read() != txt:
            open(afile, "w").write(txt)
        with Lock("lake"):   # reads the .olean files another check's build may be replacing
            rc, out = sh(["lake", "env", "lean", os.path.join("GoluaVerif", "AuditRun", prop + ".lean")], cwd=LEAN, timeout=1800)
        seen = {}
        for m in re.finditer(r"AUDIT (\S+) \[(.*)\]\s*$", out, re.M):
            ax = [a.strip() for a in m.group(2).split(",") if a.strip()]
            seen[m.group(1).split(".")[-1]] = ax
        allowed = ALLOWED_AXIOMS | set(allowed_extra_axioms)
        if rc != 0:
            ok_all = False
            ctx.notes.append("audit failed:\n" + out[-2000:])
        for stem, module, names in built:
            for n, ln in names:
                short = n.split(".")[-1]
                if short not in seen:
                    ctx.obligations.append({"name": n, "ok": False, "axioms": [], "note": "not found by the audit"})
                    ok_all = False
                    continue
                bad = [a for a in seen[short] if a not in allowed]
                ctx.obligations.append({"name": n, "ok": not bad, "axioms": seen[short],
                                        "note": ("disallowed axioms: " + ",".join(bad)) if bad else ""})
                if bad:
                    ok_all = False
    if hits:
        ctx.notes.append("forbidden constructs found:\n" + "\n".join(hits))
        ctx.obligations.append({"name": "no_sorry_axiom_native_decide_scan", "ok": False, "axioms": [], "note": "; ".join(hits[:5])})
        ok_all = False
    else:
        ctx.obligations.append({"name": "no_sorry_axiom_native_decide_scan", "ok": True, "axioms": [], "note": "grep over lean/**/*.lean"})
    if ctx.tier == "thorough":
        for stem, module, names in built:
            with Lock("lake"):
                rc, out = sh(["lake", "env", "leanchecker", module], cwd=LEAN, timeout=3000)
            ctx.obligations.append({"name": "leanchecker_" + stem, "ok": rc == 0, "axioms": [],
                                    "note": out[-300:] if rc else "independent re-check of the .olean"})
            if rc != 0:
                ok_all = False
    return ok_all


# ---------------------------------------------------------------------------
# oracle protocol

def run_oracle(mode, lines, extra_args=(), timeout=1800):
    """Pipe `lines` (list of str) to the compiled Lean oracle; returns list of output lines."""
    inp = "\n".join(lines) + "\n"
    p = subprocess.run([ORACLE, mode] + list(extra_args), input=inp, stdout=subprocess.PIPE, stderr=subprocess.PIPE,
                       text=True, timeout=timeout)
    if p.returncode != 0:
        raise BuildError("oracle %s failed rc=%d: %s" % (mode, p.returncode, p.stderr[-2000:]))
    return p.stdout.split("\n")[:-1] if p.stdout.endswith("\n") else p.stdout.split("\n")


def run_harness(binpath, args, timeout=1800, env=None, input=None):
    e = dict(os.environ)
    e.setdefault("GOMEMLIMIT", "6GiB")
    if env:
        e.update(env)
    p = subprocess.run([binpath] + list(args), input=input, stdout=subprocess.PIPE, stderr=subprocess.PIPE, text=True,
                       errors="replace", timeout=timeout, env=e)
    return p.returncode, p.stdout, p.stderr


# ---------------------------------------------------------------------------
# known findings, deciding, evidence

def load_known(prop):
    path = os.path.join(ROOT, "known_findings.json")
    try:
        data = json.load(open(path))
    except OSError:
        return []
    return [f for f in data.get("findings", []) if f.get("property") == prop]


def finish(ctx, level="proof"):
    """Decide, print VIOLATION / KNOWN-FINDING lines, write evidence, return exit code."""
    known = load_known(ctx.prop)
    os.makedirs(os.path.join(REPLAYS, ctx.prop), exist_ok=True)
    unlisted = []
    known_hit = {}
    for v in ctx.violations:
        hit = None
        for f in known:
            if re.fullmatch(f["key_regex"], v.key, re.S):
                hit = f
                break
        if hit is not None:
            known_hit.setdefault(hit["id"], (hit, []))[1].append(v)
        else:
            unlisted.append(v)
    for fid, (f, vs) in sorted(known_hit.items()):
        print("KNOWN-FINDING: property=%s %s [%s; %d case(s) this run, e.g. %s]" % (
            ctx.prop, f["description"], fid, len(vs), vs[0].key[:120]))
    # broken obligations that no concrete failing input explains
    broken = [o for o in ctx.obligations if not o["ok"]]
    rc = 0
    if broken and not unlisted:
        names = ", ".join(o["name"] for o in broken)
        path = os.path.join(REPLAYS, ctx.prop, "broken-obligations.txt")
        with open(path, "w") as f:
            f.write("property %s is no longer shown to hold: these theorems / ties no longer check\n" % ctx.prop)
            for o in broken:
                f.write("  %s  -- %s\n" % (o["name"], o["note"]))
            f.write("\nno concrete failing input was found by the correspondence search on this run.\n\n")
            f.write("\n".join(ctx.notes))
        print("VIOLATION property=%s replay=%s no-failing-input-found" % (ctx.prop, path))
        rc = 1
    unlisted.sort(key=lambda v: (not v.found_input, len(v.key), v.key))
    if len(unlisted) > MAX_VIOLATION_LINES:
        print("(%d unlisted violations this run; reporting the %d with the shortest inputs)" % (len(unlisted), MAX_VIOLATION_LINES))
    n_unlisted = len(unlisted)
    for v in unlisted[:MAX_VIOLATION_LINES]:
        fn = hashlib.sha1(v.key.encode("utf8", "replace")).hexdigest()[:12] + ".txt"
        path = os.path.join(REPLAYS, ctx.prop, fn)
        with open(path, "w") as f:
            f.write("# property %s\n# key: %s\n# %s\n" % (ctx.prop, v.key, v.desc.replace("\n", "\n# ")))
            if broken:
                f.write("# broken obligations: %s\n" % ", ".join(o["name"] for o in broken))
            f.write(v.replay_text)
            if not v.replay_text.endswith("\n"):
                f.write("\n")
        tail = "" if v.found_input else " no-failing-input-found"
        print("VIOLATION property=%s replay=%s%s" % (ctx.prop, path, tail))
        rc = 1
    n_obl = len(ctx.obligations)
    n_dis = sum(1 for o in ctx.obligations if o["ok"])
    axioms = sorted({a for o in ctx.obligations for a in o["axioms"]})
    cov = {
        "obligations": n_obl,
        "discharged": n_dis,
        "checker_cmd": ctx.checker_cmd or "lake build",
        "trusted_base": TRUSTED_BASE,
        "axioms": axioms,
        "theorems": [{"name": o["name"], "ok": o["ok"], "axioms": o["axioms"], **({"note": o["note"]} if o["note"] else {})}
                     for o in ctx.obligations],
        "evaluations": ctx.evaluations,
        "distinct_nontrivial": len(ctx.nontrivial),
        "rule": ctx.rule,
        "samples": ctx.samples if ctx.samples else ["(no correspondence cases on this run)"],
        "input_distribution": ctx.histogram,
        "generated_model_hashes": ctx.generated_hashes,
        "known_findings_hit": sorted(known_hit.keys()),
        "exhaustive": False,
    }
    cov.update(ctx.extra)
    ev = {
        "property_id": ctx.prop,
        "tier": ctx.tier,
        "seed": ctx.seed,
        "level": level,
        "coverage": cov,
        "assumptions": ctx.assumptions,
        "wall_s": round(time.time() - ctx.t0, 2),
        "violations": n_unlisted + (1 if (broken and not unlisted) else 0),
    }
    os.makedirs(EVIDENCE, exist_ok=True)
    tmp = os.path.join(EVIDENCE, ctx.prop + ".json.tmp")
    with open(tmp, "w") as f:
        json.dump(ev, f, indent=1, sort_keys=False)
        f.write("\n")
    os.replace(tmp, os.path.join(EVIDENCE, ctx.prop + ".json"))
    ctx.log("obligations %d/%d, evaluations %d (nontrivial distinct %d), violations %d, known-finding families %d, %.1fs" % (
        n_dis, n_obl, ctx.evaluations, len(ctx.nontrivial), ev["violations"], len(known_hit), ev["wall_s"]))
    return rc


class Rng:
    """splitmix64 — the same generator as harness/hlib so seeds mean the same thing everywhere."""

    def __init__(self, seed):
        self.s = seed & 0xFFFFFFFFFFFFFFFF

    def next(self):
        self.s = (self.s + 0x9E3779B97F4A7C15) & 0xFFFFFFFFFFFFFFFF
        z = self.s
        z = ((z ^ (z >> 30)) * 0xBF58476D1CE4E5B9) & 0xFFFFFFFFFFFFFFFF
        z = ((z ^ (z >> 27)) * 0x94D049BB133111EB) & 0xFFFFFFFFFFFFFFFF
        return z ^ (z >> 31)

    def below(self, n):
        return self.next() % n

    def choice(self, xs):
        return xs[self.below(len(xs))]
