"""Probe families shared by C05 / C06 / C07 (round 3):

 * callback sites: the limit is hit INSIDE every kind of callback the interpreter runs on behalf of a library or
   of the VM (sort comparator, __lt, __index, __newindex, __call, __concat, __len, __tostring, __pairs, gsub
   callback, load reader, xpcall message handler, __close on normal / error exit, __gc at context exit and on
   collectgarbage(), coroutine body) with a pcall around: "the kill cannot be intercepted by any Lua- or Go-level
   recover site".  Expected: context killed, no host event after the callback started burning, used < limit.
 * CPU amplification (C05): scanning library calls whose real work grows with N must charge CPU that grows with it.
 * result-size relation (C06): accounted memory grows by at least the size of what a library call returns.
 * load of comment-heavy sources / load through short-piece readers (C06)."""
import os
from . import common, luaquota


def regen_recover_sites(ctx):
    """extract/recoversites -> lean/GoluaVerif/Generated/RecoverSites.lean (before the proofs are re-checked):
    Props/C05|C06 `recover_sites_classified` is the obligation over it"""
    tool = os.path.join(common.BIN, "recoversites")
    out = os.path.join(common.LEAN, "GoluaVerif", "Generated", "RecoverSites.lean")
    with common.Lock("regen"):
        rc, o = common.sh(["go", "build", "-o", tool, "./recoversites"], cwd=os.path.join(common.ROOT, "extract"),
                          env=common.GOENV, timeout=600)
        if rc != 0:
            raise common.BuildError("building recoversites failed:\n" + o)
        rc, o = common.sh([tool, "-repo", common.REPO, "-out", out], timeout=300)
        if rc != 0:
            raise common.BuildError("recoversites failed:\n" + o)
    n = open(out).read().count("⟨\"")
    ctx.extra["recover_sites"] = n
    return n


BURN = {
    "cpu": "local function W() local n = 0 for i = 1, 400000 do n = n + 1 end emit('W-END') end\n",
    "memory": "local KEEP = {}\nlocal function W() for i = 1, 400 do KEEP[#KEEP + 1] = string.rep('x', 50000) end emit('W-END') end\n",
}
LIMIT = {"cpu": 20000, "memory": 200000}

# (name, statements run inside the limited context; `W()` is the unbounded burner; emit('AFTER') must never happen)
SITES = [
    ("sort-comparator", "P(table.sort, {3, 1, 2, 5, 4}, function(a, b) W() return a < b end) emit('AFTER')"),
    ("sort-lt-metamethod", "local mt = {__lt = function(a, b) W() return a.v < b.v end} local t = {} "
                           "for i = 1, 5 do t[i] = setmetatable({v = -i}, mt) end P(table.sort, t) emit('AFTER')"),
    ("sort-index-metamethod", "local o = setmetatable({}, {__index = function(t, k) W() return k end, __len = function() return 4 end}) "
                              "P(table.sort, o) emit('AFTER')"),
    ("index-function", "local o = setmetatable({}, {__index = function(t, k) W() return 1 end}) P(function() return o.x end) emit('AFTER')"),
    ("newindex-function", "local o = setmetatable({}, {__newindex = function(t, k, v) W() end}) P(function() o.x = 1 end) emit('AFTER')"),
    ("call-metamethod", "local o = setmetatable({}, {__call = function() W() end}) P(o) emit('AFTER')"),
    ("concat-metamethod", "local o = setmetatable({}, {__concat = function() W() return '' end}) P(function() return o .. 'x' end) emit('AFTER')"),
    ("len-metamethod", "local o = setmetatable({}, {__len = function() W() return 0 end}) P(function() return #o end) emit('AFTER')"),
    ("eq-metamethod", "local mt = {__eq = function() W() return true end} local a, b = setmetatable({}, mt), setmetatable({}, mt) "
                      "P(function() return a == b end) emit('AFTER')"),
    ("tostring-metamethod", "local o = setmetatable({}, {__tostring = function() W() return 'o' end}) P(tostring, o) emit('AFTER') "),
    ("format-tostring", "local o = setmetatable({}, {__tostring = function() W() return 'o' end}) P(string.format, '%s', o) emit('AFTER')"),
    ("pairs-metamethod", "local o = setmetatable({}, {__pairs = function(t) W() return next, t end}) P(function() for k in pairs(o) do end end) emit('AFTER')"),
    ("unpack-index", "local o = setmetatable({}, {__index = function(t, k) W() return k end}) P(table.unpack, o, 1, 3) emit('AFTER')"),
    ("table-concat-index", "local o = setmetatable({}, {__index = function(t, k) W() return 'a' end, __len = function() return 3 end}) "
                           "P(table.concat, o) emit('AFTER')"),
    ("gsub-function", "P(string.gsub, 'abc', '%w', function(c) W() return c end) emit('AFTER')"),
    ("gsub-table-index", "local o = setmetatable({}, {__index = function(t, k) W() return k end}) P(string.gsub, 'abc', '%w', o) emit('AFTER')"),
    ("load-reader", "P(load, function() W() return nil end) emit('AFTER')"),
    ("xpcall-handler", "xpcall(function() error('x') end, function(m) W() return m end) emit('AFTER')"),
    ("xpcall-handler-in-pcall", "P(xpcall, function() error('x') end, function(m) W() return m end) emit('AFTER')"),
    ("close-normal-exit", "P(function() local c <close> = setmetatable({}, {__close = function() W() end}) return 1 end) emit('AFTER')"),
    ("close-error-exit", "P(function() local c <close> = setmetatable({}, {__close = function() W() end}) error('boom') end) emit('AFTER')"),
    ("close-error-exit-of-context", "local c <close> = setmetatable({}, {__close = function() W() end}) error('boom')"),
    ("close-error-exit-inner-context", "local cc = runtime.callcontext({}, function() local c <close> = setmetatable({}, {__close = function() W() end}) "
                                       "error('boom') end) emit('AFTER', cc.status)"),
    ("close-in-coroutine", "local co = coroutine.wrap(function() local c <close> = setmetatable({}, {__close = function() W() end}) error('boom') end) "
                           "P(co) emit('AFTER')"),
    ("coroutine-body", "P(coroutine.wrap(function() W() end)) emit('AFTER')"),
    ("coroutine-resume", "local co = coroutine.create(function() W() end) emit('R', coroutine.resume(co)) emit('AFTER')"),
    ("gc-at-context-exit", "for i = 1, 3 do setmetatable({}, {__gc = function() emit('GC-START') W() end}) end"),
    ("gc-at-inner-context-exit", "local cc = runtime.callcontext({kill = {RES = 1000000000}}, function() for i = 1, 3 do setmetatable({}, {__gc = function() emit('GC-START') W() end}) end end) "
                                 "emit('AFTER', cc.status)"),
    ("gc-on-collectgarbage", "for i = 1, 3 do setmetatable({}, {__gc = function() emit('GC-START') W() end}) end "
                             "for i = 1, 3 do collectgarbage() end local x = 0 for i = 1, 2000 do x = x + i end"),
    ("gc-in-pcall", "P(function() for i = 1, 3 do setmetatable({}, {__gc = function() emit('GC-START') W() end}) end "
                    "for i = 1, 3 do collectgarbage() end end)"),
]


def site_program(resource, stmts):
    return (luaquota.PRELUDE + BURN[resource] +
            "local function body()\n  " + stmts.replace("RES", resource) + "\n  return 'R'\nend\n"
            "local ctx, r = runtime.callcontext({kill = {%s = %d}}, body)\n"
            "emit('S', ctx.status, ctx.used.cpu or 0, ctx.used.memory or 0, r)\n" % (resource, LIMIT[resource]))


def callback_leg(ctx, binpath, resource, sites=None, prefix=None):
    """every callback site, the limit hit inside it.  Violation keys: kill-intercepted-in-callback:<res>:<site> …"""
    chosen = [(n, st) for n, st in SITES if sites is None or n in sites]
    batch = [("site:" + n, site_program(resource, st)) for n, st in chosen]
    res = luaquota.run_batch(binpath, batch, timeout=20)
    L = LIMIT[resource]
    for pid, src in batch:
        r = res.get(pid)
        if r is None:
            continue
        name = pid[5:]
        ctx.case("%s|%s" % (pid, resource), True)
        ctx.count("callback-site:" + (r.status or r.cls))
        replay = (prefix or ("c05" if resource == "cpu" else "c06")) + " lua\n" + src
        body = [luaquota.dec(x) for x in r.body]
        used = r.ucpu if resource == "cpu" else r.umem
        if r.cls != "ok":
            ctx.violation("callback-site-%s:%s:%s" % (r.cls, resource, name), "the limit hit inside %s ended the whole chunk with %s (%s)"
                          % (name, r.cls, luaquota.msg_of(r)[:120]), replay)
        elif r.intercepted or "AFTER" in body:
            ctx.violation("kill-intercepted-in-callback:%s:%s" % (resource, name), "the %s limit was hit inside %s, yet Lua code of the "
                          "limited context ran afterwards (host trace %s, status %s)" % (resource, name, body[:6], r.status), replay)
        elif "W-END" in body:
            ctx.violation("callback-ran-past-limit:%s:%s" % (resource, name), "%s ran to completion past the %s limit %d (used %s, status %s)"
                          % (name, resource, L, used, r.status), replay)
        elif r.status != "killed":
            ctx.violation("callback-site-not-killed:%s:%s" % (resource, name), "expected status killed, got %s (used %s of %d, trace %s)"
                          % (r.status, used, L, body[:6]), replay)
        elif used is not None and used >= L:
            ctx.violation("used-reaches-kill-in-callback:%s:%s" % (resource, name), "ctx.used.%s=%d with kill=%d" % (resource, used, L), replay)


# ---- C05: CPU amplification -------------------------------------------------------------------------------------
# (name, Lua expression in N, lower bound on the CPU that must be charged as a function of N)
CPU_AMPLIFY = [
    ("find-%b-unbalanced", "string.find(('('):rep(N), '%b()')", lambda n: n * n // 16),
    ("find-%b-anchored", "string.find(('('):rep(N * 20), '^%b()')", lambda n: 20 * n // 4),
    ("match-%b-capture", "string.match(('('):rep(N), '(%b())')", lambda n: n * n // 16),
    ("gmatch-%b", "(function() local c = 0 for _ in string.gmatch(('['):rep(N), '%b[]') do c = c + 1 end return c end)()", lambda n: n * n // 16),
    ("gsub-%b", "string.gsub(('{'):rep(N), '%b{}', '')", lambda n: n * n // 16),
    ("find-frontier", "string.find(('a'):rep(N * 20), '%f[b]')", lambda n: 20 * n // 4),
    ("find-backtrack-star", "string.find(('a'):rep(N), 'a*b')", lambda n: n * n // 16),
    ("find-backtrack-lazy", "string.find(('a'):rep(N), 'a-b')", lambda n: n * n // 16),
    ("find-optional-chain", "string.find(('b'):rep(N), ('a?'):rep(20) .. 'c')", lambda n: 20 * n // 4),
    ("find-plain", "string.find(('a'):rep(N * 20), 'b', 1, true)", lambda n: 20 * n // 4),
    ("gsub-anchored-class", "string.gsub(('a'):rep(N * 20), '%w', '%0')", lambda n: 20 * n // 4),
    ("gmatch-words", "(function() local c = 0 for _ in string.gmatch(('ab '):rep(N * 5), '%a+') do c = c + 1 end return c end)()", lambda n: 15 * n // 4),
]


def cpu_amplify_leg(ctx, binpath, thorough):
    Ns = (300, 900) if not thorough else (300, 900, 2000)
    batch = []
    for name, expr, _ in CPU_AMPLIFY:
        for N in Ns:
            src = ("local N = %d\nlocal function body() local v = %s emit(type(v)) return 'R' end\n"
                   "local ctx, r = runtime.callcontext({kill = {cpu = %d}}, body)\n"
                   "emit('S', ctx.status, ctx.used.cpu or 0, ctx.used.memory or 0, r)\n" % (N, expr, luaquota.HUGE))
            batch.append(("amp:%s:%d" % (name, N), src))
        # and the same call with a large N under a small limit: must be killed (promptly: the runner's watchdog)
        src = ("local N = 200000\nlocal function body() local v = %s emit(type(v)) return 'R' end\n"
               "local ctx, r = runtime.callcontext({kill = {cpu = 50000}}, body)\n"
               "emit('S', ctx.status, ctx.used.cpu or 0, ctx.used.memory or 0, r)\n" % expr)
        batch.append(("amp:%s:limited" % name, src))
    # calibration: the time of 50000 plain VM ticks
    calib = ("local ctx = runtime.callcontext({kill = {cpu = 50000}}, function() while true do end end)\n"
             "emit('S', ctx.status, ctx.used.cpu or 0, 0, 'R')\n")
    batch.append(("amp:calibration", calib))
    res = luaquota.run_batch(binpath, batch, timeout=30)
    t0 = max(1, res["amp:calibration"].ms if "amp:calibration" in res else 1)
    bound = {n: f for n, _, f in CPU_AMPLIFY}
    for pid, src in batch:
        r = res.get(pid)
        if r is None or pid == "amp:calibration":
            continue
        _, name, what = pid.split(":")
        ctx.case(pid, True)
        replay = "c05 lua\n" + src
        if what == "limited":
            ctx.count("cpu-amplify-limited:" + (r.status or r.cls))
            if r.cls != "ok" or r.status != "killed":
                ctx.violation("cpu-amplify-not-killed:" + name, "N=200000 under kill.cpu=50000 ended %s/%s" % (r.cls, r.status), replay)
            elif r.ms > 200 * t0 + 1500:
                ctx.violation("cpu-amplify-unmetered-time:" + name, "N=200000 under kill.cpu=50000 took %d ms before being killed; 50000 "
                              "plain VM ticks take %d ms on this machine now" % (r.ms, t0), replay)
            continue
        N = int(what)
        ctx.count("cpu-amplify:" + (r.status or r.cls))
        if r.cls != "ok" or r.status != "done" or r.ucpu is None:
            ctx.violation("cpu-amplify-failed:%s:%d" % (name, N), "unlimited run ended %s/%s" % (r.cls, r.status), replay)
            continue
        need = bound[name](N)
        if r.ucpu < need:
            ctx.violation("cpu-amplify-undercharged:" + name, "%s with N=%d does work proportional to %d steps but was charged %d CPU "
                          "(lower bound used: %d)" % (name, N, need * 4, r.ucpu, need), replay)
        ctx.extra.setdefault("cpu_amplify_charged", {})["%s:%d" % (name, N)] = r.ucpu


# ---- C06: accounted memory covers what is returned ---------------------------------------------------------------
# (name, Lua expression whose value is a freshly built string or table; size function in Lua applied to the value)
RESULT_SIZE = [
    ("rep", "string.rep('ab', 50000)", "#v"),
    ("rep-sep-long", "string.rep('', 200, ('s'):rep(1000))", "#v"),
    ("rep-sep-long-short-s", "string.rep('x', 100, ('s'):rep(2000))", "#v"),
    ("rep-sep-one", "string.rep('abc', 30000, ',')", "#v"),
    ("concat-op", "(function() local a, b = ('a'):rep(60000), ('b'):rep(60000) return a .. b end)()", "#v - 120000 + 120000"),
    ("table-concat", "(function() local t = {} for i = 1, 2000 do t[i] = 'item' .. i end return table.concat(t, ', ') end)()", "#v"),
    ("table-concat-sep-long", "table.concat({'a', 'b', 'c', 'd'}, ('-'):rep(40000))", "#v"),
    ("format-s", "string.format('%s|%s', ('a'):rep(50000), ('b'):rep(50000))", "#v"),
    ("format-width", "string.format('%99s', 'x'):rep(1000)", "#v"),
    ("format-q", "string.format('%q', ('a\\n'):rep(30000))", "#v"),
    ("upper", "(('a'):rep(100000)):upper()", "#v"),
    ("lower", "(('A'):rep(100000)):lower()", "#v"),
    ("reverse", "(('ab'):rep(50000)):reverse()", "#v"),
    ("gsub-grow", "(string.gsub(('a'):rep(20000), 'a', 'bbbbb'))", "#v"),
    ("gsub-function", "(string.gsub(('a'):rep(20000), 'a', function() return 'cccc' end))", "#v"),
    ("char", "string.char(table.unpack((function() local t = {} for i = 1, 200 do t[i] = 65 end return t end)())):rep(500)", "#v"),
    ("utf8-char", "utf8.char(table.unpack((function() local t = {} for i = 1, 200 do t[i] = 0x20AC end return t end)()))", "#v"),
    ("pack-z", "string.pack('z', ('x'):rep(100000))", "#v"),
    ("pack-s4", "string.pack('s4', ('x'):rep(100000))", "#v"),
    ("tostring-int-list", "(function() local t = {} for i = 1, 5000 do t[i] = tostring(i * 1000003) end return table.concat(t) end)()", "#v"),
    ("load-chunk-result", "(function() local f = load('return \"' .. ('z'):rep(50000) .. '\"') return f() end)()", "#v"),
    ("dump", "string.dump(load('local s = \"' .. ('q'):rep(40000) .. '\" return s'))", "#v"),
    ("table-array", "(function() local t = {} for i = 1, 20000 do t[i] = i end return t end)()", "#v * 8"),
    ("table-pack", "table.pack(table.unpack((function() local t = {} for i = 1, 200 do t[i] = i end return t end)()))", "v.n * 8"),
    ("table-move", "table.move((function() local t = {} for i = 1, 5000 do t[i] = i end return t end)(), 1, 5000, 1, {})", "#v * 8"),
]


def result_size_leg(ctx, binpath):
    """Spec.Quota.ChargeCovers: used.memory after - before >= size of the value returned (which is still live)"""
    batch = []
    for name, expr, size in RESULT_SIZE:
        src = ("local function body()\n  local before = runtime.context().used.memory\n  local v = %s\n"
               "  local after = runtime.context().used.memory\n  emit('RS', after - before, %s)\n  return 'R'\nend\n"
               "local ctx, r = runtime.callcontext({kill = {memory = %d}}, body)\n"
               "emit('S', ctx.status, ctx.used.cpu or 0, ctx.used.memory or 0, r)\n" % (expr, size, luaquota.HUGE))
        batch.append(("rs:" + name, src))
    res = luaquota.run_batch(binpath, batch, timeout=30)
    for pid, src in batch:
        r = res.get(pid)
        if r is None:
            continue
        name = pid[3:]
        ctx.case(pid, True)
        replay = "c06 lua\n" + src
        body = r.body
        if r.cls != "ok" or r.status != "done" or len(body) < 3 or not body[1].startswith("i") or not body[2].startswith("i"):
            ctx.violation("result-size-run-failed:" + name, "ended %s/%s trace %s" % (r.cls, r.status, [luaquota.dec(x) for x in body][:4]), replay)
            continue
        delta, size = int(body[1][1:]), int(body[2][1:])
        ctx.count("result-size:" + ("covered" if delta >= size else "UNDERCHARGED"))
        if delta < size:
            ctx.violation("result-not-charged:" + name, "%s returned %d bytes but accounted memory grew by only %d" % (name, size, delta), replay)


# ---- C06: load ---------------------------------------------------------------------------------------------------
LOAD_COMMENTS = ("local pad = '--' .. ('c'):rep(9000) .. '\\n'\n"
                 "local srcs = {}\nfor i = 1, ITER do srcs[i] = pad .. 'return ' .. i end   -- built outside the limited context\n"
                 "local function body()\n  local keep = {}\n  for i = 1, ITER do\n"
                 "    local src = srcs[i]\n"
                 "    local before = runtime.context().used.memory\n"
                 "    local f = load(src)\n"
                 "    local after = runtime.context().used.memory\n"
                 "    emit('LD', i, after >= before, f ~= nil)\n"
                 "    keep[i] = string.rep('k', 9000)\n  end\n  emit('kept', #keep)\n  return 'R'\nend\n")

LOAD_READER = ("local function body()\n  local base = runtime.context().used.memory\n  local n, bytes = 0, 0\n"
               "  local piece = 'PIECE'\n"
               "  local f = load(function()\n    n = n + 1\n    if LAST and n > LAST then return nil end\n"
               "    if n % 2000 == 0 then emit('RD', bytes, runtime.context().used.memory - base) end\n"
               "    bytes = bytes + #piece\n    return piece\n  end)\n  emit('loaded', bytes, f ~= nil)\n  return 'R'\nend\n")


def load_leg(ctx, binpath):
    batch = []

    def wrapm(src, M):
        return (luaquota.PRELUDE + src + "local ctx, r = runtime.callcontext({kill = {memory = %d}}, body)\n"
                "emit('S', ctx.status, ctx.used.cpu or 0, ctx.used.memory or 0, r)\n" % M)
    batch.append(("load:comments:unlimited", wrapm(LOAD_COMMENTS.replace("ITER", "12"), luaquota.HUGE)))
    batch.append(("load:comments:limited", wrapm(LOAD_COMMENTS.replace("ITER", "200"), 200000)))
    for k, piece in (("1", "'x'"), ("5", "' x=1 '[1] and 'y=2  ' or ''"), ("9", "'local a=1'"), ("9b", "'--comment'")):
        src = LOAD_READER.replace("'PIECE'", piece if k != "5" else "'a=1  '")
        batch.append(("load:reader%s:endless" % k, wrapm(src.replace("LAST", "nil"), 100000)))
        batch.append(("load:reader%s:finite" % k, wrapm(src.replace("LAST", "6000"), luaquota.HUGE)))
    res = luaquota.run_batch(binpath, batch, timeout=30)
    for pid, src in batch:
        r = res.get(pid)
        if r is None:
            continue
        ctx.case(pid, True)
        ctx.count("load:" + (r.status or r.cls))
        replay = "c06 lua\n" + src
        body = [luaquota.dec(x) if x.startswith("s") else x for x in r.body]
        if r.cls != "ok":
            ctx.violation("load-run-%s:%s" % (r.cls, pid), "ended %s (%s)" % (r.cls, luaquota.msg_of(r)[:100]), replay)
            continue
        if pid.startswith("load:comments"):
            # used memory never sinks across a load: what load required for the source is released once, not twice
            for i in range(len(body) - 3):
                if body[i] == "LD" and body[i + 2] != "t":
                    ctx.violation("load-lowers-accounted-memory", "used.memory after load() of a comment-heavy chunk is below its "
                                  "value before the call (iteration %s): memory required for the source was released twice" % body[i + 1][1:], replay)
                    break
            if pid.endswith(":limited"):
                kept = [int(body[i + 1][1:]) for i in range(len(body) - 1) if body[i] == "LD"]
                if r.status != "killed" or (kept and max(kept) > 40):
                    ctx.violation("load-heavy-program-not-killed", "a program retaining 9000 bytes per iteration next to load() of a 9 KB "
                                  "comment ran %d iterations under kill.memory=200000 (status %s)" % (max(kept) if kept else 0, r.status), replay)
            elif r.status != "done":
                ctx.violation("load-run-failed:" + pid, "status %s" % r.status, replay)
        else:
            # reader pieces: what load has buffered is accounted while it is being read
            for i in range(len(body) - 2):
                if body[i] == "RD":
                    read, acc = int(body[i + 1][1:]), int(body[i + 2][1:])
                    if acc < read:
                        ctx.violation("load-reader-pieces-uncharged:" + pid.split(":")[1], "load() had buffered %d bytes from its reader "
                                      "function while accounted memory had grown by only %d" % (read, acc), replay)
                        break
            if pid.endswith("endless"):
                reads = [int(body[i + 1][1:]) for i in range(len(body) - 2) if body[i] == "RD"]
                if r.status != "killed":
                    ctx.violation("load-endless-reader-not-killed:" + pid.split(":")[1], "status %s" % r.status, replay)
                elif reads and max(reads) > 100000 + 20000:
                    ctx.violation("load-endless-reader-overrun:" + pid.split(":")[1], "load() buffered %d bytes under kill.memory=100000 "
                                  "before the context was killed" % max(reads), replay)
            elif r.status != "done":
                ctx.violation("load-run-failed:" + pid, "status %s trace %s" % (r.status, body[-4:]), replay)
