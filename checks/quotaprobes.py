"""Probe families shared by C05 / C06 / C07 (round 3):

 * callback sites: the limit is hit INSIDE every kind of callback the interpreter runs on behalf of a library or
   of the VM (sort comparator, __lt, __index, __newindex, __call, __concat, __len, __tostring, __pairs, gsub
   callback, load reader, xpcall message handler, __close on normal / error exit, __gc at context exit and on
   collectgarbage(), coroutine body) with a pcall around: "the kill cannot be intercepted by any Lua- or Go-level
   recover site".  Expected: context killed, no host event after the callback started burning, used < limit.
 * CPU amplification (C05): scanning library calls whose real work grows with N must charge CPU that grows with it.
 * result-size relation (C06): accounted memory grows by at least the size of what a library call returns.
 * load of comment-heavy sources / load through short-piece readers (C06)."""
import os
from . import common, luaquota


def regen_recover_sites(ctx):
    """extract/recoversites -> lean/GoluaVerif/Generated/RecoverSites.lean (before the proofs are re-checked):
    Props/C05|C06 `recover_sites_classified` is the obligation over it"""
    tool = os.path.join(common.BIN, "recoversites")
    out = os.path.join(common.LEAN, "GoluaVerif", "Generated", "RecoverSites.lean")
    with common.Lock("regen"):
        rc, o = common.sh(["go", "build", "-o", tool, "./recoversites"], cwd=os.path.join(common.ROOT, "extract"),
                          env=common.GOENV, timeout=600)
        if rc != 0:
            raise common.BuildError("building recoversites failed:\n" + o)
        rc, o = common.sh([tool, "-repo", common.REPO, "-out", out], timeout=300)
        if rc != 0:
            raise common.BuildError("recoversites failed:\n" + o)
    n = open(out).read().count("⟨\"")
    ctx.extra["recover_sites"] = n
    return n


BURN = {
    "cpu": "local function W() local n = 0 for i = 1, 400000 do n = n + 1 end emit('W-END') end\n",
    "memory": "local KEEP = {}\nlocal function W() for i = 1, 400 do KEEP[#KEEP + 1] = string.rep('x', 50000) end emit('W-END') end\n",
}
LIMIT = {"cpu": 20000, "memory": 200000}

# (name, statements run inside the limited context; `W()` is the unbounded burner; emit('AFTER') must never happen)
SITES = [
    ("sort-comparator", "P(table.sort, {3, 1, 2, 5, 4}, function(a, b) W() return a < b end) emit('AFTER')"),
    ("sort-lt-metamethod", "local mt = {__lt = function(a, b) W() return a.v < b.v end} local t = {} "
                           "for i = 1, 5 do t[i] = setmetatable({v = -i}, mt) end P(table.sort, t) emit('AFTER')"),
    ("sort-index-metamethod", "local o = setmetatable({}, {__index = function(t, k) W() return k end, __len = function() return 4 end}) "
                              "P(table.sort, o) emit('AFTER')"),
    ("index-function", "local o = setmetatable({}, {__index = function(t, k) W() return 1 end}) P(function() return o.x end) emit('AFTER')"),
    ("newindex-function", "local o = setmetatable({}, {__newindex = function(t, k, v) W() end}) P(function() o.x = 1 end) emit('AFTER')"),
    ("call-metamethod", "local o = setmetatable({}, {__call = function() W() end}) P(o) emit('AFTER')"),
    ("concat-metamethod", "local o = setmetatable({}, {__concat = function() W() return '' end}) P(function() return o .. 'x' end) emit('AFTER')"),
    ("len-metamethod", "local o = setmetatable({}, {__len = function() W() return 0 end}) P(function() return #o end) emit('AFTER')"),
    ("eq-metamethod", "local mt = {__eq = function() W() return true end} local a, b = setmetatable({}, mt), setmetatable({}, mt) "
                      "P(function() return a == b end) emit('AFTER')"),
    ("tostring-metamethod", "local o = setmetatable({}, {__tostring = function() W() return 'o' end}) P(tostring, o) emit('AFTER') "),
    ("format-tostring", "local o = setmetatable({}, {__tostring = function() W() return 'o' end}) P(string.format, '%s', o) emit('AFTER')"),
    ("pairs-metamethod", "local o = setmetatable({}, {__pairs = function(t) W() return next, t end}) P(function() for k in pairs(o) do end end) emit('AFTER')"),
    ("unpack-index", "local o = setmetatable({}, {__index = function(t, k) W() return k end}) P(table.unpack, o, 1, 3) emit('AFTER')"),
    ("table-concat-index", "local o = setmetatable({}, {__index = function(t, k) W() return 'a' end, __len = function() return 3 end}) "
                           "P(table.concat, o) emit('AFTER')"),
    ("gsub-function", "P(string.gsub, 'abc', '%w', function(c) W() return c end) emit('AFTER')"),
    ("gsub-table-index", "local o = setmetatable({}, {__index = function(t, k) W() return k end}) P(string.gsub, 'abc', '%w', o) emit('AFTER')"),
    ("load-reader", "P(load, function() W() return nil end) emit('AFTER')"),
    ("xpcall-handler", "xpcall(function() error('x') end, function(m) W() return m end) emit('AFTER')"),
    ("xpcall-handler-in-pcall", "P(xpcall, function() error('x') end, function(m) W() return m end) emit('AFTER')"),
    ("close-normal-exit", "P(function() local c <close> = setmetatable({}, {__close = function() W() end}) return 1 end) emit('AFTER')"),
    ("close-error-exit", "P(function() local c <close> = setmetatable({}, {__close = function() W() end}) error('boom') end) emit('AFTER')"),
    ("close-error-exit-of-context", "local c <close> = setmetatable({}, {__close = function() W() end}) error('boom')"),
    ("close-error-exit-inner-context", "local cc = runtime.callcontext({}, function() local c <close> = setmetatable({}, {__close = function() W() end}) "
                                       "error('boom') end) emit('AFTER', cc.status)"),
    ("close-in-coroutine", "local co = coroutine.wrap(function() local c <close> = setmetatable({}, {__close = function() W() end}) error('boom') end) "
                           "P(co) emit('AFTER')"),
    ("close-suspended-coroutine", "local co = coroutine.create(function() local c <close> = setmetatable({}, {__close = function() W() end}) "
                                  "coroutine.yield(1) end) coroutine.resume(co) emit('CL', P(coroutine.close, co)) emit('AFTER')"),
    ("close-suspended-coroutine-bare", "local co = coroutine.create(function() local c <close> = setmetatable({}, {__close = function() W() end}) "
                                       "coroutine.yield(1) end) coroutine.resume(co) emit('CL', coroutine.close(co)) emit('AFTER')"),
    ("close-suspended-two-handlers", "local co = coroutine.create(function() local a <close> = setmetatable({}, {__close = function() emit('OUTER-HANDLER') end}) "
                                     "local c <close> = setmetatable({}, {__close = function() W() end}) coroutine.yield(1) end) "
                                     "coroutine.resume(co) emit('CL', P(coroutine.close, co)) emit('AFTER')"),
    ("close-from-a-handler", "local co = coroutine.create(function() local c <close> = setmetatable({}, {__close = function() W() end}) coroutine.yield(1) end) "
                             "coroutine.resume(co) P(function() local h <close> = setmetatable({}, {__close = function() emit('CL', coroutine.close(co)) emit('AFTER') end}) end) "
                             "emit('AFTER')"),
    ("close-from-another-coroutine", "local co = coroutine.create(function() local c <close> = setmetatable({}, {__close = function() W() end}) coroutine.yield(1) end) "
                                     "coroutine.resume(co) local co2 = coroutine.wrap(function() emit('CL', coroutine.close(co)) emit('AFTER') end) P(co2) emit('AFTER')"),
    ("close-suspended-in-pcall-frame", "local co = coroutine.create(function() pcall(function() local c <close> = setmetatable({}, {__close = function() W() end}) "
                                       "coroutine.yield(1) end) end) coroutine.resume(co) emit('CL', P(coroutine.close, co)) emit('AFTER')"),
    ("coroutine-body", "P(coroutine.wrap(function() W() end)) emit('AFTER')"),
    ("coroutine-resume", "local co = coroutine.create(function() W() end) emit('R', coroutine.resume(co)) emit('AFTER')"),
    ("gc-at-context-exit", "for i = 1, 3 do setmetatable({}, {__gc = function() emit('GC-START') W() end}) end"),
    ("gc-at-inner-context-exit", "local cc = runtime.callcontext({kill = {RES = 1000000000}}, function() for i = 1, 3 do setmetatable({}, {__gc = function() emit('GC-START') W() end}) end end) "
                                 "emit('AFTER', cc.status)"),
    ("gc-on-collectgarbage", "for i = 1, 3 do setmetatable({}, {__gc = function() emit('GC-START') W() end}) end "
                             "for i = 1, 3 do collectgarbage() end local x = 0 for i = 1, 2000 do x = x + i end"),
    ("gc-in-pcall", "P(function() for i = 1, 3 do setmetatable({}, {__gc = function() emit('GC-START') W() end}) end "
                    "for i = 1, 3 do collectgarbage() end end)"),
]


def site_program(resource, stmts):
    return (luaquota.PRELUDE + BURN[resource] +
            "local function body()\n  " + stmts.replace("RES", resource) + "\n  return 'R'\nend\n"
            "local ctx, r = runtime.callcontext({kill = {%s = %d}}, body)\n"
            "emit('S', ctx.status, ctx.used.cpu or 0, ctx.used.memory or 0, r)\n" % (resource, LIMIT[resource]))


def callback_leg(ctx, binpath, resource, sites=None, prefix=None):
    """every callback site, the limit hit inside it.  Violation keys: kill-intercepted-in-callback:<res>:<site> …"""
    chosen = [(n, st) for n, st in SITES if sites is None or n in sites]
    batch = [("site:" + n, site_program(resource, st)) for n, st in chosen]
    res = luaquota.run_batch(binpath, batch, timeout=20)
    L = LIMIT[resource]
    for pid, src in batch:
        r = res.get(pid)
        if r is None:
            continue
        name = pid[5:]
        ctx.case("%s|%s" % (pid, resource), True)
        ctx.count("callback-site:" + (r.status or r.cls))
        replay = (prefix or ("c05" if resource == "cpu" else "c06")) + " lua\n" + src
        body = [luaquota.dec(x) for x in r.body]
        used = r.ucpu if resource == "cpu" else r.umem
        if r.cls != "ok":
            ctx.violation("callback-site-%s:%s:%s" % (r.cls, resource, name), "the limit hit inside %s ended the whole chunk with %s (%s)"
                          % (name, r.cls, luaquota.msg_of(r)[:120]), replay)
        elif r.intercepted or "AFTER" in body:
            ctx.violation("kill-intercepted-in-callback:%s:%s" % (resource, name), "the %s limit was hit inside %s, yet Lua code of the "
                          "limited context ran afterwards (host trace %s, status %s)" % (resource, name, body[:6], r.status), replay)
        elif "W-END" in body:
            ctx.violation("callback-ran-past-limit:%s:%s" % (resource, name), "%s ran to completion past the %s limit %d (used %s, status %s)"
                          % (name, resource, L, used, r.status), replay)
        elif r.status != "killed":
            ctx.violation("callback-site-not-killed:%s:%s" % (resource, name), "expected status killed, got %s (used %s of %d, trace %s)"
                          % (r.status, used, L, body[:6]), replay)
        elif used is not None and used >= L:
            ctx.violation("used-reaches-kill-in-callback:%s:%s" % (resource, name), "ctx.used.%s=%d with kill=%d" % (resource, used, L), replay)


# ---- C05: CPU amplification -------------------------------------------------------------------------------------
# (name, Lua expression in N, lower bound on the CPU that must be charged as a function of N)
CPU_AMPLIFY = [
    ("find-%b-unbalanced", "string.find(('('):rep(N), '%b()')", lambda n: n * n // 16),
    ("find-%b-anchored", "string.find(('('):rep(N * 20), '^%b()')", lambda n: 20 * n // 4),
    ("match-%b-capture", "string.match(('('):rep(N), '(%b())')", lambda n: n * n // 16),
    ("gmatch-%b", "(function() local c = 0 for _ in string.gmatch(('['):rep(N), '%b[]') do c = c + 1 end return c end)()", lambda n: n * n // 16),
    ("gsub-%b", "string.gsub(('{'):rep(N), '%b{}', '')", lambda n: n * n // 16),
    ("find-frontier", "string.find(('a'):rep(N * 20), '%f[b]')", lambda n: 20 * n // 4),
    ("find-backtrack-star", "string.find(('a'):rep(N), 'a*b')", lambda n: n * n // 16),
    ("find-backtrack-lazy", "string.find(('a'):rep(N), 'a-b')", lambda n: n * n // 16),
    ("find-optional-chain", "string.find(('b'):rep(N), ('a?'):rep(20) .. 'c')", lambda n: 20 * n // 4),
    ("find-plain", "string.find(('a'):rep(N * 20), 'b', 1, true)", lambda n: 20 * n // 4),
    ("gsub-anchored-class", "string.gsub(('a'):rep(N * 20), '%w', '%0')", lambda n: 20 * n // 4),
    ("gmatch-words", "(function() local c = 0 for _ in string.gmatch(('ab '):rep(N * 5), '%a+') do c = c + 1 end return c end)()", lambda n: 15 * n // 4),
]


def cpu_amplify_leg(ctx, binpath, thorough):
    Ns = (300, 900) if not thorough else (300, 900, 2000)
    batch = []
    for name, expr, _ in CPU_AMPLIFY:
        for N in Ns:
            src = ("local N = %d\nlocal function body() local v = %s emit(type(v)) return 'R' end\n"
                   "local ctx, r = runtime.callcontext({kill = {cpu = %d}}, body)\n"
                   "emit('S', ctx.status, ctx.used.cpu or 0, ctx.used.memory or 0, r)\n" % (N, expr, luaquota.HUGE))
            batch.append(("amp:%s:%d" % (name, N), src))
        # and the same call with a large N under a small limit: must be killed (promptly: the runner's watchdog)
        src = ("local N = 200000\nlocal function body() local v = %s emit(type(v)) return 'R' end\n"
               "local ctx, r = runtime.callcontext({kill = {cpu = 50000}}, body)\n"
               "emit('S', ctx.status, ctx.used.cpu or 0, ctx.used.memory or 0, r)\n" % expr)
        batch.append(("amp:%s:limited" % name, src))
    # calibration: the time of 50000 plain VM ticks
    calib = ("local ctx = runtime.callcontext({kill = {cpu = 50000}}, function() while true do end end)\n"
             "emit('S', ctx.status, ctx.used.cpu or 0, 0, 'R')\n")
    batch.append(("amp:calibration", calib))
    res = luaquota.run_batch(binpath, batch, timeout=30)
    t0 = max(1, res["amp:calibration"].ms if "amp:calibration" in res else 1)
    bound = {n: f for n, _, f in CPU_AMPLIFY}
    for pid, src in batch:
        r = res.get(pid)
        if r is None or pid == "amp:calibration":
            continue
        _, name, what = pid.split(":")
        ctx.case(pid, True)
        replay = "c05 lua\n" + src
        if what == "limited":
            ctx.count("cpu-amplify-limited:" + (r.status or r.cls))
            if r.cls != "ok" or r.status != "killed":
                ctx.violation("cpu-amplify-not-killed:" + name, "N=200000 under kill.cpu=50000 ended %s/%s" % (r.cls, r.status), replay)
            elif r.ms > 200 * t0 + 1500:
                ctx.violation("cpu-amplify-unmetered-time:" + name, "N=200000 under kill.cpu=50000 took %d ms before being killed; 50000 "
                              "plain VM ticks take %d ms on this machine now" % (r.ms, t0), replay)
            continue
        N = int(what)
        ctx.count("cpu-amplify:" + (r.status or r.cls))
        if r.cls != "ok" or r.status != "done" or r.ucpu is None:
            ctx.violation("cpu-amplify-failed:%s:%d" % (name, N), "unlimited run ended %s/%s" % (r.cls, r.status), replay)
            continue
        need = bound[name](N)
        if r.ucpu < need:
            ctx.violation("cpu-amplify-undercharged:" + name, "%s with N=%d does work proportional to %d steps but was charged %d CPU "
                          "(lower bound used: %d)" % (name, N, need * 4, r.ucpu, need), replay)
        ctx.extra.setdefault("cpu_amplify_charged", {})["%s:%d" % (name, N)] = r.ucpu


# (name, set-up outside the context, expression, Lua expression of the amount of work in bytes / elements)
WORK_AMPLIFY = [
    ("pack-c-padding", "", "string.pack('c' .. S, 'x')", "S"),
    ("pack-x-padding", "local FMTX = ('x'):rep(S)", "string.pack(FMTX)", "S"),
    ("pack-z", "local LONG = ('y'):rep(S)", "string.pack('z', LONG)", "S"),
    ("pack-s4", "local LONG = ('y'):rep(S)", "string.pack('s4', LONG)", "S"),
    ("unpack-c", "local LONG = ('y'):rep(S)", "string.unpack('c' .. S, LONG)", "S"),
    ("rep", "", "string.rep('ab', S // 2)", "S"),
    ("rep-sep", "", "string.rep('a', S // 4, 'bcd')", "S"),
    ("table-concat", "local T = {} for i = 1, S // 10 do T[i] = 'abcdefghij' end", "table.concat(T)", "S"),
    ("table-concat-sep", "local T = {} for i = 1, S // 10 do T[i] = 'abcde' end", "table.concat(T, 'fghij')", "S"),
    ("format-width", "local ONES = {} for i = 1, 150 do ONES[i] = 1 end local FMT = ('%99d '):rep(150)", "string.format(FMT, table.unpack(ONES))", "15000"),
    ("format-s-long", "local LONG = ('y'):rep(S)", "string.format('%s|%s', LONG, LONG)", "2 * S"),
    ("byte-range", "local LONG = ('y'):rep(S)", "select('#', LONG:byte(1, S // 100))", "S // 100"),
    ("move", "local BYTES = {} for i = 1, S // 10 do BYTES[i] = 65 end", "table.move(BYTES, 1, S // 10, 2)", "S // 10"),
    ("insert-shift", "local BYTES = {} for i = 1, S // 10 do BYTES[i] = 65 end", "table.insert(BYTES, 1, 0)", "S // 10"),
    ("remove-shift", "local BYTES = {} for i = 1, S // 10 do BYTES[i] = 65 end", "table.remove(BYTES, 1)", "S // 10"),
    ("sort-presorted", "local BYTES = {} for i = 1, S // 10 do BYTES[i] = i end", "table.sort(BYTES)", "S // 10"),
    ("reverse", "local LONG = ('y'):rep(S)", "LONG:reverse()", "S"),
    ("upper", "local LONG = ('y'):rep(S)", "LONG:upper()", "S"),
    ("lower", "local LONG = ('Y'):rep(S)", "LONG:lower()", "S"),
    ("concat-op", "local LONG = ('y'):rep(S)", "#(LONG .. LONG)", "2 * S"),
    ("utf8-len", "local LONG = ('y'):rep(S)", "utf8.len(LONG)", "S"),
    ("utf8-offset", "local LONG = ('y'):rep(S)", "utf8.offset(LONG, S - 1)", "S"),
    ("utf8-codepoint", "local LONG = ('y'):rep(S)", "select('#', utf8.codepoint(LONG, 1, S // 100))", "S // 100"),
    ("utf8-codes", "local LONG = ('y'):rep(S // 10)", "(function() local c = 0 for _ in utf8.codes(LONG) do c = c + 1 end return c end)()", "S // 10"),
    ("load-long", "local SRC = ('local x=1 '):rep(S // 10)", "load(SRC)", "S"),
    ("gsub-plain", "local LONG = ('y'):rep(S)", "(LONG:gsub('y', 'z'))", "S"),
]


def work_amplify_leg(ctx, binpath, resource_prefix="c05"):
    """size-taking library calls that are not pattern scans: what they are charged (CPU + memory) must grow with the
    size of the work (lower bound work / 8), and with a large size under small limits they must be killed"""
    batch = []
    for name, pre, expr, work in WORK_AMPLIFY:
        for S in (20000, 80000):
            src = ("local S = %d\n%s\nlocal function body()\n  local c = runtime.context()\n"
                   "  local b = (c.used.cpu or 0) + (c.used.memory or 0)\n  local v = %s\n  local c2 = runtime.context()\n"
                   "  emit('WK', (c2.used.cpu or 0) + (c2.used.memory or 0) - b, %s)\n  return 'R'\nend\n"
                   "local ctx, r = runtime.callcontext({kill = {cpu = %d, memory = %d}}, body)\n"
                   "emit('S', ctx.status, ctx.used.cpu or 0, ctx.used.memory or 0, r)\n" % (S, pre, expr, work, luaquota.HUGE, luaquota.HUGE))
            batch.append(("wk:%s:%d" % (name, S), src))
        src = ("local S = 4000000\n%s\nlocal function body() local v = %s emit('UNEXPECTED-END') return 'R' end\n"
               "local ctx, r = runtime.callcontext({kill = {cpu = 50000, memory = 200000}}, body)\n"
               "emit('S', ctx.status, ctx.used.cpu or 0, ctx.used.memory or 0, r)\n" % (pre, expr))
        batch.append(("wk:%s:limited" % name, src))
    res = luaquota.run_batch(binpath, batch, timeout=40)
    for pid, src in batch:
        r = res.get(pid)
        if r is None:
            continue
        _, name, what = pid.split(":")
        ctx.case(pid, True)
        replay = resource_prefix + " lua\n" + src
        if what == "limited":
            ctx.count("work-amplify-limited:" + (r.status or r.cls))
            if name == "format-width":
                continue        # its size is bounded by the format (width <= 99, <= 200 arguments)
            if r.cls != "ok" or r.status != "killed":
                ctx.violation("work-not-killed:" + name, "%s with S=4000000 under kill={cpu=50000, memory=200000} ended %s/%s"
                              % (name, r.cls, r.status), replay)
            continue
        S = int(what)
        body = r.body
        if r.cls != "ok" or r.status != "done" or len(body) < 3 or not body[1].startswith("i") or not body[2].startswith("i"):
            ctx.violation("work-amplify-failed:%s:%d" % (name, S), "ended %s/%s trace %s" % (r.cls, r.status, [luaquota.dec(x) for x in body][:4]), replay)
            continue
        charged, work = int(body[1][1:]), int(body[2][1:])
        ctx.count("work-amplify:" + ("charged" if charged >= work // 8 else "UNDERCHARGED"))
        if charged < work // 8:
            ctx.violation("work-undercharged:" + name, "%s does work of size %d but was charged %d (cpu + memory); lower bound used: %d"
                          % (name, work, charged, work // 8), replay)


# ---- C06: accounted memory covers what is returned ---------------------------------------------------------------
# (name, Lua expression whose value is a freshly built string or table; size function in Lua applied to the value)
RESULT_SIZE = [
    ("rep", "string.rep('ab', 50000)", "#v"),
    ("rep-sep-long", "string.rep('', 200, ('s'):rep(1000))", "#v"),
    ("rep-sep-long-short-s", "string.rep('x', 100, ('s'):rep(2000))", "#v"),
    ("rep-sep-one", "string.rep('abc', 30000, ',')", "#v"),
    ("concat-op", "(function() local a, b = ('a'):rep(60000), ('b'):rep(60000) return a .. b end)()", "#v - 120000 + 120000"),
    ("table-concat", "(function() local t = {} for i = 1, 2000 do t[i] = 'item' .. i end return table.concat(t, ', ') end)()", "#v"),
    ("table-concat-sep-long", "table.concat({'a', 'b', 'c', 'd'}, ('-'):rep(40000))", "#v"),
    ("format-s", "string.format('%s|%s', ('a'):rep(50000), ('b'):rep(50000))", "#v"),
    ("format-width", "string.format('%99s', 'x'):rep(1000)", "#v"),
    ("format-q", "string.format('%q', ('a\\n'):rep(30000))", "#v"),
    ("upper", "(('a'):rep(100000)):upper()", "#v"),
    ("lower", "(('A'):rep(100000)):lower()", "#v"),
    ("reverse", "(('ab'):rep(50000)):reverse()", "#v"),
    ("gsub-grow", "(string.gsub(('a'):rep(20000), 'a', 'bbbbb'))", "#v"),
    ("gsub-function", "(string.gsub(('a'):rep(20000), 'a', function() return 'cccc' end))", "#v"),
    ("char", "string.char(table.unpack((function() local t = {} for i = 1, 200 do t[i] = 65 end return t end)())):rep(500)", "#v"),
    ("utf8-char", "utf8.char(table.unpack((function() local t = {} for i = 1, 200 do t[i] = 0x20AC end return t end)()))", "#v"),
    ("pack-z", "string.pack('z', ('x'):rep(100000))", "#v"),
    ("pack-s4", "string.pack('s4', ('x'):rep(100000))", "#v"),
    ("tostring-int-list", "(function() local t = {} for i = 1, 5000 do t[i] = tostring(i * 1000003) end return table.concat(t) end)()", "#v"),
    ("load-chunk-result", "(function() local f = load('return \"' .. ('z'):rep(50000) .. '\"') return f() end)()", "#v"),
    ("dump", "string.dump(load('local s = \"' .. ('q'):rep(40000) .. '\" return s'))", "#v"),
    ("gsub-capture-refs", "(string.gsub(('m'):rep(4000), '.+', ('%0'):rep(500)))", "#v"),
    ("gsub-capture-refs-numbered", "(string.gsub(('m'):rep(2000) .. '-' .. ('n'):rep(2000), '(m+)-(n+)', ('%2%1'):rep(200)))", "#v"),
    ("gsub-table-long", "(string.gsub('abcd', '%w', {a = ('A'):rep(30000), b = ('B'):rep(30000), c = ('C'):rep(30000), d = ('D'):rep(30000)}))", "#v"),
    ("gsub-function-long", "(string.gsub(('a'):rep(50), 'a', function() return ('r'):rep(3000) end))", "#v"),
    ("gsub-function-rep", "(string.gsub(('a'):rep(20), 'a', function(c) return string.rep(c, 5000) end))", "#v"),
    ("format-many-s", "string.format(('%s'):rep(40), table.unpack((function() local t = {} for i = 1, 40 do t[i] = ('f'):rep(3000) end return t end)()))", "#v"),
    ("table-concat-long-both", "table.concat({('a'):rep(30000), ('b'):rep(30000), ('c'):rep(30000)}, ('-'):rep(30000))", "#v"),
    ("concat-chain", "(function() local a = ('a'):rep(20000) return a .. a .. a .. a .. a .. a end)()", "#v"),
    ("concat-loop", "(function() local s = '' for i = 1, 200 do s = s .. ('p'):rep(500) end return s end)()", "#v"),
    ("tostring-table-meta", "tostring(setmetatable({}, {__tostring = function() return ('t'):rep(80000) end}))", "#v"),
    ("tostring-float-list", "(function() local t = {} for i = 1, 4000 do t[i] = tostring(i + 0.5) end return table.concat(t) end)()", "#v"),
    ("pack-x-padding", "string.pack(FMTX)", "#v"),
    ("pack-c-padding", "string.pack('c100000', 'x')", "#v"),
    ("pack-many", "string.pack(('i8'):rep(150), table.unpack((function() local t = {} for i = 1, 150 do t[i] = i end return t end)())):rep(100)", "#v"),
    ("unpack-strings", "table.pack(string.unpack(('z'):rep(50), (('u'):rep(2000) .. '\\0'):rep(50)))", "50 * 2000"),
    ("load-returns-string", "load('return (\"L\"):rep(100000)')()", "#v"),
    ("coroutine-create-many", "(function() local t = {} for i = 1, 100 do t[i] = coroutine.create(print) end return t end)()", "100 * 2048"),
    ("coroutine-wrap-many", "(function() local t = {} for i = 1, 100 do t[i] = coroutine.wrap(print) end return t end)()", "100 * 2048"),
    ("table-constructor-vararg", "(function(...) return {...} end)(table.unpack((function() local t = {} for i = 1, 200 do t[i] = i end return t end)()))", "#v * 16"),
    ("table-pack-vararg", "(function(...) return table.pack(...) end)(table.unpack((function() local t = {} for i = 1, 200 do t[i] = i end return t end)()))", "v.n * 16"),
    ("table-constructor-list", "{1, 2, 3, 4, 5, 6, 7, 8, 9, 10, 11, 12, 13, 14, 15, 16, 17, 18, 19, 20, 21, 22, 23, 24, 25, 26, 27, 28, 29, 30, 31, 32}", "#v * 16"),
    ("table-of-tables", "(function() local t = {} for i = 1, 3000 do t[i] = {i} end return t end)()", "#v * 16"),
    ("table-array", "(function() local t = {} for i = 1, 20000 do t[i] = i end return t end)()", "#v * 8"),
    ("table-pack", "table.pack(table.unpack((function() local t = {} for i = 1, 200 do t[i] = i end return t end)()))", "v.n * 8"),
    ("table-move", "table.move((function() local t = {} for i = 1, 5000 do t[i] = i end return t end)(), 1, 5000, 1, {})", "#v * 8"),
]


def result_size_leg(ctx, binpath):
    """Spec.Quota.ChargeCovers: used.memory after - before >= size of the value returned (which is still live)"""
    batch = []
    for name, expr, size in RESULT_SIZE:
        src = ("local FMTX = ('x'):rep(60000)\nlocal function body()\n  local before = runtime.context().used.memory\n  local v = %s\n"
               "  local after = runtime.context().used.memory\n  emit('RS', after - before, %s)\n  return 'R'\nend\n"
               "local ctx, r = runtime.callcontext({kill = {memory = %d}}, body)\n"
               "emit('S', ctx.status, ctx.used.cpu or 0, ctx.used.memory or 0, r)\n" % (expr, size, luaquota.HUGE))
        batch.append(("rs:" + name, src))
    res = luaquota.run_batch(binpath, batch, timeout=30)
    for pid, src in batch:
        r = res.get(pid)
        if r is None:
            continue
        name = pid[3:]
        ctx.case(pid, True)
        replay = "c06 lua\n" + src
        body = r.body
        if r.cls != "ok" or r.status != "done" or len(body) < 3 or not body[1].startswith("i") or not body[2].startswith("i"):
            ctx.violation("result-size-run-failed:" + name, "ended %s/%s trace %s" % (r.cls, r.status, [luaquota.dec(x) for x in body][:4]), replay)
            continue
        delta, size = int(body[1][1:]), int(body[2][1:])
        ctx.count("result-size:" + ("covered" if delta >= size else "UNDERCHARGED"))
        if delta < size:
            ctx.violation("result-not-charged:" + name, "%s returned %d bytes but accounted memory grew by only %d" % (name, size, delta), replay)


# ---- C06: values kept alive in vararg frames ---------------------------------------------------------------------
VARARG = [
    # (name, set-up, body statements emitting ('VA', accounted growth, number of live values))
    ("rec-forward", "local T = {} for i = 1, K do T[i] = i end\n"
                    "local function rec(n, base, ...) if n == 0 then emit('VA', runtime.context().used.memory - base, K * D) return 0 end "
                    "return 1 + rec(n - 1, base, ...) end",
     "rec(D, runtime.context().used.memory, table.unpack(T))"),
    ("rec-forward-extra", "local T = {} for i = 1, K do T[i] = i end\n"
                          "local function rec(n, base, ...) if n == 0 then emit('VA', runtime.context().used.memory - base, K * D) return 0 end "
                          "return 1 + rec(n - 1, base, n, ...) end",
     "rec(D, runtime.context().used.memory, table.unpack(T))"),
    ("unpack-into-call", "local T = {} for i = 1, K do T[i] = i end\n"
                         "local function keep(base, ...) emit('VA', runtime.context().used.memory - base, K) return select('#', ...) end",
     "keep(runtime.context().used.memory, table.unpack(T))"),
    ("returns-kept", "local T = {} for i = 1, K do T[i] = i end\nlocal function many() return table.unpack(T) end",
     "local base = runtime.context().used.memory local keepers = {} for i = 1, D do keepers[i] = {many()} end "
     "emit('VA', runtime.context().used.memory - base, K * D)"),
    ("closure-over-vararg", "local T = {} for i = 1, K do T[i] = i end\n"
                            "local function mk(...) local a = {...} return function() return #a end end",
     "local base = runtime.context().used.memory local fs = {} for i = 1, D do fs[i] = mk(table.unpack(T)) end "
     "emit('VA', runtime.context().used.memory - base, K * D)"),
]


def vararg_leg(ctx, binpath):
    """Spec: accounted memory >= 16 bytes x values kept alive (a Value is 16 bytes); and the same shape with
    many more values under a limit is killed"""
    batch = []
    for name, pre, stmts in VARARG:
        for K, D, M in ((150, 40, luaquota.HUGE), (150, 2000, 1000000)):
            src = ("local K, D = %d, %d\n%s\nlocal function body()\n  %s\n  return 'R'\nend\n"
                   "local ctx, r = runtime.callcontext({kill = {memory = %d}}, body)\n"
                   "emit('S', ctx.status, ctx.used.cpu or 0, ctx.used.memory or 0, r)\n" % (K, D, pre, stmts, M))
            batch.append(("va:%s:%s" % (name, "limited" if M != luaquota.HUGE else "free"), src))
    res = luaquota.run_batch(binpath, batch, timeout=40)
    for pid, src in batch:
        r = res.get(pid)
        if r is None:
            continue
        _, name, what = pid.split(":")
        ctx.case(pid, True)
        replay = "c06 lua\n" + src
        ctx.count("vararg:" + (r.status or r.cls))
        if r.cls != "ok":
            ctx.violation("vararg-run-%s:%s" % (r.cls, name), "ended %s (%s)" % (r.cls, luaquota.msg_of(r)[:100]), replay)
            continue
        if what == "limited":
            if r.status != "killed" and name != "unpack-into-call":       # that shape has no depth: K values only
                ctx.violation("vararg-values-not-killed:" + name, "300000 live values (4.8 MB) under kill.memory=1000000: status %s, "
                              "used.memory %s" % (r.status, r.umem), replay)
            continue
        body = r.body
        if r.status != "done" or len(body) < 3 or not body[1].startswith("i"):
            ctx.violation("vararg-run-failed:" + name, "status %s trace %s" % (r.status, [luaquota.dec(x) for x in body][:4]), replay)
            continue
        delta, live = int(body[1][1:]), int(body[2][1:])
        if delta < 16 * live:
            ctx.violation("vararg-values-uncharged:" + name, "%d values are alive in vararg frames / tables (>= %d bytes) but accounted "
                          "memory grew by %d" % (live, 16 * live, delta), replay)


# ---- C06: load ---------------------------------------------------------------------------------------------------
LOAD_COMMENTS = ("local pad = '--' .. ('c'):rep(9000) .. '\\n'\n"
                 "local srcs = {}\nfor i = 1, ITER do srcs[i] = pad .. 'return ' .. i end   -- built outside the limited context\n"
                 "local function body()\n  local keep = {}\n  for i = 1, ITER do\n"
                 "    local src = srcs[i]\n"
                 "    local before = runtime.context().used.memory\n"
                 "    local f = load(src)\n"
                 "    local after = runtime.context().used.memory\n"
                 "    emit('LD', i, after >= before, f ~= nil)\n"
                 "    keep[i] = string.rep('k', 9000)\n  end\n  emit('kept', #keep)\n  return 'R'\nend\n")

LOAD_READER = ("local function body()\n  local base = runtime.context().used.memory\n  local n, bytes = 0, 0\n"
               "  local piece = 'PIECE'\n"
               "  local f = load(function()\n    n = n + 1\n    if LAST and n > LAST then return nil end\n"
               "    if n % 2000 == 0 then emit('RD', bytes, runtime.context().used.memory - base) end\n"
               "    bytes = bytes + #piece\n    return piece\n  end)\n  emit('loaded', bytes, f ~= nil)\n  return 'R'\nend\n")


def load_leg(ctx, binpath):
    batch = []

    def wrapm(src, M):
        return (luaquota.PRELUDE + src + "local ctx, r = runtime.callcontext({kill = {memory = %d}}, body)\n"
                "emit('S', ctx.status, ctx.used.cpu or 0, ctx.used.memory or 0, r)\n" % M)
    batch.append(("load:comments:unlimited", wrapm(LOAD_COMMENTS.replace("ITER", "12"), luaquota.HUGE)))
    batch.append(("load:comments:limited", wrapm(LOAD_COMMENTS.replace("ITER", "200"), 200000)))
    for k, piece in (("1", "'x'"), ("5", "' x=1 '[1] and 'y=2  ' or ''"), ("9", "'local a=1'"), ("9b", "'--comment'")):
        src = LOAD_READER.replace("'PIECE'", piece if k != "5" else "'a=1  '")
        batch.append(("load:reader%s:endless" % k, wrapm(src.replace("LAST", "nil"), 100000)))
        batch.append(("load:reader%s:finite" % k, wrapm(src.replace("LAST", "6000"), luaquota.HUGE)))
    res = luaquota.run_batch(binpath, batch, timeout=30)
    for pid, src in batch:
        r = res.get(pid)
        if r is None:
            continue
        ctx.case(pid, True)
        ctx.count("load:" + (r.status or r.cls))
        replay = "c06 lua\n" + src
        body = [luaquota.dec(x) if x.startswith("s") else x for x in r.body]
        if r.cls != "ok":
            ctx.violation("load-run-%s:%s" % (r.cls, pid), "ended %s (%s)" % (r.cls, luaquota.msg_of(r)[:100]), replay)
            continue
        if pid.startswith("load:comments"):
            # used memory never sinks across a load: what load required for the source is released once, not twice
            for i in range(len(body) - 3):
                if body[i] == "LD" and body[i + 2] != "t":
                    ctx.violation("load-lowers-accounted-memory", "used.memory after load() of a comment-heavy chunk is below its "
                                  "value before the call (iteration %s): memory required for the source was released twice" % body[i + 1][1:], replay)
                    break
            if pid.endswith(":limited"):
                kept = [int(body[i + 1][1:]) for i in range(len(body) - 1) if body[i] == "LD"]
                if r.status != "killed" or (kept and max(kept) > 40):
                    ctx.violation("load-heavy-program-not-killed", "a program retaining 9000 bytes per iteration next to load() of a 9 KB "
                                  "comment ran %d iterations under kill.memory=200000 (status %s)" % (max(kept) if kept else 0, r.status), replay)
            elif r.status != "done":
                ctx.violation("load-run-failed:" + pid, "status %s" % r.status, replay)
        else:
            # reader pieces: what load has buffered is accounted while it is being read
            for i in range(len(body) - 2):
                if body[i] == "RD":
                    read, acc = int(body[i + 1][1:]), int(body[i + 2][1:])
                    if acc < read:
                        ctx.violation("load-reader-pieces-uncharged:" + pid.split(":")[1], "load() had buffered %d bytes from its reader "
                                      "function while accounted memory had grown by only %d" % (read, acc), replay)
                        break
            if pid.endswith("endless"):
                reads = [int(body[i + 1][1:]) for i in range(len(body) - 2) if body[i] == "RD"]
                if r.status != "killed":
                    ctx.violation("load-endless-reader-not-killed:" + pid.split(":")[1], "status %s" % r.status, replay)
                elif reads and max(reads) > 100000 + 20000:
                    ctx.violation("load-endless-reader-overrun:" + pid.split(":")[1], "load() buffered %d bytes under kill.memory=100000 "
                                  "before the context was killed" % max(reads), replay)
            elif r.status != "done":
                ctx.violation("load-run-failed:" + pid, "status %s trace %s" % (r.status, body[-4:]), replay)
