"""C07 — nested execution contexts conserve budgets and report status truthfully.

Theorems: lean/GoluaVerif/Props/C07.lean over Model.Ctx / Model.CallCtx built on the regenerated
Generated.Resources.  Correspondence: (B) every operation of exhaustive and random histories on a real
*rt.Runtime against the Lean model, whole-stack state after each step; (A) the Spec.Quota relations
checked on the implementation's own trace; bracketed form through Thread.CallContext and through Lua
(runtime.callcontext / pcall) against Model.CallCtx."""
import os
from . import common, ctxlib


def run(ctx):
    ctx.rule = ("case = one operation history on a fresh runtime (state of the whole context stack compared after every "
                "operation); non-trivial = at least two pushed contexts alive at once and a limit or amount from the boundary "
                "set {0,1,2,L-1,L,L+1,2^63,2^64-8..2^64-1}; distinct by the op sequence")
    ctx.assumptions = [
        "the clock is frozen in the model: time limits (Millis) only through values >= 2^62 whose jitter is masked; "
        "updateTimeUsed is not modelled",
        "conservation / exact kill are claimed under the no-overflow hypothesis n + L <= 2^64 (from Lua L < 2^63 and "
        "amounts are lengths < 2^63); its failure without the hypothesis is the proved conservation_counterexample",
        "message handlers, GC policy and weak-ref pools of a context are outside the model",
    ]
    msgs = common.regen(ctx)
    for m in msgs:
        ctx.obligations.append({"name": "translate:" + m.split(":")[0].split(" ")[-1], "ok": False, "axioms": [], "note": m})
    common.prove(ctx)
    common.build_oracle()
    h = common.build_go("c07", "cmd/c07")
    thorough = ctx.tier == "thorough"
    ctx.log("proofs re-checked; corpus + exhaustive depth 3")
    corpus_leg(ctx, h)
    n = ctxlib.flat_leg(ctx, h, ["exh", "3"], "exh3")
    ctx.extra["exhaustive_depth3_histories"] = n
    if thorough:
        for shard in range(16):
            n += ctxlib.flat_leg(ctx, h, ["exh", "4", str(shard), "16"], "exh4")
        ctx.extra["exhaustive_depth4_histories"] = n
    ctxlib.flat_leg(ctx, h, ["rand", "60000" if thorough else "8000"], "rand")
    ctx.log("bracketed CallContext trees, Lua nesting programs")
    from . import ctxcall
    ctxcall.call_leg(ctx, h, 20000 if thorough else 3000)
    ctxcall.lua_leg(ctx, 600 if thorough else 150)


def corpus_leg(ctx, h):
    """hand-picked histories and trees (the witnesses of the counterexample theorems among them): always run first"""
    d = os.path.join(common.ROOT, "corpus", "C07")
    if not os.path.isdir(d):
        return
    for fn in sorted(os.listdir(d)):
        lines = [l.strip() for l in open(os.path.join(d, fn)) if l.strip() and not l.startswith("#")]
        rc, out, err = common.run_harness(h, ["replay"], input="\n".join(lines) + "\n")
        if rc != 0:
            raise common.BuildError("c07 replay of corpus %s failed: %s" % (fn, err[-500:]))
        impl = out.split("\n")[:-1]
        model = common.run_oracle("c07", impl)
        ctx.case("corpus:" + fn, True)
        ctx.count("corpus")
        for a, b in zip(impl, model):
            if a != b:
                ctx.violation("B:corpus:" + fn, "model and implementation differ on corpus/C07/%s\nimplementation: %s\nmodel:          %s"
                              % (fn, a, b), "c07 ops\n" + "\n".join(lines) + "\n", found_input=False)
                break


def replay(ctx, path):
    txt = open(path).read()
    from . import ctxcall
    if "\nc07 call" in "\n" + txt or "\nc07 lua" in "\n" + txt:
        return ctxcall.replay(ctx, path)
    h = common.build_go("c07", "cmd/c07")
    common.build_oracle()
    hist, cur = [], None
    for line in txt.split("\n"):
        line = line.strip()
        if not line or line.startswith("#") or line.startswith("c07 "):
            continue
        if line.startswith("H"):
            cur = []
            hist.append(cur)
        elif cur is not None:
            cur.append(line.split(" = ")[0])
    impl, model = ctxlib.run_ops(h, hist)
    rc = 0
    for a, b in zip(impl, model):
        if a == b:
            print("  " + a)
        else:
            print("impl  " + a)
            print("model " + b)
            rc = 1
    for hh in ctxlib.split_histories(impl):
        bad, _ = ctxlib.LevelA().check(hh)
        for name, i, ln in bad:
            print("spec relation violated: %s at op %d: %s" % (name, i, ln))
            rc = 1
    return rc
