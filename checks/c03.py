"""C03 — tables.  Theorems: lean/GoluaVerif/Props/C03*.lean about Model.Table (a mirror of
runtime/hashtable.go parameterised by the key hash), Model.TableInv.Inv and Spec.Map.
Correspondence: harness/cmd/c03 drives the real runtime.Table API and compiled Lua, printing
every output, the dump of the private state (verif hook) and the key hashes; oracle mode c03
(A) validates the outputs against Spec.Map / isBorder / the traversal relation, (B) runs
Model.Table with the exported hashes and compares outputs and complete state, and evaluates
the decidable Inv of the theorems on every dump (a monitor, not a proof)."""
import os
import re
import subprocess
from . import common

# tags of recorded defect families (decided by a predicate computed in the oracle).  Empty: the five C03
# defects found by this check are repaired in /repo (known_findings.json `fixed:` lines); their witnesses
# are ordinary regression cases in corpus/C03/witnesses.txt.
FAMILY_TAGS = set()
NONTRIVIAL_TAGS = ("arr+hash", "grow-hash", "grow-array", "trav-update")


def strip_op(line):
    """protocol line -> replay script line (no hashes, no outputs, values as `v`/`n`)"""
    f = line.split(" ")

    def val(tok):
        # integers are interchangeable fresh values; nil, false, "", 0.0, NaN … are kept as they are
        return "v" if tok.startswith("i") else tok

    if f[0] in ("S", "R", "X"):
        return "%s %s %s" % (f[0], f[1], val(f[3]))
    if f[0] == "TI":
        return "TI %s" % val(f[1])
    if f[0] == "TP":
        return "TP %s %s" % (f[1], val(f[2]))
    if f[0] == "TQ":
        return "TQ %s" % f[1]
    if f[0] in ("TR", "TU"):
        return f[0]
    if f[0] in ("G", "N", "I"):
        return "%s %s" % (f[0], f[1])
    if f[0] == "L":
        return "L"
    return None


def split_cases(lines, verdicts):
    """-> list of (header, [(line, verdict)])"""
    cases = []
    for l, v in zip(lines, verdicts):
        if l.startswith("C "):
            cases.append((l, []))
        elif cases:
            cases[-1][1].append((l, v))
    return cases


def run_bounded(h, args, input=None, timeout=120):
    """run the harness; on a timeout (a loop in the table code that never ends) return what it printed so far.
    -> (lines, hung)"""
    e = dict(os.environ)
    e.setdefault("GOMEMLIMIT", "6GiB")
    p = subprocess.Popen([h] + list(args), stdin=subprocess.PIPE if input is not None else None,
                         stdout=subprocess.PIPE, stderr=subprocess.PIPE, text=True, errors="replace", env=e)
    hung = False
    try:
        out, err = p.communicate(input=input, timeout=timeout)
    except subprocess.TimeoutExpired:
        p.kill()
        out, err = p.communicate()
        hung = True
    if not hung and p.returncode != 0:
        raise common.BuildError("c03 harness failed rc=%d: %s" % (p.returncode, err[-2000:]))
    lines = out.split("\n")
    lines = lines[:-1]  # drop the empty tail (or, after a kill, the line cut in the middle)
    return lines, hung


def report_hang(ctx, lines, label):
    """the harness did not finish: the last case on stdout is the one that hangs (stdout is flushed at every case)"""
    idx = max((i for i, l in enumerate(lines) if l.startswith("C ")), default=None)
    if idx is None:
        ctx.violation("hang|" + label, "the harness hangs before its first case", "# no case printed\n", False)
        return lines
    hf = lines[idx].split(" ")
    ops = [o for o in (strip_op(l) for l in lines[idx + 1:]) if o]
    ctx.count("fail:hang")
    ctx.violation("hang|%s|%s" % (hf[2], ";".join(ops)),
                  "an operation on the table did not return within the time limit (case %s %s): the operation after the last one listed hangs"
                  % (hf[1], " ".join(hf[3:])),
                  "C replay %s %s\n%s\n# the next operation of the generated case did not return\n" % (hf[2], " ".join(hf[3:]), "\n".join(ops)))
    return lines[:idx]


SHRINK = {"spent": 0.0, "off": False}  # shrinking is best effort: at most ~60 s per run, none after a hang


def run_script(h, script_lines, ctx=None, timeout=120):
    lines, hung = run_bounded(h, ["replay"], input="\n".join(script_lines) + "\n", timeout=timeout)
    if hung:
        SHRINK["off"] = True
    if hung:
        if ctx is None:
            lines = lines[:max((i for i, l in enumerate(lines) if l.startswith("C ")), default=0)]
        else:
            lines = report_hang(ctx, lines, "replay")
    verdicts = common.run_oracle("c03", lines) if lines else []
    if len(verdicts) != len(lines):
        raise common.BuildError("oracle returned %d lines for %d inputs" % (len(verdicts), len(lines)))
    return lines, verdicts


def fails_with(tag, body):
    return any(v.startswith("FAIL") and any(p.split(" ")[1] == tag for p in v.split(" ;; ") if p.startswith("FAIL"))
               for _, v in body)


def shrink(h, leg, ops, tag, budget=14):
    """delta debugging over the op list; all candidates of a round run in one harness + oracle call"""
    import time
    n = 2
    while len(ops) >= 2 and budget > 0 and not SHRINK["off"] and SHRINK["spent"] < 60:
        budget -= 1
        t0 = time.time()
        chunk = max(1, len(ops) // n)
        cands = [ops[:i] + ops[i + chunk:] for i in range(0, len(ops), chunk)]
        script = []
        for ci, c in enumerate(cands):
            script.append("C s%d %s shrink" % (ci, leg))
            script.extend(c)
        lines, verdicts = run_script(h, script, timeout=15)
        SHRINK["spent"] += time.time() - t0
        cases = split_cases(lines, verdicts)
        hit = None
        for ci, (_, body) in enumerate(cases):
            if fails_with(tag, body):
                hit = ci
                break
        if hit is not None:
            ops = cands[hit]
            n = max(n - 1, 2)
        elif chunk == 1:
            break
        else:
            n = min(len(ops), n * 2)
    return ops


def evaluate(ctx, h, lines, verdicts, label, do_shrink=True):
    if len(verdicts) != len(lines):
        raise common.BuildError("oracle returned %d lines for %d inputs" % (len(verdicts), len(lines)))
    shrunk = 0
    for header, body in split_cases(lines, verdicts):
        hf = header.split(" ")
        leg, descr = hf[2], (hf[3] if len(hf) > 3 else "")
        ops = []
        tags = set()
        seen_tags = set()
        for l, v in body:
            if v == "bad-line":
                raise common.BuildError("oracle could not parse: " + l[:300])
            so = strip_op(l)
            if so is not None:
                ops.append(so)
                ctx.count("op:" + l[0])
            if v.startswith("ok"):
                for t in v.split(" ")[1:]:
                    tags.add(t)
                    if t.startswith("ins:") or t.startswith("grow:"):
                        ctx.count("branch:" + t.split(".")[-1] if "." in t else "branch:" + t)
                continue
            for part in v.split(" ;; "):
                pf = part.split(" ")
                tag, detail = pf[1], " ".join(pf[2:])
                if tag in seen_tags:
                    continue
                seen_tags.add(tag)
                ctx.count("fail:" + tag)
                upto = list(ops)
                if tag not in FAMILY_TAGS and do_shrink and shrunk < 6 and not l.startswith("D") and not l.startswith("K"):
                    shrunk += 1
                    upto = shrink(h, leg, upto, tag)
                key = "%s|%s|%s" % (tag, leg, ";".join(upto))
                found_input = not (tag.startswith("B-") or tag in ("inv", "go-invariant", "hash-not-function-of-key"))
                replay = "C replay %s %s\n%s\n# failing line: %s\n# verdict: %s\n" % (
                    leg, descr, "\n".join(upto), l[:2000], part[:2000])
                ctx.violation(key, "%s: %s (case %s %s, leg %s)" % (tag, detail[:300], hf[1], descr, leg), replay, found_input)
        canon = leg + "|" + ";".join(ops)
        ctx.case(canon, any(t in tags for t in NONTRIVIAL_TAGS))
        ctx.count("leg:" + leg)
        ctx.count("kind:" + label + ":" + re.sub(r"[-0-9]+$", "", descr))
        n = len(ops)
        ctx.count("len:" + ("<=10" if n <= 10 else "<=50" if n <= 50 else "<=200" if n <= 200 else ">200"))
    for l in lines[:: max(1, len(lines) // 5)][:5]:
        ctx.sample(l[:300])


def corpus_scripts():
    d = os.path.join(common.ROOT, "corpus", "C03")
    out = []
    if os.path.isdir(d):
        for fn in sorted(os.listdir(d)):
            if fn.endswith(".txt"):
                out.extend(l.rstrip("\n") for l in open(os.path.join(d, fn)) if l.strip() and not l.startswith("#"))
    return out


def run(ctx):
    ctx.rule = ("case = one operation sequence on a fresh table (leg go: runtime.Table API; lua/luaraw/meta: compiled Lua); "
                "non-trivial = the sequence has live keys in both the array and the hash part, or makes the table grow "
                "(hash doubling or array migration), or updates the table while a next/pairs traversal is running; "
                "distinct by leg + canonical op list (keys, nil-ness of values)")
    ctx.assumptions = [
        "the key hash is a function of the normalised key (checked on every line: a key seen with two hashes is reported)",
        "FloatToInt (key normalisation) is Spec.Num.floatToInt?: compared with the regenerated Generated.Comp.FloatToInt on every float key",
        "keys are never nil/NaN below the Table API (SetTableCheck/SetIndex reject them; checked as level-A outputs)",
        "a slot's next word index<<2|flags is modelled as (index, hasNext, chained); index < 2^62",
        "the Inv monitor on dumps and level B are correspondence, not proof: they tie the proved model to this code on the sequences run",
    ]
    msgs = common.regen(ctx)
    for m in msgs:
        ctx.obligations.append({"name": "translate:" + m.split(":")[0].split(" ")[-1], "ok": False, "axioms": [], "note": m})
    ctx.log("regenerated")
    common.prove(ctx)
    ctx.log("theorems re-checked")
    common.build_oracle()
    h = common.build_go("c03", "cmd/c03")
    ctx.log("oracle and harness built")
    cs = corpus_scripts()
    if cs:
        lines, verdicts = run_script(h, cs, ctx=ctx, timeout=60)
        evaluate(ctx, h, lines, verdicts, "corpus", do_shrink=False)
    lines, hung = run_bounded(h, ["gen", ctx.tier], timeout=90 if ctx.tier == "quick" else 3000)
    if hung:
        lines = report_hang(ctx, lines, "gen")
    ctx.log("harness done: %d lines" % len(lines))
    verdicts = common.run_oracle("c03", lines, timeout=3000)
    ctx.log("oracle done")
    evaluate(ctx, h, lines, verdicts, "gen")
    ctx.extra["protocol_lines"] = len(lines)
    ctx.extra["exhaustive"] = False
    ctx.extra["exhaustive_note"] = ("all set/delete sequences up to the length named in the case kind over the small key alphabets "
                                    "(empty, array-prefixed and hashed-mode prefixes) are enumerated; the property's domain itself is unbounded")


def replay(ctx, path):
    common.build_oracle()
    h = common.build_go("c03", "cmd/c03")
    script = [l.rstrip("\n") for l in open(path) if l.strip() and not l.startswith("#")]
    lines, verdicts = run_script(h, script)
    bad = 0
    for l, v in zip(lines, verdicts):
        if not l.startswith("D") or not v.startswith("ok"):
            print("%-60s | %s" % (l[:200], v[:400]))
        if not v.startswith("ok"):
            bad += 1
    print("replay: %d failing line(s)" % bad)
    return 1 if bad else 0
