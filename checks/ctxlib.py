"""Shared by c05/c06/c07: running the context-stack harness against the Lean model (level B) and
checking the spec-level relations of Spec.Quota on the implementation's own trace (level A)."""
from . import common

M64 = 1 << 64
LIVE, DONE, ERROR, KILLED = 0, 1, 2, 3
BOUNDARY = {0, 1, 2, 4, 5, 6, 1 << 63, M64 - 2, M64 - 1}


class Frame:
    __slots__ = ("hc", "hm", "ht", "sc", "sm", "st", "uc", "um", "ut", "status", "due", "flags")

    def __init__(self, txt):
        v = txt.split()
        (self.hc, self.hm, self.ht, self.sc, self.sm, self.st, self.uc, self.um, self.ut,
         self.status, self.due, self.flags) = (int(x) for x in v)


def parse_line(line):
    """'<op> = <outcome> | f | f' -> (op words, outcome, [Frame])"""
    left, right = line.split(" = ", 1)
    parts = right.split(" | ")
    return left.split(), parts[0], [Frame(p) for p in parts[1:]]


def lim_le(a, b):
    return b == 0 or (a != 0 and a <= b)


def below(v, l):
    return l == 0 or v < l


def split_histories(lines):
    cur = None
    for ln in lines:
        if ln.startswith("H"):
            if cur is not None:
                yield cur
            cur = []
        elif cur is not None:
            cur.append(ln)
    if cur is not None:
        yield cur


class LevelA:
    """Spec relations on one history of the implementation's trace.  Returns a list of
    (relation name, line index, text) for every relation violated."""

    def __init__(self):
        self.bad = []

    def check(self, hist):
        bad = []
        stack = [Frame("0 0 0 0 0 0 0 0 0 0 0 0")]       # what rt.New() starts with
        stops = [0]                                      # stop bits requested per frame (inherited on push)
        legal = True
        # per frame: [limit, granted since creation incl. descendants, used at creation(=0), hypothesis ok]
        budgets = [None]
        for i, ln in enumerate(hist):
            op, outcome, fr = parse_line(ln)
            kind = op[0]
            args = [int(x) for x in op[1:]]
            cur = stack[0]
            was_live = cur.status == LIVE
            if kind not in ("pop",) and not was_live:
                legal = False
            if outcome.startswith("panic"):
                bad.append(("no_unexpected_panic", i, ln))
                break
            if kind == "push":
                if outcome != "ok" or len(fr) != len(stack) + 1:
                    bad.append(("push_shape", i, ln))
                    break
                ch = fr[0]
                hc, hm, ht, sc, sm, st, fl = args
                if legal:
                    for name, c, ph, pu in (("cpu", ch.hc, cur.hc, cur.uc), ("mem", ch.hm, cur.hm, cur.um)):
                        rem = 0 if ph == 0 else ph - pu
                        if ph != 0 and pu >= ph:
                            bad.append(("used_below_hard_at_push", i, ln))
                        elif not lim_le(c, rem):
                            bad.append(("push_hard_le_remaining:" + name, i, ln))
                    if not lim_le(ch.ht, cur.ht):
                        bad.append(("push_hard_le_remaining:millis", i, ln))
                for c, d in ((ch.hc, hc), (ch.hm, hm), (ch.ht, ht)):
                    if not lim_le(c, d):
                        bad.append(("push_hard_le_def", i, ln))
                for s_, h_, d_, ps_ in ((ch.sc, ch.hc, sc, cur.sc), (ch.sm, ch.hm, sm, cur.sm), (ch.st, ch.ht, st, cur.st)):
                    if not (lim_le(s_, h_) and lim_le(s_, d_) and lim_le(s_, ps_)):
                        bad.append(("push_soft_le_hard", i, ln))
                implied = (2 if hc else 0) | (1 if hm else 0) | (8 if ht else 0)
                want = cur.flags | fl | implied
                if ch.flags & want != want:
                    bad.append(("push_flags_superset", i, ln))
                if (ch.uc, ch.um, ch.status) != (0, 0, LIVE):
                    bad.append(("push_fresh", i, ln))
                stack = fr
                stops.insert(0, stops[0])
                budgets.insert(0, [ch.hc, 0, True] if ch.hc else None)
            elif kind == "pop":
                if len(stack) == 1:
                    if outcome != "ok" or len(fr) != 1:
                        bad.append(("pop_root_noop", i, ln))
                        break
                    stack = fr
                else:
                    par = stack[1]
                    if outcome == "ok":
                        if len(fr) != len(stack) - 1:
                            bad.append(("pop_shape", i, ln))
                            break
                        n = fr[0]
                        if legal:
                            if par.hc and n.uc != par.uc + cur.uc:
                                bad.append(("pop_charges_parent:cpu", i, ln))
                            if par.hm and n.um != par.um + cur.um:
                                bad.append(("pop_charges_parent:mem", i, ln))
                            if (n.hc, n.hm, n.sc, n.sm, n.flags, n.status) != (par.hc, par.hm, par.sc, par.sm, par.flags, par.status):
                                bad.append(("pop_restores_parent", i, ln))
                        stack = fr
                        stops.pop(0)
                        budgets.pop(0)
                    else:
                        if legal:
                            bad.append(("pop_never_kills_parent", i, ln))
                        legal = False
                        stack = fr
            else:
                if len(fr) != len(stack):
                    bad.append(("depth_changed", i, ln))
                    break
                n = fr[0]
                a = args[0]
                if kind == "cpu" and legal:
                    tracked = bool(cur.hc or cur.sc or cur.ht or cur.st)
                    hyp = cur.hc == 0 or a + cur.hc <= M64
                    hardstop = stops[0] & 2
                    if hyp:
                        should_kill = tracked and (hardstop or (cur.hc != 0 and cur.uc + a >= cur.hc))
                        if should_kill != (outcome == "terminated"):
                            bad.append(("kill_exact", i, ln))
                        if outcome == "ok" and tracked and n.uc != cur.uc + a and cur.hc:
                            bad.append(("cpu_accounted", i, ln))
                    if outcome == "ok":
                        for b in budgets:
                            if b is not None:
                                if a + b[0] > M64:
                                    b[2] = False
                                b[1] += a
                                if b[2] and b[1] >= b[0]:
                                    bad.append(("conservation", i, ln))
                if kind == "mem" and legal:
                    tracked = bool(cur.hm or cur.sm)
                    hyp = cur.hm == 0 or a + cur.hm <= M64
                    if hyp:
                        should_kill = tracked and ((stops[0] & 2) or (cur.hm != 0 and cur.um + a >= cur.hm))
                        if should_kill != (outcome == "terminated"):
                            bad.append(("mem_kill_exact", i, ln))
                if kind == "rel":
                    # "releasing memory never drives the counter below zero or crashes" (any history, legal or not):
                    # since 8007e69 a release drains the active context, then its ancestors, down to the first
                    # context without hard memory limit, which absorbs the rest; a runtime made by rt.New has such
                    # a context at the bottom.
                    if outcome != "ok":
                        bad.append(("release_never_crashes", i, ln))
                    else:
                        reach = 0
                        while reach < len(stack) and stack[reach].hm != 0:
                            reach += 1
                        covered = sum(f.um for f in stack[:reach])
                        taken = min(a, covered)
                        if sum(f.um for f in fr[:reach]) != covered - taken:
                            bad.append(("release_cascades_exactly", i, ln))
                        for d, (f0, f1) in enumerate(zip(stack, fr)):
                            if f1.um > f0.um or (d >= reach and f1.um != f0.um) or (f1.uc, f1.hc, f1.hm, f1.status) != (f0.uc, f0.hc, f0.hm, f0.status):
                                bad.append(("release_only_lowers_reachable_counters", i, ln))
                                break
                        for d in range(1, len(fr)):
                            if fr[d].um != stack[d].um and fr[d - 1].um != 0:
                                bad.append(("release_innermost_first", i, ln))
                                break
                if kind == "stop":
                    stops[0] |= a
                    if legal and (outcome == "terminated") != bool(a & 2 and was_live):
                        bad.append(("hard_stop_kills", i, ln))
                if outcome == "terminated" and n.status != KILLED:
                    bad.append(("status_truthful:killed", i, ln))
                if outcome == "ok" and was_live and n.status != LIVE:
                    bad.append(("status_truthful:live", i, ln))
                stack = fr
            if legal:
                for d, f in enumerate(stack):
                    if not (below(f.uc, f.hc) and below(f.um, f.hm)):
                        bad.append(("used_lt_hard", i, ln))
                    if not (lim_le(f.sc, f.hc) and lim_le(f.sm, f.hm) and lim_le(f.st, f.ht)):
                        bad.append(("soft_le_hard", i, ln))
                f = stack[0]
                want_due = bool(stops[0] & 1) or not (below(f.uc, f.sc) and below(f.um, f.sm) and below(f.ut, f.st))
                if bool(f.due) != want_due:
                    bad.append(("due_iff", i, ln))
            if bad:
                break
        return bad, legal


def nontrivial_history(hist):
    depth = 0
    boundary = False
    for ln in hist:
        w = ln.split(" = ", 1)
        depth = max(depth, w[1].count(" | "))
        ws = w[0].split()
        if any(int(x) in BOUNDARY or int(x) >= M64 - 8 for x in ws[1:]):
            boundary = True
    return depth >= 3 and boundary      # root + two pushed contexts


def ops_of(hist):
    return [ln.split(" = ", 1)[0] for ln in hist]


def run_ops(harness, histories):
    """histories: list of list of op strings -> (impl lines, model lines)"""
    inp = "".join("H\n" + "\n".join(h) + "\n" for h in histories)
    rc, out, err = common.run_harness(harness, ["replay"], input=inp)
    if rc != 0:
        raise common.BuildError("c07 harness replay failed: " + err[-2000:])
    impl = out.split("\n")[:-1]
    model = common.run_oracle("c07", impl)
    return impl, model


def shrink(ops, fails):
    """greedy one-at-a-time removal; `fails(ops)` -> bool"""
    ops = list(ops)
    changed = True
    while changed and len(ops) > 1:
        changed = False
        for i in range(len(ops)):
            cand = ops[:i] + ops[i + 1:]
            if cand and fails(cand):
                ops = cand
                changed = True
                break
    return ops


def flat_leg(ctx, h, args, label):
    rc, out, err = common.run_harness(h, args)
    if rc != 0:
        raise common.BuildError("c07 harness %s failed: %s" % (args, err[-2000:]))
    impl = out.split("\n")[:-1]
    model = common.run_oracle("c07", impl)
    if len(model) != len(impl):
        raise common.BuildError("oracle c07 returned %d lines for %d" % (len(model), len(impl)))
    # level B: line-by-line equality; report per history, first differing line
    idx = 0
    nh = 0
    a = LevelA()
    budget = {}
    for hist in split_histories(impl):
        idx += 1  # the H line
        nh += 1
        mh = model[idx: idx + len(hist)]
        canon = "\n".join(ops_of(hist))
        ctx.case(canon, nontrivial_history(hist))
        if nh % 12001 == 1:
            ctx.sample(" ; ".join(hist[:4])[:400])
        if mh != hist:
            ctx.count(label + ":B-mismatch")
        if mh != hist and budget.get("B", 0) < 4:
            budget["B"] = budget.get("B", 0) + 1
            k = next(i for i in range(len(hist)) if mh[i] != hist[i])
            ops = ops_of(hist[:k + 1])

            def fails(cand):
                i2, m2 = run_ops(h, [cand])
                return i2 != m2
            ops = shrink(ops, fails)
            i2, m2 = run_ops(h, [ops])
            j = next((i for i in range(len(i2)) if m2[i] != i2[i]), len(i2) - 1)
            ctx.violation("B:" + ";".join(ops),
                          "model and implementation differ (level B): the theorems of Props/C05-C07 lose their tie.\n"
                          "implementation: %s\nmodel:          %s" % (i2[j], m2[j]),
                          "c07 ops\nH\n" + "\n".join(ops) + "\n", found_input=False)
        bad, legal = a.check(hist)
        ctx.count(label + (":legal" if legal else ":abuse"))
        for name, i, ln in bad[:1]:
            ctx.count(label + ":A-violation:" + name)
            if budget.get(name, 0) >= 3:
                continue
            budget[name] = budget.get(name, 0) + 1
            ops = ops_of(hist[:i + 1])
            rel = name.split(":")[0]

            def failsA(cand, rel=rel):
                i2, _ = run_ops(h, [cand])
                b2, _ = LevelA().check(i2[1:])
                return any(n.split(":")[0] == rel for n, _, _ in b2)
            ops = shrink(ops, failsA)
            i2, _ = run_ops(h, [ops])
            ctx.violation("A:%s:%s" % (name, ";".join(ops)),
                          "spec relation `%s` violated by the implementation\nlast line: %s" % (name, i2[-1]),
                          "c07 ops\nH\n" + "\n".join(ops) + "\n")
        idx += len(hist)
    for ln in impl:
        if not ln.startswith("H"):
            w = ln.split(" ", 1)[0]
            o = ln.split(" = ", 1)[1].split(" ", 1)[0]
            ctx.count("op:" + w + ":" + o)
    return nh


