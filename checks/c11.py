"""C11 — errors reach exactly the nearest protected call, with their value intact.

Theorems: lean/GoluaVerif/Props/C11.lean (reference semantics + Model/ErrRoute mirroring runtime/error.go and
lib/base/error.go).  Correspondence: the C01 machinery (checks/c01.py) with the generator in error mode: error
sites of every class injected in expressions, metamethods, iterators, nested functions, handlers and to-be-closed
scopes under nestings of pcall/xpcall; error values are compared by identity tags, `chunk:line:` prefixes
literally, and follow-up statements after each catch check that the state is consistent.  Coroutines are not
part of the reference interpreter (coroutine.wrap/resume boundaries are not exercised)."""
from . import c01


def run(ctx):
    c01.run_mode(ctx, "c11", 300, 20000)


def replay(ctx, path):
    return c01.replay(ctx, path)
