"""C08 — compliance flags gate every Go function; iosafe means no access to the outside.

static : extract/gofacts regenerates Generated/Compliance.lean (registrations + declared flags) and
         Generated/CallGraph.lean (call graph, sinks, gates, certificate) from REPO; Props/C08.lean holds the
         generic graph theorems and the per-run `decide` instances.  Every (iosafe-declared function -> sink)
         path the extractor finds is a violation keyed by the path.
dynamic: harness/cmd/c08 calls every Go function reachable in a real runtime under callcontext({flags=F}) for all
         16 F, several spellings and argument tuples; the oracle (Model.Flags + the regenerated table) predicts
         refuse/pass; effects are watched with inotify on a sentinel directory, the process table and strace
         (thorough)."""
import os
import re
import shutil
import subprocess
import tempfile
import time

from . import common

MOD = "github.com/arnodel/golua/"


def short(s):
    return s.replace(MOD, "")


def unhex(h):
    try:
        return bytes.fromhex(h).decode("utf8", "replace")
    except ValueError:
        return h


INLINED_FACTORY = re.compile(r"^(.*)\.init\.([A-Za-z_]\w*)\.func\d+$")


def table_sym(sym):
    """runtime symbol -> symbol pattern of the regenerated table"""
    m = INLINED_FACTORY.match(sym)
    if m:
        return "%s.%s.func*" % (m.group(1), m.group(2))
    return sym


def static_part(ctx, facts):
    nodes = facts["nodes"]
    for u in (facts["unresolved"] or []):
        ctx.obligations.append({"name": "extract:registration-resolved", "ok": False, "axioms": [], "note": u})
    ctx.extra["graph_nodes"] = len(nodes)
    ctx.extra["graph_edges"] = len(facts["edges"])
    ctx.extra["registrations"] = len(facts["regs"])
    ctx.extra["iosafe_sources"] = len(facts["iosafeSrcs"])
    ctx.extra["gate_sources"] = len(facts["gateSrcs"])
    ctx.extra["certificate_size"] = len(facts["S"])
    ctx.extra["sinks_in_graph"] = sorted(short(n["name"]) for n in nodes if n["sink"])
    ctx.extra["gates"] = sorted(short(n["name"]) for n in nodes if n["gate"])
    ctx.extra["gate_facts"] = facts["gateFacts"]
    for a, b, why in facts["exemptEdges"]:
        ctx.assumptions.append("call edge %s -> %s is left out of the graph: %s" % (short(a), short(b), why))
    for k, v in sorted(facts["gateFacts"].items()):
        if not v:
            ctx.violation("gate-not-guarding:" + k,
                          "in %s the guarded call is no longer dominated by the passed branch of the flag test" % k,
                          "c08 static\ngate %s: the flag test does not dominate what it should guard (see runtime/gocont.go, safeio/file.go)\n" % k,
                          found_input=False)
    for h in facts["holes"]:
        path = [short(nodes[i]["name"]) for i in h["path"]]
        key = "static:" + "->".join(path)
        ctx.violation(key,
                      "%s is declared ComplyIoSafe (or is run by a gate) and reaches the operating-system primitive %s without passing a safeio gate"
                      % (path[0], path[-1]),
                      "c08 static\npath: %s\n(call-graph path from the current tree; node positions: %s)\n"
                      % (" -> ".join(path), ", ".join(nodes[i].get("pos", "") for i in h["path"])))
        ctx.count("static-hole")
    ctx.sample("certificate: %d iosafe sources + %d gate sources, %d nodes closed, %d edges checked, %d hole path(s)"
               % (len(facts["iosafeSrcs"]), len(facts["gateSrcs"]), len(facts["S"]), len(facts["edges"]), len(facts["holes"])))


def run_harness(ctx, h, tier, sentinel, filt=None, strace_log=None, shards=1, budget=None, extra_env=None):
    """Run the harness, sharded over `shards` worker processes (functions are dealt out modulo the number of workers,
    each worker has its own sentinel directory).  `budget` seconds after its start a worker stops STARTING cases and
    reports how much of the planned enumeration it did (a slow machine costs coverage, never an alarm); a single case
    that does not return within 90 s makes the worker report `hang …` and exit 3 (that IS reported)."""
    env = dict(os.environ)
    env.setdefault("GOMEMLIMIT", "4GiB")
    env.setdefault("GOMAXPROCS", "4" if shards == 1 else "2")
    if budget:
        env["C08_BUDGET_S"] = str(int(budget))
    env.update(extra_env or {})
    procs = []
    for i in range(shards):
        sdir = sentinel if shards == 1 else os.path.join(sentinel, "w%d" % i)
        cmd = [h, "run", tier, sdir] + ([filt] if filt else [])
        if strace_log:
            cmd = ["strace", "-f", "-qq", "-e", "trace=%file,%process,%network", "-o", strace_log] + cmd
        e = dict(env)
        if shards > 1:
            e["C08_SHARD"] = "%d/%d" % (i, shards)
        # (output goes to files: a pipe read only after the previous worker has finished would stall the writer)
        fo = tempfile.TemporaryFile(mode="w+", errors="replace")
        fe = tempfile.TemporaryFile(mode="w+", errors="replace")
        procs.append((subprocess.Popen(cmd, stdout=fo, stderr=fe, env=e, stdin=subprocess.DEVNULL), fo, fe))
    lines = []
    t_end = time.time() + (budget or (3000 if tier == "thorough" else 600)) * 2 + 600
    for i, (p, fo, fe) in enumerate(procs):
        timed_out = False
        try:
            p.wait(timeout=max(1, t_end - time.time()))
        except subprocess.TimeoutExpired:
            p.kill()
            p.wait()
            timed_out = True
        fo.seek(0)
        fe.seek(0)
        out, err = fo.read(), fe.read()
        fo.close()
        fe.close()
        if timed_out:
            out += "\nhang worker-%d-did-not-finish\n" % i
        if p.returncode not in (0, 3, -9):
            for q, _, _ in procs:
                if q.poll() is None:
                    q.kill()
            raise common.BuildError("c08 harness failed rc=%s: %s" % (p.returncode, err[-2000:]))
        lines += out.split("\n")
    return [l for l in lines if l]


def dynamic_part(ctx, lines, facts):
    fns = {}
    cases = []
    thens = []
    nests = []
    cov = {"planned": 0, "done": 0, "exhausted": 0, "workers": 0}
    for l in lines:
        p = l.split(" ")
        if p[0] == "fn":
            fns[(p[1], p[2])] = {"flags": int(p[3]), "via": p[6], "path": unhex(p[7]), "nargs": p[4]}
        elif p[0] == "case":
            cases.append(p)
        elif p[0] == "then":
            thens.append(p)
        elif p[0] == "nest":
            nests.append(p)
        elif p[0] == "coverage":
            cov["planned"] += int(p[1])
            cov["done"] += int(p[2])
            cov["exhausted"] += 1 if p[3] == "true" else 0
            cov["workers"] += 1
        elif p[0] == "hang":
            what = " ".join(p[1:])
            ctx.violation("hang:" + " ".join(short(x) for x in p[1:4]),
                          "a single call did not return within 90 s (a hang, not slowness: the worker gave up): " + what,
                          "c08 replay %s\n" % what)
        elif p[0] == "nondeterministic-enumeration":
            ctx.obligations.append({"name": "harness:enumeration-deterministic", "ok": False, "axioms": [], "note": l})
    ctx.extra["go_functions_enumerated"] = len(fns)
    ctx.extra["enumeration_planned_cases"] = cov["planned"]
    ctx.extra["enumeration_done_cases"] = cov["done"]
    ctx.extra["workers"] = cov["workers"]
    ctx.extra["workers_out_of_time_budget"] = cov["exhausted"]
    if cov["exhausted"]:
        ctx.log("time budget reached in %d of %d workers: %d of %d planned cases done" % (cov["exhausted"], cov["workers"], cov["done"], cov["planned"]))
    ctx.obligations.append({"name": "enumeration_ran", "ok": cov["done"] >= 5000,
                            "axioms": [], "note": "%d of %d planned cases run (a slow machine shortens the enumeration, see workers_out_of_time_budget; only a run of fewer than 5000 cases does not count)" % (cov["done"], cov["planned"])})
    # level B for the extractor: the flags the real runtime holds are the flags the regenerated table says
    keys = sorted(fns)
    ans = common.run_oracle("c08", ["q %s %s 0 %d" % (table_sym(k[0]), k[1], fns[k]["flags"]) for k in keys])
    table_ok = True
    for k, a in zip(keys, ans):
        f = fns[k]
        name = "%s (%s)" % (f["path"], short(k[0]))
        if a in ("unknown", "ambiguous", "bad-line"):
            table_ok = False
            ctx.violation("table-missing:%s:%s" % (short(k[0]), unhex(k[1])),
                          "Go function %s reachable in the runtime is %s in the regenerated compliance table" % (name, a),
                          "c08 table\nfunction %s lua name %s declared flags %d: oracle says %s\n" % (k[0], unhex(k[1]), f["flags"], a),
                          found_input=False)
            continue
        decl = int(a.split(" ")[-1])
        if decl != f["flags"]:
            table_ok = False
            ctx.violation("table-flags:%s:%s" % (short(k[0]), unhex(k[1])),
                          "%s: the runtime holds flags %d, the regenerated table says %d" % (name, f["flags"], decl),
                          "c08 table\n%s runtime=%d table=%d\n" % (k[0], f["flags"], decl), found_input=False)
    ctx.obligations.append({"name": "compliance_table_matches_runtime", "ok": table_ok, "axioms": [],
                            "note": "flags of every GoFunction reachable in a real runtime (hook VerifGoFunctionInfo) == Generated.Compliance"})
    # predictions for every (function, F)
    qs = sorted({(c[1], c[2], c[3]) for c in cases} | {(t[1], t[2], t[3]) for t in thens})
    pred = dict(zip(qs, common.run_oracle("c08", ["q %s %s %s %d" % (table_sym(q[0]), q[1], q[2], fns.get((q[0], q[1]), {"flags": 0})["flags"])
                                                   for q in qs])))
    seen_fs = seen_proc = False
    for c in cases:
        _, sym, nameh, F, sp, tup, outcome, effect = c[:8]
        Fi = int(F)
        f = fns.get((sym, nameh), {"flags": 0, "via": "?", "path": "?"})
        pr = pred[(sym, nameh, F)]
        where = "%s [%s]" % (f["path"], short(sym))
        canon = " ".join(c[1:6])
        strict_subset = (Fi & f["flags"]) == Fi and Fi != f["flags"]
        ctx.case(canon, f["via"] in ("meta", "loaded", "derived") or strict_subset)
        ctx.count("spelling:" + sp)
        ctx.count("outcome:" + outcome.split(":")[0])
        ctx.count("via:" + f["via"])
        if outcome == "skipped":
            ctx.count("skipped-dangerous")
            continue
        if outcome == "notrun":
            ctx.count("edge-callback-not-run:" + sp)  # (a finaliser that never ran: nothing to compare)
            if effect != "none" and Fi & 4:
                ctx.violation("iosafe-effect:%s:%s" % (short(sym), effect.split(":")[0]),
                              "in a context requiring iosafe, %s reached the outside: %s (%s)" % (where, effect, sp),
                              "c08 replay %s %s %s %s %s\nobserved %s effect=%s\n" % (sym, nameh, F, sp, tup, outcome, effect))
            continue
        if sp == "gc":
            # a finaliser set inside the context is code of the context: it must be subject to the context's flags
            # whenever it runs.  What it does when it runs after the context has ended is keyed on its own.
            refused_ok = (not pr.startswith("refuse")) or outcome == "missing:" + pr.split(" ")[1]
            if (Fi & 4 and effect != "none") or (not refused_ok):
                ctx.violation("iosafe-effect-after-context:gc" if (Fi & 4 and effect != "none") else "gate-after-context:gc",
                              "a __gc finaliser set by code confined to callcontext{flags=%s} ran after the context had ended and called %s "
                              "unrestricted: %s, effect %s (model inside the context: %s)" % (F, where, outcome, effect, pr),
                              "c08 replay %s %s %s %s %s\nobserved %s effect=%s\nexpected %s\n" % (sym, nameh, F, sp, tup, outcome, effect, pr))
            continue
        if Fi == 0 and effect.startswith("fs"):
            seen_fs = True
        if Fi == 0 and effect.startswith("proc"):
            seen_proc = True
        replay = "c08 replay %s %s %s %s %s\nobserved %s effect=%s\nexpected %s\n" % (sym, nameh, F, sp, tup, outcome, effect, pr)
        if pr.startswith("refuse"):
            mask = pr.split(" ")[1]
            if outcome != "missing:" + mask:
                ctx.violation("gate:%s:F=%s:%s" % (short(sym), F, sp),
                              "%s lacks required flags (missing mask %s) but the call was not refused with a missing-flags error: %s" % (where, mask, outcome),
                              replay)
            if effect != "none":
                ctx.violation("effect-before-gate:%s:%s" % (short(sym), effect.split(":")[0]),
                              "%s was refused (flags %s) and still had an effect: %s" % (where, F, effect), replay)
        elif pr.startswith("pass"):
            if outcome.startswith("missing"):
                ctx.violation("gate-spurious:%s:F=%s:%s" % (short(sym), F, sp),
                              "%s declares all of the required flags %s but a missing-flags error came back (%s)" % (where, F, outcome), replay)
            if Fi & 4 and effect != "none":
                ctx.violation("iosafe-effect:%s:%s" % (short(sym), effect.split(":")[0]),
                              "in a context requiring iosafe, %s (declared iosafe, so it runs) reached the outside: %s (args %s, %s)"
                              % (where, effect, unhex(tup), sp), replay)
        else:
            ctx.count("unpredicted")
    for t in thens:
        _, sym, nameh, F, res = t[:5]
        pr = pred[(sym, nameh, F)]
        if pr.startswith("refuse"):
            mask = pr.split(" ")[1]
            ctx.case("then " + " ".join(t[1:4]), True)
            if res != "done/missing:%s/after=number" % mask:
                ctx.violation("context-not-live:%s:F=%s" % (short(sym), F),
                              "after the refused call of %s the context did not simply keep running: %s" % (short(sym), res),
                              "c08 then %s %s %s\nobserved %s\nexpected done/missing:%s/after=number\n" % (sym, nameh, F, res, mask))
    # nested contexts (flags accumulate, hard limits imply their flags): Model.Flags.pushAll against PushContext
    npred = common.run_oracle("c08", ["q %s %s %s %d" % (table_sym(n[1]), n[2], n[3], fns.get((n[1], n[2]), {"flags": 0})["flags"]) for n in nests])
    for n, pr in zip(nests, npred):
        _, sym, nameh, chain, outcome = n[:5]
        ctx.case("nest " + " ".join(n[1:4]), True)
        ctx.count("nest:" + outcome.split(":")[0])
        exp_refused = pr.startswith("refuse")
        if exp_refused != outcome.startswith("missing") or (exp_refused and outcome != "missing:" + pr.split(" ")[1]):
            ctx.violation("nest:%s:%s" % (short(sym), chain),
                          "in nested contexts %s the call of %s gave %s, the model says %s" % (chain, short(sym), outcome, pr),
                          "c08 nest %s %s %s\nobserved %s\nexpected %s\n" % (sym, nameh, chain, outcome, pr))
    ctx.obligations.append({"name": "effect_detection_live", "ok": seen_fs and seen_proc, "axioms": [],
                            "note": "with no flags required, os.remove/io.open change the sentinel directory and io.popen spawns a process, and the harness sees both"})
    for c in cases[:: max(1, len(cases) // 8)][:8]:
        ctx.sample("%s %s F=%s %s args=%s -> %s effect=%s (model: %s)" % (short(c[1]), unhex(c[2]), c[3], c[4], unhex(c[5]), c[6], c[7], pred[(c[1], c[2], c[3])]))


def write_effectful(facts):
    """Runtime symbols of the registered functions from which the call graph reaches an operating-system sink or a
    safeio gate (not through the Lua-call gate GoCont.RunInThread): the functions for which the harness also tries the
    calls made from the edge of a context (close handlers, message handlers, callbacks, finalisers)."""
    nodes = facts["nodes"]
    succ = {}
    for u, v in facts["edges"]:
        succ.setdefault(u, []).append(v)
    runin = {n["id"] for n in nodes if n["gate"] and n["name"].endswith("GoCont).RunInThread")}
    out = set()
    for r in facts["regs"]:
        seen, work, hit = {r["node"]}, [r["node"]], False
        while work and not hit:
            u = work.pop()
            for v in succ.get(u, ()):
                if v in seen or v in runin:
                    continue
                seen.add(v)
                if nodes[v]["sink"] or nodes[v]["gate"]:
                    hit = True
                    break
                work.append(v)
        if hit:
            out.add(r["rtsym"])
    path = os.path.join(common.BUILD, "c08-effectful.txt")
    with open(path, "w") as f:
        f.write("\n".join(sorted(out)) + "\n")
    return path


CLI_SCRIPT = """
local D = ...
local function try(f, ...) return pcall(f, ...) end
try(function() local f = io.open(D .. "/cli-new.txt", "w") if f then f:write("x") f:close() end end)
try(function() os.remove(D .. "/victim.txt") end)
try(function() os.rename(D .. "/data.txt", D .. "/renamed.txt") end)
try(function() local p = io.popen("touch " .. D .. "/spawned") if p then p:close() end end)
try(function() local f = io.open(D .. "/script.lua") if f then io.stdout:write(f:read("a")) f:close() end end)
try(function() for l in io.lines(D .. "/script.lua") do io.stdout:write(l) end end)
try(function() dofile(D .. "/script.lua") end)
try(function() local f = loadfile(D .. "/script.lua") if f then io.stdout:write("LOADED-", tostring(f())) end end)
try(function() local f = io.tmpfile() if f then f:write("t") end end)
try(function() local n = os.tmpname() end)
try(function() io.output(D .. "/cli-out.txt") io.write("o") io.close() end)
"""
CLI_MARKER = "VERIF-CLI-MARKER-51c2"


def cli_part(ctx):
    """The golua command line is the one embedding of the mechanism that ships: `golua -flags iosafe[,…] script.lua`
    must confine the script whatever the order of the flags and whether or not -cpulimit / -memlimit are given."""
    # one binary per tree (VERIF_REPO): `go build` does not relink an up-to-date output, which is most of the cost
    import hashlib
    os.makedirs(common.BIN, exist_ok=True)
    out = os.path.join(common.BIN, "golua-cli-" + hashlib.sha1(os.path.abspath(common.REPO).encode()).hexdigest()[:8])
    with common.Lock("go-golua-cli"):
        rc, o = common.sh(["go", "build", "-ldflags=" + common.LDFLAGS, "-o", out, "."], cwd=common.REPO, env=common.GOENV, timeout=900)
    if rc != 0:
        raise common.BuildError("building the golua command failed:\n" + o[-2000:])
    work = tempfile.mkdtemp(prefix="c08-cli-")
    try:
        configs = []
        for flags in ("iosafe", "iosafe,cpusafe", "cpusafe,iosafe", "memsafe,iosafe,timesafe"):
            for lim in ([], ["-cpulimit", "100000000"], ["-memlimit", "1000000000"], ["-cpulimit", "100000000", "-memlimit", "1000000000"]):
                configs.append((flags, lim))
        configs = configs[:12] + [(None, []), ("cpusafe", []), ("cpusafe,memsafe", ["-cpulimit", "100000000"])]
        import concurrent.futures
        import time as _t
        base = {"data.txt": "data\n", "victim.txt": "victim\n", "script.lua": "io.stdout:write('%s') return '%s'\n" % (CLI_MARKER, CLI_MARKER)}

        def one(i):
            flags, lim = configs[i]
            s = os.path.join(work, "s%d" % i)
            os.makedirs(os.path.join(s, "tmp"))
            for n, c in base.items():
                open(os.path.join(s, n), "w").write(c)
            script = os.path.join(work, "try%d.lua" % i)
            open(script, "w").write("local D = %r\n" % s + CLI_SCRIPT.replace("local D = ...\n", ""))
            args = [out] + (["-flags", flags] if flags else []) + lim + [script]
            env = dict(os.environ, TMPDIR=os.path.join(s, "tmp"))
            p = subprocess.run(args, stdout=subprocess.PIPE, stderr=subprocess.PIPE, text=True, errors="replace", timeout=120, env=env,
                               stdin=subprocess.DEVNULL, cwd=s)
            _t.sleep(0.05)  # (the script waits for the child it starts; this is for a child left behind by a failing script)
            effects = []
            now = {}
            for d, _, fs in os.walk(s):
                for f in fs:
                    rel = os.path.relpath(os.path.join(d, f), s)
                    now[rel] = open(os.path.join(d, f), errors="replace").read()
            for n in sorted(set(now) | set(base)):
                if n not in base:
                    effects.append("created:" + ("tmp/*" if n.startswith("tmp/") else n))
                elif n not in now:
                    effects.append("removed:" + n)
                elif now[n] != base[n]:
                    effects.append("modified:" + n)
            if CLI_MARKER in p.stdout or "LOADED-" in p.stdout:
                effects.append("read:script.lua")
            return flags, lim, effects, p.stderr

        with concurrent.futures.ThreadPoolExecutor(max_workers=5) as ex:
            results = list(ex.map(one, range(len(configs))))
        live = False
        for flags, lim, effects, stderr in results:
            label = "%s %s" % (flags or "(no flags)", " ".join(lim) or "(no limit)")
            ctx.case("cli " + label, True)
            ctx.count("cli:" + ("confined" if flags and "iosafe" in flags.split(",") else "free"))
            if flags and "iosafe" in flags.split(","):
                for e in sorted(set(effects)):
                    kind = e.split(":")[0]
                    ctx.violation("cli:%s:%s:%s" % (flags, "+".join(x.lstrip("-") for x in lim[::2]) or "nolimit", kind),
                                  "`golua -flags %s %s script.lua`: the script reached the outside although iosafe is required: %s"
                                  % (flags, " ".join(lim), ", ".join(sorted(set(effects)))),
                                  "c08 cli\ngolua -flags %s %s try.lua\neffects: %s\nstderr: %s\n" % (flags, " ".join(lim), effects, stderr[-300:]))
            elif len(effects) >= 4:
                live = True
            if len(ctx.samples) < 12:
                ctx.sample("golua %s -> %s" % (label, effects or "no effect"))
        ctx.obligations.append({"name": "cli_effect_detection_live", "ok": live, "axioms": [],
                                "note": "without iosafe among -flags the same script creates, removes, reads files and spawns a process, and the check sees it"})
    finally:
        shutil.rmtree(work, ignore_errors=True)


MARK = re.compile(r'"/\.c08/(case|end|nest)/(\d+)/([^"]*)"')
FILE_CALLS = {"open", "openat", "openat2", "creat", "unlink", "unlinkat", "rename", "renameat", "renameat2", "mkdir", "mkdirat", "rmdir",
              "stat", "lstat", "newfstatat", "statx", "access", "faccessat", "faccessat2", "readlink", "readlinkat", "chdir", "truncate",
              "symlink", "symlinkat", "link", "linkat", "chmod", "fchmodat", "chown", "fchownat", "utimensat", "execve"}
REL_PATH = re.compile(r'\((?:AT_FDCWD, )?"(?!/)[^"]+"')
SENTINEL_NAMES = ("data.txt", "victim.txt", "script.lua", "new.txt", "renamed.txt", "spawned", "/sub", "/tmp/", "/cwd/")


def strace_part(ctx, h, sentinel):
    """thorough: the quick-volume harness once more under `strace -f -e trace=%file,%process,%network`.  The harness
    brackets every case with a marker system call (access("/.c08/case/<F>/<function>") ... "/.c08/end/..."), so
    every traced call is attributed to a case: while a context requiring iosafe is running, no process may be
    exec'ed, no socket connected/bound, and no path inside the sentinel directory may be named in a system call."""
    if not shutil.which("strace"):
        ctx.notes.append("strace not installed: skipped")
        return
    log = os.path.join(common.BUILD, "c08.strace")
    os.environ["C08_MARKERS"] = "1"
    try:
        # a sample: the functions that can reach the outside at all (call graph), quick volume, one process
        sdir = os.path.join(sentinel, "strace")
        run_harness(ctx, h, "quick", sdir, strace_log=log, budget=240, extra_env={"C08_ONLY_EFFECTFUL": "1"})
    finally:
        del os.environ["C08_MARKERS"]
    cur = None  # (F, function) of the case in progress
    n_cases = n_iosafe = execs_allowed = 0
    for l in open(log, errors="replace"):
        m = MARK.search(l)
        if m:
            if m.group(1) == "case":
                cur = (int(m.group(2)), m.group(3))
                n_cases += 1
                n_iosafe += 1 if cur[0] & 4 else 0
            else:
                cur = None
            continue
        if cur is None:
            continue
        call = re.match(r"\d+\s+(\w+)\(", l)
        if not call:
            continue
        name = call.group(1)
        bad = None
        if name in ("execve", "execveat"):
            bad = "exec"
            if not cur[0] & 4:
                execs_allowed += 1
        elif name in ("connect", "bind", "listen", "accept", "accept4", "sendto"):
            bad = "network"
        elif sdir + "/" in l and ".barrier-" not in l and name not in ("inotify_add_watch",):
            bad = "file:" + name
        elif name in FILE_CALLS and REL_PATH.search(l):
            bad = "file:" + name  # a relative path: the working directory is inside the sentinel directory
        if bad and cur[0] & 4:
            ctx.violation("strace:%s:%s" % (cur[1].replace("github.com_arnodel_golua_", ""), bad.split(":")[0]),
                          "system call trace: while a context requiring iosafe (flags %d) was running %s, the process issued %s"
                          % (cur[0], cur[1], l.strip()[:200]),
                          "c08 strace\nflags %d function %s\n%s\n" % (cur[0], cur[1], l.strip()))
    ctx.extra["strace_cases"] = n_cases
    ctx.extra["strace_cases_requiring_iosafe"] = n_iosafe
    ctx.extra["strace_execve_without_iosafe"] = execs_allowed
    ctx.count("strace-cases", n_cases)
    ctx.obligations.append({"name": "strace_attribution_live", "ok": n_cases > 500 and execs_allowed > 0, "axioms": [],
                            "note": "markers found in the trace and io.popen's /bin/sh seen where iosafe is not required"})


def run(ctx):
    ctx.rule = ("cases = (Go function reachable in a real runtime, required flag set F of 16, spelling of 6, argument tuple); "
                "non-trivial = the function is reachable only through a metatable / package.loaded / a value handed out by "
                "another function, or F is a strict subset of the function's declared flags; distinct by canonical text")
    ctx.assumptions += [
        "sinks are recognised by name (os.{Open,OpenFile,Create,Remove,...,Exit,Stat,...}, io/ioutil.{ReadFile,WriteFile,ReadDir,TempFile,TempDir}, "
        "os/exec functions and Cmd methods, plugin.*, net.*, syscall.* except process-info getters); stdlib code below a non-sink leaf is not analysed",
        "call graph: static calls + CHA for interface calls + VTA for calls through function values (golang.org/x/tools v0.29.0); reflection and unsafe are not followed",
        "writes/reads on already-open standard streams (print, io.write, io.read) and reading the environment (os.getenv) are not sinks",
    ]
    msgs = common.regen(ctx)
    facts = common.gofacts(ctx)
    common.write_root()
    static_part(ctx, facts)
    common.prove(ctx)
    ctx.log("theorems re-checked")
    common.build_oracle()
    h = common.build_go("c08", "cmd/c08")
    ctx.log("oracle and harness built")
    sentinel = tempfile.mkdtemp(prefix="c08-sentinel-")
    try:
        os.environ["C08_EFFECTFUL"] = write_effectful(facts)
        thorough = ctx.tier == "thorough"
        lines = run_harness(ctx, h, ctx.tier, sentinel, shards=8 if thorough else 4, budget=420 if thorough else 150)
        ctx.log("harness ran: %d lines" % len(lines))
        dynamic_part(ctx, lines, facts)
        cli_part(ctx)
        if ctx.tier == "thorough":
            strace_part(ctx, h, sentinel)
    finally:
        shutil.rmtree(sentinel, ignore_errors=True)


def replay(ctx, path):
    txt = open(path).read()
    if "c08 cli" in txt:
        print(txt)
        c = common.Ctx("C08", "quick", 1)
        cli_part(c)
        for v in c.violations:
            print("now:", v.key, "--", v.desc)
        print("cli leg re-run: %d violation(s)" % len(c.violations))
        return 0
    if "c08 static" in txt:
        facts = common.gofacts(ctx)
        nodes = facts["nodes"]
        print(txt)
        print("paths found in the current tree:")
        for hh in facts["holes"]:
            print("  " + " -> ".join(short(nodes[i]["name"]) for i in hh["path"]))
        return 0
    h = common.build_go("c08", "cmd/c08")
    for line in txt.splitlines():
        if line.startswith("c08 replay ") or line.startswith("c08 then "):
            p = line.split(" ")
            sym, nameh, F = p[2], p[3], p[4]
            sentinel = tempfile.mkdtemp(prefix="c08-sentinel-")
            try:
                out = run_harness(ctx, h, "quick", sentinel, filt=sym)
            finally:
                shutil.rmtree(sentinel, ignore_errors=True)
            for l in out:
                q = l.split(" ")
                if q[0] in ("case", "then") and q[1] == sym and q[2] == nameh and q[3] == F and (len(p) < 7 or q[0] == "then" or (q[4] == p[5] and q[5] == p[6])):
                    print(l, "   # args:", unhex(q[5]) if q[0] == "case" else "")
    print(txt)
    return 0
