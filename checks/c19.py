"""C19 — string and table library functions.

Theorems: lean/GoluaVerif/Props/C19.lean over Spec.StrLib / Spec.TabLib and over the position
functions regenerated from luastrings/misc.go and lib/stringlib/stringlib.go
(Generated.StrNorm.StringNormPos, Generated.StrPos.maxpos/minpos, composed in Model.StrLib).
Correspondence: harness/cmd/c19 calls the real string.* / table.* functions on an exhaustive
bounded domain + random longer inputs + adversarial comparators; oracle mode c19 prints what
the Lean definitions prescribe (or validates the observed state against the sort relation)."""
import os
import re
import subprocess
from . import common

LEVEL = "proof"


def split_line(line):
    """-> (input part, observed part)"""
    i = line.find(" = ")
    if i < 0:
        return line, ""
    return line[:i], " ".join(line[i + 3:].split())


INT_RE = re.compile(r"^i(-?\d+)$")


def nontrivial(inp):
    """a position is negative / zero / beyond the length, or the table has a metamethod"""
    toks = inp.split(" ")
    if toks[0] in ("S", "SL"):
        args = toks[2:]
        slen = None
        if args and args[0].startswith("s"):
            slen = (len(args[0]) - 1) // 2
        for a in args[1:]:
            m = INT_RE.match(a)
            if m:
                v = int(m.group(1))
                if v < 1 or (slen is not None and v > slen):
                    return True
        return False
    n = None
    meta = False
    for t in toks[2:]:
        if "/" in t and not t.startswith("nnr/"):
            meta = True
        if t.startswith("n="):
            try:
                n = int(t[2:])
            except ValueError:
                pass
        if t.startswith("cmp:") and t[4:] not in ("lt",):
            meta = True
    if meta:
        return True
    for a in toks[2:]:
        m = INT_RE.match(a)
        if m:
            v = int(m.group(1))
            if v < 1 or (n is not None and v > n):
                return True
    return False


def compare(ctx, impl_lines, label, stats):
    exp = common.run_oracle("c19", impl_lines)
    if len(exp) != len(impl_lines):
        raise common.BuildError("oracle returned %d lines for %d inputs" % (len(exp), len(impl_lines)))
    for line, e in zip(impl_lines, exp):
        inp, obs = split_line(line)
        toks = inp.split(" ")
        fn = toks[1] if len(toks) > 1 else "?"
        if e == "bad-line":
            raise common.BuildError("oracle could not parse: " + line[:300])
        if e == "?":
            ctx.count("unchecked:" + fn)
            continue
        ctx.case(inp, nontrivial(inp))
        ctx.count(label + ":" + fn)
        ctx.count("outcome:" + (obs.split(" ")[0] if obs else "none"))
        if toks[0] == "T":
            for t in toks[2:4]:
                if "/" in t:
                    ctx.count("table-kind:" + t.split("/")[0].rstrip("0123456789-") )
        model = None
        if "\t~ " in e:
            e, model = e.split("\t~ ", 1)
            model = " ".join(model[2:].split()) if model.startswith("= ") else None
        if e.startswith("! "):
            if e == "! ok":
                continue
            reason = e[6:] if e.startswith("! bad ") else e
            ctx.violation("%s => %s" % (inp, reason),
                          "table.sort: %s (observed: %s)" % (reason, obs[:200]),
                          "c19 replay %s\nobserved %s\nverdict %s\n" % (inp, obs, e))
            continue
        if not e.startswith("= "):
            raise common.BuildError("unexpected oracle output %r for %s" % (e, line[:200]))
        alts = [" ".join(a.split()) for a in e[2:].split(" | ")]
        if model is not None:
            stats["model_lines"] += 1
            if obs == model:
                stats["model_agree"] += 1
        if obs in alts:
            if model is not None and obs != model:
                # level B alone fails: golua does what the manual says but not what the mirror of its own
                # position handling (the definitions the gosub/gobyte/find_plain tie theorems are about) computes
                ctx.violation("levelB %s => %s [Model.StrLib: %s]" % (inp, obs[:100], model[:100]),
                              "golua agrees with the spec but not with Model.StrLib, the mirror of stringlib.go/"
                              "matching.go over the regenerated leaf functions: gosub_eq_spec / gobyte_eq_spec / "
                              "find_plain_model_eq_spec no longer speak about this code",
                              "c19 replay %s\nobserved %s\nmodel %s\n" % (inp, obs, model), found_input=False)
            continue
        ctx.violation("%s => %s" % (inp, obs if len(obs) < 120 else obs[:117] + "..."),
                      "golua: %s; the manual (Spec.StrLib/TabLib) prescribes: %s" % (obs[:300], " or ".join(alts)[:300]),
                      "c19 replay %s\nobserved %s\nexpected %s\n" % (inp, obs, " | ".join(alts)))
    step = max(1, len(impl_lines) // 4)
    for l in impl_lines[::step][:4]:
        ctx.sample(l[:300])


def harness_lines(h, args, timeout=900, env=None):
    rc, out, err = common.run_harness(h, args, timeout=timeout, env=env)
    if rc != 0:
        raise common.BuildError("c19 harness %s failed rc=%d: %s" % (" ".join(args), rc, err[-2000:]))
    return out.split("\n")[:-1]


def run(ctx):
    ctx.rule = ("cases = one call of a string.* / table.* function with its argument tuple (and table shape); "
                "non-trivial = some position argument is < 1 or beyond the length, or the table has "
                "__index/__newindex/__len, or the comparison is not plain `<`; distinct by canonical input text")
    ctx.assumptions = [
        "Go's sort.Sort touches the data only through Len/Less/Swap (sort_never_loses is about any such sorter)",
        "strings.Index / strings.Repeat / strings.ToUpper are external: tied by correspondence only",
        "explicit nil for an optional argument, numbers where strings are expected, and the number of results "
        "table.unpack may return (between 256 and 2^31) are left open by the manual and are not compared",
        "error classes are compared, not messages",
    ]
    msgs = common.regen(ctx)
    for m in msgs:
        ctx.obligations.append({"name": "translate:" + m.split(":")[0].split(" ")[-1], "ok": False, "axioms": [], "note": m})
    ctx.log("regenerated %s" % ", ".join(sorted(ctx.generated_hashes)))
    common.prove(ctx)
    ctx.log("theorems re-checked")
    common.build_oracle()
    h = common.build_go("c19", "cmd/c19")
    ctx.log("oracle and harness built")
    stats = {"model_lines": 0, "model_agree": 0}
    thorough = ctx.tier == "thorough"
    lines = harness_lines(h, ["enum", ctx.tier])
    ctx.log("enum harness done")
    ctx.extra["exhaustive_enum_lines"] = len(lines)
    compare(ctx, lines, "enum", stats)
    ctx.log("enum: %d lines" % len(lines))
    n = 400000 if thorough else 60000
    lines = harness_lines(h, ["random", str(n)])
    compare(ctx, lines, "random", stats)
    ctx.log("random: %d lines" % len(lines))
    lines = harness_lines(h, ["sort", ctx.tier])
    compare(ctx, lines, "sort", stats)
    ctx.log("sort: %d lines" % len(lines))
    # risky calls: one child process each, bounded memory and time
    nr = int(harness_lines(h, ["nrisky"])[0])
    risky = []
    for k in range(nr):
        try:
            rc, out, err = common.run_harness(h, ["risky", str(k)], timeout=120, env={"GOMEMLIMIT": "512MiB"})
            got = out.split("\n")[:-1]
            if rc != 0 or len(got) != 1:
                risky.append("SL risky %d = crashed" % k)
                ctx.violation("risky %d => process died rc=%d" % (k, rc), "child process died: " + err[-500:],
                              "c19 risky %d\n" % k)
                continue
            risky.append(got[0])
        except subprocess.TimeoutExpired:
            ctx.violation("risky %d => no answer in 120 s" % k, "child process hung", "c19 risky %d\n" % k)
    compare(ctx, [l for l in risky if not l.endswith("= crashed")], "risky", stats)
    dump = os.environ.get("VERIF_C19_DUMP")
    if dump:
        with open(dump, "w") as f:
            for v in ctx.violations:
                f.write(v.key + "\t" + v.desc + "\n")
    ctx.extra["levelB_model_lines"] = stats["model_lines"]
    ctx.extra["levelB_model_agrees_with_golua"] = stats["model_agree"]


def replay(ctx, path):
    h = common.build_go("c19", "cmd/c19")
    common.build_oracle()
    for line in open(path):
        if line.startswith("c19 replay "):
            args = line.rstrip("\n").split(" ")[2:]
            rc, out, err = common.run_harness(h, ["replay"] + args, timeout=120, env={"GOMEMLIMIT": "1GiB"})
            got = out.strip()
            print(got)
            if got:
                print("oracle:", common.run_oracle("c19", [got])[0])
        elif line.startswith("c19 risky "):
            rc, out, err = common.run_harness(h, ["risky", line.split()[2]], timeout=60, env={"GOMEMLIMIT": "512MiB"})
            got = out.strip()
            print(got)
            if got:
                print("oracle:", common.run_oracle("c19", [got])[0])
    return 0
