"""C16 — numeric for.  Theorems: lean/GoluaVerif/Props/C16.lean about Model.For (mirror of
prepfor/advfor over the REGENERATED Generated.Comp comparisons) and Spec.For (manual §3.3.5).
Correspondence: the lattice of (initial value, limit, step) triples, exhaustively, plus seeded
random triples, through the full golua pipeline; level A = golua vs Spec.For.run (with the
tolerated readings where the manual is open), level B = golua vs Model.For.run."""
import os
from . import common

BOUNDARY = ("9223372036854775", "9007199254740", "f43e", "fc3e", "f43d", "f7f", "fff", "f434", "fc34", "f7e", "ffe")


def canon_val(v):
    if v.startswith("f") and v != "fnan":
        try:
            b = int(v[1:], 16)
        except ValueError:
            return v
        if (b >> 52) & 0x7FF == 0x7FF and b & ((1 << 52) - 1):
            return "fnan"
    return v


def canon_outcome(status, vals):
    if status in ("E", "P", "T", "C") or status.startswith("X:"):
        return status
    if vals == "-":
        return status + " -"
    return status + " " + ",".join(canon_val(v) for v in vals.split(","))


def nontrivial(inp, got):
    """DESIGN §11: the loop runs >= 1 iteration, or ends by overflow/clipping/error (approximated by: an
    operand from a boundary class or mixed int/float operands)."""
    if got == "E":
        return True
    if not got.endswith(" -"):
        return True
    ops = inp.split(" ")[1:]
    kinds = {o[0] for o in ops if o != "-"}
    return len(kinds) > 1 or any(m in o for o in ops for m in BOUNDARY)


def compare(ctx, impl_lines, label):
    exp = common.run_oracle("c16", impl_lines)
    if len(exp) != len(impl_lines):
        raise common.BuildError("oracle returned %d lines for %d inputs" % (len(exp), len(impl_lines)))
    nB = 0
    for line, e in zip(impl_lines, exp):
        if e == "bad-line":
            raise common.BuildError("oracle could not parse: " + line)
        inp, _, res = line.partition(" = ")
        status, _, vals = res.partition(" ")
        got = canon_outcome(status, vals)
        model, alts, kf = e.split(";")
        kind, _, flags = kf.partition(":")
        alts = alts.split("|")
        mode = inp.split(" ")[0]
        ctx.case(inp, nontrivial(inp, got))
        ctx.count(label + ":" + mode + ":" + kind)
        ctx.count("outcome:" + ("error" if got == "E" else "empty" if got.endswith(" -") else "capped" if got.startswith("cap") else "finite"))
        if status in ("P", "T", "C") or status.startswith("X:"):
            ctx.violation(inp, {"P": "Go panic", "T": "math.type(i) disagrees with the loop variable's type",
                                "C": "the literal rendering does not compile",
                                "X": "the loop disturbed / re-read its control expressions: " + status[2:].replace("-", " ")}[status[0]],
                          "c16 replay %s\nobserved %s %s\nexpected %s\n" % (inp, got, vals, " | ".join(alts)))
            continue
        # level A: the manual
        if flags:
            ctx.count("nan-involved:" + flags.split(",")[0])
        if got not in alts:
            ctx.violation(inp, "golua: %s; the manual prescribes: %s" % (got, " or ".join(alts)),
                          "c16 replay %s\nobserved %s\nexpected %s\n" % (inp, got, " | ".join(alts)))
        # level B: the model the theorems are about
        if got != model:
            nB += 1
            ctx.violation("levelB " + inp,
                          "golua (%s) and Model.For (%s) differ: the theorems of Props/C16 are no longer about this code" % (got, model),
                          "c16 replay %s\nobserved %s\nmodel %s\nspec %s\n" % (inp, got, model, " | ".join(alts)),
                          found_input=(got not in alts))
    for l in impl_lines[:: max(1, len(impl_lines) // 5)][:5]:
        ctx.sample(l)
    return nB


def selftest_fadd(ctx, h):
    """the oracle's exact float addition against the hardware's"""
    n = 8000 if ctx.tier == "quick" else 200000
    rc, out, err = common.run_harness(h, ["fadd", str(n)])
    if rc != 0:
        raise common.BuildError("c16 harness (fadd) failed: " + err[-2000:])
    lines = out.split("\n")[:-1]
    exp = common.run_oracle("c16", lines)
    bad = 0
    for line, e in zip(lines, exp):
        want = canon_val(line.rsplit(" ", 1)[1])
        if e != want:
            bad += 1
            if bad <= 3:
                ctx.notes.append("F64.fadd differs from the hardware: %s, model %s" % (line, e))
    ctx.count("selftest:fadd", len(lines))
    ctx.obligations.append({"name": "selftest_F64_fadd_matches_hardware", "ok": bad == 0, "axioms": [],
                            "note": "%d random/edge sums compared bit for bit, %d differ" % (len(lines), bad)})


def run(ctx):
    ctx.rule = ("cases = (rendering, initial value, limit, step) run through compiled Lua `for i = a, b, c do emit(i, math.type(i)) end` "
                "capped at 40 iterations (also with the three control values coming from locals the body reassigns, upvalues changed by a called "
                "function, globals, a call / a table field / a call each evaluated once and in order, calls returning several values, closures "
                "capturing the loop variable, a yield in the body; the variables the values came from must be left untouched); the lattice (ints around 0, +-2^53, min/maxinteger; floats +-2^63 and neighbours, +-inf, NaN, "
                "fractions; numeric strings; non-numbers) is enumerated exhaustively as triples, plus seeded random triples placed near "
                "start + k*step; non-trivial = the loop runs >= 1 iteration or raises, or an operand is from a boundary class / mixed "
                "int-float; distinct by canonical text")
    ctx.assumptions = [
        "float addition in the float loop is F64.fadd (exact round-to-nearest-even model), validated against the hardware by the fadd self-test",
        "string -> number conversion is taken from golua's tonumber (C02's subject) and passed to the model as data",
        "amd64 float->int conversion (0x8000000000000000 on overflow/NaN) as modelled by F64.toI64",
        "where the manual is open (NaN operands in a float loop; float loop with an integer limit beyond 2^53; numeric strings as "
        "initial value/step) the reading of lvm.c is tolerated besides the literal one",
    ]
    msgs = common.regen(ctx)
    for m in msgs:
        ctx.obligations.append({"name": "translate:" + m.split(":")[0].split(" ")[-1], "ok": False, "axioms": [], "note": m})
    ctx.log('regenerated')
    common.prove(ctx)
    ctx.log('theorems re-checked')
    common.build_oracle()
    ctx.log('oracle built')
    h = common.build_go("c16", "cmd/c16")
    selftest_fadd(ctx, h)
    rc, out, err = common.run_harness(h, ["lattice", ctx.tier])
    if rc != 0:
        raise common.BuildError("c16 harness failed: " + err[-2000:])
    lines = out.split("\n")[:-1]
    compare(ctx, lines, "lattice")
    ctx.extra["exhaustive_lattice_lines"] = len(lines)
    n = 8000 if ctx.tier == "quick" else 500000
    rc, out, err = common.run_harness(h, ["random", str(n)])
    if rc != 0:
        raise common.BuildError("c16 harness failed: " + err[-2000:])
    compare(ctx, out.split("\n")[:-1], "random")


def replay(ctx, path):
    h = common.build_go("c16", "cmd/c16")
    common.build_oracle()
    for line in open(path):
        if line.startswith("c16 replay "):
            args = line.split()[2:]
            rc, out, err = common.run_harness(h, ["replay"] + args)
            print(out.strip())
            o = common.run_oracle("c16", [out.strip()])[0]
            model, alts, kf = o.split(";")
            print("expected (manual):", alts.replace("|", "  or  "))
            print("model (mirror of the code):", model)
    return 0
