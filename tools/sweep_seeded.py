#!/usr/bin/env python3
"""tools/sweep_seeded.py [-j N] [filter...]: run the quick check of its property against every
seeded change (seeded/<name>/patch.diff) in scratch worktrees of /repo and private copies of
/verif under /tmp/sweep-<i>, and write seeded/SWEEP.json + seeded/SWEEP.md.

A seeded change counts as caught when the check exits 1 with a VIOLATION line.  /repo itself is
never touched; the scratch trees are removed at the end."""
import json, os, re, subprocess, sys, glob, shutil, threading, queue, time

ROOT = os.path.dirname(os.path.dirname(os.path.abspath(__file__)))


def sh(cmd, **kw):
    return subprocess.run(cmd, shell=True, capture_output=True, text=True, **kw)


def worker(i, q, out):
    base = f"/tmp/sweep-{i}"
    shutil.rmtree(base, ignore_errors=True)
    os.makedirs(base)
    sh(f"git -C /repo worktree prune; git -C /repo worktree add --detach {base}/repo HEAD")
    sh(f"rsync -a --exclude .git --exclude replays {ROOT}/ {base}/verif/")
    while True:
        try:
            name = q.get_nowait()
        except queue.Empty:
            break
        d = f"{ROOT}/seeded/{name}"
        meta = json.load(open(d + "/meta.json"))
        props = [meta["property"]] + [p for p in meta.get("also_checked_by", [])]
        sh(f"git -C {base}/repo checkout -q -- . && git -C {base}/repo clean -qfd")
        r = sh(f"git -C {base}/repo apply {d}/patch.diff")
        res = {"name": name, "property": meta["property"], "checks": {}}
        if r.returncode != 0:
            res["error"] = "patch does not apply to the current tree"
        else:
            for p in props:
                t0 = time.time()
                r = sh(f"cd {base}/verif && VERIF_REPO={base}/repo ./check {p} --tier quick", timeout=3600)
                lines = [l for l in r.stdout.splitlines() if l.startswith("VIOLATION")]
                res["checks"][p] = {"exit": r.returncode, "violations": len(lines),
                                    "first": (lines[0][:200] if lines else ""), "seconds": round(time.time() - t0)}
        res["caught"] = any(c["exit"] == 1 and c["violations"] > 0 for c in res["checks"].values())
        out.append(res)
        print(f"[{i}] {name}: {'caught' if res['caught'] else 'MISSED'} {res.get('error', '')} "
              + " ".join(f"{p}:rc{c['exit']}/{c['seconds']}s" for p, c in res["checks"].items()), flush=True)
    sh(f"git -C /repo worktree remove --force {base}/repo; git -C /repo worktree prune")
    shutil.rmtree(base, ignore_errors=True)


def main():
    args = sys.argv[1:]
    j = 3
    if args and args[0] == "-j":
        j = int(args[1]); args = args[2:]
    names = sorted(os.path.basename(os.path.dirname(p)) for p in glob.glob(ROOT + "/seeded/*/meta.json"))
    if args:
        names = [n for n in names if any(re.search(a, n) for a in args)]
    names = [n for n in names if "superseded" not in json.load(open(f"{ROOT}/seeded/{n}/meta.json"))]
    q = queue.Queue()
    for n in names:
        q.put(n)
    out = []
    ts = [threading.Thread(target=worker, args=(i, q, out)) for i in range(min(j, len(names)))]
    for t in ts: t.start()
    for t in ts: t.join()
    out.sort(key=lambda r: r["name"])
    prev = {}
    if args and os.path.exists(ROOT + "/seeded/SWEEP.json"):
        prev = {r["name"]: r for r in json.load(open(ROOT + "/seeded/SWEEP.json"))["results"]}
    for r in out: prev[r["name"]] = r
    allr = sorted(prev.values(), key=lambda r: r["name"]) if args else out
    head = sh("git -C /repo rev-parse --short HEAD").stdout.strip()
    json.dump({"repo_head": head, "results": allr}, open(ROOT + "/seeded/SWEEP.json", "w"), indent=1)
    with open(ROOT + "/seeded/SWEEP.md", "w") as f:
        f.write(f"# Seeded changes against the quick checks (last sweep; /repo at {head})\n\n")
        f.write("| seeded change | property | caught | by | first violation line |\n|---|---|---|---|---|\n")
        for r in allr:
            by = ", ".join(p for p, c in r["checks"].items() if c["exit"] == 1 and c["violations"])
            first = next((c["first"] for c in r["checks"].values() if c["first"]), r.get("error", ""))
            f.write(f"| {r['name']} | {r['property']} | {'yes' if r['caught'] else 'NO'} | {by} | `{first[:120]}` |\n")
    missed = [r["name"] for r in allr if not r["caught"]]
    print(f"{len(allr) - len(missed)}/{len(allr)} caught; missed: {missed}")


if __name__ == "__main__":
    main()
