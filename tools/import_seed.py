#!/usr/bin/env python3
"""tools/import_seed.py <prop> <srcdir> <name> <detected: yes|no> <note>: copy a confirmed seeded change into /verif/seeded/<name>/"""
import json, os, shutil, sys
prop, src, name, detected, note = sys.argv[1:6]
dst = os.path.join('/verif/seeded', name)
os.makedirs(dst, exist_ok=True)
for f in os.listdir(src):
    p = os.path.join(src, f)
    if os.path.isfile(p) and os.path.getsize(p) < 200000:
        shutil.copy(p, dst)
    elif os.path.isdir(p) and f == 'demo':
        shutil.copytree(p, os.path.join(dst, 'demo'), dirs_exist_ok=True)
m = json.load(open(os.path.join(dst, 'meta.json')))
m['property'] = prop
m['confirmed'] = "patch applies on the pinned tree + fix/hook commits; builds; pinned suite unchanged; demonstration passes without and fails with the change (re-run by the framework author in the scratch worktree)"
m['check_run'] = "tools/trymut.sh <worktree> patch.diff %s  (VERIF_REPO=<worktree> ./check %s --tier quick)" % (prop, prop)
m['detected_by_check'] = detected
m['detection_note'] = note
json.dump(m, open(os.path.join(dst, 'meta.json'), 'w'), indent=1)
print('imported', dst)
