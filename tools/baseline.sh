#!/bin/bash
# Runs the repository's pinned baseline (guard OFF: no build tags) and prints pass/fail counts.
# With FULL=1 it also links the packages the pinned toolchain cannot link (-ldflags=-checklinkname=0),
# which runs golua's own Lua test-suite: useful to validate "fix:" commits, not part of the baseline.
cd /repo || exit 2
export GOFLAGS=-mod=mod GOPROXY=off GOSUMDB=off GOTOOLCHAIN=local
EXTRA=""
[ -n "$FULL" ] && EXTRA="-ldflags=-checklinkname=0"
go test $EXTRA -json -vet=off -count=1 -timeout 25m ./... > /tmp/verif-baseline.json 2>/dev/null
python3 - <<'PY'
import json
p=set();f=set()
for l in open('/tmp/verif-baseline.json'):
    l=l.strip()
    if not l.startswith('{'): continue
    try: e=json.loads(l)
    except Exception: continue
    if e.get('Test') is None: continue
    t=e['Package']+'::'+e['Test']
    if e.get('Action')=='pass': p.add(t)
    elif e.get('Action')=='fail': f.add(t)
p-=f
base=set(json.load(open('/root/.vp/BASELINE.json'))['stable_pass'])
print('passed',len(p),'failed',len(f),'baseline_missing',len(base-p))
for t in sorted(f)[:40]: print('FAIL',t)
for t in sorted(base-p)[:20]: print('MISSING',t)
import sys
sys.exit(0 if not (base-p) else 1)
PY
rc=$?
rm -f /tmp/verif-baseline.json
exit $rc
