#!/usr/bin/env python3
"""tools/rehash.py: after a history rewrite in /repo, replace stale short commit ids in /verif's text files by the id of
the commit on main with the same subject."""
import re, subprocess, sys, os
def git(*a):
    return subprocess.run(['git','-C','/repo']+list(a),stdout=subprocess.PIPE,stderr=subprocess.DEVNULL,text=True).stdout
cur = {}
for l in git('log','--format=%h\t%s','aad9401..main').splitlines():
    h,s = l.split('\t',1); cur[s]=h
valid = set(cur.values())
files = ['known_findings.json','DESIGN.md','hooks_commits.txt']+[os.path.join(d,f) for d,_,fs in os.walk('seeded') for f in fs if f=='meta.json']
n=0
for f in files:
    p=os.path.join('/verif',f)
    if not os.path.exists(p): continue
    t=open(p).read(); o=t
    for h in set(re.findall(r'\b[0-9a-f]{7}\b',t)):
        if h in valid: continue
        subj=git('show','-s','--format=%s',h).strip()
        if subj and subj in cur:
            t=t.replace(h,cur[subj]); n+=1
    if t!=o: open(p,'w').write(t)
print('replaced',n)
