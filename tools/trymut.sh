#!/bin/bash
# tools/trymut.sh <worktree> <patch> <Cxx> [tier]: apply a seeded patch in a scratch worktree, run the check against it, restore.
WT=$1; PATCH=$2; PROP=$3; TIER=${4:-quick}
git -C "$WT" checkout -q -- . && git -C "$WT" checkout -q --detach $(git -C /repo rev-parse HEAD) && git -C "$WT" apply "$PATCH" || { echo "patch does not apply"; exit 2; }
cd /verif && VERIF_REPO="$WT" ./check "$PROP" --tier "$TIER" 2>&1 | grep -E "VIOLATION|KNOWN-FINDING|obligations|unlisted" | cut -c1-220
rc=${PIPESTATUS[0]}
git -C "$WT" checkout -q -- .
echo "exit=$rc"
