#!/usr/bin/env python3
"""prints the prompt given to a fresh mutation-seeding sub-agent for one property (only the property text + a scratch worktree)"""
import json, sys
pid, wt = sys.argv[1], sys.argv[2]
n = sys.argv[3] if len(sys.argv) > 3 else "3"
p = [json.loads(l) for l in open('/verif/properties.jsonl') if json.loads(l)['id'] == pid][0]
print(f"""You are testing how well a verification effort detects regressions in the Go project arnodel/golua (a Lua 5.4 implementation in Go). You have your own scratch git worktree of the project at {wt} (a detached checkout; work ONLY inside it and under {wt}/out; do not look at or touch /repo or /verif — they are off limits, and nothing there is relevant to you). No network. Go 1.23 is installed; before go commands: `export GOFLAGS=-mod=mod GOPROXY=off GOSUMDB=off GOTOOLCHAIN=local`. IMPORTANT build fact: packages importing `runtime` only link with `-ldflags=-checklinkname=0` (e.g. `go build -ldflags=-checklinkname=0 -o /tmp/golua-x . && /tmp/golua-x script.lua`, `go test -ldflags=-checklinkname=0 ./runtime/...`, `go run -ldflags=-checklinkname=0 ./out/1/demo`). The project's pinned test suite is `cd {wt} && go test -vet=off -count=1 ./...` WITHOUT that flag (so only the packages scanner, parsing, luastrings, lib/stringlib/pattern, runtime/internal/luagc, lib/golib/goimports actually run tests; the others fail to link and are not part of the pinned suite — record which packages passed before your change and make sure exactly the same ones pass after).

Here is a semantic property that golua is supposed to satisfy:

  {pid}: {p['title']}
  {p['statement']}
  (quantifies over: {p['quantifier']['text']})

YOUR TASK: produce {n} DIFFERENT realistic code changes (each one independent, applied to a clean checkout), of the kind a developer could plausibly introduce by mistake or as a misguided optimisation/refactoring, each of which BREAKS this property while the project still compiles and the pinned test suite above still passes. Prefer changes that need something specific to manifest — an unusual input or boundary value, a multi-step sequence of operations, a particular interleaving or nesting, two sites that each look fine alone — NOT ones that any ordinary use would expose at once (a change that breaks `1+1` is useless). Vary the mechanism and the file between the {n} changes; touch the property's own mechanism in the source, small diffs (1–15 lines).

For each change k = 1..{n} create {wt}/out/k/ containing:
  * patch.diff — `git diff` of the change against the clean checkout (must apply with `git apply` on a clean tree);
  * a demonstration: demo.lua (run with the golua binary built from the tree) and/or demo/main.go or a *_test.go that exits non-zero / prints FAIL with the change and exits zero / prints PASS without it — it must check the property's promised behaviour, not an implementation detail; give the exact commands in meta.json;
  * meta.json — {{"property": "{pid}", "summary": one sentence, "needs_to_manifest": what specific input/sequence/nesting triggers it, "files": [...], "commands": {{"build": "...", "demo": "..."}}, "expected_without_change": "...", "observed_with_change": "..."}}.
Verify each yourself: clean tree → demo passes; apply patch → builds, pinned suite result unchanged, demo fails; then `git checkout -- .` (and `git clean -fd` except out/) to restore the clean tree before the next one. Leave the worktree clean at the end (only out/ untracked). In your final message list the {n} changes with one line each and the paths.""")
