#!/usr/bin/env python3
"""Writes /verif/MANIFEST.json from the table below (single source of truth for what is claimed)."""
import json, os
ROOT = os.path.dirname(os.path.dirname(os.path.abspath(__file__)))

# id -> (category, technique, level text, level_note, design_ref)
CLAIMED = {
 "C02": ("proof",
  "Lean 4 theorems over Go->Lean regenerated arith/comparison functions + lattice correspondence with Spec.Num",
  "Theorems in lean/GoluaVerif/Props/C02.lean are re-checked on every run against definitions regenerated from "
  "runtime/arith.go, comp.go, numconv.go by extract/golean; the full pipeline (Lua source -> VM) is then compared with "
  "the executable spec the theorems are about on an exhaustive boundary lattice x 24 operators plus random operands.",
  "Trusted: Lean kernel; the translator; hardware float + - * / (taken from Lean Float in the oracle); pow/libm unchecked. "
  "See DESIGN.md section 5 and 6 (C02).", "6/C02"),
 "C14": ("proof",
  "Lean 4 simulation theorem: pooled register allocation refines plain allocation (Model.Pools) + model-vs-real-pool correspondence via hook + trace equality across all build tag sets",
  "Props/C14.lean proves for every client program of any length that the register pool returns zeroed sets of the exact size and is "
  "observationally equivalent to plain allocation; Model.Pools is run op-by-op against the real valuePool (identities, lengths, contents) "
  "through a verif hook; the same harness is built under {default, noregpool, nocontpool, noregpool+nocontpool, noquotas, safepool} and "
  "host-visible traces of pool-stressing templates and generated programs must be identical.",
  "That the VM releases a register set/continuation only when nothing references it is VM discipline: reached by the cross-build trace "
  "equality (testing), not by the theorem. Continuation pools and the luagc pool variants are covered by correspondence only.", "6/C14"),
 "C19": ("proof",
  "Lean 4 executable spec of the string/table library (lstrlib.c/ltablib.c position arithmetic, abstract get/set store) + theorems over regenerated StringNormPos/maxpos/minpos + exhaustive small-domain and random correspondence; table.sort validated against the proved Perm/Sorted relation",
  "43 theorems in lean/GoluaVerif/Props/C19.lean, re-checked every run: laws of sub/byte/char/rep/reverse/upper/lower/plain find for all integer positions and all byte strings; "
  "insert/remove/move (overlap both ways)/concat/unpack/pack for every store that behaves like a table; gosub_eq_spec / gobyte_eq_spec / gofind_start_eq_spec prove golua's position "
  "handling (StringNormPos, maxpos, minpos regenerated from luastrings/misc.go and lib/stringlib/stringlib.go) equal to the manual's for every int64 argument; the permutation / ordered / "
  "strict-weak-order checkers used by the oracle are proved sound and complete, and any swap-only sorter is proved to permute for every comparator outcome sequence. The real functions are "
  "compared with the spec on every argument tuple over strings of at most 3 symbols / sequences of at most 4 elements x positions {minint, -len-1..len+1, maxint} x 13 table shapes with "
  "__index/__newindex/__len, random longer inputs, 15 comparators, child-process huge-rep cases.",
  "Trusted: Lean kernel; Go->Lean translator (string parameter represented by its length); harness/oracle parsers; Go's sort.Sort calling only Less/Swap; strings.Index/Repeat "
  "(correspondence only). rep's overflow tests are not proved (boundary cases by correspondence). Open by the manual and not compared: explicit nil optionals, number->string coercion of "
  "arguments, unpack result counts between 256 and 2^31, ranges of more than 4096 elements. One recorded defect (C19-rep-negative), five repaired (known_findings.json).", "6/C19, 14/C19"),
 "C12": ("proof",
  "Lean 4: parse∘print = id for the mirrored precedence-climbing parser over all operators and all redundant parenthesisations; escape/long-bracket decode∘spell = id; operator tables regenerated from ops.go/parser.go/token.go and proved equal to the model's; correspondence of golua's AST, decoded literals and error lines with those definitions",
  "Props/C12.lean proves, with propext/Classical.choice/Quot.sound only, parse_render (every tree over 21 binary + 4 unary operators, every choice of redundant parentheses), "
  "decode_escape (every byte string, every escape form incl. \\z, \\u{..}, backslash-newline), long_bracket (every level, incl. the empty string) and, re-checked per run, that the model's "
  "precedence/token tables are the ones extracted from /repo. The real scanner/parser/ast are run in-process on exhaustive depth-2 trees x spellings, random deeper trees, exhaustive short "
  "literal spellings, Spec.Literal.escape outputs and single-token corruptions, and compared with the same Lean definitions (AST vs intended tree and vs Model.ParseExp; decoded value vs "
  "Model.Literal; error line vs the corrupted token's line).",
  "Model.Literal / Spec.Numeral are the Lua semantics, not mirrors of golua's regexp/strconv code: that part is tied by correspondence only (level A). Statement forms are checked for "
  "acceptance and error position only; the expected error token of a corruption is known by construction, not from a Lean statement grammar. Comments/whitespace are exercised through "
  "spellings, not modelled. Trusted: Lean kernel, harness AST dumper (BinOp lists read as left folds, as astcomp compiles them), extract/fronttab.", "6/C12, 14/C12"),
 "C15": ("proof",
  "Lean 4 refinement: golua's iterative trackback matcher and its pattern builder (hand-mirrored with checked indexing) against the manual's recursive search and grammar, for all patterns/subjects/starts; named byte sets regenerated from byteset.go; exhaustive token-pattern x subject x init correspondence at spec level (A) and mirror level (B)",
  "Props/C15*.lean (30 obligations, propext/Classical.choice/Quot.sound): build_total (pattern.New never panics, all strings); build_refines_parse; machine_refines_spec_partial and "
  "match_total_partial (MatchFromStart = Spec.find with all captures, terminates, no recovered panic: all strings/subjects/starts, hypotheses = parsed by the Spec, no descending range, "
  "no %n to (), <=10000 bytes, the first three each with a proved counterexample, the last an implementation limit); lua_find_refines_spec_partial / lua_match_refines_spec_partial; "
  "gsub_progress for every matcher; budget_charged; named_sets_correct over the regenerated table; byte-set algebra. gmatch/gsub versus the 5.4 iteration, and patterns the Spec rejects "
  "or leaves open, rest on correspondence only: every pattern of <=3 tokens (29-token alphabet incl. malformed fragments) x every subject of <=3 symbols over {a,b,(,)} x every init, "
  "random long ones, random bracket sets x all 256 bytes.",
  "Trusted: Lean kernel; hand mirrors Model.ByteSet/PatBuild/PatMatch/Gsub (tied by level B incl. error kinds and exact budget used); extract/bytesets; harness/oracle parsers. "
  "Seven recorded defects (known_findings.json, C15-*) with counterexample theorems. CPU accounting is checked as an inequality against the mirror's step counter. %+alphanumeric "
  "non-class, [%a-z], [a-%x], []-x], ^ in gmatch, invalid replacement escapes are left open by the manual and not compared at level A.", "6/C15, 10/C15, 14/C15"),
}

NOT_YET = "machinery for this property is not built yet in this revision (see DESIGN.md section 9 build order); not claimed"

def main():
    props = [json.loads(l)["id"] for l in open(os.path.join(ROOT, "properties.jsonl"))]
    checks = []
    for pid in props:
        if pid not in CLAIMED:
            continue
        cat, tech, text, note, ref = CLAIMED[pid]
        checks.append({
            "property_id": pid,
            "quick_cmd": "./check %s --tier quick" % pid,
            "thorough_cmd": "./check %s --tier thorough" % pid,
            "evidence_file": "evidence/%s.json" % pid,
            "replay_cmd_template": "./check %s --replay {path}" % pid,
            "engine": "lean+harness",
            "level_claimed": {"category": cat, "text": text, "design_ref": ref},
            "level_note": note,
            "technique": tech,
        })
    na = [{"property_id": p, "reason": NOT_YET} for p in props if p not in CLAIMED]
    hooks = []
    try:
        hooks = [l.strip() for l in open(os.path.join(ROOT, "hooks_commits.txt")) if l.strip()]
    except OSError:
        pass
    m = {
        "version": 1,
        "setup_cmd": "./check --setup",
        "hooks": {
            "guard": "verif",
            "enable": "go build -tags verif -ldflags=-checklinkname=0 (harness module with replace github.com/arnodel/golua => /repo)",
            "baseline_off_cmd": "./tools/baseline.sh",
            "source_commits": hooks,
            "add_only": True,
        },
        "engines": [
            {"name": "lean", "path": "lean/", "serves_properties": sorted(CLAIMED), "kind_free_text": "Lean 4 models, specs, theorems (GoluaVerif) and compiled oracle (lean_exe, core only)"},
            {"name": "extract", "path": "extract/", "serves_properties": sorted(CLAIMED), "kind_free_text": "Go->Lean translator and fact extractors, run on every check"},
            {"name": "harness", "path": "harness/", "serves_properties": sorted(CLAIMED), "kind_free_text": "Go correspondence harnesses calling the real golua code in-process"},
        ],
        "checks": checks,
        "not_applicable": na,
        "notes": "All checks: ./check Cxx --tier quick|thorough. known_findings.json lists recorded defects and fixed ones.",
    }
    with open(os.path.join(ROOT, "MANIFEST.json"), "w") as f:
        json.dump(m, f, indent=1)
        f.write("\n")

if __name__ == "__main__":
    main()
