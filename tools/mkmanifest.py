#!/usr/bin/env python3
"""Writes /verif/MANIFEST.json from the table below (single source of truth for what is claimed)."""
import json, os
ROOT = os.path.dirname(os.path.dirname(os.path.abspath(__file__)))

# id -> (category, technique, level text, level_note, design_ref)
CLAIMED = {
 "C02": ("proof",
  "Lean 4 theorems over Go->Lean regenerated arith/comparison functions + lattice correspondence with Spec.Num",
  "Theorems in lean/GoluaVerif/Props/C02.lean are re-checked on every run against definitions regenerated from "
  "runtime/arith.go, comp.go, numconv.go by extract/golean; the full pipeline (Lua source -> VM) is then compared with "
  "the executable spec the theorems are about on an exhaustive boundary lattice x 24 operators plus random operands. "
  "Props/C02.lean also: floordiv_minus_one (x // -1 = -x wrapped, minint included), mod_minus_one, floordiv_one, mod_idempotent over the regenerated floordivInt/modInt. Props/C02_Order.lean: lt_irrefl, lt_trans, le_trans, le_antisymm, lt_of_lt_of_le (the exact comparison is a strict total order on non-NaN numbers of any mix) and, over the regenerated comp.go functions, lt_trans_int_float_int, le_antisymm_int_float.",
  "Trusted: Lean kernel; the translator; hardware float + - * / (taken from Lean Float in the oracle); pow/libm unchecked. "
  "See DESIGN.md section 5 and 6 (C02).", "6/C02"),
 "C14": ("proof",
  "Lean 4 simulation theorem: pooled register allocation refines plain allocation (Model.Pools) + model-vs-real-pool correspondence via hook + trace equality across all build tag sets",
  "Props/C14.lean proves for every client program of any length that the register pool returns zeroed sets of the exact size and is "
  "observationally equivalent to plain allocation; Model.Pools is run op-by-op against the real valuePool (identities, lengths, contents) "
  "through a verif hook; the same harness is built under {default, noregpool, nocontpool, noregpool+nocontpool, noquotas, safepool} and "
  "host-visible traces of pool-stressing templates and generated programs must be identical.",
  "That the VM releases a register set/continuation only when nothing references it is VM discipline: reached by the cross-build trace "
  "equality (testing), not by the theorem. Continuation pools and the luagc pool variants are covered by correspondence only.", "6/C14"),
 "C19": ("proof",
  "Lean 4 executable spec of the string/table library (lstrlib.c/ltablib.c position arithmetic, abstract get/set store) + theorems over regenerated StringNormPos/maxpos/minpos + exhaustive small-domain and random correspondence; table.sort validated against the proved Perm/Sorted relation",
  "43 theorems in lean/GoluaVerif/Props/C19.lean, re-checked every run: laws of sub/byte/char/rep/reverse/upper/lower/plain find for all integer positions and all byte strings; "
  "insert/remove/move (overlap both ways)/concat/unpack/pack for every store that behaves like a table; gosub_eq_spec / gobyte_eq_spec / gofind_start_eq_spec prove golua's position "
  "handling (StringNormPos, maxpos, minpos regenerated from luastrings/misc.go and lib/stringlib/stringlib.go) equal to the manual's for every int64 argument; the permutation / ordered / "
  "strict-weak-order checkers used by the oracle are proved sound and complete, and any swap-only sorter is proved to permute for every comparator outcome sequence. The real functions are "
  "compared with the spec on every argument tuple over strings of at most 3 symbols / sequences of at most 4 elements x positions {minint, -len-1..len+1, maxint} x 13 table shapes with "
  "__index/__newindex/__len, random longer inputs, 15 comparators, child-process huge-rep cases.",
  "Trusted: Lean kernel; Go->Lean translator (string parameter represented by its length); harness/oracle parsers; Go's sort.Sort calling only Less/Swap; strings.Index/Repeat "
  "(correspondence only). rep's overflow tests are not proved (boundary cases by correspondence). Open by the manual and not compared: explicit nil optionals, number->string coercion of "
  "arguments, unpack result counts between 256 and 2^31, ranges of more than 4096 elements. One recorded defect (C19-rep-negative), five repaired (known_findings.json).", "6/C19, 14/C19"),
 "C12": ("proof",
  "Lean 4: parse∘print = id for the mirrored precedence-climbing parser over all operators and all redundant parenthesisations; escape/long-bracket decode∘spell = id; operator tables regenerated from ops.go/parser.go/token.go and proved equal to the model's; correspondence of golua's AST, decoded literals and error lines with those definitions",
  "Props/C12.lean proves, with propext/Classical.choice/Quot.sound only, parse_render (every tree over 21 binary + 4 unary operators, every choice of redundant parentheses), "
  "decode_escape (every byte string, every escape form incl. \\z, \\u{..}, backslash-newline), long_bracket (every level, incl. the empty string) and, re-checked per run, that the model's "
  "precedence/token tables are the ones extracted from /repo. The real scanner/parser/ast are run in-process on exhaustive depth-2 trees x spellings, random deeper trees, exhaustive short "
  "literal spellings, Spec.Literal.escape outputs and single-token corruptions, and compared with the same Lean definitions (AST vs intended tree and vs Model.ParseExp; decoded value vs "
  "Model.Literal; error line vs the corrupted token's line). Error positions: Spec.Grammar.firstBad (viable-prefix automaton of the expression grammar) with firstBad_render, accepted_prefix_viable, "
  "rejected_prefix_dead, operator_classes_agree and error_position_partial (parse succeeds iff firstBad = none is not proved for arbitrary token lists); golua's reported token is compared with firstBad on ~5200 "
  "corrupted renderings per run, and at statement level on bracket templates (opener many lines before the offending token) in every line-break spelling; function-statement name forms x parameter lists are evaluated "
  "(self, parameters, select('#', ...)); `...` outside a variadic function must be a syntax error (repaired in ad08787).",
  "Model.Literal / Spec.Numeral are the Lua semantics, not mirrors of golua's regexp/strconv code: that part is tied by correspondence only (level A). Statement forms are checked for "
  "acceptance and error position only; the expected error token of a corruption is known by construction, not from a Lean statement grammar. Comments/whitespace are exercised through "
  "spellings, not modelled. Trusted: Lean kernel, harness AST dumper (BinOp lists read as left folds, as astcomp compiles them), extract/fronttab.", "6/C12, 14/C12"),
 "C15": ("proof",
  "Lean 4 refinement: golua's iterative trackback matcher and its pattern builder (hand-mirrored with checked indexing) against the manual's recursive search and grammar, for all patterns/subjects/starts; named byte sets regenerated from byteset.go; exhaustive token-pattern x subject x init correspondence at spec level (A) and mirror level (B)",
  "Props/C15*.lean (30 obligations, propext/Classical.choice/Quot.sound): build_total (pattern.New never panics, all strings); build_refines_parse; machine_refines_spec_partial and "
  "match_total_partial (MatchFromStart = Spec.find with all captures, terminates, no recovered panic: all strings/subjects/starts, hypotheses = parsed by the Spec, no descending range, "
  "no %n to (), <=10000 bytes, the first three each with a proved counterexample, the last an implementation limit); lua_find_refines_spec_partial / lua_match_refines_spec_partial; "
  "gsub_progress for every matcher; budget_charged; named_sets_correct over the regenerated table; byte-set algebra. gmatch/gsub versus the 5.4 iteration, and patterns the Spec rejects "
  "or leaves open, rest on correspondence only: every pattern of <=3 tokens (29-token alphabet incl. malformed fragments) x every subject of <=3 symbols over {a,b,(,)} x every init, "
  "random long ones, random bracket sets x all 256 bytes.",
  "Trusted: Lean kernel; hand mirrors Model.ByteSet/PatBuild/PatMatch/Gsub (tied by level B incl. error kinds and exact budget used); extract/bytesets; harness/oracle parsers. "
  "Seven recorded defects (known_findings.json, C15-*) with counterexample theorems. CPU accounting is checked as an inequality against the mirror's step counter. %+alphanumeric "
  "non-class, [%a-z], [a-%x], []-x], ^ in gmatch, invalid replacement escapes are left open by the manual and not compared at level A.", "6/C15, 10/C15, 14/C15"),
 "C03": ("proof",
  "Lean 4 refinement proof: a line-by-line mirror of runtime/hashtable.go (array part, open-addressing hash part with relocated chains, tombstones, growth and array migration), parameterised by the key hash, keeps a decidable invariant on every operation history and refines Spec.Map; correspondence with the real runtime.Table and compiled Lua through a verif dump hook, the model run on the exported key hashes",
  "27 theorems in lean/GoluaVerif/Props/C03*.lean, re-checked every run. For every hash function and every history of Set/Reset operations Model.Table neither panics nor loops, keeps Inv "
  "(array border discipline, nextFree, no duplicate keys, normal keys, chain invariants I1-I3 including all three relocation cases of insertNewKeyValue, hash growth, array migration with a free "
  "slot afterwards), and denotes the abstract map of the manual (value most recently assigned to an equal normalised key); #t is a border; value equality and key equality agree on all key "
  "values (key_eq_iff over the exact F64 model); next-traversals interleaved with clear/assign of existing fields (through Reset or Set/rawset, also while the hash part is full) visit each "
  "surviving key exactly once; __index/__newindex are consulted only when the raw key is absent. All theorems are full strength; the five defects the first version of this check found are "
  "repaired (known_findings.json fixed: lines) and their witnesses are regression cases in corpus/C03. The model is tied to the code on every run: all outputs and the complete private state "
  "(hook dump) of runtime.Table and of compiled Lua (t[k]=v, rawset, next, pairs, #, __index/__newindex) are compared with the model fed with the real key hashes, outputs are validated against "
  "the spec relations, and Inv is evaluated on every dump; exhaustive short set/delete sequences over small key alphabets in linear, array and hashed configurations plus random sequences to length 400.",
  "Trusted: Lean kernel; harness/oracle parsers; the model's abstraction of the slot word (index<<2|flags as a triple) and of ToIntNoString on floats (Spec.Num.floatToInt?, compared with the "
  "regenerated FloatToInt on every float key; equality proved separately in Props/C02_Comp.floatToInt_exact); Go's hash being a function of the normalised key is an assumption checked per line. "
  "The tie between the proved model and hashtable.go is correspondence (level B + Inv monitor), not proof; a behaviour-preserving rewrite of the algorithm needs the model updated. Metatable "
  "chains beyond one step of Index/SetIndex and the base library's pairs with __pairs are exercised only by the Lua leg.", "6/C03, 10/C03, 14/C03"),
 "C09": ("proof",
  "Lean 4: refinement of thread.go's status/caller model to the Lua coroutine status machine over all histories; "
  "generic interleaving theorems for every family of event programs obeying a decidable hand-off discipline, with the "
  "event order of thread.go regenerated (go/ast) and re-checked on every run; deadlock freedom of data + event order "
  "together for arbitrary scripts and schedules; exhaustive + random coroutine scripts on golua validated against the "
  "spec; race detector as supporting evidence",
  "Props/C09.lean.  (1) All histories of Model.CoSeq (status, caller, closeErr, close stack as in Resume/Yield/Close/end): "
  "status_chain_inv, resume_only_suspended, close_only_suspended_or_dead, error_kills_and_delivers, "
  "control_returns_to_resumer, values_transferred_exactly (CoSeq refines Spec.Co event-for-event), no_protocol_panic. "
  "(2) Model.CoProto (any number of goroutines, any schedule; lock/unlock/send/recv rendezvous/touch/run events), for EVERY "
  "family of event programs obeying the decidable discipline Disc: baton_unique, no_lock_deadlock, "
  "dead_thread_goroutine_terminates, stuck_goroutines_parked, no_deadlock_partial; table_programs_obey_disc / "
  "baton_unique_of_table (every program assembled from an event table that passes discTable obeys Disc); per-run "
  "obligations over Generated/ThreadEvents.lean by decide: threadEvents_disc (the regenerated table obeys Disc), "
  "threadEvents_own_recv, threadEvents_no_unclassified, threadEvents_paths, hence threadEvents_baton_unique for thread.go "
  "as it is in the tree.  (3) Model.CoSys (CoSeq's data and CoProto's events together, arbitrary scripts per thread incl. "
  "what close handlers do, any number of threads, any schedule): no_deadlock — some goroutine can always step until the "
  "main thread's code has ended; every send finds its receiver parked.  All full, no _partial left except the generic "
  "no_deadlock_partial kept for arbitrary Disc families.  Correspondence (level A): every script of <= 4 (quick) / <= 5 "
  "(thorough) actions over <= 3 coroutines + random longer ones, traces with values, statuses, goroutine deltas and a "
  "deadlock watchdog, compared with Spec.Co through the compiled oracle.",
  "Trusted/assumed: Go's memory model, channels as rendezvous, mutexes, scheduler fairness; the extractor "
  "(extract/threadevents) and its classification of calls into touch/run; CoSys applies a procedure's writes at its entry "
  "(sound because only the baton holder touches thread data) and ties its literal paths to the regenerated table "
  "(threadEvents_paths: a reordering of thread.go, even a harmless one, needs the model updated); goroutine termination is "
  "observed (runtime.NumGoroutine), not proved; the -race/GOMAXPROCS runs of the thorough tier sample schedules and are "
  "supporting evidence only.  Whether to-be-closed handlers of a quota-killed coroutine run is left open.  Known finding: "
  "pcall frames on the runtime-wide context stack (kill escapes after a yield across pcall).", "6/C09"),
 "C10": ("proof",
  "Lean 4 compiler-correctness theorem for the to-be-closed machinery (static close-stack heights of ir/builder.go + run-time close stack) against a big-step "
  "semantics of manual 3.3.8, for every program of a block-structured mini-language and every handler behaviour; tied to golua by event-log correspondence and by "
  "comparing the clpush/cltrunc skeleton of golua's own disassembly with the compile model",
  "Props/C10.lean, re-checked every run: compile_correct (every well-formed program of the mini-language {local <close>, statement, do-block, loop, break, goto out of k blocks, "
  "return, return f(), error, pcall(function), (function)(), yield; generic for with a closing value as the block the manual describes} compiles, and the close-stack machine running the compiled code logs exactly the handler calls, error arguments and "
  "interleaving with other statements that Spec.Tbc prescribes, for every handler behaviour incl. handlers that raise), coroutine_close_runs_pending (same for a coroutine closed at "
  "any yield, also inside nested pcalls), exactly_once, reverse_order, handler_error_replaces, non_closable_rejected, no_tail_call_with_pending "
  "(getTailCall's refusal: call + return, never a tail call, when a close is pending), tail_call_order, forin_closing_value. Proof in two inductions: Proofs/TbcDyn (static heights = stack sizes at block entry, exact equality of machine states) and "
  "Proofs/TbcSpec (truncate-before-jump / cleanup-only-at-pcall versus block-by-block closing). Correspondence: chains of up to 3 nested constructs x to-be-closed declarations "
  "before/after each construct x every exit kind at every level x raising handlers (always / only without / only with an error in flight), rendered under pcall, as a coroutine "
  "body, with trailing (back) labels, loops as for / repeat-until, the generic for's values through 11 expression-list shapes (explicit, calls, table.unpack, ... with 3/4/5 values, "
  "parenthesised call), <close>/<const> mixes and with coroutine.close at a yield, plus random wider programs and hand-written static cases (multiple <close>, raw __close lookup, replaced/removed __close, gotos); golua's event log must equal Spec.Tbc (level A) and Model (level B), and the "
  "clpush/cltrunc h/jump/return skeleton of every function (from golua's disassembler) must equal Model.TbcCompile's.",
  "The theorem is about Model.TbcCompile/Model.TbcVM; that these mirror ir/builder.go, astcomp/compstat.go, luacont.go and thread.go rests on the correspondence (exhaustive to depth 2, "
  "sampled at depth 3 in thorough; sampled in quick). Control flow itself (jumps landing on the right instruction) is kept structured in the model: C01's subject. The generic for is modelled as the block the manual "
  "describes; that ProcessForInStat emits the same skeleton is correspondence. Not modelled: memory/CPU kills inside handlers, multiple <close> names in one local statement. "
  "One defect found and repaired (3e9e50b, coroutine.close inside pcall).", "6/C10, 14/C10"),
 "C16": ("proof",
  "Lean 4 theorems: the prepfor/advfor mirror built on the comparison functions REGENERATED from runtime/comp.go equals the manual's numeric for (forlimit clipping, precomputed "
  "count, no wrap-around; float loop by repeated exact-rounded addition) + exhaustive lattice-of-triples correspondence through the full pipeline",
  "Props/C16.lean, re-checked every run over Generated.Comp: int_loop_values (every int64 start, every int64 step /= 0, every numeric limit incl. floats beyond the int64 "
  "range, +-inf and NaN: the values the body sees are exactly the manual's), int_loop_terminates (explicit count, no fuel: the start register is the k-th term after k advfor for k < count "
  "and nil after exactly count), count_le_two64, no_wraparound, count_maximal, float_loop_values (float loops, every triple incl. NaN and inf/-inf), for_loop_values (all numeric triples), "
  "float_limit_readings_agree, zero_step_error, non_number_error, body_assignment_irrelevant; the only hypothesis left is that floats are genuine doubles (numWF). Correspondence: compiled `for i = a, b, c do emit(i, math.type(i)) end` capped at 40 iterations over the lattice of triples (27 values quick / 69 "
  "thorough: ints around 0, +-2^53, min/maxinteger; floats +-2^63 and neighbours, +-inf, NaN, fractions; numeric strings; non-numbers), exhaustively, as arguments / with the step "
  "omitted / as literals / with the body assigning to the loop variable / with the control values coming from reassigned locals, upvalues, globals, "
  "once-evaluated calls and fields, multi-value calls, captured loop variables, yields (the source variables must stay untouched), plus random triples near start+k*step; level A against Spec.For, level B against Model.For.",
  "Uses Props/C02_Comp (exactness of the regenerated comparisons) and Props/C02_F64. Float addition is the exact model F64.fadd, validated bit for bit against the hardware on every "
  "run. Tolerated where the manual is open: lvm.c's reading for NaN operands in float loops, a float loop with an integer limit beyond 2^53 (exact vs rounded limit), numeric strings "
  "as initial value/step (integer by syntax vs float). String->number conversion is taken from golua's tonumber (C02). One defect found and repaired (5163798, NaN limit/operands).", "6/C16, 14/C16"),
 "C18": ("proof",
  "Lean 4 invariant proofs over hand-written state-machine models of clonepool.go and of its call sites + level-A/B "
  "correspondence on the real ClonePool/Runtime through a deterministic Go-finaliser hook + Lua-level logs under the real collector",
  "Theorems in Props/C18.lean (at-most-once per marking epoch, EXACTLY once by close / by the end of an isolating context, "
  "release once and after finalise, reverse marking order, re-mark resets order, killed contexts release without finalising) "
  "hold for ALL event histories of Model.ClonePool/GcRuntime; isolating_context_owns_pool / isolates_iff (which limit subsets give a context its own pool), finalizers_run_inside_current_context, "
  "releasable_always_marked_release, releasable_userdata_released_by_close, finalizer_error_does_not_skip, log_independent_of_raising; pool ownership after the repair ca74c8e: marked_in_at_most_one_pool, remark_goes_to_owner, mark_never_throws, setfinalizer_never_throws (no reachable runtime state double-sets a Go finaliser, under the named "
  "assumption OkRun), mark_panics_iff_pool_released; isolates_iff includes required flags (d0d5056); never-finalised-while-reachable is proved `_partial` with a "
  "`_counterexample` replayed on the code; one known finding remains (re-finalisation through a clone of an escaped value).  The models are tied to "
  "runtime/internal/luagc/clonepool.go, runtime.go, thread.go, runtimecontextmanager.go by per-op diffs on ~170k (quick) / "
  "~4.9M (thorough) histories.",
  "Trusted: Lean kernel; the hand-written models (tie = correspondence only); Go's collector modelled as an environment that "
  "fires finalisers only for unreferenced registered objects; runtime.SetFinalizer's double-set throw modelled as `fatal`; "
  "UnsafePool/SafePool not modelled; resource accounting of finalisers is C05/C06.", "6/C18"),
 "C08": ("proof",
  "Lean 4: model of the flag gate (GoCont.RunInThread) + generic closed-set theorem for call graphs, instantiated by "
  "`decide +kernel` on the compliance table and call graph regenerated from /repo by extract/gofacts; correspondence of "
  "every Go function reachable in a real runtime x 16 flag sets x spellings x argument tuples with inotify/process-table "
  "(thorough: strace) observation of effects",
  "Proved in full (lean/GoluaVerif/Props/C08.lean): gate_before_effect, gate_keeps_context_live, gate_passes, "
  "missing_eq_zero_iff, required_flags_monotone(_chain), refused_in_parent_refused_in_child (model Model.Flags, tied to the "
  "code by the harness: refuse/pass, missing-flag mask, no effect before the gate, context keeps running, nested contexts and "
  "limit-implied flags); closed_set_sound, gated_closed_set_sound, checkCert_sound, validPath_reachable for ALL graphs; per-run "
  "instances iosafe_no_sink, srcs_accounted, graph_complete, sinks_not_gates, gates_guard, compliance_table_resolved over the "
  "regenerated tables, hence iosafe_clean_sources_reach_no_sink. holes_empty (`holeSrcs = []`), hence iosafe_no_sink_through_gates in full: "
  "in a context requiring iosafe no iosafe-declared function reaches a sink by any feasible path, gates included "
  "(hole_paths_counterexample: whenever the extractor does list an offending path, it is a real path). Dynamic leg, sharded over worker processes with their own sentinel directories and a time budget "
  "(a slow machine thins the enumeration, reported as planned vs done cases, and never raises an alarm; a single call that does not return is reported as a hang): every reachable Go function x flag sets x spellings, "
  "plus context-edge spellings for the sink-reaching functions (called from __close handlers on error / normal exit / inner pcall exit, xpcall handlers, sort comparators, gsub callbacks, coroutines created outside and resumed inside, "
  "__gc finalisers of objects created inside — an effect after the context has ended is keyed separately), plus a command-line leg: the golua command built from the tree under test run with -flags iosafe in every "
  "order and with/without -cpulimit/-memlimit on a script attempting each effect class.",
  "Trusted: Lean kernel; extract/gofacts (go/packages + x/tools SSA, CHA for interface calls, VTA for function values, the AST "
  "reader of SolemnlyDeclareCompliance sites) — cross-checked each run against the flags the real runtime holds (hook "
  "VerifGoFunctionInfo); the by-name list of sinks and the two exempt edges listed in the evidence assumptions (File.cleanup -> os.Remove of golua's own "
  "temp file; io.popen's close closure -> Cmd.Wait on a child that cannot have been started under iosafe); "
  "stdlib code below a non-sink leaf is not analysed. See DESIGN.md section 6 (C08).", "6/C08"),
 "C20": ("proof",
  "Lean 4: generic non-interference theorem for two machines over a shared component (and its benign-write variant), per-run "
  "`decide` instance over the table of package-level variables written after init, regenerated from /repo by extract/gofacts; "
  "two-runtime replay (interleaved per statement, concurrent, thorough: race detector) against solo runs",
  "Proved in full (lean/GoluaVerif/Props/C20.lean): frame_noninterference and frame_noninterference_upto for ALL machines and "
  "schedules (induction over the interleaving), runSolo_obs, shared_write_interferes_counterexample. Per-run, by `decide` over the regenerated table: "
  "shared_writers_allowed and no_shared_writes — every (package-level variable, run-time writer reachable from runtime.New / a loader / a registered Go function) is in "
  "Spec.Isolation.allowlist (the os.Std* streams, each justified); full strength since the three repairs (math/rand source b64f94a, flags of shared GoFunctions cfa16e8, collectgarbage 9ffb107). The extractor follows "
  "memory of a package-level variable through struct fields, composite literals, by-value copies of structs (their slices/maps/pointers still belong to the variable) and calls through function values. "
  "Replays: ordered pairs of programs x interleaving schedules x goroutines; seven runtime configurations x ordered pairs x creation orders in clean child processes; per-runtime stdout and the process's stderr as part of the trace; "
  "a concurrent stress of 8 runtimes on call-heavy programs against their solo traces. Isolation of state hanging "
  "off *Runtime (globals, string metatable, package.loaded, io defaults, quotas) rests on the replay only.",
  "Trusted: Lean kernel; the package-level-variable write analysis in extract/gofacts (taint over SSA; sound only up to its rules, "
  "see extract/gofacts/globals.go); the by-name list of process-wide state outside the module; the race detector only samples "
  "schedules. See DESIGN.md section 6 (C20).", "6/C20"),
 "C05": ("proof",
  "Lean 4 model of the context manager over regenerated limit functions: kill_exact / kill_monotone / no_step_after_kill theorems + level A/B correspondence on the real Runtime + Lua-level limit sweeps",
  "Props/C05.lean: atLimit_monotone / atLimit_antitone_limit / atLimit_unlimited / dominates_antitone (regenerated limit test monotone in the counter, antitone in the limit), limited_metered, kill_step_exact, kill_exact (killed iff L <= usage for every request list), kill_monotone, results_identical_when_not_killed, cpu_never_reaches_limit, kill_is_final, "
  "no_step_after_kill; and for the repaired propagation (0426709, mirrored in Model.CallCtx: recorded resource + propagateTermination): limitless_bracket_cannot_absorb (every well-formed body), uninterceptable, kill_exact_nested, kill_exact_nested_from_root, kill_monotone_nested (programs of requests and ANY nesting of limit-less brackets: killed iff L <= used + cost, the refused request is the last event), child_with_own_limit_dies_alone; recover_sites_classified (regenerated instance: every recover() of runtime/ and lib/, listed by extract/recoversites on each run, is a hand-classified site of Model/RecoverExpect.lean — a new or edited recover site breaks it). Lua-level: the limit is also driven INTO every callback site (sort comparator, __lt/__index/__newindex/__call/__concat/__len/__eq/__tostring/__pairs, gsub / load callbacks, xpcall handlers, __close on normal and error exit, __gc at context exit and on collectgarbage, coroutine bodies) with a pcall around, and 12 scanning templates (%b, frontier, backtracking, plain find, gsub/gmatch) must be charged CPU above a lower bound in N; 26 size-taking non-pattern calls (pack c<n>/x/z/s4, unpack, rep, table.concat, format, byte, move/insert/remove/sort, reverse/upper/lower, concat, utf8.*, load, gsub) must be charged CPU + memory >= work/8 and be killed under small limits (work_amplify); coroutine.close of a suspended coroutine (bare, in pcall, from a handler, from another coroutine, two handlers, inside a pcall frame) is one of the callback sites. The unmetered 'x' padding of string.pack found by this leg is repaired (a8c6452). Model/Ctx.lean mirrors runtimecontextmanager.go operation by operation on top of the REGENERATED Generated.Resources (smallerLimit, atLimit, Remove, Merge, Dominates, flag/status constants); Model/CallCtx.lean is Thread.CallContext with the deferred pop and recover explicit. Level B compares the whole context stack (limits, used, status, due, flags of every Parent()) after every operation on a real *rt.Runtime over 36^3 exhaustive boundary histories, random histories incl. API abuse near 2^64 and random CallContext trees; level A re-checks the Spec.Quota relations on the implementation's own trace; Lua legs sweep limits around each generated program's own usage. The Lua leg checks killed iff L <= u, identical trace when not killed, killed trace is a prefix, used < L on generated programs "
  "(pcall loops, coroutines, handlers) x ~40 limits each.",
  "Time limits, message handlers and coroutines are outside the model; 'real work between two counter increments is bounded' is sampled by amplification templates only (not proved). The interception of kills "
  "through pcall found by this check is repaired in /repo (0426709) and the repaired behaviour is proved (uninterceptable / kill_exact_nested) and swept at Lua level through pcall / xpcall / callcontext{} / coroutine wrappers; no known finding left.", "6/C05, 14/C05"),
 "C06": ("proof",
  "Lean 4 model of memory accounting over regenerated limit functions: never-reaches-limit / monotone / balanced-release theorems + level A/B correspondence + Lua-level limit sweeps and amplification templates",
  "Props/C06.lean: mem_never_reaches_limit, mem_kill_step_exact, mem_kill_monotone, limitless_bracket_cannot_absorb_mem (every well-formed body, no proviso since 52f8e49), recover_sites_classified (as C05), chargeCovers_iff, mem_kill_monotone_nested (two-run simulation: ANY program of memory requests, releases — also cascading ones — and limit-less brackets), mem_program_killed_by_memory, release_no_underflow_in_frame, release_unlimited_is_noop; for the cascading ReleaseMem of 8007e69 (mirrored as releaseStack): release_cascades_exactly, release_never_crashes_when_covered (crash iff every context down to the outermost is limited and together they hold less), release_uncovered_is_absorbed, release_never_crashes_from_fresh_runtime (any history, legal or not); require_release_paired (compile pipeline model after fcd5799: every path balanced); and the proved "
  "the former stale-limit witness as a passing example. Model/Ctx.lean mirrors runtimecontextmanager.go operation by operation on top of the REGENERATED Generated.Resources (smallerLimit, atLimit, Remove, Merge, Dominates, flag/status constants); Model/CallCtx.lean is Thread.CallContext with the deferred pop and recover explicit. Level B compares the whole context stack (limits, used, status, due, flags of every Parent()) after every operation on a real *rt.Runtime over 36^3 exhaustive boundary histories, random histories incl. API abuse near 2^64 and random CallContext trees; level A re-checks the Spec.Quota relations on the implementation's own trace; Lua legs sweep limits around each generated program's own usage. Amplification templates (rep, concat, unpack, char, format, pack, load, coroutine.create loops, table growth) x N up to 2^40 under 1 MiB with a TotalAlloc bound.",
  "Real heap growth versus accounted memory is sampled (TotalAlloc under GOMEMLIMIT), not proved; the charge-site extractor of the plan is not built. Level A also checks, per allocating library call (25 templates incl. string.rep with long separators), accounted-memory growth >= size of the result (47 calls incl. gsub capture references, table/function replacements, format with many %s, concat chains, pack/unpack, coroutine stacks, table constructors from varargs); values kept alive in vararg frames / tables are accounted at >= 16 bytes each and such programs are killed under a limit; load() never lowers the accounted memory and a program of loads of comment-heavy sources plus live allocations is killed; load through reader functions with 1..9-byte pieces accounts what it buffers; the memory limit driven into every callback site is not catchable. One known finding: C06-CLOSE-IN-COROUTINE-CRASH (same root as C05-CLOSE-IN-COROUTINE-CRASH). Earlier findings (interception, cross-context release crash, double release, release race and stale inherited limit were found by this check and are repaired). An uncovered release is absorbed silently by the first context without memory limit (release_uncovered_is_absorbed).", "6/C06, 14/C06"),
 "C07": ("proof",
  "Lean 4 invariant + conservation theorems over all legal histories of the context stack and over all CallContext trees, on regenerated Remove/Merge/Dominates; level A/B correspondence on the real Runtime",
  "Props/C07.lean (38 theorems): smallerLimit_irrefl / smallerLimit_asymm / smallerLimit_trans / unlimited_is_top (the regenerated smallerLimit is a strict order with 0 = unlimited as greatest element), remove_le_self / remove_zero / remove_antitone / remove_remove (laws of the regenerated saturating Remove: splitting a charge or charging more never yields more remaining budget), push_hard_le_remaining, push_hard_is_exact_meet, merge_greatest_lower_bound / merge_comm / merge_idem / merge_assoc / dominates_merge_iff (the regenerated Merge is the lattice meet of limit vectors with 0 = unlimited as top, and a counter vector is dominated by the merge iff by both arguments), push_soft_le_hard, push_flags_superset, push_implied_flags, inv_initial/inv_preserved/inv_reachable (no hypothesis on amounts), used_lt_hard, "
  "child_within_parent, pop_charges_parent, pop_status, conservation(+_nested) under the explicit no-overflow hypothesis with a proved counterexample without it, due_iff, soft_limit_does_not_kill, "
  "status_truthful, call_keeps_stack_aligned, call_from_root_returns_to_root (mutual induction over every CallContext tree), foreign_panic_pops_before_repanic (threadClose and other non-termination panics: pop, then re-panic), close_handlers_then_status / close_handlers_run_under_limits / close_handler_past_limit_kills (Model.CallCtx now carries the pending to-be-closed handlers of a call: they run in the context being left, before its status is set; tied at Lua level only — no API to push a to-be-closed value from the Go harness). Model/Ctx.lean mirrors runtimecontextmanager.go operation by operation on top of the REGENERATED Generated.Resources (smallerLimit, atLimit, Remove, Merge, Dominates, flag/status constants); Model/CallCtx.lean is Thread.CallContext with the deferred pop and recover explicit. Level B compares the whole context stack (limits, used, status, due, flags of every Parent()) after every operation on a real *rt.Runtime over 36^3 exhaustive boundary histories, random histories incl. API abuse near 2^64 and random CallContext trees; level A re-checks the Spec.Quota relations on the implementation's own trace; Lua legs sweep limits around each generated program's own usage.",
  "Coroutines are outside the model: the context stack is runtime-wide, so a yield inside pcall leaves pcall's frame on top (recorded design-level defect C07-YIELD-IN-PCALL). Millis limits are not modelled.", "6/C07, 14/C07"),
 "C01": ("proof",
  "Lean 4 executable reference semantics of Lua 5.4 with machine-checked meta-theorems + whole-pipeline differential testing of golua against it",
  "Props/C01.lean (25 theorems, for all programs, stores and fuel) proves that the reference semantics Spec.Lua is a function (fuel monotonicity, determinism), that no judgement ever loses "
  "store state or trace events, and the manual's rules for truncation and expansion, assignment order, method calls, closure capture, fresh loop variables and pcall. On every run, 300 "
  "(thorough: 20,000) generated programs x 3 renderings x 2 argument tuples are run through scanner, parser, compilers and VM, and compared with the compiled Lean interpreter on event trace, "
  "results, error value and chunk:line: prefix.",
  "The compiler stages and the VM are tied to the proved semantics by correspondence only. No theorem is about golua's compiler/VM code, and Model/Jumps, Model/RegAlloc and Model/Scopes of "
  "the plan are not built. Trusted: the Go generator and renderers, the S-expression reader, the error-text classifier, and hardware floats. Not covered by the reference interpreter: "
  "coroutines, os/io, string.format, pairs order, tostring of floats and tables, # with holes, and programs with more than one impure operand per operand list.", "6/C01, 14/C01"),
 "C11": ("proof",
  "Lean 4 reference semantics in error mode (Spec.Lua) + Model/ErrRoute mirror of runtime/error.go with theorems; differential testing with injected error sites",
  "Props/C11.lean (25 theorems): error value identity, nearest handler only, the xpcall handler runs once at the raise point, the store after a catch is the store at the error and extends the "
  "store before, position prefixes in Spec.Lua. AddContext idempotence, value intactness and levels in the ErrRoute mirror of runtime/error.go, and its agreement with Spec.Lua on messages. "
  "Error sites of 21 classes at 13 position kinds, under pcall and xpcall nestings, are compared, with follow-up statements after each catch.",
  "Coroutines are part of the reference semantics (Spec.Lua threads: create/resume/yield/wrap/status/close/isyieldable); Errors inside message handlers and what a handler sees of errors in __close are excluded, as "
  "the manual leaves them open. ErrRoute is hand-written; its tie to the code is the observed prefixes only. The line of errors raised in Go metamethods is repaired (8386b5a, fb7d6c3); no finding left.", "6/C11, 14/C11"),
 "C17": ("proof",
  "Lean 4 models of lib/stringlib pack/unpack/packsize and of %q with round-trip theorems by induction over format options; spec of Lua 5.4 %q/reader/printf; level A+B correspondence through compiled Lua",
  "Props/C17.lean: unpack_pack for all format strings and values (hypotheses: pack succeeded, values stored exactly, every X followed by a sized option), packsize_eq_length, "
  "malformed_format_error(+_unpack), pack_rejects_overflow, sign_extension; q_roundtrip_string / _int / _float in full for the Lua 5.4 %q definition and an independently written Lua reader; "
  "tonumber_tostring_int; after the 13 repairs of lib/stringlib (afdc818..404ed92) the same round trips hold for golua's own %q text: q_roundtrip_string_golua and q_roundtrip_int_golua in full, "
  "q_roundtrip_float_golua_partial (the hexadecimal float text is Go's FormatFloat, a parameter checked by reading back); pack_rejects_long_string, packsize_fits. The models are tied to the code by "
  "byte-exact correspondence on ~238k cases per quick run incl. float bit patterns; four recorded findings remain, all in Go-fmt-backed flag combinations of %d/%x/%o (sign with precision 0, # with zero padding, # on zero).",
  "Trusted: Lean kernel; unicode.IsPrint and strconv.FormatFloat (parameters of Model.Quote, exported per case / checked by reading back); budgets of pack/unpack not modelled; "
  "string<->number coercions of pack arguments not modelled; float directives (%e %f %g %a) not checked.", "6/C17, 14/C17"),
 "C13": ("proof",
  "Lean 4 model of runtime/marshal.go's byte format with unmarshal(marshal c) = c by induction over nested prototypes and a totality theorem; prototype tree exported through a verif hook and compared byte-for-byte; Go-only behavioural leg; damaged dumps in a limited child process",
  "Props/C13.lean: unmarshal_marshal(+_append), load_marshal, marshal_deterministic (injectivity), marshal_unmarshal_image, unmarshal_total (reader total on every byte string, fuel never "
  "exhausted, strict consumption), unmarshal_alloc_bounded (no size field is allocated before the bytes it announces are present), unmarshal_rejects_truncated, refactor_preserves_consts (Model.Refactor: RefactorCodeConsts keeps "
  "every instruction's constant up to renumbering). Observational equivalence of f and load(string.dump(f)) (results, errors with line "
  "info), re-dump equality and determinism are checked by execution only (correspondence), on generated chunks x 7 argument tuples.",
  "Trusted: Lean kernel; the VM (the loaded function is run, not modelled); budgets not modelled; string.dump's strip argument is ignored by golua (TODO in dump.go); it is exercised in the operation sequences, whose invariants (bytes of the plain dump and error positions never change over the life of a function) "
  "hold whether or not strip is honoured. The five defects found (allocation before validation, negative upvalue count, truncated string accepted, blanket recover, wrong error variable in dump) are repaired; no finding left.", "6/C13, 14/C13"),
 "C04": ("proof",
  "Lean 4 theorems over the REGENERATED opcode field encoders (92 functions of code/opcodes.go + instructions.go, Go->Lean on every run) and over a limit-check model fed by a regenerated panic-site table + crash search (source texts, size-parameterised templates in child processes, library calls) and limit correspondence",
  "Props/C04.lean (35 obligations): encode_decode_roundtrip_type0..7/4a/4b (every getter returns exactly the written argument when it is in range, whatever the other fields: round trip and no "
  "overlap), type_prefixes_distinct, setOffset/setKIndex round trip and locality (bit by bit), kindex/index8_in_range_or_panic, jump_offset_faithful_iff, jump_offset_never_truncated, "
  "pc_never_wraps_in_compiled_function, limit_exceeded_is_error_{registers,constants,fill_table,function_length} (each for all n: ok up to the limit, designated compile error above), "
  "compileQueue_recovers_only_designated and panic_sites_accounted over the regenerated table of panic sites of ircomp/code (every site is designated, proved unreachable, or a listed "
  "size-independent invariant; a new raw panic site fails it). Model.Limits' prediction (ok / compile error) is compared with the real compiler around every threshold (255/256 locals, 254/255 "
  "items, 65536/65537 constants, 32767/32770 opcodes). Crash search per quick run: ~57k source texts (all <=2-token strings over a 102-token alphabet, sampled 3-4 tokens, token-level mutations "
  "of 40 valid programs), 127 size-parameterised templates in child processes (nesting, huge functions, recursion through metamethods, amplification under limits), ~35k library calls "
  "(142 Go functions x edge-value tuples); any Go panic, process death, hang or wrong result after an exceeded limit is a violation keyed by class + normalised panic + frame.",
  "Only the opcode field layer and the limit checks are proved. The rest of C04 (scanner, parser, compiler stages, VM, ~140 library functions) is exploration supporting the theorems, not "
  "proof; the totality theorems of the other properties' models (build_total, match_total, unmarshal_total, parse_total, decode_total ...) live in their own Props files. Fatal Go errors "
  "(stack exhaustion, OOM) cannot be expressed in the model and are only searched for; memory exhaustion in contexts without a memory limit is out of scope. No recorded defect left "
  "(the SetFinalizer fatal error is repaired in ca74c8e, string.rep of an unallocatable size in 3059a03).", "6/C04, 14/C04"),
}

NOT_YET = "machinery for this property is not built yet in this revision (see DESIGN.md section 9 build order); not claimed"

def main():
    props = [json.loads(l)["id"] for l in open(os.path.join(ROOT, "properties.jsonl"))]
    checks = []
    for pid in props:
        if pid not in CLAIMED:
            continue
        cat, tech, text, note, ref = CLAIMED[pid]
        checks.append({
            "property_id": pid,
            "quick_cmd": "./check %s --tier quick" % pid,
            "thorough_cmd": "./check %s --tier thorough" % pid,
            "evidence_file": "evidence/%s.json" % pid,
            "replay_cmd_template": "./check %s --replay {path}" % pid,
            "engine": "lean+harness",
            "level_claimed": {"category": cat, "text": text, "design_ref": ref},
            "level_note": note,
            "technique": tech,
        })
    na = [{"property_id": p, "reason": NOT_YET} for p in props if p not in CLAIMED]
    hooks = []
    try:
        hooks = [l.strip() for l in open(os.path.join(ROOT, "hooks_commits.txt")) if l.strip()]
    except OSError:
        pass
    m = {
        "version": 1,
        "setup_cmd": "./check --setup",
        "hooks": {
            "guard": "verif",
            "enable": "go build -tags verif -ldflags=-checklinkname=0 (harness module with replace github.com/arnodel/golua => /repo)",
            "baseline_off_cmd": "./tools/baseline.sh",
            "source_commits": hooks,
            "add_only": True,
        },
        "engines": [
            {"name": "lean", "path": "lean/", "serves_properties": sorted(CLAIMED), "kind_free_text": "Lean 4 models, specs, theorems (GoluaVerif) and compiled oracle (lean_exe, core only)"},
            {"name": "extract", "path": "extract/", "serves_properties": sorted(CLAIMED), "kind_free_text": "Go->Lean translator and fact extractors, run on every check"},
            {"name": "harness", "path": "harness/", "serves_properties": sorted(CLAIMED), "kind_free_text": "Go correspondence harnesses calling the real golua code in-process"},
        ],
        "checks": checks,
        "not_applicable": na,
        "notes": ("All checks: ./check Cxx --tier quick|thorough (checks may be started in parallel; VERIF_SEED is honoured; "
                  "VERIF_REPO=<tree> runs a check against another checkout and writes evidence to .build/evidence-mut). Every claimed check is a Lean 4 "
                  "proof: the theorems of lean/GoluaVerif/Props/Cxx*.lean are re-elaborated on every run against definitions REGENERATED from /repo "
                  "(extract/golean, extract/gofacts and the small fact extractors) and/or hand-written models tied to /repo by a correspondence run of the "
                  "compiled Lean definitions against the real code; a broken theorem or tie is a VIOLATION (with a failing input when the search finds "
                  "one, otherwise ending in no-failing-input-found). Trusted base: Lean 4.33 kernel (leanchecker re-checks in the thorough tier); axioms "
                  "per theorem are audited on every run and must be within propext, Classical.choice, Quot.sound (no sorry/admit/axiom/native_decide/"
                  "bv_decide anywhere: grep-checked); my translator, extractors, harnesses and line-protocol parsers (unverified; every translated function "
                  "is also exercised by correspondence); what each model abstracts is in each check's level_note and DESIGN.md 5 and 14. "
                  "known_findings.json lists the recorded defects (printed as KNOWN-FINDING, exit 0) and the repaired ones (`fixed:` lines with the "
                  "golua commit); seeded/ holds the seeded changes used to test the checks, seeded/SWEEP.md the last sweep."),
    }
    with open(os.path.join(ROOT, "MANIFEST.json"), "w") as f:
        json.dump(m, f, indent=1)
        f.write("\n")

if __name__ == "__main__":
    main()
