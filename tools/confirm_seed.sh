#!/bin/bash
# tools/confirm_seed.sh <name>...: confirm seeded changes that come with a demo.lua in a scratch worktree of /repo:
# clean tree -> demo passes; patch applies, everything builds, the packages of the pinned suite pass, demo fails.
export GOFLAGS=-mod=mod GOPROXY=off GOSUMDB=off GOTOOLCHAIN=local
WT=/tmp/confirm-wt
git -C /repo worktree remove --force $WT 2>/dev/null; git -C /repo worktree prune
git -C /repo worktree add -q --detach $WT HEAD || exit 2
PK="./scanner/... ./parsing/... ./luastrings/... ./lib/stringlib/pattern/... ./runtime/internal/luagc/... ./lib/golib/goimports/..."
cd $WT && go build -ldflags=-checklinkname=0 -o /tmp/confirm-golua-clean . || exit 2
for n in "$@"; do
  d=/verif/seeded/$n
  [ -f $d/demo.lua ] || { echo "$n: no demo.lua, skipped"; continue; }
  (cd $d && /tmp/confirm-golua-clean demo.lua >/dev/null 2>&1); c=$?
  git -C $WT checkout -q -- . ; git -C $WT apply $d/patch.diff || { echo "$n: patch does not apply"; continue; }
  go build ./... 2>/dev/null >/dev/null; b=$?
  go build -ldflags=-checklinkname=0 -o /tmp/confirm-golua-mut . ; b2=$?
  go test -vet=off -count=1 $PK >/tmp/confirm-test.log 2>&1; t=$?
  (cd $d && /tmp/confirm-golua-mut demo.lua >/dev/null 2>&1); m=$?
  echo "$n: clean-demo-exit=$c build=$b/$b2 pinned-packages-exit=$t mutated-demo-exit=$m $([ $c = 0 ] && [ $b2 = 0 ] && [ $t = 0 ] && [ $m != 0 ] && echo CONFIRMED || echo NOT-CONFIRMED)"
  git -C $WT checkout -q -- .
done
git -C /repo worktree remove --force $WT; git -C /repo worktree prune; rm -f /tmp/confirm-golua-clean /tmp/confirm-golua-mut /tmp/confirm-test.log
