#!/usr/bin/env python3
"""prints the per-property table of seeded changes (DESIGN.md 14) from seeded/*/meta.json and seeded/SWEEP.json"""
import json, glob, os, collections
root = os.path.dirname(os.path.dirname(os.path.abspath(__file__)))
sw = {r['name']: r for r in json.load(open(root + '/seeded/SWEEP.json'))['results']}
t = collections.OrderedDict()
for f in sorted(glob.glob(root + '/seeded/*/meta.json')):
    n = os.path.basename(os.path.dirname(f)); m = json.load(open(f)); p = m['property']
    e = t.setdefault(p, dict(n=0, first=0, now=0, sup=[], miss=[], other=[], after=[]))
    if 'superseded' in m:
        e['sup'].append(n); continue
    e['n'] += 1
    if str(m.get('detected_by_check', '')).startswith('yes'):
        e['first'] += 1
    r = sw.get(n)
    if r and r['caught']:
        e['now'] += 1
        by = [c for c, v in r['checks'].items() if v['exit'] == 1 and v['violations']]
        if p not in by: e['other'].append('%s by %s' % (n, '/'.join(by)))
        if not str(m.get('detected_by_check', '')).startswith('yes') and m.get('detected_after_strengthening'):
            e['after'].append(m['detected_after_strengthening'])
    else:
        e['miss'].append(n)
print('| property | seeded | caught at first run | caught by the current checks | what the misses needed / still missed |')
print('|---|---|---|---|---|')
for p, e in t.items():
    rest = '; '.join(e['after'])
    if e['other']: rest += ('; ' if rest else '') + 'caught by another property\'s check: ' + ', '.join(e['other'])
    if e['miss']: rest += ('; ' if rest else '') + '**still missed**: ' + ', '.join(e['miss'])
    if e['sup']: rest += ('; ' if rest else '') + 'superseded by a repair (not counted): ' + ', '.join(e['sup'])
    print('| %s | %d | %d | %d | %s |' % (p, e['n'], e['first'], e['now'], rest))
tot = [sum(e[k] for e in t.values()) for k in ('n', 'first', 'now')]
print('| all | %d | %d | %d | |' % tuple(tot))
