#!/bin/bash
# tools/agentdiff.sh <name>: what a builder's private copy /tmp/w-<name>/verif changed relative to /verif
W=/tmp/w-$1/verif
diff -rq /verif "$W" -x .lake -x .build -x .git -x replays -x evidence -x __pycache__ -x AuditRun -x '*.pyc' -x go.sum 2>/dev/null | sed "s|/tmp/w-$1/verif|W|g"
