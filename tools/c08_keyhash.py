#!/usr/bin/env python3
"""Which C08 violation key has a replay file name (sha1(key)[:12]) equal to the argument?
usage: c08_keyhash.py <hash12> [harness-output-file]   (the harness output gives the functions; default: run it)"""
import hashlib, itertools, subprocess, sys, tempfile, json, os
want = sys.argv[1]
MOD = "github.com/arnodel/golua/"
if len(sys.argv) > 2:
    lines = open(sys.argv[2]).read().split("\n")
else:
    d = tempfile.mkdtemp()
    lines = subprocess.run(["/verif/.build/bin/c08", "run", "quick", d], stdout=subprocess.PIPE, text=True).stdout.split("\n")
syms = sorted({l.split(" ")[1].replace(MOD, "") for l in lines if l.startswith("fn ")})
names = {l.split(" ")[1].replace(MOD, ""): bytes.fromhex(l.split(" ")[2]).decode() for l in lines if l.startswith("fn ")}
kinds = ["fs", "open", "read", "proc", "proc+fs"]
spell = ["direct", "pcall", "call", "index", "wrap", "load"]
chains = ["4,8", "1,2,4", "0c", "0m,8", "4,0t", "0,0", "8,0cm", "2,0,1"]
keys = []
for s in syms:
    for k in kinds:
        keys += ["iosafe-effect:%s:%s" % (s, k), "effect-before-gate:%s:%s" % (s, k), "strace:%s:%s" % (s.replace("/", "_"), k)]
    for F in range(16):
        keys.append("context-not-live:%s:F=%d" % (s, F))
        for sp in spell:
            keys += ["gate:%s:F=%d:%s" % (s, F, sp), "gate-spurious:%s:F=%d:%s" % (s, F, sp)]
    for c in chains:
        keys.append("nest:%s:%s" % (s, c))
    keys += ["table-missing:%s:%s" % (s, names[s]), "table-flags:%s:%s" % (s, names[s])]
try:
    facts = json.load(open("/verif/.build/facts.json"))
    nodes = facts["nodes"]
    for h in facts["holes"]:
        keys.append("static:" + "->".join(nodes[i]["name"].replace(MOD, "") for i in h["path"]))
    keys += ["gate-not-guarding:" + k for k in facts["gateFacts"]]
except OSError:
    pass
hit = [k for k in keys if hashlib.sha1(k.encode()).hexdigest()[:12] == want]
print(len(keys), "candidate keys;", "match:", hit or "none")
