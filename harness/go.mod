module verifharness

go 1.17

require github.com/arnodel/golua v0.0.0

require github.com/arnodel/strftime v0.1.6 // indirect

replace github.com/arnodel/golua => /repo
