// c19: correspondence harness for the string and table library functions.
// Drives the REAL golua functions (string.sub/byte/char/rep/reverse/upper/lower/
// len/find, table.insert/remove/move/concat/unpack/pack/sort) fetched from a
// runtime with the standard library loaded, and prints one line per call:
//
//	S  <fn> <arg>...                                  = <outcome>
//	SL rep <arg>...                                   = <outcome>      (inside a memory/cpu-limited context)
//	T  <fn> <tab> [<tab2>] n=<#t> [m=<#u>] <arg>...   = <outcome> ; <own>;<back> [; <own2>;<back2>]
//
// outcome: ok <values> | err | killed | panic | timeout.   Values as in hlib.Enc; T / U = the
// first / second table argument.  <tab> = <idx><nidx><len>/<own>/<back>: what __index and
// __newindex are (n none, f function, t table, e raising function), where # comes from
// (r raw, b __len returning #back, <k> __len returning k), the raw content of the table and of
// the backing table the handlers use, as k:v,... (- = empty).
//
// Modes: enum quick|thorough · random N · sort quick|thorough · risky <k> · replay <line>
package main

import (
	"fmt"
	"math"
	"os"
	"sort"
	"strconv"
	"strings"
	"time"

	rt "github.com/arnodel/golua/runtime"
	"verifharness/hlib"
)

const helperSrc = `
local function mk(idx, nidx, lenmode, own, back)
  local mt, any = {}, false
  if idx == "f" then mt.__index = function(_, k) return back[k] end any = true
  elseif idx == "t" then mt.__index = back any = true
  elseif idx == "e" then mt.__index = function() error("index handler") end any = true end
  if nidx == "f" then mt.__newindex = function(_, k, v) back[k] = v end any = true
  elseif nidx == "t" then mt.__newindex = back any = true
  elseif nidx == "e" then mt.__newindex = function() error("newindex handler") end any = true end
  if lenmode == "b" then mt.__len = function() return #back end any = true
  elseif type(lenmode) == "number" then mt.__len = function() return lenmode end any = true
  elseif lenmode ~= "r" then
    -- F<k>: the integral float k.0   S<k>: the numeric string "k"   X: 2.5   N: not a number
    local f, sk = lenmode:match("^F(-?%d+)$"), lenmode:match("^S(-?%d+)$")
    local res
    if f then res = tonumber(f) + 0.0 elseif sk then res = sk elseif lenmode == "X" then res = 2.5 else res = true end
    mt.__len = function() return res end any = true
  end
  if any then setmetatable(own, mt) end
  return own
end
local function lenof(t) return #t end
local cmps = {
  lt = function() return function(a, b) return a < b end end,
  gt = function() return function(a, b) return a > b end end,
  le = function() return function(a, b) return a <= b end end,
  ge = function() return function(a, b) return a >= b end end,
  ne = function() return function(a, b) return a ~= b end end,
  ["true"] = function() return function(a, b) return true end end,
  ["false"] = function() return function(a, b) return false end end,
  mod3 = function() return function(a, b) return a % 3 < b % 3 end end,
  abs = function() return function(a, b) return math.abs(a) < math.abs(b) end end,
  rand = function(seed) local s = seed return function(a, b)
      s = s * 6364136223846793005 + 1442695040888963407
      return (s >> 33) & 1 == 1 end end,
  notfn = function() return 5 end,
}
local function mkcmp(name, seed)
  local k = name:match("^err(%d+)$")
  if k then
    k = tonumber(k)
    local n = 0
    return function(a, b) n = n + 1 if n >= k then error("comparison failed") end return a < b end
  end
  return cmps[name](seed)
end
return mk, lenof, mkcmp
`

type env struct {
	r      *rt.Runtime
	mk     rt.Value
	lenof  rt.Value
	mkcmp  rt.Value
	strFn  map[string]rt.Value
	tabFn  map[string]rt.Value
	cpu    uint64
	mem    uint64
	nlines int
	conv   bool // also issue every call with its integer arguments as floats / numeric strings
}

func newEnv() *env {
	r, _ := hlib.NewRuntime(os.Stderr)
	e := &env{r: r, strFn: map[string]rt.Value{}, tabFn: map[string]rt.Value{}, cpu: 30000, mem: 64 << 20}
	c, err := hlib.Load(r, "c19helpers", helperSrc)
	if err != nil {
		fmt.Fprintln(os.Stderr, "harness: cannot compile helpers:", err)
		os.Exit(2)
	}
	class, res, msg := hlib.PCall(r, rt.FunctionValue(c))
	if class != hlib.OK || len(res) != 3 {
		fmt.Fprintln(os.Stderr, "harness: cannot run helpers:", msg)
		os.Exit(2)
	}
	e.mk, e.lenof, e.mkcmp = res[0], res[1], res[2]
	g := r.GlobalEnv()
	strT := g.Get(rt.StringValue("string")).AsTable()
	tabT := g.Get(rt.StringValue("table")).AsTable()
	for _, n := range []string{"sub", "byte", "char", "rep", "reverse", "upper", "lower", "len", "find"} {
		e.strFn[n] = strT.Get(rt.StringValue(n))
	}
	for _, n := range []string{"insert", "remove", "move", "concat", "unpack", "pack", "sort"} {
		e.tabFn[n] = tabT.Get(rt.StringValue(n))
	}
	return e
}

// callCtx runs f(args...) inside a context with hard cpu and memory limits.
func (e *env) callCtx(f rt.Value, args []rt.Value, cpu, mem uint64) (class string, res []rt.Value) {
	defer func() {
		if p := recover(); p != nil {
			class, res = hlib.PANIC, nil
			fmt.Fprintln(os.Stderr, "panic:", p)
		}
	}()
	t := e.r.MainThread()
	term := rt.NewTerminationWith(nil, 0, true)
	ctx, _ := t.CallContext(rt.RuntimeContextDef{HardLimits: rt.RuntimeResources{Cpu: cpu, Memory: mem}}, func() error {
		return rt.Call(t, f, args, term)
	})
	switch ctx.Status() {
	case rt.StatusDone:
		return hlib.OK, append([]rt.Value(nil), term.Etc()...)
	case rt.StatusError:
		return hlib.ERR, nil
	case rt.StatusKilled:
		return hlib.KILLED, nil
	}
	return "status?", nil
}

// ---- values and tables -------------------------------------------------------

type kv struct {
	k int64
	v rt.Value
}

type tabSpec struct {
	kind      string // idx, nidx, len
	own, back []kv
}

func seqKV(vals []rt.Value) []kv {
	var out []kv
	for i, v := range vals {
		if !v.IsNil() {
			out = append(out, kv{int64(i + 1), v})
		}
	}
	return out
}

func showKV(m []kv) string {
	if len(m) == 0 {
		return "-"
	}
	parts := make([]string, len(m))
	for i, p := range m {
		parts[i] = strconv.FormatInt(p.k, 10) + ":" + hlib.Enc(p.v)
	}
	return strings.Join(parts, ",")
}

func (s tabSpec) String() string { return s.kind + "/" + showKV(s.own) + "/" + showKV(s.back) }

func parseKV(s string) ([]kv, error) {
	if s == "-" {
		return nil, nil
	}
	var out []kv
	for _, p := range strings.Split(s, ",") {
		i := strings.IndexByte(p, ':')
		if i < 0 {
			return nil, fmt.Errorf("bad map entry %q", p)
		}
		k, err := strconv.ParseInt(p[:i], 10, 64)
		if err != nil {
			return nil, err
		}
		v, err := hlib.Dec(p[i+1:])
		if err != nil {
			return nil, err
		}
		out = append(out, kv{k, v})
	}
	return out, nil
}

func parseTab(s string) (tabSpec, error) {
	parts := strings.Split(s, "/")
	if len(parts) != 3 || len(parts[0]) < 3 {
		return tabSpec{}, fmt.Errorf("bad table %q", s)
	}
	own, err := parseKV(parts[1])
	if err != nil {
		return tabSpec{}, err
	}
	back, err := parseKV(parts[2])
	if err != nil {
		return tabSpec{}, err
	}
	return tabSpec{parts[0], own, back}, nil
}

type liveTab struct {
	val       rt.Value
	own, back *rt.Table
}

func (e *env) build(s tabSpec) liveTab {
	own, back := rt.NewTable(), rt.NewTable()
	for _, p := range s.own {
		e.r.SetTable(own, rt.IntValue(p.k), p.v)
	}
	for _, p := range s.back {
		e.r.SetTable(back, rt.IntValue(p.k), p.v)
	}
	var lenArg rt.Value
	if n, err := strconv.ParseInt(s.kind[2:], 10, 64); err == nil {
		lenArg = rt.IntValue(n)
	} else {
		lenArg = rt.StringValue(s.kind[2:]) // r, b, F<k>, S<k>, X, N
	}
	class, res, msg := hlib.PCall(e.r, e.mk, rt.StringValue(s.kind[0:1]), rt.StringValue(s.kind[1:2]), lenArg,
		rt.TableValue(own), rt.TableValue(back))
	if class != hlib.OK || len(res) != 1 {
		fmt.Fprintln(os.Stderr, "harness: mk failed:", msg)
		os.Exit(2)
	}
	return liveTab{res[0], own, back}
}

func (e *env) lenOf(v rt.Value) string {
	class, res, _ := hlib.PCall(e.r, e.lenof, v)
	if class != hlib.OK || len(res) != 1 {
		return "?"
	}
	if n, ok := res[0].TryInt(); ok {
		return strconv.FormatInt(n, 10)
	}
	return "?"
}

// dump renders the raw content of a table: integer keys ascending, then "n", anything else as ?.
func dump(t *rt.Table) string {
	type ent struct {
		k int64
		s string
	}
	var ints []ent
	var others []string
	// golua's next() restarts the traversal when it meets the integer key 0 next to an array part
	// (a C03 matter); take key 0 out during the traversal and read it directly.
	zero := rt.IntValue(0)
	if v0 := t.Get(zero); !v0.IsNil() {
		ints = append(ints, ent{0, "0:" + hlib.Enc(v0)})
		t.Set(zero, rt.NilValue)
		defer t.Set(zero, v0)
	}
	k := rt.NilValue
	for steps := 0; ; steps++ {
		nk, v, ok := t.Next(k)
		if !ok || nk.IsNil() {
			break
		}
		if steps > 50000000 {
			others = append(others, "?traversal-does-not-end")
			break
		}
		k = nk
		if v.IsNil() {
			continue
		}
		if n, isInt := nk.TryInt(); isInt {
			ints = append(ints, ent{n, strconv.FormatInt(n, 10) + ":" + hlib.Enc(v)})
		} else if s, isStr := nk.TryString(); isStr && s == "n" {
			others = append(others, "n:"+hlib.Enc(v))
		} else {
			others = append(others, "?"+hlib.Enc(nk)+":"+hlib.Enc(v))
		}
	}
	sort.Slice(ints, func(i, j int) bool { return ints[i].k < ints[j].k })
	sort.Strings(others)
	var parts []string
	for _, x := range ints {
		parts = append(parts, x.s)
	}
	parts = append(parts, others...)
	if len(parts) == 0 {
		return "-"
	}
	return strings.Join(parts, ",")
}

func (lt liveTab) dump() string { return dump(lt.own) + ";" + dump(lt.back) }

// ---- running one call ----------------------------------------------------------

var watchdogLine string

func startWatchdog(d time.Duration) {
	go func() {
		last, since := "", time.Now()
		for {
			time.Sleep(200 * time.Millisecond)
			cur := watchdogLine
			if cur != last {
				last, since = cur, time.Now()
				continue
			}
			if cur != "" && time.Since(since) > d {
				hlib.Out.WriteString(cur + " = timeout\n")
				hlib.Out.Flush()
				os.Exit(0)
			}
		}
	}()
}

func (e *env) decArg(tok string, t1, t2 *liveTab) (rt.Value, error) {
	switch tok {
	case "T":
		if t1 == nil {
			return rt.NilValue, fmt.Errorf("T without table")
		}
		return t1.val, nil
	case "U":
		if t2 == nil {
			return rt.NilValue, fmt.Errorf("U without table")
		}
		return t2.val, nil
	case "otable":
		return rt.TableValue(rt.NewTable()), nil
	case "ofunction":
		return e.lenof, nil
	}
	return hlib.Dec(tok)
}

func (e *env) encRes(v rt.Value, t1, t2 *liveTab) string {
	if t1 != nil && v == t1.val {
		return "T"
	}
	if t2 != nil && v == t2.val {
		return "U"
	}
	return hlib.Enc(v)
}

// convVariants: the same call with one integer argument given as an integral float, as a decimal string
// (both must behave like the integer: luaL_checkinteger / lua_tointegerx) and as a non-integral float (must
// raise "number has no integer representation").  math.maxinteger as a float is 2^63, which has no integer
// representation either; math.mininteger is exactly representable.
func convVariants(toks []string, from int) [][]string {
	var out [][]string
	for k := from; k < len(toks); k++ {
		t := toks[k]
		if len(t) < 2 || t[0] != 'i' {
			continue
		}
		n, err := strconv.ParseInt(t[1:], 10, 64)
		if err != nil {
			continue
		}
		with := func(v string) {
			a := append([]string{}, toks...)
			a[k] = v
			out = append(out, a)
		}
		f := float64(n)
		if n == math.MaxInt64 || n == math.MinInt64 || (n > -(1<<53) && n < 1<<53) {
			with(fmt.Sprintf("f%016x", math.Float64bits(f)))
		}
		if n > -(1<<53) && n < 1<<53 {
			with(stok(strconv.FormatInt(n, 10)))
			with(fmt.Sprintf("f%016x", math.Float64bits(f+0.5)))
		}
	}
	return out
}

// runS: string function call; limited = inside a context with limits.
func (e *env) runS(tag, fn string, toks []string) {
	e.runS1(tag, fn, toks)
	if e.conv {
		for _, v := range convVariants(toks, 1) {
			e.runS1(tag, fn, v)
		}
	}
}

func (e *env) runS1(tag, fn string, toks []string) {
	in := tag + " " + fn
	if len(toks) > 0 {
		in += " " + strings.Join(toks, " ")
	}
	watchdogLine = in
	args := make([]rt.Value, len(toks))
	for i, t := range toks {
		v, err := e.decArg(t, nil, nil)
		if err != nil {
			fmt.Fprintln(os.Stderr, "harness: bad token", t, err)
			os.Exit(2)
		}
		args[i] = v
	}
	var class string
	var res []rt.Value
	if tag == "SL" {
		class, res = e.callCtx(e.strFn[fn], args, 50000000, 32<<20)
	} else {
		class, res, _ = hlib.PCall(e.r, e.strFn[fn], args...)
	}
	out := class
	if class == hlib.OK {
		for _, v := range res {
			out += " " + hlib.Enc(v)
		}
	}
	hlib.Emit(in, "=", out)
	e.nlines++
}

// runT: table function call.  tabs: 0, 1 or 2 table descriptions (nil = "-").
func (e *env) runT(fn string, s1, s2 *tabSpec, toks []string) {
	e.runT1(fn, s1, s2, toks)
	if e.conv && fn != "sort" && fn != "pack" {
		last := len(toks)
		if fn == "insert" && last == 3 {
			last = 2 // the value being inserted is not a position
		}
		for _, v := range convVariants(toks[:last], 1) {
			e.runT1(fn, s1, s2, append(v, toks[last:]...))
		}
	}
}

func (e *env) runT1(fn string, s1, s2 *tabSpec, toks []string) {
	var t1, t2 *liveTab
	in := "T " + fn
	if s1 != nil {
		l := e.build(*s1)
		t1 = &l
		in += " " + s1.String()
	} else {
		in += " -"
	}
	if s2 != nil {
		l := e.build(*s2)
		t2 = &l
		in += " " + s2.String()
	}
	if t1 != nil {
		in += " n=" + e.lenOf(t1.val)
	}
	if t2 != nil {
		in += " m=" + e.lenOf(t2.val)
	}
	args := make([]rt.Value, 0, len(toks))
	for _, t := range toks {
		if strings.HasPrefix(t, "cmp:") {
			name := t[4:]
			class, res, msg := hlib.PCall(e.r, e.mkcmp, rt.StringValue(name), rt.IntValue(int64(hlib.Seed()^fnv(in))))
			if class != hlib.OK || len(res) != 1 {
				fmt.Fprintln(os.Stderr, "harness: mkcmp failed:", name, msg)
				os.Exit(2)
			}
			args = append(args, res[0])
			continue
		}
		v, err := e.decArg(t, t1, t2)
		if err != nil {
			fmt.Fprintln(os.Stderr, "harness: bad token", t, err)
			os.Exit(2)
		}
		args = append(args, v)
	}
	if len(toks) > 0 {
		in += " " + strings.Join(toks, " ")
	}
	watchdogLine = in
	cpu := e.cpu
	if fn == "sort" {
		cpu = 200000000
	}
	class, res := e.callCtx(e.tabFn[fn], args, cpu, e.mem)
	out := class
	if class == hlib.OK {
		for _, v := range res {
			if fn == "pack" {
				if tb, ok := v.TryTable(); ok {
					out += " P ; " + dump(tb)
					continue
				}
			}
			out += " " + e.encRes(v, t1, t2)
		}
	}
	mutating := fn == "insert" || fn == "remove" || fn == "move" || fn == "sort"
	if mutating && (class == hlib.OK || fn == "sort") {
		if t1 != nil {
			out += " ; " + t1.dump()
		}
		if t2 != nil {
			out += " ; " + t2.dump()
		}
	}
	hlib.Emit(in, "=", out)
	e.nlines++
}

// ---- generators ------------------------------------------------------------------

var symbols = []string{"a", "Z", "\x00", "\xff", "\xc3\xa9"}

func stringsUpTo(n int) []string {
	out := []string{""}
	prev := []string{""}
	for l := 1; l <= n; l++ {
		var cur []string
		for _, p := range prev {
			for _, s := range symbols {
				cur = append(cur, p+s)
			}
		}
		out = append(out, cur...)
		prev = cur
	}
	return out
}

// positions {minint, -len-1 .. len+1, maxint}
func positions(l int) []int64 {
	out := []int64{math.MinInt64}
	for p := -l - 1; p <= l+1; p++ {
		out = append(out, int64(p))
	}
	return append(out, math.MaxInt64)
}

func itok(n int64) string  { return "i" + strconv.FormatInt(n, 10) }
func stok(s string) string { return "s" + hlib.Hex(s) }

var badArgs = []string{"n", "t", "i5", "f4000000000000000", "f4004000000000000", "s32", "s78", "s", "otable", "ofunction"}

func (e *env) enumStrings(thorough bool) {
	all := stringsUpTo(3)
	pats := stringsUpTo(2)
	if thorough {
		pats = all
	}
	for idx, s := range all {
		S := stok(s)
		pos := positions(len(s))
		// the shortest strings: every call again with each position as a float / numeric string
		e.conv = idx < 11
		for _, i := range pos {
			e.runS("S", "sub", []string{S, itok(i)})
			e.runS("S", "byte", []string{S, itok(i)})
			for _, j := range pos {
				e.runS("S", "sub", []string{S, itok(i), itok(j)})
				e.runS("S", "byte", []string{S, itok(i), itok(j)})
			}
		}
		e.runS("S", "byte", []string{S})
		for _, fn := range []string{"upper", "lower", "reverse", "len"} {
			e.runS("S", fn, []string{S})
		}
		e.conv = idx < 6
		for _, p := range pats {
			P := stok(p)
			e.runS("S", "find", []string{S, P})
			for _, i := range pos {
				e.runS("S", "find", []string{S, P, itok(i), "t"})
				if len(p) <= 2 {
					e.runS("S", "find", []string{S, P, itok(i)})
				}
			}
		}
	}
	e.conv = false
	for b := 0; b < 256; b++ {
		S := stok(string([]byte{byte(b)}))
		for _, fn := range []string{"upper", "lower", "reverse", "len"} {
			e.runS("S", fn, []string{S})
		}
	}
	// rep
	e.conv = true
	for _, s := range stringsUpTo(2) {
		for _, n := range []int64{math.MinInt64, -2, -1, 0, 1, 2, 3, 5} {
			e.runS("S", "rep", []string{stok(s), itok(n)})
			for _, sep := range []string{"", ",", "\xc3\xa9\x00"} {
				e.runS("S", "rep", []string{stok(s), itok(n), stok(sep)})
			}
		}
	}
	// char
	codes := []int64{-1, 0, 65, 97, 255, 256, math.MinInt64, math.MaxInt64}
	e.runS("S", "char", nil)
	for _, a := range codes {
		e.runS("S", "char", []string{itok(a)})
		for _, b := range codes {
			e.runS("S", "char", []string{itok(a), itok(b)})
			for _, c := range codes {
				e.runS("S", "char", []string{itok(a), itok(b), itok(c)})
			}
		}
	}
	e.conv = false
	for _, t := range badArgs {
		e.runS("S", "char", []string{"i65", t})
	}
	// arity and argument types: each argument position replaced by each edge value, and missing arguments
	valid := map[string][]string{
		"sub": {"s61625a", "i2", "i3"}, "byte": {"s61625a", "i1", "i2"}, "rep": {"s6162", "i2", "s2c"},
		"reverse": {"s6162"}, "upper": {"s6162"}, "lower": {"s4142"}, "len": {"s6162"},
		"find": {"s61626162", "s62", "i3", "t"},
	}
	for _, fn := range []string{"sub", "byte", "rep", "reverse", "upper", "lower", "len", "find"} {
		v := valid[fn]
		for k := 0; k <= len(v); k++ {
			e.runS("S", fn, v[:k])
		}
		e.runS("S", fn, append(append([]string{}, v...), "i7"))
		for k := range v {
			for _, b := range badArgs {
				a := append([]string{}, v...)
				a[k] = b
				e.runS("S", fn, a)
			}
		}
	}
}

func ivals(ns ...int64) []rt.Value {
	out := make([]rt.Value, len(ns))
	for i, n := range ns {
		out[i] = rt.IntValue(n)
	}
	return out
}

func svals(ss ...string) []rt.Value {
	out := make([]rt.Value, len(ss))
	for i, s := range ss {
		out[i] = rt.StringValue(s)
	}
	return out
}

// configs: the table shapes a sequence is presented in.
func configs(seq []rt.Value, level int) []tabSpec {
	all := seqKV(seq)
	n := len(seq)
	h := n / 2
	out := []tabSpec{
		{"nnr", all, nil},
		{"ffb", nil, all},
		{"tnr", seqKV(seq[:h]), all},
	}
	if level >= 1 {
		out = append(out,
			tabSpec{"ttb", nil, all},
			tabSpec{"feb", nil, all},
			tabSpec{"ff" + strconv.Itoa(n+1), nil, all},
			// __len results that luaL_len has to convert: an integral float, a numeric string
			tabSpec{"ffF" + strconv.Itoa(n), nil, all},
			tabSpec{"ttS" + strconv.Itoa(n), nil, all},
		)
	}
	if level >= 2 {
		out = append(out,
			tabSpec{"ttr", nil, all},
			tabSpec{"fnr", seqKV(seq[:h]), all},
			tabSpec{"efb", nil, all},
			tabSpec{"tfb", nil, all},
			tabSpec{"nnF" + strconv.Itoa(n), all, nil},
			tabSpec{"ffS" + strconv.Itoa(n), nil, all},
			// … and those it must refuse: a non-integral float, a non-number
			tabSpec{"ffX", nil, all},
			tabSpec{"nnN", all, nil},
		)
		if n >= 1 {
			out = append(out,
				tabSpec{"ff" + strconv.Itoa(n-1), nil, all},
				tabSpec{"ffb", []kv{{1, rt.IntValue(99)}}, all},
				tabSpec{"ftb", []kv{{int64(n), rt.IntValue(98)}}, all},
			)
		}
	}
	return out
}

func (e *env) enumTables(thorough bool) {
	base := [][]rt.Value{nil}
	for n := 1; n <= 4; n++ {
		base = append(base, ivals(10, 20, 30, 40)[:n])
	}
	extra := [][]rt.Value{svals("a", "b", "c"), ivals(7, 7, 7), {rt.IntValue(1), rt.StringValue("x"), rt.IntValue(3)},
		{rt.IntValue(1), rt.BoolValue(true), rt.IntValue(3)}, {rt.IntValue(1), rt.NilValue, rt.IntValue(3)}}
	seqs := append(append([][]rt.Value{}, base...), extra...)
	for si, seq := range seqs {
		n := len(seq)
		pos := positions(n)
		lvl := 2
		for ci, c := range configs(seq, lvl) {
			c := c
			// short sequences, plain table and function proxy: every call again with each position as a float /
			// numeric string / non-integral float
			e.conv = (si == 1 || si == 3) && ci < 2
			// insert
			for _, v := range []string{"i99", "n"} {
				e.runT("insert", &c, nil, []string{"T", v})
				for _, p := range pos {
					e.runT("insert", &c, nil, []string{"T", itok(p), v})
				}
			}
			e.runT("insert", &c, nil, []string{"T"})
			e.runT("insert", &c, nil, []string{"T", "i1", "i2", "i3"})
			e.runT("insert", &c, nil, []string{"T", "i1", "i2", "i3", "i4"})
			// remove
			e.runT("remove", &c, nil, []string{"T"})
			for _, p := range pos {
				e.runT("remove", &c, nil, []string{"T", itok(p)})
			}
			// concat
			e.runT("concat", &c, nil, []string{"T"})
			for _, sep := range []string{"s", "s2c20"} {
				e.runT("concat", &c, nil, []string{"T", sep})
				for _, i := range pos {
					e.runT("concat", &c, nil, []string{"T", sep, itok(i)})
					for _, j := range pos {
						e.runT("concat", &c, nil, []string{"T", sep, itok(i), itok(j)})
					}
				}
			}
			// unpack
			e.runT("unpack", &c, nil, []string{"T"})
			for _, i := range pos {
				e.runT("unpack", &c, nil, []string{"T", itok(i)})
				e.runT("unpack", &c, nil, []string{"T", itok(i), "n"})
				for _, j := range pos {
					e.runT("unpack", &c, nil, []string{"T", itok(i), itok(j)})
				}
			}
		}
		e.conv = false
		if si == 3 {
			e.conv = true
			for _, c := range configs(seq, 0)[:2] {
				c := c
				for _, f := range []int64{0, 1, 2} {
					for _, en := range []int64{1, 3} {
						for _, t := range []int64{0, 2, 4} {
							e.runT("move", &c, nil, []string{"T", itok(f), itok(en), itok(t)})
						}
					}
				}
			}
			e.conv = false
		}
		// move: the full cube for base sequences; a thinner one for the extra sequences
		mlvl := 0
		if si < len(base) {
			mlvl = 1
		}
		if thorough {
			mlvl = 2
		}
		if si >= len(base) && !thorough {
			if si > len(base) {
				continue
			}
		}
		for _, c := range configs(seq, mlvl) {
			c := c
			if strings.ContainsAny(c.kind[2:3], "FSXN") {
				continue // move never asks for the length: these shapes add nothing here
			}
			for _, f := range pos {
				for _, en := range pos {
					for _, t := range pos {
						e.runT("move", &c, nil, []string{"T", itok(f), itok(en), itok(t)})
					}
				}
			}
			e.runT("move", &c, nil, []string{"T", "i1", "i2", "i2", "T"})
			e.runT("move", &c, nil, []string{"T", "i2", "i3", "i1", "T"})
			// two tables
			small := []int64{-1, 0, 1, 2, int64(n), int64(n) + 1, math.MaxInt64, math.MinInt64}
			for _, d := range []tabSpec{{"nnr", seqKV(ivals(1, 2)), nil}, {"ffb", nil, seqKV(ivals(1, 2, 3))}, {"feb", nil, nil}} {
				d := d
				for _, f := range small {
					for _, en := range small {
						for _, t := range small {
							e.runT("move", &c, &d, []string{"T", itok(f), itok(en), itok(t), "U"})
						}
					}
				}
			}
		}
	}
	// keys at the ends of the integer range: the loops must stop at maxinteger / mininteger without wrapping
	const mx, mn = math.MaxInt64, math.MinInt64
	far := []kv{{mn, rt.StringValue("a")}, {mn + 1, rt.StringValue("b")}, {-1, rt.StringValue("m")}, {0, rt.StringValue("o")},
		{1, rt.StringValue("p")}, {2, rt.StringValue("q")}, {mx - 1, rt.StringValue("y")}, {mx, rt.StringValue("z")}}
	for _, c := range []tabSpec{{"nnr", far, nil}, {"ffb", nil, far}, {"tnr", far[4:6], far}} {
		c := c
		for _, r := range [][2]int64{{mx - 1, mx}, {mx, mx}, {mx - 2, mx}, {mn, mn + 1}, {mn, mn}, {mn, mn + 2}, {-1, 2}, {0, 2}, {mx, mn}, {mx, mx - 1}} {
			e.runT("concat", &c, nil, []string{"T", "s2c", itok(r[0]), itok(r[1])})
			e.runT("unpack", &c, nil, []string{"T", itok(r[0]), itok(r[1])})
		}
		for _, m := range [][3]int64{{mx - 1, mx, 1}, {mx - 1, mx, mx - 1}, {1, 2, mx - 1}, {1, 2, mx}, {mn, mn + 1, 1}, {mn, mn + 1, mn},
			{1, 2, mn}, {mx - 1, mx, mn}, {mn, mn + 1, mx - 1}, {mx - 1, mx, mx - 2}, {mx - 2, mx - 1, mx - 1}, {mn + 1, mn + 2, mn}, {mn, mn + 1, mn + 1},
			{-1, 2, 0}, {-1, 2, -2}, {0, mx, 1}, {1, mx, 2}, {mn, -1, 1}, {mn, 0, mn}} {
			e.runT("move", &c, nil, []string{"T", itok(m[0]), itok(m[1]), itok(m[2])})
			d := tabSpec{"nnr", nil, nil}
			e.runT("move", &c, &d, []string{"T", itok(m[0]), itok(m[1]), itok(m[2]), "U"})
		}
	}
	// unpack: the number-of-results limit
	long := make([]rt.Value, 300)
	for i := range long {
		long[i] = rt.IntValue(int64(i + 1))
	}
	lt := tabSpec{"nnr", seqKV(long), nil}
	e.runT("unpack", &lt, nil, []string{"T"})
	for _, r := range [][2]int64{{1, 255}, {1, 256}, {1, 257}, {2, 257}, {1, 300}, {-5, 1000}, {1, 4096}, {1, 100000}, {1, 1 << 31}, {1, 1<<31 - 1}, {0, 1<<31 - 2},
		{math.MinInt64, math.MaxInt64}, {math.MinInt64, 0}, {-1, math.MaxInt64}, {math.MaxInt64 - 300, math.MaxInt64}, {math.MaxInt64 - 255, math.MaxInt64},
		{math.MaxInt64 - 1, math.MaxInt64}, {math.MaxInt64, math.MaxInt64}, {math.MinInt64, math.MinInt64}, {math.MinInt64, math.MinInt64 + 2}} {
		e.runT("unpack", &lt, nil, []string{"T", itok(r[0]), itok(r[1])})
	}
	// pack
	e.runT("pack", nil, nil, nil)
	e.runT("pack", nil, nil, []string{"n"})
	e.runT("pack", nil, nil, []string{"i1", "n", "s61"})
	e.runT("pack", nil, nil, []string{"n", "n", "n"})
	e.runT("pack", nil, nil, []string{"i1", "i2", "i3", "i4", "i5", "n"})
	// argument types and arity for the table functions
	c := tabSpec{"nnr", seqKV(ivals(10, 20, 30)), nil}
	valid := map[string][]string{
		"insert": {"T", "i2", "i99"}, "remove": {"T", "i2"}, "move": {"T", "i1", "i2", "i2"},
		"concat": {"T", "s2c", "i1", "i3"}, "unpack": {"T", "i1", "i3"}, "sort": {"T"},
	}
	for _, fn := range []string{"insert", "remove", "move", "concat", "unpack"} {
		v := valid[fn]
		for k := 0; k < len(v); k++ {
			e.runT(fn, &c, nil, v[:k])
		}
		for k := range v {
			for _, b := range badArgs {
				a := append([]string{}, v...)
				a[k] = b
				e.runT(fn, &c, nil, a)
			}
		}
	}
}

// ---- random -----------------------------------------------------------------------

func randBytes(rng *hlib.Rng, maxLen int) string {
	n := rng.Below(maxLen + 1)
	b := make([]byte, n)
	for i := range b {
		switch rng.Below(6) {
		case 0:
			b[i] = byte(rng.Below(256))
		case 1:
			b[i] = byte('A' + rng.Below(26))
		case 2:
			b[i] = byte(0x80 + rng.Below(128))
		default:
			b[i] = byte('a' + rng.Below(4))
		}
	}
	return string(b)
}

func randPos(rng *hlib.Rng, l int) int64 {
	switch rng.Below(12) {
	case 0:
		return math.MinInt64
	case 1:
		return math.MaxInt64
	case 2:
		return int64(rng.Next())
	case 3:
		return math.MinInt64 + int64(rng.Below(4))
	case 4:
		return math.MaxInt64 - int64(rng.Below(4))
	}
	return int64(rng.Below(2*l+7)) - int64(l) - 3
}

func (e *env) random(n int) {
	rng := hlib.NewRng(hlib.Seed())
	for k := 0; k < n; k++ {
		s := randBytes(rng, 40)
		S := stok(s)
		switch rng.Below(14) {
		case 0:
			e.runS("S", "sub", []string{S, itok(randPos(rng, len(s))), itok(randPos(rng, len(s)))})
		case 1:
			e.runS("S", "byte", []string{S, itok(randPos(rng, len(s))), itok(randPos(rng, len(s)))})
		case 2:
			var p string
			if len(s) > 0 && rng.Chance(70) {
				a := rng.Below(len(s))
				b := a + rng.Below(minInt(4, len(s)-a)+1)
				p = s[a:b]
			} else {
				p = randBytes(rng, 3)
			}
			e.runS("S", "find", []string{S, stok(p), itok(randPos(rng, len(s))), "t"})
		case 3:
			e.runS("S", []string{"upper", "lower", "reverse", "len"}[rng.Below(4)], []string{S})
		case 4:
			e.runS("S", "rep", []string{stok(randBytes(rng, 5)), itok(int64(rng.Below(40)) - 5), stok(randBytes(rng, 3))})
		case 5:
			m := rng.Below(6)
			var a []string
			for i := 0; i < m; i++ {
				a = append(a, itok(int64(rng.Below(300))-20))
			}
			e.runS("S", "char", a)
		default:
			// tables: a random sequence of length up to 12 in a random shape
			m := rng.Below(13)
			seq := make([]rt.Value, m)
			for i := range seq {
				if rng.Chance(15) {
					seq[i] = rt.StringValue(string(rune('a' + rng.Below(5))))
				} else {
					seq[i] = rt.IntValue(int64(rng.Below(50)))
				}
			}
			cs := configs(seq, 2)
			c := cs[rng.Below(len(cs))]
			p := func() string { return itok(randPos(rng, m)) }
			switch rng.Below(6) {
			case 0:
				e.runT("insert", &c, nil, []string{"T", p(), "i99"})
			case 1:
				e.runT("remove", &c, nil, []string{"T", p()})
			case 2:
				e.runT("move", &c, nil, []string{"T", p(), p(), p()})
			case 3:
				e.runT("concat", &c, nil, []string{"T", stok(randBytes(rng, 2)), p(), p()})
			case 4:
				e.runT("unpack", &c, nil, []string{"T", p(), p()})
			case 5:
				d := configs(ivals(1, 2, 3), 1)[rng.Below(6)]
				e.runT("move", &c, &d, []string{"T", p(), p(), p(), "U"})
			}
		}
	}
}

func fnv(s string) uint64 {
	h := uint64(14695981039346656037)
	for i := 0; i < len(s); i++ {
		h ^= uint64(s[i])
		h *= 1099511628211
	}
	return h
}

func minInt(a, b int) int {
	if a < b {
		return a
	}
	return b
}

// ---- sort ----------------------------------------------------------------------------

var cmpNames = []string{"lt", "gt", "le", "ge", "ne", "true", "false", "mod3", "abs", "rand", "err1", "err3", "err20", "notfn"}

func (e *env) sortOne(c tabSpec, cmp string) {
	c2 := c
	if cmp == "" {
		e.runT("sort", &c2, nil, []string{"T"})
	} else {
		e.runT("sort", &c2, nil, []string{"T", "cmp:" + cmp})
	}
}

func (e *env) sorts(thorough bool) {
	rng := hlib.NewRng(hlib.Seed() ^ 0x5019)
	// exhaustive: every sequence over {-2, 1, 3} (thorough: four values) up to length 5 (6), every comparator
	vals := []int64{-2, 1, 3}
	maxLen := 5
	if thorough {
		vals = []int64{-2, 1, 3, 4}
		maxLen = 6
	}
	var seqs [][]int64
	var gen func(cur []int64)
	gen = func(cur []int64) {
		seqs = append(seqs, append([]int64{}, cur...))
		if len(cur) == maxLen {
			return
		}
		for _, v := range vals {
			gen(append(cur, v))
		}
	}
	gen(nil)
	for _, s := range seqs {
		seq := ivals(s...)
		for ci, c := range configs(seq, 1) {
			if ci >= 3 && len(s) > 3 && !thorough {
				continue
			}
			e.sortOne(c, "")
			for _, cmp := range cmpNames {
				e.sortOne(c, cmp)
			}
		}
	}
	// values on which a sloppy `<` differs from Lua's: integers beyond 2^53, integers next to floats, signed zeros,
	// infinities, NaN; strings ordered bytewise (bytes >= 0x80, embedded zeros, prefixes, "10" vs "9", "Z" vs "a");
	// numbers mixed with strings (must raise).  Every ordered pair, then shuffled longer sequences.
	p53 := int64(1) << 53
	nums := []rt.Value{rt.IntValue(0), rt.IntValue(1), rt.IntValue(2), rt.IntValue(-1), rt.IntValue(p53 - 1), rt.IntValue(p53),
		rt.IntValue(p53 + 1), rt.IntValue(math.MaxInt64 - 1), rt.IntValue(math.MaxInt64), rt.IntValue(math.MinInt64), rt.IntValue(math.MinInt64 + 1),
		rt.FloatValue(math.Copysign(0, -1)), rt.FloatValue(0), rt.FloatValue(1), rt.FloatValue(1.5), rt.FloatValue(0.5), rt.FloatValue(-1),
		rt.FloatValue(float64(p53)), rt.FloatValue(float64(p53) + 2), rt.FloatValue(math.Ldexp(1, 63)), rt.FloatValue(-math.Ldexp(1, 63)),
		rt.FloatValue(math.Inf(1)), rt.FloatValue(math.Inf(-1))}
	strs := svals("", "a", "Z", "A", "a\x00", "a\x00b", "ab", "aa", "b", "\xff", "\x80", "\x7f", "10", "9", "\xc3\xa9")
	odd := []rt.Value{rt.FloatValue(math.NaN()), rt.BoolValue(true)}
	pool := append(append(append([]rt.Value{}, nums...), strs...), odd...)
	pairCmps := []string{"", "lt", "gt", "le", "ge", "ne"}
	for i, a := range pool {
		for j, b := range pool {
			c := tabSpec{"nnr", seqKV([]rt.Value{a, b}), nil}
			if (i+j)%4 == 1 {
				c = tabSpec{"ffb", nil, seqKV([]rt.Value{a, b})}
			}
			for _, cmp := range pairCmps {
				e.sortOne(c, cmp)
			}
		}
	}
	shuffles := 8
	if thorough {
		shuffles = 60
	}
	withNaN := append(append([]rt.Value{}, nums...), odd[0])
	mixed := append(append([]rt.Value{}, nums[:6]...), strs[:6]...)
	for pi, pl := range [][]rt.Value{nums, strs, withNaN, mixed} {
		for r := 0; r < shuffles; r++ {
			seq := append([]rt.Value{}, pl...)
			for i := len(seq) - 1; i > 0; i-- {
				j := rng.Below(i + 1)
				seq[i], seq[j] = seq[j], seq[i]
			}
			if r%2 == 1 {
				seq = seq[:3+rng.Below(len(seq)-3)]
			}
			cs := configs(seq, 1)
			c := cs[(pi+r)%len(cs)]
			e.sortOne(c, "")
			for _, cmp := range cmpNames {
				if cmp == "mod3" || cmp == "abs" {
					continue
				}
				e.sortOne(c, cmp)
			}
		}
	}
	// strings, mixed and invalid elements with the default comparison
	e.sortOne(tabSpec{"nnr", seqKV(svals("b", "a", "", "ab", "a\x00", "\xff", "Z")), nil}, "")
	e.sortOne(tabSpec{"ffb", nil, seqKV(svals("b", "a", "", "ab", "a\x00", "\xff", "Z"))}, "")
	e.sortOne(tabSpec{"nnr", seqKV([]rt.Value{rt.IntValue(2), rt.StringValue("a"), rt.IntValue(1)}), nil}, "")
	e.sortOne(tabSpec{"nnr", seqKV([]rt.Value{rt.IntValue(2), rt.BoolValue(true), rt.IntValue(1)}), nil}, "")
	e.sortOne(tabSpec{"nnr", seqKV([]rt.Value{rt.IntValue(2), rt.BoolValue(true)}), nil}, "cmp:lt"[4:])
	// structured inputs at the lengths where Go's sort.Sort (pdqsort) changes strategy — insertion sort up to 12,
	// median-of-3 below 50 and ninther from 50, reverseRange on descending input, partialInsertionSort on
	// nearly sorted input, partitionEqual on many duplicates, breakPatterns after an unbalanced partition and the
	// heapsort fallback (reached by the inconsistent comparisons ne / true / le / ge from about 50 elements) —
	// each with every comparison, so that a defect showing only through one strategy's Less/Swap pattern is met.
	// (Which strategy each input reaches was measured once on an instrumented copy of zsortinterface.go.)
	type pat struct {
		name string
		f    func(i, n int) int64
	}
	x := uint64(88172645463325252) ^ hlib.Seed()
	pats := []pat{
		{"asc", func(i, n int) int64 { return int64(i) }},
		{"desc", func(i, n int) int64 { return int64(n - i) }},
		{"equal", func(i, n int) int64 { return 7 }},
		{"few", func(i, n int) int64 { return int64((i*7)%3) - 1 }},
		{"organ", func(i, n int) int64 {
			if i < n/2 {
				return int64(i)
			}
			return int64(n - i)
		}},
		{"saw", func(i, n int) int64 { return int64(i % 5) }},
		{"ascswap", func(i, n int) int64 {
			if i == n/3 {
				return int64(n)
			}
			return int64(i)
		}},
		{"push", func(i, n int) int64 {
			if i == n-1 {
				return -1
			}
			return int64(i)
		}},
		{"rand", func(i, n int) int64 {
			x ^= x << 13
			x ^= x >> 7
			x ^= x << 17
			return int64(x%uint64(2*n)) - int64(n)
		}},
	}
	slens := []int{11, 12, 13, 16, 17, 24, 31, 32, 33, 49, 50, 51, 64, 100, 128, 200, 256, 300}
	if thorough {
		slens = append(slens, 14, 20, 48, 52, 63, 65, 96, 127, 129, 255, 257, 512, 1000)
	}
	for li, n := range slens {
		for pi, p := range pats {
			seq := make([]rt.Value, n)
			for i := range seq {
				seq[i] = rt.IntValue(p.f(i, n))
			}
			cs := configs(seq, 1)
			c := cs[0]
			if (li+pi)%3 == 1 {
				c = cs[1]
			} else if thorough && (li+pi)%3 == 2 {
				c = cs[3]
			}
			e.sortOne(c, "")
			for _, cmp := range cmpNames {
				e.sortOne(c, cmp)
			}
		}
	}
	// random permutations and random multisets, lengths up to 40, and long ones (> 100 elements)
	lens := []int{7, 8, 9, 11, 12, 13, 16, 17, 23, 31, 32, 33, 40, 64, 101, 150, 257, 300}
	reps := 3
	if thorough {
		lens = append(lens, 500, 1000, 1025, 4000)
		reps = 12
	}
	for _, n := range lens {
		for r := 0; r < reps; r++ {
			seq := make([]rt.Value, n)
			mode := rng.Below(4)
			for i := range seq {
				switch mode {
				case 0: // permutation
					seq[i] = rt.IntValue(int64(i))
				case 1: // few distinct values
					seq[i] = rt.IntValue(int64(rng.Below(4)) - 1)
				case 2: // already sorted / reversed with noise
					seq[i] = rt.IntValue(int64(n - i + rng.Below(3)))
				default:
					seq[i] = rt.IntValue(int64(rng.Below(2*n)) - int64(n))
				}
			}
			if mode == 0 {
				for i := n - 1; i > 0; i-- {
					j := rng.Below(i + 1)
					seq[i], seq[j] = seq[j], seq[i]
				}
			}
			cs := configs(seq, 1)
			c := cs[rng.Below(len(cs))]
			if n > 64 {
				c = cs[rng.Below(2)]
			}
			e.sortOne(c, "")
			for _, cmp := range cmpNames {
				e.sortOne(c, cmp)
			}
		}
	}
}

// ---- risky: calls that may exhaust memory or not terminate; one per process ----------------

var riskyCases = [][]string{
	{"SL", "rep", "s78", "i10000000000"},
	{"SL", "rep", "s616263", "i10000000000", "s2c"},
	{"SL", "rep", "s616263", "i9223372036854775807"},
	{"SL", "rep", "s616263", "i4611686018427387904"},
	{"SL", "rep", "s616263", "i3074457345618258603"},
	{"SL", "rep", "s6162", "i4611686018427387904", "s2c"},
	{"SL", "rep", "s61", "i9223372036854775807", "s2c"},
	{"SL", "rep", "s", "i9223372036854775807"},
	{"SL", "rep", "s", "i9223372036854775807", "s"},
	{"SL", "rep", "s78", "i100000000"},
	{"SL", "rep", "s78", "i2000000", "s"},
	{"SL", "rep", "s78", "i-9223372036854775808", "s2c"},
}

func main() {
	if len(os.Args) < 2 {
		fmt.Fprintln(os.Stderr, "usage: c19 enum quick|thorough | random N | sort quick|thorough | risky K | nrisky | replay <tokens>")
		os.Exit(2)
	}
	defer hlib.Out.Flush()
	if os.Args[1] == "nrisky" {
		fmt.Println(len(riskyCases))
		return
	}
	e := newEnv()
	thorough := len(os.Args) > 2 && os.Args[2] == "thorough"
	switch os.Args[1] {
	case "enum":
		startWatchdog(20 * time.Second)
		t0 := time.Now()
		e.enumStrings(thorough)
		fmt.Fprintf(os.Stderr, "c19: strings %d lines %.1fs\n", e.nlines, time.Since(t0).Seconds())
		e.enumTables(thorough)
		fmt.Fprintf(os.Stderr, "c19: +tables %d lines %.1fs\n", e.nlines, time.Since(t0).Seconds())
	case "random":
		startWatchdog(20 * time.Second)
		n, _ := strconv.Atoi(os.Args[2])
		e.random(n)
	case "sort":
		startWatchdog(30 * time.Second)
		e.sorts(thorough)
	case "risky":
		k, _ := strconv.Atoi(os.Args[2])
		c := riskyCases[k]
		startWatchdog(30 * time.Second)
		e.runS(c[0], c[1], c[2:])
	case "replay":
		startWatchdog(30 * time.Second)
		e.replay(os.Args[2:])
	default:
		fmt.Fprintln(os.Stderr, "unknown mode")
		os.Exit(2)
	}
}

// replay: the input part of a line (tokens up to, not including, "=").
func (e *env) replay(toks []string) {
	for i, t := range toks {
		if t == "=" {
			toks = toks[:i]
			break
		}
	}
	if len(toks) < 2 {
		fmt.Fprintln(os.Stderr, "replay: need a line")
		os.Exit(2)
	}
	switch toks[0] {
	case "S", "SL":
		e.runS(toks[0], toks[1], toks[2:])
	case "T":
		rest := toks[2:]
		var tabs []*tabSpec
		for len(rest) > 0 && (strings.Contains(rest[0], "/") || rest[0] == "-") {
			if rest[0] == "-" {
				tabs = append(tabs, nil)
			} else {
				s, err := parseTab(rest[0])
				if err != nil {
					fmt.Fprintln(os.Stderr, err)
					os.Exit(2)
				}
				tabs = append(tabs, &s)
			}
			rest = rest[1:]
		}
		var args []string
		for _, t := range rest {
			if strings.HasPrefix(t, "n=") || strings.HasPrefix(t, "m=") {
				continue
			}
			args = append(args, t)
		}
		var s1, s2 *tabSpec
		if len(tabs) > 0 {
			s1 = tabs[0]
		}
		if len(tabs) > 1 {
			s2 = tabs[1]
		}
		e.runT(toks[1], s1, s2, args)
	}
}
