// c05: Lua-level runner shared by C05 (CPU limit), C06 (memory limit) and the Lua leg of C07.
//
// Reads programs from stdin:
//
//	#### <id>
//	<lua source…>
//
// and runs each in a fresh runtime with the whole standard library and one host callback
//
//	emit(v1, v2, …)      appends the encoded values to the program's host trace
//
// (declared cpu/mem/time/io safe so that it may be called inside limited contexts).  The programs
// themselves call runtime.callcontext; the runner only reports what the host saw:
//
//	P <id> <class> <TotalAlloc delta in KiB> <wall ms> | <trace item> <trace item> …
//
// class: ok | err | killed | panic.  One line per program, flushed immediately; a watchdog prints
// `P <id> timeout` and exits 3 if a program runs longer than -timeout seconds; a Go panic in another
// goroutine ("Too much mem released" in a coroutine) kills the process — the driver (checks/luaquota.py)
// sees which program was running and restarts after it.
package main

import (
	"bufio"
	"fmt"
	"io"
	"os"
	"runtime"
	"strconv"
	"strings"
	"time"

	rt "github.com/arnodel/golua/runtime"
	"verifharness/hlib"
)

type prog struct {
	id  string
	src []string
}

func readProgs() []prog {
	sc := bufio.NewScanner(os.Stdin)
	sc.Buffer(make([]byte, 1<<22), 1<<26)
	var ps []prog
	for sc.Scan() {
		line := sc.Text()
		if strings.HasPrefix(line, "#### ") {
			ps = append(ps, prog{id: strings.TrimSpace(line[5:])})
			continue
		}
		if len(ps) > 0 {
			ps[len(ps)-1].src = append(ps[len(ps)-1].src, line)
		}
	}
	return ps
}

func runOne(p prog) (class string, trace []string, kib uint64) {
	r, cleanup := hlib.NewRuntime(io.Discard)
	defer cleanup()
	emit := r.SetEnvGoFunc(r.GlobalEnv(), "emit", func(t *rt.Thread, c *rt.GoCont) (rt.Cont, error) {
		for _, v := range c.Etc() {
			trace = append(trace, hlib.Enc(v))
		}
		return c.Next(), nil
	}, 0, true)
	emit.SolemnlyDeclareCompliance(rt.ComplyCpuSafe | rt.ComplyMemSafe | rt.ComplyTimeSafe | rt.ComplyIoSafe)
	var ms0, ms1 runtime.MemStats
	runtime.ReadMemStats(&ms0)
	clos, err := hlib.Load(r, "p", strings.Join(p.src, "\n"))
	if err != nil {
		return "compile-error", []string{"s" + hlib.Hex(err.Error())}, 0
	}
	class, res, msg := hlib.PCall(r, rt.FunctionValue(clos))
	runtime.ReadMemStats(&ms1)
	for _, v := range res {
		trace = append(trace, "ret:"+hlib.Enc(v))
	}
	if class != hlib.OK {
		trace = append(trace, "msg:"+hlib.Hex(msg))
	}
	return class, trace, (ms1.TotalAlloc - ms0.TotalAlloc) >> 10
}

func main() {
	timeout := 20
	for i, a := range os.Args {
		if a == "-timeout" && i+1 < len(os.Args) {
			timeout, _ = strconv.Atoi(os.Args[i+1])
		}
	}
	out := bufio.NewWriter(os.Stdout)
	for _, p := range readProgs() {
		done := make(chan struct{})
		go func(id string) {
			select {
			case <-done:
			case <-time.After(time.Duration(timeout) * time.Second):
				fmt.Fprintf(os.Stdout, "P %s timeout\n", id)
				os.Exit(3)
			}
		}(p.id)
		// announce first, so that a process crash is attributable
		fmt.Fprintf(out, "R %s\n", p.id)
		out.Flush()
		t0 := time.Now()
		class, trace, kib := runOne(p)
		ms := time.Since(t0).Milliseconds()
		close(done)
		fmt.Fprintf(out, "P %s %s %d %d | %s\n", p.id, class, kib, ms, strings.Join(trace, " "))
		out.Flush()
	}
}
