// c17: correspondence harness for value serialisation (string.pack / unpack /
// packsize, string.format %q and integer/string directives, tostring/tonumber).
// Everything goes through compiled Lua calling the real library functions.
//
// Lines (one per case; the part after " = " is what golua did):
//
//	pack <fmthex> <v>... = ok <hex> | err <class> | panic
//	unpack <fmthex> <datahex> <init> = ok <v>... <next> | err <class> | panic
//	packsize <fmthex> = ok <n> | err <class> | panic
//	q s<hex> np=<hex runes,…> = ok <quotedhex> <lerr|rerr|s<hex>> | err | panic
//	qi i<n> = ok <quotedhex> <loaded value> <eq> <sametype>
//	qf f<bits> = ok <quotedhex> <loaded value> <eq> <sametype>
//	tn <v> = ok <tostringhex> <tonumber value> <eq> <sametype>
//	fmt <dirhex> <v> = ok <hex> | err | panic
//
// values: i<dec> f<16 hex> s<hex> t (a boolean: the value no option accepts)
package main

import (
	"encoding/hex"
	"fmt"
	"math"
	"os"
	"strconv"
	"strings"
	"unicode"
	"unicode/utf8"

	rt "github.com/arnodel/golua/runtime"
	"verifharness/hlib"
)

type env struct {
	r                                       *rt.Runtime
	pack, unpack, packsize, q, tn, fmt1, f0 rt.Value
}

const qsrc = `return function(v)
  local q = string.format("%q", v)
  local f = load("return " .. q)
  if not f then return q, "lerr" end
  local ok, r = pcall(f)
  if not ok then return q, "rerr" end
  return q, "ok", r, r == v, math.type(r) == math.type(v)
end`

const tnsrc = `return function(v)
  local s = tostring(v)
  local r = tonumber(s)
  return s, r, r == v, math.type(r) == math.type(v)
end`

func newEnv() *env {
	r, _ := hlib.NewRuntime(os.Stderr)
	e := &env{r: r}
	e.pack = e.compile("return function(...) return string.pack(...) end")
	e.unpack = e.compile("return function(...) return string.unpack(...) end")
	e.packsize = e.compile("return function(f) return string.packsize(f) end")
	e.q = e.compile(qsrc)
	e.tn = e.compile(tnsrc)
	e.fmt1 = e.compile("return function(f, v) return string.format(f, v) end")
	e.f0 = e.compile("return function(f) return string.format(f) end")
	return e
}

func (e *env) compile(src string) rt.Value {
	c, err := hlib.Load(e.r, "c17", src)
	if err != nil {
		fmt.Fprintln(os.Stderr, "harness: cannot compile", src, err)
		os.Exit(2)
	}
	class, res, msg := hlib.PCall(e.r, rt.FunctionValue(c))
	if class != hlib.OK || len(res) != 1 {
		fmt.Fprintln(os.Stderr, "harness: cannot run", src, msg)
		os.Exit(2)
	}
	return res[0]
}

var E *env

// call runs f, replacing the runtime after a Go panic (its state may be broken).
func call(f func(*env) rt.Value, args ...rt.Value) (string, []rt.Value, string) {
	class, res, msg := hlib.PCall(E.r, f(E), args...)
	if class == hlib.PANIC || class == hlib.KILLED {
		E = newEnv()
	}
	return class, res, msg
}

var errClasses = []struct{ sub, class string }{
	{"arg out of limits", "badarg"},
	{"missing size", "missingsize"},
	{"bad value type", "badtype"},
	{"invalid format: option size overflow", "sizeoverflow"},
	{"format result too large", "toolarge"},
	{"overflow", "overflow"},
	{"invalid next option", "expectedoption"},
	{"alignment not power of 2", "badalign"},
	{"packed string too short", "short"},
	{"does not fit into Lua integer", "doesnotfit"},
	{"string longer than format spec", "strlonger"},
	{"string does not fit", "strdoesnotfit"},
	{"variable-length format", "variablelength"},
	{"string contains zeros", "strzeros"},
	{"invalid format option", "badoption"},
	{"not enough values", "notenough"},
	{"out of string", "badinit"},
	{"EOF", "short"},
}

func errClass(msg string) string {
	for _, c := range errClasses {
		if strings.Contains(msg, c.sub) {
			return c.class
		}
	}
	return "other"
}

func outcome(class string, res []rt.Value, msg string) string {
	switch class {
	case hlib.OK:
		parts := []string{"ok"}
		for _, v := range res {
			parts = append(parts, encv(v))
		}
		return strings.Join(parts, " ")
	case hlib.ERR:
		return "err " + errClass(msg)
	}
	return "panic"
}

func encv(v rt.Value) string {
	if v.Type() == rt.BoolType {
		if v.AsBool() {
			return "t"
		}
		return "F"
	}
	return hlib.Enc(v)
}

func sv(s string) rt.Value  { return rt.StringValue(s) }
func iv(n int64) rt.Value   { return rt.IntValue(n) }
func fv(f float64) rt.Value { return rt.FloatValue(f) }
func fb(b uint64) rt.Value  { return rt.FloatValue(math.Float64frombits(b)) }
func hx(s string) string    { return hex.EncodeToString([]byte(s)) }
func encs(vs []rt.Value) string {
	var p []string
	for _, v := range vs {
		p = append(p, encv(v))
	}
	return strings.Join(p, " ")
}

// ---------------------------------------------------------------- pack / unpack

func doPack(f string, vs []rt.Value) (bool, string) {
	class, res, msg := call(func(e *env) rt.Value { return e.pack }, append([]rt.Value{sv(f)}, vs...)...)
	o := outcome(class, res, msg)
	if class == hlib.OK && len(res) == 1 && res[0].Type() == rt.StringType {
		o = "ok d" + hx(res[0].AsString())
		hlib.Emit("pack", "x"+hx(f), encs(vs), "=", o)
		return true, res[0].AsString()
	}
	hlib.Emit("pack", "x"+hx(f), encs(vs), "=", o)
	return false, ""
}

func doUnpack(f, data string, init int64) {
	class, res, msg := call(func(e *env) rt.Value { return e.unpack }, sv(f), sv(data), iv(init))
	hlib.Emit("unpack", "x"+hx(f), "d"+hx(data), strconv.FormatInt(init, 10), "=", outcome(class, res, msg))
}

func doPacksize(f string) {
	class, res, msg := call(func(e *env) rt.Value { return e.packsize }, sv(f))
	hlib.Emit("packsize", "x"+hx(f), "=", outcome(class, res, msg))
}

// one option of the pack-format grammar and the kind of value it consumes
type item struct {
	text string
	kind byte // 'i' signed int, 'u' unsigned int, 'f' float32, 'd' float64, 'c' fixed string, 'z', 's', 0 = none
	size int
}

func optItems() []item {
	its := []item{
		{"b", 'i', 1}, {"B", 'u', 1}, {"h", 'i', 2}, {"H", 'u', 2}, {"l", 'i', 8}, {"L", 'u', 8},
		{"j", 'i', 8}, {"J", 'u', 8}, {"T", 'u', 8}, {"i", 'i', 8}, {"I", 'u', 8},
		{"f", 'f', 4}, {"d", 'd', 8}, {"n", 'd', 8},
		{"z", 'z', 0}, {"s", 's', 8}, {"x", 0, 0},
		{"c1", 'c', 1}, {"c3", 'c', 3}, {"c0", 'c', 0}, {"c10", 'c', 10},
	}
	for n := 1; n <= 16; n++ {
		its = append(its, item{"i" + strconv.Itoa(n), 'i', n}, item{"I" + strconv.Itoa(n), 'u', n})
	}
	for _, n := range []int{1, 2, 3, 4, 8, 9, 16} {
		its = append(its, item{"s" + strconv.Itoa(n), 's', n})
	}
	return its
}

var ctlItems = []string{"<", ">", "=", "!", "!1", "!2", "!4", "!8", "!16", "!3", " ", "Xi4", "Xh", "Xd", "Xi16", "Xb", "Xs2", "XI3"}
var badItems = []string{"y", "i0", "i17", "I17", "c", "!0", "!17", "X", "Xx", "X ", "XX", "Xz", "Xc3", "Xc", "X<", "i99999999999999999999", "c99999999999999999999", "s0", "s17", "\x00", "1", "é"}

func pow2(k uint) int64 { return int64(1) << k }

func intVals(kind byte, size int, rng *hlib.Rng, nrand int) []rt.Value {
	seen := map[int64]bool{}
	var out []rt.Value
	add := func(n int64) {
		if !seen[n] {
			seen[n] = true
			out = append(out, iv(n))
		}
	}
	for _, n := range []int64{0, 1, -1, 2, 127, 128, 255, 256, -128, -129, math.MaxInt64, math.MinInt64, math.MaxInt64 - 1, math.MinInt64 + 1} {
		add(n)
	}
	if size >= 1 && size <= 8 {
		bits := uint(8 * size)
		if bits < 64 {
			for _, d := range []int64{-1, 0, 1} {
				add(pow2(bits-1) + d)
				add(-pow2(bits-1) + d)
				add(pow2(bits) + d)
				add(-pow2(bits) + d)
			}
		} else {
			add(pow2(62))
			add(-pow2(62))
		}
	}
	for i := 0; i < nrand; i++ {
		n := int64(rng.Next())
		if size >= 1 && size < 8 && rng.Bool() {
			n >>= uint(64 - 8*size - rng.Below(2))
		}
		add(n)
	}
	return out
}

func floatVals(rng *hlib.Rng, nrand int) []rt.Value {
	out := []rt.Value{fv(0), fv(math.Copysign(0, -1)), fv(1.5), fv(-2.25), fv(0.1), fv(math.Inf(1)), fv(math.Inf(-1)), fv(math.NaN()),
		fv(math.MaxFloat32), fv(-math.MaxFloat32), fv(math.Nextafter(math.MaxFloat32, math.Inf(1))), fv(1e39), fv(math.MaxFloat64),
		fv(math.Ldexp(1, -149)), fv(math.Ldexp(1, -150)), fv(math.Ldexp(3, -150)), fv(math.Ldexp(1, -126)), fv(math.SmallestNonzeroFloat64),
		fv(16777217), fv(16777219), fv(math.Ldexp(1, -127) * 1.0000001), iv(3), iv(math.MaxInt64), fv(3)}
	for i := 0; i < nrand; i++ {
		switch rng.Below(3) {
		case 0:
			out = append(out, fb(rng.Next()))
		case 1:
			out = append(out, fv(float64(math.Float32frombits(uint32(rng.Next())))))
		default:
			out = append(out, fv(float64(int64(rng.Below(2001))-1000)/8))
		}
	}
	return out
}

func strVals(kind byte, size int, rng *hlib.Rng, nrand int) []rt.Value {
	out := []rt.Value{sv(""), sv("a"), sv("abc"), sv("a\x00b"), sv("\x00"), sv("\xff\x80"), sv(strings.Repeat("x", 10)), sv(strings.Repeat("q", 255)), sv(strings.Repeat("r", 256))}
	if kind == 'c' && size > 0 {
		out = append(out, sv(strings.Repeat("k", size)), sv(strings.Repeat("k", size-1)+"\x00"), sv(strings.Repeat("k", size+1)))
	}
	for i := 0; i < nrand; i++ {
		n := rng.Below(6)
		b := make([]byte, n)
		for j := range b {
			b[j] = byte([]int{0, 1, 65, 97, 0x80, 0xff, 48}[rng.Below(7)])
		}
		out = append(out, sv(string(b)))
	}
	return out
}

func valsFor(it item, rng *hlib.Rng, nrand int) []rt.Value {
	var out []rt.Value
	switch it.kind {
	case 'i', 'u':
		out = intVals(it.kind, it.size, rng, nrand)
		out = append(out, fv(3), fv(-1), fv(2.5), fv(math.Ldexp(1, 63)), fv(-math.Ldexp(1, 63)))
	case 'f', 'd':
		out = floatVals(rng, nrand)
	case 'c', 'z', 's':
		out = strVals(it.kind, it.size, rng, nrand)
	default:
		return []rt.Value{}
	}
	return append(out, rt.BoolValue(true))
}

// the three lines for one (format, values) case + malformed-data probes of the unpacker
func packCase(f string, vs []rt.Value, probes bool) {
	ok, data := doPack(f, vs)
	doPacksize(f)
	if !ok || risky(f) {
		return
	}
	doUnpack(f, data, 1)
	if !probes {
		return
	}
	if len(data) > 0 {
		doUnpack(f, data[:len(data)-1], 1) // truncated
	}
	if strings.ContainsAny(f, "s") {
		return // a shifted or damaged length prefix makes the unpacker allocate what it says (see the `danger` mode)
	}
	doUnpack(f, "\x55"+data, 2) // alignment is relative to the absolute index
	if len(data) > 0 {
		b := []byte(data)
		b[len(b)-1] ^= 0x80
		doUnpack(f, string(b), 1)
		b = []byte(data)
		b[0] ^= 0x01
		doUnpack(f, string(b), 1)
	}
}

// risky: the packer and the unpacker disagree on how many bytes these items take (see the known findings), so a
// later `s` option would read a garbage length and allocate it; such cases are only run in `danger` mode.
func risky(f string) bool {
	if !strings.Contains(f, "s") {
		return false
	}
	for _, p := range []string{"c0", "Xx", "X ", "XX", "Xz", "X<", "X>", "X=", "X!", "Xc"} {
		if strings.Contains(f, p) {
			return true
		}
	}
	return false
}

func pickVal(it item, rng *hlib.Rng) []rt.Value {
	if it.kind == 0 {
		return nil
	}
	vs := valsFor(it, rng, 3)
	// mostly representable values so that later items are reached
	for tries := 0; tries < 4; tries++ {
		v := vs[rng.Below(len(vs))]
		if tries < 3 && !plausible(it, v) {
			continue
		}
		return []rt.Value{v}
	}
	return []rt.Value{vs[0]}
}

func plausible(it item, v rt.Value) bool {
	switch it.kind {
	case 'i':
		if v.Type() != rt.IntType {
			return false
		}
		if it.size >= 8 {
			return true
		}
		n := v.AsInt()
		return n >= -pow2(uint(8*it.size-1)) && n < pow2(uint(8*it.size-1))
	case 'u':
		if v.Type() != rt.IntType {
			return false
		}
		n := v.AsInt()
		if it.size >= 8 {
			return n >= 0
		}
		return n >= 0 && n < pow2(uint(8*it.size))
	case 'f':
		return v.Type() == rt.FloatType && float64(float32(v.AsFloat())) == v.AsFloat()
	case 'd':
		return v.Type() == rt.FloatType
	case 'c':
		return v.Type() == rt.StringType && len(v.AsString()) == it.size
	case 'z':
		return v.Type() == rt.StringType && !strings.Contains(v.AsString(), "\x00")
	case 's':
		return v.Type() == rt.StringType && (it.size >= 2 || len(v.AsString()) < 256)
	}
	return true
}

func packAll(thorough bool) {
	rng := hlib.NewRng(hlib.Seed() ^ 0x17)
	its := optItems()
	nrand := 6
	if thorough {
		nrand = 40
	}
	pre := []string{"", "<", ">", "=", "!4>", "!8<", "!2", "!>", "<!16", "!3<", " < "}
	// 1 item: every option x every prefix x the whole value lattice
	for _, it := range its {
		vals := valsFor(it, rng, nrand)
		for _, p := range pre {
			if it.kind == 0 {
				packCase(p+it.text, nil, true)
				continue
			}
			for _, v := range vals {
				packCase(p+it.text, []rt.Value{v}, true)
			}
		}
		packCase(it.text, nil, false) // not enough values
	}
	// malformed and control-only formats
	for _, b := range append(append([]string{}, badItems...), ctlItems...) {
		for _, p := range []string{"", "<", "!4", "i2"} {
			for _, s := range []string{"", "i4", "b"} {
				packCase(p+b+s, []rt.Value{iv(1), iv(2), iv(3)}, true)
			}
		}
	}
	// 2 items: all ordered pairs over a reduced option set, three alignment prefixes, one representable value each + a lattice sample
	var red []item
	for _, it := range its {
		switch it.text {
		case "b", "H", "j", "J", "i3", "I3", "i4", "i7", "I8", "i9", "I12", "i16", "f", "d", "z", "s1", "s", "s16", "x", "c3", "c0":
			red = append(red, it)
		}
	}
	mids := []string{"", "Xi4", ">", "!2", "Xd", " "}
	for _, p := range []string{"", "!4", ">!8", "!16<"} {
		for _, a := range red {
			for _, b := range red {
				for _, m := range mids {
					if !thorough && m != "" && rng.Below(3) != 0 {
						continue
					}
					vs := append(pickVal(a, rng), pickVal(b, rng)...)
					packCase(p+a.text+m+b.text, vs, rng.Below(4) == 0)
				}
			}
		}
	}
	// 3-4 items: random formats from the whole grammar
	n := 25000
	if thorough {
		n = 400000
	}
	for i := 0; i < n; i++ {
		k := 3 + rng.Below(2)
		var sb strings.Builder
		var vs []rt.Value
		if rng.Below(3) == 0 {
			sb.WriteString(pre[rng.Below(len(pre))])
		}
		for j := 0; j < k; j++ {
			switch r := rng.Below(20); {
			case r < 4:
				sb.WriteString(ctlItems[rng.Below(len(ctlItems))])
			case r == 4 && rng.Below(4) == 0:
				sb.WriteString(badItems[rng.Below(len(badItems))])
			default:
				it := its[rng.Below(len(its))]
				sb.WriteString(it.text)
				vs = append(vs, pickVal(it, rng)...)
			}
		}
		if rng.Below(50) == 0 && len(vs) > 0 {
			vs = vs[:len(vs)-1]
		}
		packCase(sb.String(), vs, rng.Below(3) == 0)
	}
	// sizes that overflow Go's uint in packsize; unpack with an alignment that is not a power of 2
	doPacksize("c9223372036854775807c9223372036854775807")
	doPacksize("c18446744073709551615i2")
	doPacksize("X")
	for _, f := range []string{"!3i3", "!6i6", "!5i8", "!3Xi3", "!16i12", "!4i3"} {
		doUnpack(f, "abcdefghijklmnopqrstuvwxyz", 1)
		doUnpack(f, "abcdefghijklmnopqrstuvwxyz", 2)
		doPacksize(f)
	}
	// init positions
	for _, init := range []int64{1, 2, 3, 5, 6, 0, -1, -4, -5, -6, math.MinInt64, math.MaxInt64} {
		doUnpack("<i4", "\x01\x02\x03\x04\x05", init)
		doUnpack("!4 i1 i4", "\x01\x02\x03\x04\x05\x06\x07\x08\x09", init)
		doUnpack("", "abc", init)
		doUnpack("z", "ab\x00cd\x00", init)
	}
}

// ---------------------------------------------------------------- %q

var qAlphabet = []string{"\x00", "\n", "\r", "\"", "\\", "1", "a", "\x7f", "\x80", "\xff", "\x07", "\x1b",
	"\xc2\x85", "\xc2\xa0", "\xc3\xa9", "\xc2", "\xe2\x80\xa8", "\xf3\xa0\x80\x81", "\xef\xbf\xbd", "\xed\xa0\x80", "\xc0\x80", " ", "\t"}

func nonPrintable(s string) string {
	var np []string
	seen := map[rune]bool{}
	for i := 0; i < len(s); {
		r, w := utf8.DecodeRuneInString(s[i:])
		if r >= 0x80 && !(r == utf8.RuneError && w == 1) && !unicode.IsPrint(r) && !seen[r] {
			seen[r] = true
			np = append(np, strconv.FormatInt(int64(r), 16))
		}
		i += w
	}
	return "np=" + strings.Join(np, ",")
}

func doQuoteStr(s string) {
	class, res, msg := call(func(e *env) rt.Value { return e.q }, sv(s))
	o := outcome(class, res, msg)
	if class == hlib.OK && len(res) >= 2 {
		q := res[0].AsString()
		st := res[1].AsString()
		if st == "ok" {
			st = encv(res[2])
		}
		o = "ok " + hx(q) + " " + st
	}
	hlib.Emit("q", "s"+hx(s), nonPrintable(s), "=", o)
}

func quoteAll(thorough bool) {
	rng := hlib.NewRng(hlib.Seed() ^ 0x71)
	doQuoteStr("")
	for _, a := range qAlphabet {
		doQuoteStr(a)
		for _, b := range qAlphabet {
			doQuoteStr(a + b)
			for _, c := range qAlphabet {
				doQuoteStr(a + b + c)
			}
		}
	}
	// every single byte, and every byte followed by a digit
	for b := 0; b < 256; b++ {
		doQuoteStr(string([]byte{byte(b)}))
		doQuoteStr(string([]byte{byte(b), '7'}))
	}
	n := 3000
	if thorough {
		n = 100000
	}
	for i := 0; i < n; i++ {
		l := rng.Below(12)
		var sb strings.Builder
		for j := 0; j < l; j++ {
			switch rng.Below(4) {
			case 0:
				sb.WriteByte(byte(rng.Below(256)))
			case 1:
				sb.WriteString(string(rune(rng.Below(0x3000))))
			case 2:
				sb.WriteString(qAlphabet[rng.Below(len(qAlphabet))])
			default:
				sb.WriteByte(byte(32 + rng.Below(95)))
			}
		}
		doQuoteStr(sb.String())
	}
}

// ---------------------------------------------------------------- numbers

func doQuoteNum(tag string, v rt.Value) {
	class, res, msg := call(func(e *env) rt.Value { return e.q }, v)
	o := outcome(class, res, msg)
	if class == hlib.OK && len(res) >= 2 {
		st := res[1].AsString()
		if st == "ok" && len(res) == 5 {
			st = encv(res[2]) + " " + encv(res[3]) + " " + encv(res[4])
		}
		o = "ok " + hx(res[0].AsString()) + " " + st
	}
	hlib.Emit(tag, encv(v), "=", o)
}

func doToNumber(v rt.Value) {
	class, res, msg := call(func(e *env) rt.Value { return e.tn }, v)
	o := outcome(class, res, msg)
	if class == hlib.OK && len(res) == 4 {
		o = "ok " + hx(res[0].AsString()) + " " + encv(res[1]) + " " + encv(res[2]) + " " + encv(res[3])
	}
	hlib.Emit("tn", encv(v), "=", o)
}

func numLattice(rng *hlib.Rng, nrand int) (ints []int64, floats []float64) {
	for _, n := range []int64{0, 1, -1, 9, 10, -10, 99, 100, 255, 1000000, 999999, math.MaxInt64, math.MinInt64, math.MaxInt64 - 1, math.MinInt64 + 1} {
		ints = append(ints, n)
	}
	for k := uint(1); k < 63; k += 5 {
		for d := int64(-1); d <= 1; d++ {
			ints = append(ints, pow2(k)+d, -pow2(k)+d)
		}
	}
	p := int64(1)
	for k := 0; k < 18; k++ {
		p *= 10
		ints = append(ints, p, p-1, -p, -p+1)
	}
	for i := 0; i < nrand; i++ {
		ints = append(ints, int64(rng.Next())>>uint(rng.Below(64)))
	}
	floats = []float64{0, math.Copysign(0, -1), 1, -1, 1.5, 0.1, 1e15, 1e16, 1e21, 1e22, 1e100, 1e-5, 1e-4, 123456, 1234567, 100000, 1e6,
		math.MaxFloat64, -math.MaxFloat64, math.SmallestNonzeroFloat64, math.Ldexp(1, -1022), math.Nextafter(math.Ldexp(1, -1022), 0),
		math.Ldexp(1, 53), math.Ldexp(1, 53) + 2, math.Ldexp(1, 63), -math.Ldexp(1, 63), math.Ldexp(1, 64), math.Inf(1), math.Inf(-1), math.NaN(),
		5e-324, 2.2250738585072014e-308, 1.7976931348623157e308, 0.3, 2.0 / 3.0, 3.0}
	for i := 0; i < nrand; i++ {
		switch rng.Below(3) {
		case 0:
			floats = append(floats, math.Float64frombits(rng.Next()))
		case 1:
			floats = append(floats, float64(int64(rng.Next())>>uint(rng.Below(64))))
		default:
			floats = append(floats, float64(int64(rng.Below(200001))-100000)/float64(int64(1)<<uint(rng.Below(12))))
		}
	}
	return
}

func numAll(thorough bool) {
	rng := hlib.NewRng(hlib.Seed() ^ 0x4e)
	n := 3000
	if thorough {
		n = 200000
	}
	ints, floats := numLattice(rng, n)
	for _, k := range ints {
		doQuoteNum("qi", iv(k))
		doToNumber(iv(k))
	}
	for _, f := range floats {
		doQuoteNum("qf", fv(f))
		doToNumber(fv(f))
	}
}

// ---------------------------------------------------------------- format directives

func doFmt(dir string, v rt.Value) {
	class, res, msg := call(func(e *env) rt.Value { return e.fmt1 }, sv(dir), v)
	o := outcome(class, res, msg)
	if class == hlib.OK && len(res) == 1 && res[0].Type() == rt.StringType {
		o = "ok d" + hx(res[0].AsString())
	}
	hlib.Emit("fmt", "x"+hx(dir), encv(v), "=", o)
}

func doFmt0(dir string) {
	class, res, msg := call(func(e *env) rt.Value { return e.f0 }, sv(dir))
	o := outcome(class, res, msg)
	if class == hlib.OK && len(res) == 1 && res[0].Type() == rt.StringType {
		o = "ok d" + hx(res[0].AsString())
	}
	hlib.Emit("fmt0", "x"+hx(dir), "=", o)
}

func subsets(flags string) []string {
	out := []string{""}
	for _, c := range flags {
		n := len(out)
		for i := 0; i < n; i++ {
			out = append(out, out[i]+string(c))
		}
	}
	return out
}

func fmtAll(thorough bool) {
	rng := hlib.NewRng(hlib.Seed() ^ 0xf0)
	widths := []string{"", "1", "5", "12", "25"}
	precs := []string{"", ".", ".0", ".1", ".3", ".20"}
	intv := []int64{0, 1, -1, 7, 8, 9, 10, 15, 16, 42, -42, 255, 256, 65535, 123456789, -123456789, math.MaxInt64, math.MinInt64, math.MaxInt64 - 1, 1 << 32, -(1 << 31)}
	for i := 0; i < 20; i++ {
		intv = append(intv, int64(rng.Next())>>uint(rng.Below(64)))
	}
	type cv struct{ verbs, flags string }
	for _, c := range []cv{{"di", "-+ 0"}, {"u", "-0"}, {"oxX", "-#0"}} {
		for _, verb := range c.verbs {
			for _, fl := range subsets(c.flags) {
				for _, w := range widths {
					for _, p := range precs {
						dir := "%" + fl + w + p + string(verb)
						for _, n := range intv {
							if !thorough && (fl != "" || w != "" || p != "") && rng.Below(3) != 0 {
								continue
							}
							doFmt(dir, iv(n))
						}
					}
				}
			}
		}
	}
	strs := []string{"", "a", "abc", "hello world", "a\x00b", "\xc3\xa9t\xc3\xa9", "\xff\xfe", "日本語", "x\xc2\xa0y"}
	for _, fl := range []string{"", "-"} {
		for _, w := range widths {
			for _, p := range precs {
				for _, s := range strs {
					doFmt("%"+fl+w+p+"s", sv(s))
				}
			}
			for _, n := range []int64{0, 65, 97, 255, 233, 10} {
				doFmt("%"+fl+w+"c", iv(n))
			}
		}
	}
	// values that are not integers / coercions
	for _, v := range []rt.Value{fv(3), fv(3.5), sv("10"), sv("x"), rt.BoolValue(true), fv(math.Ldexp(1, 63))} {
		doFmt("%d", v)
		doFmt("%x", v)
		doFmt("%c", v)
	}
	for _, v := range []rt.Value{iv(12), fv(1.5), rt.BoolValue(true), rt.NilValue} {
		doFmt("%s", v)
		doFmt("%5.1s", v)
	}
	// malformed directives
	for _, d := range []string{"%", "abc%", "%5", "%-", "%.3", "%y", "%5.1q", "%d%", "%100d", "%.100d", "%#", "%%", "%5%", "%d %d", "%s%s"} {
		doFmt0(d)
		doFmt(d, iv(1))
	}
}

func main() {
	if len(os.Args) < 2 {
		fmt.Fprintln(os.Stderr, "usage: c17 pack|quote|num|fmt quick|thorough | replay <line…>")
		os.Exit(2)
	}
	defer hlib.Out.Flush()
	E = newEnv()
	thorough := len(os.Args) > 2 && os.Args[2] == "thorough"
	switch os.Args[1] {
	case "pack":
		packAll(thorough)
	case "quote":
		quoteAll(thorough)
	case "num":
		numAll(thorough)
	case "fmt":
		fmtAll(thorough)
	case "danger":
		danger(os.Args[2])
	case "replay":
		replay(os.Args[2:])
	default:
		fmt.Fprintln(os.Stderr, "unknown mode")
		os.Exit(2)
	}
}

// danger: cases that can take the whole process down; run one per child process under RLIMIT_AS.
var dangerCases = []struct{ f, data string }{
	{"s8", "\xff\xff\xff\xff\xff\xff\xff\xff"},
	{"<s8", "\x00\x00\x00\x00\x00\x01\x00\x00"},
	{">s16", "\x00\x00\x00\x00\x00\x00\x00\x00\x7f\xff\xff\xff\xff\xff\xff\xff"},
	{"<s8", "\x00\x00\x00\x00\x00\x00\x00\x80abc"},
}

func danger(k string) {
	if k == "count" {
		fmt.Println(len(dangerCases))
		return
	}
	i, _ := strconv.Atoi(k)
	c := dangerCases[i]
	doUnpack(c.f, c.data, 1)
}

func unhex(s string) string {
	b, err := hex.DecodeString(s)
	if err != nil {
		fmt.Fprintln(os.Stderr, "bad hex", s)
		os.Exit(2)
	}
	return string(b)
}

func decv(s string) rt.Value {
	if s == "t" {
		return rt.BoolValue(true)
	}
	if s == "F" {
		return rt.BoolValue(false)
	}
	v, err := hlib.Dec(s)
	if err != nil {
		fmt.Fprintln(os.Stderr, err)
		os.Exit(2)
	}
	return v
}

// replay re-runs the input part of a protocol line (everything before " = ").
func replay(a []string) {
	for i, x := range a {
		if x == "=" {
			a = a[:i]
			break
		}
	}
	if len(a) < 2 {
		fmt.Fprintln(os.Stderr, "replay: need a protocol line")
		os.Exit(2)
	}
	switch a[0] {
	case "pack":
		var vs []rt.Value
		for _, s := range a[2:] {
			if s != "" {
				vs = append(vs, decv(s))
			}
		}
		packCase(unhex(a[1][1:]), vs, false)
	case "unpack":
		n, _ := strconv.ParseInt(a[3], 10, 64)
		doUnpack(unhex(a[1][1:]), unhex(strings.TrimPrefix(a[2], "d")), n)
	case "packsize":
		doPacksize(unhex(a[1][1:]))
	case "q":
		doQuoteStr(unhex(a[1][1:]))
	case "qi":
		doQuoteNum("qi", decv(a[1]))
	case "qf":
		doQuoteNum("qf", decv(a[1]))
	case "tn":
		doToNumber(decv(a[1]))
	case "fmt":
		doFmt(unhex(a[1][1:]), decv(a[2]))
	case "fmt0":
		doFmt0(unhex(a[1][1:]))
	}
}
