// c15: correspondence harness for Lua patterns.  Drives the REAL golua code:
//   (i)  pattern.New + (*Pattern).MatchFromStart / Match             (Go API)
//   (ii) string.find / match / gmatch / gsub through compiled Lua    (hlib.Load / hlib.PCall)
// and prints one line per case
//
//	<pattern hex|-> <subject hex|-> <init> = new=.. [mfs=.. m=..] find=.. findp=.. match=.. gmatch=.. [gsub=.. gsub2=..]
//
// new    : ok | malformed | unfinished | invalidcapture | toocomplex | capidx<n> | pct | other | P
// mfs, m : <captures>/<used>   captures = nil | start:end,start:end,…  (only for 1 <= init <= #s+1; budget 2^40)
// find…  : E (Lua error) | P (Go panic escaped) | comma-separated values n / i<dec> / s<hex> ('-' = none)
// gsub   : string.gsub(s, p, "<%0>")      gsub2 : string.gsub(s, p, "[%1]", 2)    (only on init == 1 lines)
//
// Modes:
//	enum <maxTokens> <maxSubjLen> <shard> <nshards> <keepPerMille>   exhaustive token patterns x subjects x inits
//	random <n> [shard]                                              seeded longer patterns / subjects
//	sets <n> [shard]                                                seeded random bracket sets x all 256 single-byte subjects
//	repl                                                            replacement-string cases ("R" lines)
//	budget <k> <n>                                                  CPU accounting of ("a?"):rep(k).."c" on ("b"):rep(n)
//	replay <phex> <shex> <init>
package main

import (
	"encoding/hex"
	"fmt"
	"os"
	"strconv"
	"strings"
	"time"

	"github.com/arnodel/golua/lib/stringlib/pattern"
	rt "github.com/arnodel/golua/runtime"
	"verifharness/hlib"
)

const goBudget = uint64(1) << 40

var tokens = []string{
	"a", "b", ".", "%a", "%d", "[ab]", "[^a]", "[a-b]", "*", "+", "-", "?", "^", "$", "(", ")", "()",
	"%1", "%b()", "%f[a]", "%%",
	// malformed / corner fragments
	"%", "[", "[a", "]", "%b(", "%f", "[b-a]", "%2",
}

var subjAlphabet = []byte{'a', 'b', '(', ')'}

type env struct {
	r                                        *rt.Runtime
	find, findp, match, gmatch, gsub, gsubn rt.Value
}

func newEnv() *env {
	r, _ := hlib.NewRuntime(os.Stderr)
	e := &env{r: r}
	e.find = e.compile("return function(s, p, i) return string.find(s, p, i) end")
	e.findp = e.compile("return function(s, p, i) return string.find(s, p, i, true) end")
	e.match = e.compile("return function(s, p, i) return string.match(s, p, i) end")
	e.gmatch = e.compile("return function(s, p, i) return string.gmatch(s, p, i) end")
	e.gsub = e.compile("return function(s, p, r) return string.gsub(s, p, r) end")
	e.gsubn = e.compile("return function(s, p, r, n) return string.gsub(s, p, r, n) end")
	return e
}

func (e *env) compile(src string) rt.Value {
	c, err := hlib.Load(e.r, "c15", src)
	if err != nil {
		fmt.Fprintln(os.Stderr, "harness: cannot compile", src, err)
		os.Exit(2)
	}
	class, res, msg := hlib.PCall(e.r, rt.FunctionValue(c))
	if class != hlib.OK || len(res) != 1 {
		fmt.Fprintln(os.Stderr, "harness: cannot run", src, msg)
		os.Exit(2)
	}
	return res[0]
}

var theEnv *env

func getEnv() *env {
	if theEnv == nil {
		theEnv = newEnv()
	}
	return theEnv
}

func encVals(vs []rt.Value) string {
	if len(vs) == 0 {
		return "-"
	}
	parts := make([]string, len(vs))
	for i, v := range vs {
		parts[i] = hlib.Enc(v)
	}
	return strings.Join(parts, ",")
}

// call runs f(args...) and renders the outcome class / values.
func call(f rt.Value, args ...rt.Value) (string, []rt.Value) {
	e := getEnv()
	class, res, _ := hlib.PCall(e.r, f, args...)
	switch class {
	case hlib.OK:
		return encVals(res), res
	case hlib.ERR:
		return "E", nil
	}
	// a Go panic escaped the library: do not trust the runtime afterwards
	theEnv = nil
	return "P", nil
}

func gmatchAll(s, p string, init int64) string {
	e := getEnv()
	out, res := call(e.gmatch, rt.StringValue(s), rt.StringValue(p), rt.IntValue(init))
	if out == "E" || out == "P" {
		return out
	}
	if len(res) != 1 {
		return "bad"
	}
	it := res[0]
	var all []string
	for n := 0; n < 64; n++ {
		o, vs := call(it)
		if o == "E" || o == "P" {
			return o
		}
		if len(vs) == 0 || vs[0].IsNil() {
			break
		}
		all = append(all, o)
	}
	if len(all) == 0 {
		return "-"
	}
	return strings.Join(all, ",")
}

func errKind(err error) string {
	msg := err.Error()
	switch {
	case msg == "malformed pattern":
		return "malformed"
	case msg == "unfinished capture":
		return "unfinished"
	case msg == "invalid pattern capture":
		return "invalidcapture"
	case msg == "pattern too complex":
		return "toocomplex"
	case msg == "invalid use of '%'":
		return "pct"
	case strings.HasPrefix(msg, "invalid capture index %"):
		return "capidx" + msg[len("invalid capture index %"):]
	}
	return "other"
}

func capsStr(cs []pattern.Capture) string {
	if cs == nil {
		return "nil"
	}
	parts := make([]string, len(cs))
	for i, c := range cs {
		parts[i] = fmt.Sprintf("%d:%d", c.Start(), c.End())
	}
	if len(parts) == 0 {
		return "empty"
	}
	return strings.Join(parts, ",")
}

func goLevel(p, s string, gi int) (newRes, mfs, m string) {
	defer func() {
		if r := recover(); r != nil {
			if newRes == "" {
				newRes = "P"
			}
			if mfs == "" {
				mfs = "P"
			}
			if m == "" {
				m = "P"
			}
		}
	}()
	pat, err := pattern.New(p)
	if err != nil {
		return errKind(err), "-", "-"
	}
	newRes = "ok"
	if gi < 0 {
		return
	}
	c1, u1 := pat.MatchFromStart(s, gi, goBudget)
	mfs = fmt.Sprintf("%s/%d", capsStr(c1), u1)
	c2, u2 := pat.Match(s, gi, goBudget)
	m = fmt.Sprintf("%s/%d", capsStr(c2), u2)
	return
}

func hx(s string) string {
	if s == "" {
		return "-"
	}
	return hex.EncodeToString([]byte(s))
}

func unhx(h string) string {
	if h == "-" {
		return ""
	}
	b, err := hex.DecodeString(h)
	if err != nil {
		fmt.Fprintln(os.Stderr, "bad hex", h)
		os.Exit(2)
	}
	return string(b)
}

func runCase(p, s string, init int64) {
	var sb strings.Builder
	fmt.Fprintf(&sb, "%s %s %d = ", hx(p), hx(s), init)
	gi := -1
	if init >= 1 && init <= int64(len(s))+1 {
		gi = int(init - 1)
	}
	nr, mfs, m := goLevel(p, s, gi)
	sb.WriteString("new=" + nr)
	if gi >= 0 {
		sb.WriteString(" mfs=" + mfs + " m=" + m)
	}
	sv, pv, iv := rt.StringValue(s), rt.StringValue(p), rt.IntValue(init)
	o, _ := call(getEnv().find, sv, pv, iv)
	sb.WriteString(" find=" + o)
	o, _ = call(getEnv().findp, sv, pv, iv)
	sb.WriteString(" findp=" + o)
	o, _ = call(getEnv().match, sv, pv, iv)
	sb.WriteString(" match=" + o)
	sb.WriteString(" gmatch=" + gmatchAll(s, p, init))
	if init == 1 {
		o, _ = call(getEnv().gsub, sv, pv, rt.StringValue("<%0>"))
		sb.WriteString(" gsub=" + o)
		o, _ = call(getEnv().gsubn, sv, pv, rt.StringValue("[%1]"), rt.IntValue(2))
		sb.WriteString(" gsub2=" + o)
	}
	hlib.Out.WriteString(sb.String())
	hlib.Out.WriteByte('\n')
}

func subjects(maxLen int) []string {
	out := []string{""}
	prev := []string{""}
	for l := 1; l <= maxLen; l++ {
		var cur []string
		for _, p := range prev {
			for _, c := range subjAlphabet {
				cur = append(cur, p+string(c))
			}
		}
		out = append(out, cur...)
		prev = cur
	}
	return out
}

func inits(n int) []int64 {
	out := []int64{}
	for i := 1; i <= n+2; i++ {
		out = append(out, int64(i))
	}
	out = append(out, -1, 0, int64(n+4))
	return out
}

func enum(maxTok, maxSubj, shard, nshards, keep int) {
	subs := subjects(maxSubj)
	rng := hlib.NewRng(hlib.Seed() ^ 0xC15)
	idx := 0
	var rec func(prefix string, depth int)
	emitPattern := func(p string, depth int) {
		idx++
		if idx%nshards != shard {
			return
		}
		// patterns of at most 2 tokens are always kept; longer ones are a seeded slice unless keep == 1000
		full := depth <= 2 || keep >= 1000
		for _, s := range subs {
			for _, i := range inits(len(s)) {
				if !full && rng.Below(1000) >= keep {
					continue
				}
				runCase(p, s, i)
			}
		}
	}
	rec = func(prefix string, depth int) {
		emitPattern(prefix, depth)
		if depth == maxTok {
			return
		}
		for _, t := range tokens {
			rec(prefix+t, depth+1)
		}
	}
	rec("", 0)
}

var randTokens = []string{
	"a", "b", "c", ".", "%a", "%d", "%s", "%w", "%x", "%p", "%l", "%u", "%c", "%g", "%A", "%D", "%S", "%W", "[ab]", "[^a]", "[a-c]", "[%d_]", "[^%s]", "[]]", "[^]a]", "[a-]", "[%]]",
	"*", "+", "-", "?", "(", ")", "()", "%1", "%2", "%b()", "%bab", "%f[a]", "%f[%w]", "%f[^a]", "%%", "%.", "%(", "^", "$", " ", "1", "_",
	"%", "[", "[b-a]", "%f", "%b(", "\x00", "\xff", "%z", "%9", "[b-]", "[%a-]", "[-a]", "[a%-b]", "%-", "-", "[^%]-]",
}

func random(n, shard int) {
	rng := hlib.NewRng(hlib.Seed()*0x9E37 + 15 + uint64(shard)*0x1000003)
	subjChars := []byte("aabbc(() 1_\x00\xffA.-]%^$")
	for k := 0; k < n; k++ {
		nt := 1 + rng.Below(8)
		var p strings.Builder
		for i := 0; i < nt; i++ {
			p.WriteString(randTokens[rng.Below(len(randTokens))])
		}
		ls := rng.Below(14)
		sb := make([]byte, ls)
		for i := range sb {
			sb[i] = subjChars[rng.Below(len(subjChars))]
		}
		var init int64
		switch rng.Below(6) {
		case 0:
			init = int64(-rng.Below(ls + 3))
		case 1:
			init = int64(ls + 1 + rng.Below(3))
		default:
			init = int64(1 + rng.Below(ls+1))
		}
		if rng.Below(3) == 0 {
			init = 1
		}
		runCase(p.String(), string(sb), init)
	}
}

// sets: seeded random bracket sets, each against EVERY single-byte subject (exercises getUnion and byteset.go).
func sets(n, shard int) {
	rng := hlib.NewRng(hlib.Seed()*0x51ED + 3 + uint64(shard)*0x1000003)
	elems := []string{"a", "b", "z", "0", "9", "-", "^", "]", "%a", "%d", "%s", "%w", "%x", "%p", "%c", "%l", "%u", "%g", "%z", "%A", "%W",
		"%S", "%%", "%]", "%-", "%^", "a-c", "0-9", "A-Z", "\x00-\x1f", "\x7f-\xff", "x-z", "!-/", "c-a", "_", " ", "\xff", "\x00", "%."}
	for k := 0; k < n; k++ {
		var p strings.Builder
		p.WriteString("[")
		if rng.Below(3) == 0 {
			p.WriteString("^")
		}
		if rng.Below(6) == 0 {
			p.WriteString("]")
		}
		ne := 1 + rng.Below(4)
		for i := 0; i < ne; i++ {
			p.WriteString(elems[rng.Below(len(elems))])
		}
		if rng.Below(8) == 0 {
			p.WriteString("-")
		}
		if rng.Below(20) != 0 {
			p.WriteString("]")
		}
		switch rng.Below(6) {
		case 0:
			p.WriteString("*")
		case 1:
			p.WriteString("?")
		}
		pat := p.String()
		if rng.Below(5) == 0 {
			pat = "%f" + pat
		}
		for b := 0; b < 256; b++ {
			runCase(pat, string([]byte{byte(b)}), 1)
		}
	}
}

func repl() {
	pats := []string{"b", "(b)", "(a)(b)", "()b", "b*", "", "%w", ".*", "^a"}
	subs := []string{"abc", "ab", ""}
	repls := []string{"", "x", "%0", "%1", "%2", "%3", "%%", "%", "x%", "%a", "%\n", "%1%0", "<%0%%>", "%9", "\xff%0", "%\xff"}
	for _, p := range pats {
		for _, s := range subs {
			for _, r := range repls {
				replCase(p, s, r)
			}
		}
	}
}

func replCase(p, s, r string) {
	o, _ := call(getEnv().gsub, rt.StringValue(s), rt.StringValue(p), rt.StringValue(r))
	hlib.Emit("R", hx(p), hx(s), hx(r), "=", "gsub="+o)
}

func budget(k, n int) {
	e := getEnv()
	p := strings.Repeat("a?", k) + "c"
	s := strings.Repeat("b", n)
	limit := uint64(50000000)
	t0 := time.Now()
	var outcome string
	ctx, err := e.r.MainThread().CallContext(rt.RuntimeContextDef{HardLimits: rt.RuntimeResources{Cpu: limit}}, func() error {
		term := rt.NewTerminationWith(nil, 0, true)
		return rt.Call(e.r.MainThread(), e.find, []rt.Value{rt.StringValue(s), rt.StringValue(p), rt.IntValue(1)}, term)
	})
	if err != nil {
		outcome = "err"
	} else {
		outcome = "ok"
	}
	used := ctx.UsedResources().Cpu
	hlib.Emit("budget", strconv.Itoa(k), strconv.Itoa(n), "=", "outcome="+outcome, "cpu="+strconv.FormatUint(used, 10),
		"wall_us="+strconv.FormatInt(time.Since(t0).Microseconds(), 10))
}

func atoi(s string) int {
	n, err := strconv.Atoi(s)
	if err != nil {
		fmt.Fprintln(os.Stderr, "bad number", s)
		os.Exit(2)
	}
	return n
}

func optArg(i int) int {
	if len(os.Args) > i {
		return atoi(os.Args[i])
	}
	return 0
}

func main() {
	defer hlib.Out.Flush()
	if len(os.Args) < 2 {
		fmt.Fprintln(os.Stderr, "usage: c15 enum|random|repl|budget|replay …")
		os.Exit(2)
	}
	switch os.Args[1] {
	case "enum":
		enum(atoi(os.Args[2]), atoi(os.Args[3]), atoi(os.Args[4]), atoi(os.Args[5]), atoi(os.Args[6]))
	case "random":
		random(atoi(os.Args[2]), optArg(3))
	case "sets":
		sets(atoi(os.Args[2]), optArg(3))
	case "repl":
		repl()
	case "budget":
		budget(atoi(os.Args[2]), atoi(os.Args[3]))
	case "replay":
		init, _ := strconv.ParseInt(os.Args[4], 10, 64)
		runCase(unhx(os.Args[2]), unhx(os.Args[3]), init)
	case "replay-repl":
		replCase(unhx(os.Args[2]), unhx(os.Args[3]), unhx(os.Args[4]))
	default:
		fmt.Fprintln(os.Stderr, "unknown mode", os.Args[1])
		os.Exit(2)
	}
}
