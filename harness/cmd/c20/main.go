// c20: two-runtime replay for the isolation property.
//
// Programs are sequences of named fragments; a fragment is a few Lua statements (chunks) whose
// results are the trace.  For every pair (A, B): A and B are run alone in fresh runtimes (twice, to
// mask statements that are not reproducible on their own, e.g. an unseeded math.random), then
// interleaved statement by statement in two runtimes of the same process under several schedules,
// and finally concurrently on two goroutines.  Each runtime's trace must equal its solo trace.
// A difference is minimised to a pair of fragments (a from A, b from B) that shows it on its own.
//
//	pairs <quick|thorough>        lines: pair <A> <B> <sched> <same|diff> <nontrivial> ; witness <a>|<b> <which> <stmt#> <soloHex> <gotHex>
//	concurrent <quick|thorough>   the same pairs on goroutines (meant for the -race build); lines: conc <A> <B> <same|diff>
//	replay <a> <b>                one fragment pair, verbose
package main

import (
	"bytes"
	"encoding/hex"
	"fmt"
	"os"
	"os/exec"
	"sort"
	"strings"
	"sync"
	"syscall"
	"time"

	"github.com/arnodel/golua/lib"
	"github.com/arnodel/golua/lib/base"
	"github.com/arnodel/golua/lib/coroutine"
	"github.com/arnodel/golua/lib/debuglib"
	"github.com/arnodel/golua/lib/golib"
	"github.com/arnodel/golua/lib/iolib"
	"github.com/arnodel/golua/lib/mathlib"
	"github.com/arnodel/golua/lib/oslib"
	"github.com/arnodel/golua/lib/packagelib"
	"github.com/arnodel/golua/lib/runtimelib"
	"github.com/arnodel/golua/lib/stringlib"
	"github.com/arnodel/golua/lib/tablelib"
	"github.com/arnodel/golua/lib/utf8lib"
	rt "github.com/arnodel/golua/runtime"
	"verifharness/hlib"
)

type fragment struct {
	name   string
	class  string // which library state it touches
	writes bool   // does it write that state
	stmts  []string
}

var fragments = []fragment{
	{"randseed", "rand", true, []string{`math.randomseed(42)`, `return math.random(1000000)`, `return math.random(1000000)`, `return math.random()`}},
	{"randdraw", "rand", true, []string{`return math.type(math.random(10))`, `return math.type(math.random(10))`, `return math.type(math.random())`}},
	{"gcstop", "gc", true, []string{`collectgarbage("stop")`, `return collectgarbage("isrunning")`, `collectgarbage("restart")`, `return collectgarbage("isrunning")`}},
	{"gcquery", "gc", false, []string{`return collectgarbage("isrunning")`, `return collectgarbage("isrunning")`, `return collectgarbage("isrunning")`, `return collectgarbage("isrunning")`}},
	{"globals", "globals", true, []string{`x = 1; y = "a"`, `print = nil; return type(print)`, `tostring = function() return "T" end; return tostring(1)`, `return x, y, type(ipairs)`}},
	{"globalsread", "globals", false, []string{`return x, y`, `return type(print), tostring(12)`, `return type(x)`, `return _G.x == nil`}},
	{"strmeta", "strmeta", true, []string{`getmetatable("").__index = function(s, k) return 42 end; return ("a").foo`, `string.upper = function() return "X" end; return string.upper("a")`,
		`getmetatable("").__add = function() return "added" end; return "a" + "b"`, `return ("abc").len`}},
	{"strmetaread", "strmeta", false, []string{`return ("abc"):upper()`, `return ("a").foo == nil`, `return pcall(function() return "a" + "b" end)`, `return ("abc"):len()`}},
	{"pkg", "package", true, []string{`package.loaded.foo = 7; return package.loaded.foo`, `package.path = "nowhere"; return package.path`, `package.preload.bar = function() return 9 end; return require("bar")`, `return package.loaded.bar`}},
	{"pkgread", "package", false, []string{`return package.loaded.foo`, `return package.path ~= "nowhere"`, `return pcall(require, "bar")`, `return package.loaded.bar`}},
	{"quota", "quota", true, []string{`local ctx = runtime.callcontext({kill={cpu=2000}}, function() while true do end end); return ctx.status`,
		`local ctx, r = runtime.callcontext({kill={memory=20000}}, function() local s = "a" while true do s = s .. s end end); return ctx.status`,
		`return pcall(error, "boom")`, `return runtime.context().status`}},
	{"iter", "iterators", true, []string{`local s = 0 for i, v in ipairs({1,2,3}) do s = s + v end return s`, `local n = 0 for k in pairs({a=1,b=2}) do n = n + 1 end return n`,
		`return next({}, nil)`, `local t = {} for w in string.gmatch("a b c", "%a") do t[#t+1] = w end return #t`}},
	{"coro", "coroutines", true, []string{`co = coroutine.wrap(function() for i = 1, 3 do coroutine.yield(i) end end); return co()`, `return co()`, `return co()`, `return coroutine.isyieldable()`}},
	{"flagsctx", "flags", true, []string{`return runtime.callcontext({flags="iosafe"}, function() return pcall(os.exit) end)`, `return runtime.callcontext({flags="cpusafe memsafe"}, function() return select('#', ipairs({})) end)`,
		`return runtime.context().flags`, `return (runtime.callcontext({flags="timesafe"}, function() return next({}) end)).status`}},
	{"fail", "errors", true, []string{`error("first")`, `return pcall(error, {code=1})`, `local t = nil; return t.x`, `return 1`}},
	{"io", "io", true, []string{`io.write("")`, `return io.type(io.stdout)`, `return io.output() == io.stdout`, `return io.type(io.output())`}},
	{"iodefault", "io", true, []string{`io.output(io.stderr)`, `return io.output() == io.stderr`, `return io.output() == io.stdout`, `io.output(io.stdout) return io.output() == io.stdout`}},
	{"warn", "warn", true, []string{`warn("@off")`, `return 1`, `warn("@on")`, `return 2`}},
	// what a runtime can see of the way it was created, and what it sends to ITS stdout and warner
	{"ctxprobe", "options", false, []string{`return runtime and runtime.context().flags`, `local k = runtime and runtime.context().kill; return k and k.cpu, k and k.memory, k and k.millis`,
		`return runtime and runtime.context().status`, `return type(math), type(io), type(utf8), type(debug)`}},
	{"output", "output", true, []string{`print("hello", 1)`, `warn("@on") warn("careful") return 1`, `print(("x"):rep(3))`, `warn("again") return 2`}},
	// warnings WITHOUT switching the warner on: silent alone (a runtime's warner starts switched off)
	{"warnquiet", "warn", false, []string{`warn("quiet one") return 1`, `warn("quiet ", "two") return 2`, `return 3`, `warn("quiet three") return 4`}},
	// call-heavy code: register sets and continuations are taken from and given back to the runtime's pools all the time
	{"calls", "pools", false, []string{`local function fib(n) if n < 2 then return n end return fib(n-1) + fib(n-2) end return fib(17)`,
		`local function sum(...) local s = 0 for i = 1, select('#', ...) do s = s + (select(i, ...)) end return s end local t = 0 for i = 1, 300 do t = t + sum(i, i+1, i+2, i+3) end return t`,
		`local function depth(n) if n == 0 then return 0 end return 1 + depth(n - 1) end return depth(150)`,
		`local t = {} for i = 1, 300 do t[#t+1] = tostring(i):rep(2) end return #table.concat(t)`}},
	{"heavy", "options", false, []string{`local s = 0 for i = 1, 20000 do s = s + i end return s`, `local t = {} for i = 1, 2000 do t[i] = tostring(i) end return #t`,
		`return #string.rep("ab", 5000)`, `local n = 0 for w in string.gmatch(string.rep("a ", 500), "%a") do n = n + 1 end return n`}},
}

func fragByName(n string) *fragment {
	for i := range fragments {
		if fragments[i].name == n {
			return &fragments[i]
		}
	}
	return nil
}

type prog struct {
	id    string
	frags []*fragment
	cfg   string // how its runtime is created ("" = default)
}

func (p prog) cfgName() string {
	if p.cfg == "" {
		return "default"
	}
	return p.cfg
}

func (p prog) with(cfg string) prog { return prog{p.id, p.frags, cfg} }

func progFromID(id, cfg string) (prog, bool) {
	var fs []*fragment
	for _, n := range strings.Split(id, "+") {
		f := fragByName(n)
		if f == nil {
			return prog{}, false
		}
		fs = append(fs, f)
	}
	return prog{id, fs, cfg}, true
}

// ---------------------------------------------------------------------------
// configurations: different ways a host creates a runtime (options, warner, which libraries, in which order)

var allLoaders = []packagelib.Loader{base.LibLoader, packagelib.LibLoader, coroutine.LibLoader, stringlib.LibLoader, tablelib.LibLoader,
	mathlib.LibLoader, iolib.LibLoader, utf8lib.LibLoader, oslib.LibLoader, debuglib.LibLoader, golib.LibLoader, runtimelib.LibLoader}

const configProbe = "ctxprobe+output+heavy+strmetaread+globalsread+pkgread+iter"

var configModes = map[string]func(a, b prog) ([]string, []string){
	"created-AB":        func(a, b prog) ([]string, []string) { return interleaved(a, b, func(i int) bool { return i%2 == 0 }) },
	"created-BA":        func(a, b prog) ([]string, []string) { return interleavedBFirst(a, b, func(i int) bool { return i%2 == 0 }) },
	"A-closed-before-B": sequential,
	"concurrent":        concurrent,
}

var configNames = []string{"default", "quota", "flags", "pool", "warner", "subset", "reorder"}

type runtimeHandle struct {
	r       *rt.Runtime
	cleanup func()
	out     *bytes.Buffer
	warn    *bytes.Buffer
}

func makeRuntime(cfg string) *runtimeHandle {
	h := &runtimeHandle{out: &bytes.Buffer{}, warn: &bytes.Buffer{}}
	switch cfg {
	case "", "default":
		h.r = rt.New(h.out)
		h.cleanup = lib.LoadAll(h.r)
	case "quota":
		h.r = rt.New(h.out, rt.WithRuntimeContext(rt.RuntimeContextDef{HardLimits: rt.RuntimeResources{Cpu: 3000000, Memory: 30000000}}))
		h.cleanup = lib.LoadAll(h.r)
	case "flags":
		h.r = rt.New(h.out, rt.WithRuntimeContext(rt.RuntimeContextDef{RequiredFlags: rt.ComplyIoSafe | rt.ComplyCpuSafe}))
		h.cleanup = lib.LoadAll(h.r)
	case "pool":
		h.r = rt.New(h.out, rt.WithRegPoolSize(16), rt.WithRegSetMaxAge(4))
		h.cleanup = lib.LoadAll(h.r)
	case "warner":
		h.r = rt.New(h.out)
		h.r.SetWarner(rt.NewLogWarner(h.warn, "W: "))
		h.cleanup = lib.LoadAll(h.r)
	case "subset":
		h.r = rt.New(h.out)
		h.r.SetWarner(rt.NewLogWarner(h.warn, "S: "))
		h.cleanup = lib.LoadLibs(h.r, base.LibLoader, packagelib.LibLoader, stringlib.LibLoader, tablelib.LibLoader, runtimelib.LibLoader)
	case "reorder":
		h.r = rt.New(h.out)
		h.r.SetWarner(rt.NewLogWarner(h.warn, "R: "))
		ls := []packagelib.Loader{base.LibLoader, packagelib.LibLoader}
		for i := len(allLoaders) - 1; i >= 2; i-- {
			ls = append(ls, allLoaders[i])
		}
		h.cleanup = lib.LoadLibs(h.r, ls...)
	default:
		fmt.Fprintln(os.Stderr, "unknown configuration", cfg)
		os.Exit(2)
	}
	return h
}

func (h *runtimeHandle) close() {
	defer func() { recover() }()
	if h.cleanup != nil {
		h.cleanup()
	}
	h.r.Close(nil)
}

func (p prog) stmts() []string {
	var s []string
	for _, f := range p.frags {
		s = append(s, f.stmts...)
	}
	return s
}

// What the process writes to file descriptor 2 (the default warner of a runtime writes "Lua warning: …" there) is
// captured into a file and read back after every statement: it is part of the trace of the runtime that just ran.
var (
	errCapture *os.File
	errOffset  int64
	errEnabled bool
)

func captureStderr() {
	if os.Getenv("C20_NO_STDERR_CAPTURE") != "" {
		return
	}
	f, err := os.CreateTemp("", "c20-stderr-")
	if err != nil {
		return
	}
	os.Remove(f.Name())
	if err := syscall.Dup2(int(f.Fd()), 2); err != nil {
		return
	}
	errCapture, errEnabled = f, true
}

func readStderr() string {
	if errCapture == nil {
		return ""
	}
	st, err := errCapture.Stat()
	if err != nil || st.Size() <= errOffset {
		return ""
	}
	b := make([]byte, st.Size()-errOffset)
	n, _ := errCapture.ReadAt(b, errOffset)
	errOffset += int64(n)
	if !errEnabled {
		return ""
	}
	return string(b[:n])
}

type runner struct {
	h     *runtimeHandle
	r     *rt.Runtime
	stmts []string
	pc    int
	trace []string
}

func newRunner(p prog) *runner {
	h := makeRuntime(p.cfg)
	return &runner{h: h, r: h.r, stmts: p.stmts()}
}

func (x *runner) done() bool { return x.pc >= len(x.stmts) }

func (x *runner) step() {
	src := x.stmts[x.pc]
	x.pc++
	c, err := hlib.Load(x.r, "stmt", src)
	if err != nil {
		x.trace = append(x.trace, "compile-error")
		return
	}
	class, res, _ := hlib.PCall(x.r, rt.FunctionValue(c))
	parts := []string{class}
	for _, v := range res {
		parts = append(parts, hlib.Enc(v))
	}
	// what the statement sent to this runtime's stdout and warner
	if x.h.out.Len() > 0 {
		parts = append(parts, "out:"+hex.EncodeToString(x.h.out.Bytes()))
		x.h.out.Reset()
	}
	if x.h.warn.Len() > 0 {
		parts = append(parts, "warn:"+hex.EncodeToString(x.h.warn.Bytes()))
		x.h.warn.Reset()
	}
	if errCapture != nil && !errEnabled {
		// several runtimes write to fd 2 at the same time: whose bytes they are cannot be told
		parts = append(parts, "stderr:?")
	} else if e := readStderr(); e != "" {
		parts = append(parts, "stderr:"+hex.EncodeToString([]byte(e)))
	}
	x.trace = append(x.trace, strings.Join(parts, ","))
}

func solo(p prog) []string {
	x := newRunner(p)
	for !x.done() {
		x.step()
	}
	return x.trace
}

type soloResult struct {
	trace  []string
	stable []bool
}

var soloCache = map[string]soloResult{}
var soloMu sync.Mutex

// The solo run of a program is taken in a FRESH PROCESS (this binary, mode `solo`): whatever earlier runtimes of
// the harness left behind in the process cannot leak into the baseline.  The child runs the program twice; the
// first trace is the baseline, positions where the two differ are masked (not reproducible on their own).
func soloStable(p prog) (trace []string, stable []bool) {
	key := p.cfgName() + "/" + p.id
	soloMu.Lock()
	r, ok := soloCache[key]
	soloMu.Unlock()
	if !ok {
		prefillSolos(p.cfgName(), []string{p.id})
		soloMu.Lock()
		r = soloCache[key]
		soloMu.Unlock()
	}
	return r.trace, r.stable
}

// prefillSolos gets the solo traces of several programs of one configuration, EACH FROM ITS OWN clean child
// process (a program's baseline must not see what another program left behind in the process: a shared cache or
// metatable polluted by an earlier program would make the baseline agree with the polluted runs).  The children
// run in parallel.
func prefillSolos(cfg string, ids []string) {
	var need []string
	seen := map[string]bool{}
	soloMu.Lock()
	for _, id := range ids {
		if _, ok := soloCache[cfg+"/"+id]; !ok && !seen[id] {
			seen[id] = true
			need = append(need, id)
		}
	}
	soloMu.Unlock()
	if len(need) == 0 {
		return
	}
	exe, err := os.Executable()
	if err != nil {
		fmt.Fprintln(os.Stderr, "c20:", err)
		os.Exit(2)
	}
	sem := make(chan bool, 8)
	var wg sync.WaitGroup
	for _, id := range need {
		id := id
		wg.Add(1)
		sem <- true
		go func() {
			defer wg.Done()
			defer func() { <-sem }()
			cmd := exec.Command(exe, "solos", cfg, id)
			cmd.Env = append(os.Environ(), "GORACE=halt_on_error=0 exitcode=0", "GOMAXPROCS=2")
			out, err := cmd.Output()
			if err != nil {
				fmt.Fprintln(os.Stderr, "c20: solo child failed:", err, cfg, id)
				os.Exit(2)
			}
			var a, b []string
			for _, l := range strings.Split(string(out), "\n") {
				f := strings.SplitN(l, " ", 3)
				if len(f) < 3 {
					continue
				}
				if f[0] == "t1" {
					a = append(a, f[2])
				} else if f[0] == "t2" {
					b = append(b, f[2])
				}
			}
			stable := make([]bool, len(a))
			for i := range a {
				stable[i] = i < len(b) && a[i] == b[i]
			}
			soloMu.Lock()
			soloCache[cfg+"/"+id] = soloResult{a, stable}
			soloMu.Unlock()
		}()
	}
	wg.Wait()
}

// sequential: A's runtime is created, used and closed before B's runtime even exists
func sequential(a, b prog) (ta, tb []string) {
	xa := newRunner(a)
	for !xa.done() {
		xa.step()
	}
	xa.h.close()
	xb := newRunner(b)
	for !xb.done() {
		xb.step()
	}
	xb.h.close()
	return xa.trace, xb.trace
}

// interleavedBFirst: like interleaved, but B's runtime is created before A's
func interleavedBFirst(a, b prog, sched func(i int) bool) (ta, tb []string) {
	tb, ta = interleaved(b, a, func(i int) bool { return !sched(i) })
	return
}

func interleaved(a, b prog, sched func(i int) bool) (ta, tb []string) {
	xa, xb := newRunner(a), newRunner(b)
	for i := 0; !xa.done() || !xb.done(); i++ {
		pickA := sched(i)
		if xa.done() {
			pickA = false
		} else if xb.done() {
			pickA = true
		}
		if pickA {
			xa.step()
		} else {
			xb.step()
		}
	}
	return xa.trace, xb.trace
}

func concurrent(a, b prog) (ta, tb []string) {
	// (what two goroutines write to fd 2 at the same time cannot be told apart: not part of the trace here)
	readStderr()
	was := errEnabled
	errEnabled = false
	defer func() { readStderr(); errEnabled = was }()
	var wg sync.WaitGroup
	wg.Add(2)
	go func() {
		defer wg.Done()
		ta = solo(a)
	}()
	go func() {
		defer wg.Done()
		tb = solo(b)
	}()
	wg.Wait()
	return
}

// sameEntry: equal, where "stderr:?" (written to fd 2 concurrently with another runtime: unattributable) matches
// any or no stderr part
func sameEntry(a, b string) bool {
	if a == b {
		return true
	}
	if !strings.HasSuffix(a, "stderr:?") && !strings.HasSuffix(b, "stderr:?") {
		return false
	}
	strip := func(x string) string {
		if i := strings.LastIndex(x, ",stderr:"); i >= 0 {
			return x[:i]
		}
		return x
	}
	return strip(a) == strip(b)
}

func firstDiff(solo []string, stable []bool, got []string) int {
	for i := range solo {
		if stable[i] && (i >= len(got) || !sameEntry(solo[i], got[i])) {
			return i
		}
	}
	return -1
}

type schedule struct {
	name string
	f    func(i int) bool
}

func schedules(rng *hlib.Rng, n int) []schedule {
	s := []schedule{
		{"alt", func(i int) bool { return i%2 == 0 }},
		{"alt2", func(i int) bool { return i%2 == 1 }},
		{"bfirst", func(i int) bool { return false }},
		{"afirst", func(i int) bool { return true }},
	}
	for k := 0; k < n; k++ {
		bits := rng.Next()
		bits2 := rng.Next()
		s = append(s, schedule{fmt.Sprintf("r%016x%016x", bits, bits2), func(i int) bool {
			if i < 64 {
				return bits>>uint(i)&1 == 1
			}
			return bits2>>uint(i%64)&1 == 1
		}})
	}
	return s
}

func hx(s string) string { return hex.EncodeToString([]byte(s)) }

// check one pair under one way of running both; returns "" or the minimal fragment pair showing a difference
func checkPair(a, b prog, run func(a, b prog) ([]string, []string)) (diff bool, which string, idx int, want, got string) {
	sa, stA := soloStable(a)
	sb, stB := soloStable(b)
	ta, tb := run(a, b)
	if i := firstDiff(sa, stA, ta); i >= 0 {
		g := "<missing>"
		if i < len(ta) {
			g = ta[i]
		}
		return true, "A", i, sa[i], g
	}
	if i := firstDiff(sb, stB, tb); i >= 0 {
		g := "<missing>"
		if i < len(tb) {
			g = tb[i]
		}
		return true, "B", i, sb[i], g
	}
	return false, "", 0, "", ""
}

// pairRuns: the fixed ways of running a pair that minimise tries
func pairRuns() []func(a, b prog) ([]string, []string) {
	runs := []func(a, b prog) ([]string, []string){sequential}
	for _, s := range schedules(hlib.NewRng(1), 0) {
		s := s
		runs = append(runs, func(a, b prog) ([]string, []string) { return interleaved(a, b, s.f) })
	}
	for k := 1; k <= 4; k++ {
		k := k
		runs = append(runs,
			func(a, b prog) ([]string, []string) {
				return interleaved(a, b, func(i int) bool { return i < k || (i-k)%2 == 1 })
			},
			func(a, b prog) ([]string, []string) {
				return interleaved(a, b, func(i int) bool { return !(i < k || (i-k)%2 == 1) })
			})
	}
	return runs
}

// reproducesInCleanProcess: does the pair of fragments show a difference when nothing else ever ran in the process?
func reproducesInCleanProcess(fa, fb *fragment) bool {
	exe, _ := os.Executable()
	cmd := exec.Command(exe, "paircase", fa.name, fb.name)
	cmd.Env = append(os.Environ(), "GORACE=halt_on_error=0 exitcode=0")
	out, err := cmd.Output()
	if err != nil {
		return true
	}
	got := map[string][]string{}
	for _, l := range strings.Split(string(out), "\n") {
		f := strings.SplitN(l, " ", 4)
		if len(f) == 4 {
			got[f[0]+f[1]] = append(got[f[0]+f[1]], f[3])
		}
	}
	sa, stA := soloStable(prog{fa.name, []*fragment{fa}, ""})
	sb, stB := soloStable(prog{fb.name, []*fragment{fb}, ""})
	for k := range pairRuns() {
		if firstDiff(sa, stA, got["ta"+fmt.Sprint(k)]) >= 0 || firstDiff(sb, stB, got["tb"+fmt.Sprint(k)]) >= 0 {
			return true
		}
	}
	return false
}

type minResult struct {
	diff  bool
	key   string
	which string
	idx   int
	want  string
	got   string
}

// fragment pairs already examined (the basic and head-start schedules are fixed, so the answer is too)
var minCache = map[string]minResult{}

func minimise(a, b prog, run func(a, b prog) ([]string, []string)) (string, string, int, string, string) {
	runs := []func(a, b prog) ([]string, []string){run, sequential}
	for _, s := range schedules(hlib.NewRng(1), 0) {
		s := s
		runs = append(runs, func(a, b prog) ([]string, []string) { return interleaved(a, b, s.f) })
	}
	// one program gets a head start of k statements, then they alternate
	for k := 1; k <= 4; k++ {
		k := k
		runs = append(runs,
			func(a, b prog) ([]string, []string) {
				return interleaved(a, b, func(i int) bool { return i < k || (i-k)%2 == 1 })
			},
			func(a, b prog) ([]string, []string) {
				return interleaved(a, b, func(i int) bool { return !(i < k || (i-k)%2 == 1) })
			})
	}
	for _, fa := range a.frags {
		for _, fb := range b.frags {
			ck := fa.name + "|" + fb.name
			if a.cfg != "" || b.cfg != "" {
				ck = a.cfgName() + "/" + fa.name + "|" + b.cfgName() + "/" + fb.name
			}
			if r, ok := minCache[ck]; ok {
				if r.diff {
					return r.key, r.which, r.idx, r.want, r.got
				}
				continue
			}
			pa, pb := prog{fa.name, []*fragment{fa}, a.cfg}, prog{fb.name, []*fragment{fb}, b.cfg}
			found := false
			for _, r := range runs {
				if d, w, i, want, got := checkPair(pa, pb, r); d {
					cls := fa.class
					if fb.class != fa.class {
						cls += "," + fb.class
					}
					key := cls + ":" + ck
					if a.cfg == "" && b.cfg == "" && !reproducesInCleanProcess(fa, fb) {
						// the two fragments do not disturb each other in a clean process: what changed the trace is
						// something an EARLIER runtime of this process left behind
						victim := fb
						if w == "A" {
							victim = fa
						}
						key = "leftover:" + victim.name
					}
					minCache[ck] = minResult{true, key, w, i, want, got}
					_ = r
					found = true
					break
				}
			}
			if found {
				r := minCache[ck]
				return r.key, r.which, r.idx, r.want, r.got
			}
			minCache[ck] = minResult{}
		}
	}
	// not reproducible on a single pair of fragments: name the kinds of library state both programs touch
	cls := map[string]bool{}
	for _, fa := range a.frags {
		for _, fb := range b.frags {
			if fa.class == fb.class && (fa.writes || fb.writes) {
				cls[fa.class] = true
			}
		}
	}
	var cs []string
	for c := range cls {
		cs = append(cs, c)
	}
	sort.Strings(cs)
	return "unminimised:" + strings.Join(cs, "+") + ":" + a.id + "|" + b.id, "?", -1, "", ""
}

func prefillAll(ps []prog) {
	var ids []string
	for i := range fragments {
		ids = append(ids, fragments[i].name)
	}
	for _, p := range ps {
		ids = append(ids, p.id)
	}
	prefillSolos("default", ids)
}

func programs(tier string, rng *hlib.Rng) []prog {
	var ps []prog
	for i := range fragments {
		ps = append(ps, prog{fragments[i].name, []*fragment{&fragments[i]}, ""})
	}
	n := 3
	if tier == "thorough" {
		n = 30
	} else if tier == "race" {
		n = 6
	}
	for k := 0; k < n; k++ {
		m := 2 + rng.Below(3)
		var fs []*fragment
		var names []string
		for j := 0; j < m; j++ {
			f := &fragments[rng.Below(len(fragments))]
			fs = append(fs, f)
			names = append(names, f.name)
		}
		ps = append(ps, prog{strings.Join(names, "+"), fs, ""})
	}
	return ps
}

func nontrivial(a, b prog) bool {
	// both programs touch the same library state and at least one of them writes it
	for _, fa := range a.frags {
		for _, fb := range b.frags {
			if fa.class == fb.class && (fa.writes || fb.writes) {
				return true
			}
		}
	}
	return false
}

func main() {
	if len(os.Args) < 2 {
		fmt.Fprintln(os.Stderr, "usage: c20 pairs|concurrent <tier> | replay <a> <b>")
		os.Exit(2)
	}
	devnull, _ := os.OpenFile(os.DevNull, os.O_RDWR, 0)
	os.Stdin = devnull
	realOut := os.Stdout
	_ = realOut
	os.Stdout = devnull // golua's io library writes here; hlib.Out keeps the real stdout
	captureStderr()
	defer hlib.Out.Flush()
	rng := hlib.NewRng(hlib.Seed())
	switch os.Args[1] {
	case "pairs":
		tier := os.Args[2]
		ps := programs(tier, rng)
		prefillAll(ps)
		nr := 1
		if tier == "thorough" {
			nr = 4
		}
		for _, a := range ps {
			for _, b := range ps {
				for si, s := range schedules(rng, nr) {
					s := s
					if tier != "thorough" && (si == 1 || si == 2 || si == 3) {
						continue // quick: strict alternation and one random schedule
					}
					run := func(a, b prog) ([]string, []string) { return interleaved(a, b, s.f) }
					d, _, _, _, _ := checkPair(a, b, run)
					nt := "0"
					if nontrivial(a, b) {
						nt = "1"
					}
					if !d {
						hlib.Emit("pair", a.id, b.id, s.name, "same", nt)
						continue
					}
					hlib.Emit("pair", a.id, b.id, s.name, "diff", nt)
					key, w, i, want, got := minimise(a, b, run)
					hlib.Emit("witness", key, w, fmt.Sprint(i), hx(want), hx(got), s.name)
				}
			}
		}
	case "stress":
		// many runtimes at once, each on its own goroutine, running call-heavy programs; every trace is compared
		// with the solo trace of the same program
		tier := os.Args[2]
		rounds, width := 6, 8
		if tier == "thorough" {
			rounds, width = 40, 16
		} else if tier == "race" {
			rounds = 4
		}
		var ps []prog
		for _, id := range []string{"calls+heavy", "calls+iter+coro", "heavy+calls+strmetaread", "calls"} {
			p, _ := progFromID(id, "")
			ps = append(ps, p)
		}
		prefillAll(ps)
		readStderr()
		errEnabled = false
		for round := 0; round < rounds; round++ {
			traces := make([][]string, width)
			var wg sync.WaitGroup
			for i := 0; i < width; i++ {
				i := i
				wg.Add(1)
				go func() {
					defer wg.Done()
					defer func() {
						if r := recover(); r != nil {
							traces[i] = append(traces[i], fmt.Sprint("go-panic:", r))
						}
					}()
					traces[i] = solo(ps[i%len(ps)])
				}()
			}
			finished := make(chan bool)
			go func() { wg.Wait(); close(finished) }()
			select {
			case <-finished:
			case <-time.After(60 * time.Second):
				// runtimes that corrupt each other can loop for ever: that is a result, not a reason to hang the check
				hlib.Emit("conc", "stress", fmt.Sprintf("x%d", width), "diff", "1")
				hlib.Emit("witness", "concurrent-stress:hang", "A", "-1", hx("terminates alone"), hx("still running after 60 s"), fmt.Sprintf("%d runtimes on goroutines", width))
				hlib.Out.Flush()
				os.Exit(0)
			}
			for i := 0; i < width; i++ {
				p := ps[i%len(ps)]
				sa, st := soloStable(p)
				if j := firstDiff(sa, st, traces[i]); j >= 0 {
					g := "<missing>"
					if j < len(traces[i]) {
						g = traces[i][j]
					}
					frag, n := "?", 0
					for _, f := range p.frags {
						if j < n+len(f.stmts) {
							frag = f.name
							break
						}
						n += len(f.stmts)
					}
					hlib.Emit("conc", p.id, fmt.Sprintf("x%d", width), "diff", "1")
					hlib.Emit("witness", "concurrent-stress:"+frag, "A", fmt.Sprint(j), hx(sa[j]), hx(g), fmt.Sprintf("%d runtimes on goroutines", width))
				} else {
					hlib.Emit("conc", p.id, fmt.Sprintf("x%d", width), "same", "1")
				}
			}
		}
	case "concurrent":
		tier := os.Args[2]
		ps := programs(tier, rng)
		prefillAll(ps)
		reps := 2
		if tier == "thorough" {
			reps = 4
		} else if tier == "race" {
			reps = 3
		} else {
			ps = ps[:len(fragments)]
		}
		for _, a := range ps {
			for _, b := range ps {
				same := true
				for k := 0; k < reps && same; k++ {
					d, _, _, _, _ := checkPair(a, b, concurrent)
					if d {
						same = false
					}
				}
				nt := "0"
				if nontrivial(a, b) {
					nt = "1"
				}
				if same {
					hlib.Emit("conc", a.id, b.id, "same", nt)
				} else {
					hlib.Emit("conc", a.id, b.id, "diff", nt)
					key, w, i, want, got := minimise(a, b, concurrent)
					hlib.Emit("witness", key, w, fmt.Sprint(i), hx(want), hx(got), "concurrent")
				}
			}
		}
	case "solos":
		// child mode: several programs of one configuration in a clean process; every program twice
		cfg := os.Args[2]
		if cfg == "default" {
			cfg = ""
		}
		var ps []prog
		for _, id := range strings.Split(os.Args[3], ",") {
			p, ok := progFromID(id, cfg)
			if !ok {
				fmt.Fprintln(os.Stderr, "unknown program", id)
				os.Exit(2)
			}
			ps = append(ps, p)
		}
		for _, p := range ps {
			for _, l := range solo(p) {
				hlib.Emit("t1", p.id, l)
			}
		}
		for _, p := range ps {
			for _, l := range solo(p) {
				hlib.Emit("t2", p.id, l)
			}
		}
	case "paircase":
		// child of minimise: one pair of (default-configuration) programs in a clean process, a few schedules
		a, _ := progFromID(os.Args[2], "")
		b, _ := progFromID(os.Args[3], "")
		for k, run := range pairRuns() {
			ta, tb := run(a, b)
			for i, l := range ta {
				hlib.Emit("ta", fmt.Sprint(k), fmt.Sprint(i), l)
			}
			for i, l := range tb {
				hlib.Emit("tb", fmt.Sprint(k), fmt.Sprint(i), l)
			}
		}
	case "cfgcase":
		// child of `config`: one ordered pair of configurations and one mode in a clean process; raw traces out
		ca, cb, mname := os.Args[2], os.Args[3], os.Args[4]
		probe, _ := progFromID(configProbe, cb)
		for _, w := range strings.Split(os.Args[5], ",") {
			a, _ := progFromID(w, ca)
			b := probe
			if a.cfg == "default" {
				a.cfg = ""
			}
			if b.cfg == "default" {
				b.cfg = ""
			}
			ta, tb := configModes[mname](a, b)
			for i, l := range ta {
				hlib.Emit("ta", w, fmt.Sprint(i), l)
			}
			for i, l := range tb {
				hlib.Emit("tb", w, fmt.Sprint(i), l)
			}
		}
	case "config":
		// runtimes created in DIFFERENT ways (options, warner, libraries loaded and their order): a writer program
		// in runtime A, a probing program in runtime B.  Every ordered pair of configurations x mode runs in its own
		// clean child process (so that what one pair leaves behind in the process is not blamed on the next), and
		// each trace is compared with the solo run of the same program in the same configuration.
		tier := os.Args[2]
		writers := []string{"quota", "strmeta", "globals", "pkg", "iodefault", "output", "heavy+flagsctx"}
		mnames := []string{"created-AB", "A-closed-before-B"}
		if tier == "thorough" {
			writers = append(writers, "randseed", "gcstop", "coro", "fail", "warn", "io", "ctxprobe")
			mnames = append(mnames, "created-BA", "concurrent")
		} else if tier == "race" {
			mnames = []string{"concurrent"}
		}
		exe, _ := os.Executable()
		for _, c := range configNames {
			prefillSolos(c, append([]string{configProbe}, writers...))
		}
		for _, ca := range configNames {
			for _, cb := range configNames {
				// quick: every configuration against the default one (both orders), the default against itself and
				// the two option-carrying ones against each other; thorough: every ordered pair
				if tier != "thorough" && !(ca == "default" || cb == "default" || (ca == "quota" && cb == "flags") || (ca == "flags" && cb == "quota")) {
					continue
				}
				for _, mname := range mnames {
					cmd := exec.Command(exe, "cfgcase", ca, cb, mname, strings.Join(writers, ","))
					cmd.Env = append(os.Environ(), "GORACE=halt_on_error=0 exitcode=0")
					cmd.Stderr = os.Stderr
					out, err := cmd.Output()
					if err != nil {
						hlib.Emit("cpair", ca+"/*", cb+"/"+configProbe, mname, "crash", "1")
						hlib.Emit("witness", "cfg:crash:"+ca+"|"+cb, "?", "-1", hx(err.Error()), hx(""), mname)
						continue
					}
					got := map[string][]string{}
					for _, l := range strings.Split(string(out), "\n") {
						f := strings.SplitN(l, " ", 4)
						if len(f) == 4 && (f[0] == "ta" || f[0] == "tb") {
							got[f[0]+" "+f[1]] = append(got[f[0]+" "+f[1]], f[3])
						}
					}
					for _, w := range writers {
						a, _ := progFromID(w, ca)
						b, _ := progFromID(configProbe, cb)
						nt := "0"
						if ca != cb {
							nt = "1"
						}
						sa, stA := soloStable(a)
						sb, stB := soloStable(b)
						which, idx, want, g := "", -1, "", ""
						if i := firstDiff(sa, stA, got["ta "+w]); i >= 0 {
							which, idx, want = "A", i, sa[i]
							if i < len(got["ta "+w]) {
								g = got["ta "+w][i]
							}
						} else if i := firstDiff(sb, stB, got["tb "+w]); i >= 0 {
							which, idx, want = "B", i, sb[i]
							if i < len(got["tb "+w]) {
								g = got["tb "+w][i]
							}
						}
						if which == "" {
							hlib.Emit("cpair", ca+"/"+w, cb+"/"+configProbe, mname, "same", nt)
							continue
						}
						hlib.Emit("cpair", ca+"/"+w, cb+"/"+configProbe, mname, "diff", nt)
						// name the fragment of the program whose trace changed
						p := b
						if which == "A" {
							p = a
						}
						frag, n := "?", 0
						for _, f := range p.frags {
							if idx < n+len(f.stmts) {
								frag = f.name
								break
							}
							n += len(f.stmts)
						}
						key := fmt.Sprintf("cfg:%s|%s:%s.%s", ca, cb, which, frag)
						hlib.Emit("witness", key, which, fmt.Sprint(idx), hx(want), hx(g), mname+" other="+w)
					}
				}
			}
		}
	case "replay":
		fa, fb := fragByName(os.Args[2]), fragByName(os.Args[3])
		if fa == nil || fb == nil {
			fmt.Fprintln(os.Stderr, "unknown fragment")
			os.Exit(2)
		}
		a, b := prog{fa.name, []*fragment{fa}, ""}, prog{fb.name, []*fragment{fb}, ""}
		if len(os.Args) >= 6 {
			a.cfg, b.cfg = os.Args[4], os.Args[5]
		}
		sa, stA := soloStable(a)
		sb, stB := soloStable(b)
		scheds := schedules(rng, 2)
		scheds = append(scheds, schedule{"A-closed-before-B", nil})
		for _, s := range scheds {
			var ta, tb []string
			if s.f == nil {
				ta, tb = sequential(a, b)
			} else {
				ta, tb = interleaved(a, b, s.f)
			}
			hlib.Emit("schedule", s.name)
			for i := range sa {
				hlib.Emit("  A", fmt.Sprintf("%-70q", fa.stmts[i]), "solo", sa[i], "stable", fmt.Sprint(stA[i]), "with-B", ta[i])
			}
			for i := range sb {
				hlib.Emit("  B", fmt.Sprintf("%-70q", fb.stmts[i]), "solo", sb[i], "stable", fmt.Sprint(stB[i]), "with-A", tb[i])
			}
		}
	}
}
