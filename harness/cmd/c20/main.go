// c20: two-runtime replay for the isolation property.
//
// Programs are sequences of named fragments; a fragment is a few Lua statements (chunks) whose
// results are the trace.  For every pair (A, B): A and B are run alone in fresh runtimes (twice, to
// mask statements that are not reproducible on their own, e.g. an unseeded math.random), then
// interleaved statement by statement in two runtimes of the same process under several schedules,
// and finally concurrently on two goroutines.  Each runtime's trace must equal its solo trace.
// A difference is minimised to a pair of fragments (a from A, b from B) that shows it on its own.
//
//	pairs <quick|thorough>        lines: pair <A> <B> <sched> <same|diff> <nontrivial> ; witness <a>|<b> <which> <stmt#> <soloHex> <gotHex>
//	concurrent <quick|thorough>   the same pairs on goroutines (meant for the -race build); lines: conc <A> <B> <same|diff>
//	replay <a> <b>                one fragment pair, verbose
package main

import (
	"encoding/hex"
	"fmt"
	"io"
	"os"
	"sort"
	"strings"
	"sync"

	rt "github.com/arnodel/golua/runtime"
	"verifharness/hlib"
)

type fragment struct {
	name   string
	class  string // which library state it touches
	writes bool   // does it write that state
	stmts  []string
}

var fragments = []fragment{
	{"randseed", "rand", true, []string{`math.randomseed(42)`, `return math.random(1000000)`, `return math.random(1000000)`, `return math.random()`}},
	{"randdraw", "rand", true, []string{`return math.type(math.random(10))`, `return math.type(math.random(10))`, `return math.type(math.random())`}},
	{"gcstop", "gc", true, []string{`collectgarbage("stop")`, `return collectgarbage("isrunning")`, `collectgarbage("restart")`, `return collectgarbage("isrunning")`}},
	{"gcquery", "gc", false, []string{`return collectgarbage("isrunning")`, `return collectgarbage("isrunning")`, `return collectgarbage("isrunning")`, `return collectgarbage("isrunning")`}},
	{"globals", "globals", true, []string{`x = 1; y = "a"`, `print = nil; return type(print)`, `tostring = function() return "T" end; return tostring(1)`, `return x, y, type(ipairs)`}},
	{"globalsread", "globals", false, []string{`return x, y`, `return type(print), tostring(12)`, `return type(x)`, `return _G.x == nil`}},
	{"strmeta", "strmeta", true, []string{`getmetatable("").__index = function(s, k) return 42 end; return ("a").foo`, `string.upper = function() return "X" end; return string.upper("a")`,
		`getmetatable("").__add = function() return "added" end; return "a" + "b"`, `return ("abc").len`}},
	{"strmetaread", "strmeta", false, []string{`return ("abc"):upper()`, `return ("a").foo == nil`, `return pcall(function() return "a" + "b" end)`, `return ("abc"):len()`}},
	{"pkg", "package", true, []string{`package.loaded.foo = 7; return package.loaded.foo`, `package.path = "nowhere"; return package.path`, `package.preload.bar = function() return 9 end; return require("bar")`, `return package.loaded.bar`}},
	{"pkgread", "package", false, []string{`return package.loaded.foo`, `return package.path ~= "nowhere"`, `return pcall(require, "bar")`, `return package.loaded.bar`}},
	{"quota", "quota", true, []string{`local ctx = runtime.callcontext({kill={cpu=2000}}, function() while true do end end); return ctx.status`,
		`local ctx, r = runtime.callcontext({kill={memory=20000}}, function() local s = "a" while true do s = s .. s end end); return ctx.status`,
		`return pcall(error, "boom")`, `return runtime.context().status`}},
	{"iter", "iterators", true, []string{`local s = 0 for i, v in ipairs({1,2,3}) do s = s + v end return s`, `local n = 0 for k in pairs({a=1,b=2}) do n = n + 1 end return n`,
		`return next({}, nil)`, `local t = {} for w in string.gmatch("a b c", "%a") do t[#t+1] = w end return #t`}},
	{"coro", "coroutines", true, []string{`co = coroutine.wrap(function() for i = 1, 3 do coroutine.yield(i) end end); return co()`, `return co()`, `return co()`, `return coroutine.isyieldable()`}},
	{"flagsctx", "flags", true, []string{`return runtime.callcontext({flags="iosafe"}, function() return pcall(os.exit) end)`, `return runtime.callcontext({flags="cpusafe memsafe"}, function() return select('#', ipairs({})) end)`,
		`return runtime.context().flags`, `return (runtime.callcontext({flags="timesafe"}, function() return next({}) end)).status`}},
	{"fail", "errors", true, []string{`error("first")`, `return pcall(error, {code=1})`, `local t = nil; return t.x`, `return 1`}},
	{"io", "io", true, []string{`io.write("")`, `return io.type(io.stdout)`, `return io.output() == io.stdout`, `return io.type(io.output())`}},
	{"iodefault", "io", true, []string{`io.output(io.stderr)`, `return io.output() == io.stderr`, `return io.output() == io.stdout`, `io.output(io.stdout) return io.output() == io.stdout`}},
	{"warn", "warn", true, []string{`warn("@off")`, `return 1`, `warn("@on")`, `return 2`}},
}

func fragByName(n string) *fragment {
	for i := range fragments {
		if fragments[i].name == n {
			return &fragments[i]
		}
	}
	return nil
}

type prog struct {
	id    string
	frags []*fragment
}

func (p prog) stmts() []string {
	var s []string
	for _, f := range p.frags {
		s = append(s, f.stmts...)
	}
	return s
}

type runner struct {
	r     *rt.Runtime
	stmts []string
	pc    int
	trace []string
}

func newRunner(p prog) *runner {
	r, _ := hlib.NewRuntime(io.Discard)
	return &runner{r: r, stmts: p.stmts()}
}

func (x *runner) done() bool { return x.pc >= len(x.stmts) }

func (x *runner) step() {
	src := x.stmts[x.pc]
	x.pc++
	c, err := hlib.Load(x.r, "stmt", src)
	if err != nil {
		x.trace = append(x.trace, "compile-error")
		return
	}
	class, res, _ := hlib.PCall(x.r, rt.FunctionValue(c))
	parts := []string{class}
	for _, v := range res {
		parts = append(parts, hlib.Enc(v))
	}
	x.trace = append(x.trace, strings.Join(parts, ","))
}

func solo(p prog) []string {
	x := newRunner(p)
	for !x.done() {
		x.step()
	}
	return x.trace
}

type soloResult struct {
	trace  []string
	stable []bool
}

var soloCache = map[string]soloResult{}
var soloMu sync.Mutex

// mask: positions whose solo result is not reproducible
func soloStable(p prog) (trace []string, stable []bool) {
	soloMu.Lock()
	defer soloMu.Unlock()
	if r, ok := soloCache[p.id]; ok {
		return r.trace, r.stable
	}
	t1, t2, t3 := solo(p), solo(p), solo(p)
	stable = make([]bool, len(t1))
	for i := range t1 {
		stable[i] = t1[i] == t2[i] && t2[i] == t3[i]
	}
	soloCache[p.id] = soloResult{t1, stable}
	return t1, stable
}

func interleaved(a, b prog, sched func(i int) bool) (ta, tb []string) {
	xa, xb := newRunner(a), newRunner(b)
	for i := 0; !xa.done() || !xb.done(); i++ {
		pickA := sched(i)
		if xa.done() {
			pickA = false
		} else if xb.done() {
			pickA = true
		}
		if pickA {
			xa.step()
		} else {
			xb.step()
		}
	}
	return xa.trace, xb.trace
}

func concurrent(a, b prog) (ta, tb []string) {
	var wg sync.WaitGroup
	wg.Add(2)
	go func() {
		defer wg.Done()
		ta = solo(a)
	}()
	go func() {
		defer wg.Done()
		tb = solo(b)
	}()
	wg.Wait()
	return
}

func firstDiff(solo []string, stable []bool, got []string) int {
	for i := range solo {
		if stable[i] && (i >= len(got) || solo[i] != got[i]) {
			return i
		}
	}
	return -1
}

type schedule struct {
	name string
	f    func(i int) bool
}

func schedules(rng *hlib.Rng, n int) []schedule {
	s := []schedule{
		{"alt", func(i int) bool { return i%2 == 0 }},
		{"alt2", func(i int) bool { return i%2 == 1 }},
		{"bfirst", func(i int) bool { return false }},
		{"afirst", func(i int) bool { return true }},
	}
	for k := 0; k < n; k++ {
		bits := rng.Next()
		bits2 := rng.Next()
		s = append(s, schedule{fmt.Sprintf("r%016x%016x", bits, bits2), func(i int) bool {
			if i < 64 {
				return bits>>uint(i)&1 == 1
			}
			return bits2>>uint(i%64)&1 == 1
		}})
	}
	return s
}

func hx(s string) string { return hex.EncodeToString([]byte(s)) }

// check one pair under one way of running both; returns "" or the minimal fragment pair showing a difference
func checkPair(a, b prog, run func(a, b prog) ([]string, []string)) (diff bool, which string, idx int, want, got string) {
	sa, stA := soloStable(a)
	sb, stB := soloStable(b)
	ta, tb := run(a, b)
	if i := firstDiff(sa, stA, ta); i >= 0 {
		g := "<missing>"
		if i < len(ta) {
			g = ta[i]
		}
		return true, "A", i, sa[i], g
	}
	if i := firstDiff(sb, stB, tb); i >= 0 {
		g := "<missing>"
		if i < len(tb) {
			g = tb[i]
		}
		return true, "B", i, sb[i], g
	}
	return false, "", 0, "", ""
}

type minResult struct {
	diff  bool
	key   string
	which string
	idx   int
	want  string
	got   string
}

// fragment pairs already examined (the basic and head-start schedules are fixed, so the answer is too)
var minCache = map[string]minResult{}

func minimise(a, b prog, run func(a, b prog) ([]string, []string)) (string, string, int, string, string) {
	runs := []func(a, b prog) ([]string, []string){run}
	for _, s := range schedules(hlib.NewRng(1), 0) {
		s := s
		runs = append(runs, func(a, b prog) ([]string, []string) { return interleaved(a, b, s.f) })
	}
	// one program gets a head start of k statements, then they alternate
	for k := 1; k <= 4; k++ {
		k := k
		runs = append(runs,
			func(a, b prog) ([]string, []string) {
				return interleaved(a, b, func(i int) bool { return i < k || (i-k)%2 == 1 })
			},
			func(a, b prog) ([]string, []string) {
				return interleaved(a, b, func(i int) bool { return !(i < k || (i-k)%2 == 1) })
			})
	}
	for _, fa := range a.frags {
		for _, fb := range b.frags {
			ck := fa.name + "|" + fb.name
			if r, ok := minCache[ck]; ok {
				if r.diff {
					return r.key, r.which, r.idx, r.want, r.got
				}
				continue
			}
			pa, pb := prog{fa.name, []*fragment{fa}}, prog{fb.name, []*fragment{fb}}
			found := false
			for _, r := range runs {
				if d, w, i, want, got := checkPair(pa, pb, r); d {
					cls := fa.class
					if fb.class != fa.class {
						cls += "," + fb.class
					}
					minCache[ck] = minResult{true, cls + ":" + ck, w, i, want, got}
					found = true
					break
				}
			}
			if found {
				r := minCache[ck]
				return r.key, r.which, r.idx, r.want, r.got
			}
			minCache[ck] = minResult{}
		}
	}
	// not reproducible on a single pair of fragments: name the kinds of library state both programs touch
	cls := map[string]bool{}
	for _, fa := range a.frags {
		for _, fb := range b.frags {
			if fa.class == fb.class && (fa.writes || fb.writes) {
				cls[fa.class] = true
			}
		}
	}
	var cs []string
	for c := range cls {
		cs = append(cs, c)
	}
	sort.Strings(cs)
	return "unminimised:" + strings.Join(cs, "+") + ":" + a.id + "|" + b.id, "?", -1, "", ""
}

func programs(tier string, rng *hlib.Rng) []prog {
	var ps []prog
	for i := range fragments {
		ps = append(ps, prog{fragments[i].name, []*fragment{&fragments[i]}})
	}
	n := 6
	if tier == "thorough" {
		n = 30
	}
	for k := 0; k < n; k++ {
		m := 2 + rng.Below(3)
		var fs []*fragment
		var names []string
		for j := 0; j < m; j++ {
			f := &fragments[rng.Below(len(fragments))]
			fs = append(fs, f)
			names = append(names, f.name)
		}
		ps = append(ps, prog{strings.Join(names, "+"), fs})
	}
	return ps
}

func nontrivial(a, b prog) bool {
	// both programs touch the same library state and at least one of them writes it
	for _, fa := range a.frags {
		for _, fb := range b.frags {
			if fa.class == fb.class && (fa.writes || fb.writes) {
				return true
			}
		}
	}
	return false
}

func main() {
	if len(os.Args) < 2 {
		fmt.Fprintln(os.Stderr, "usage: c20 pairs|concurrent <tier> | replay <a> <b>")
		os.Exit(2)
	}
	devnull, _ := os.OpenFile(os.DevNull, os.O_RDWR, 0)
	os.Stdin = devnull
	realOut := os.Stdout
	_ = realOut
	os.Stdout = devnull // golua's io library writes here; hlib.Out keeps the real stdout
	defer hlib.Out.Flush()
	rng := hlib.NewRng(hlib.Seed())
	switch os.Args[1] {
	case "pairs":
		tier := os.Args[2]
		ps := programs(tier, rng)
		nr := 1
		if tier == "thorough" {
			nr = 4
		}
		for _, a := range ps {
			for _, b := range ps {
				for si, s := range schedules(rng, nr) {
					s := s
					if tier != "thorough" && (si == 1 || si == 2 || si == 3) {
						continue // quick: strict alternation and one random schedule
					}
					run := func(a, b prog) ([]string, []string) { return interleaved(a, b, s.f) }
					d, _, _, _, _ := checkPair(a, b, run)
					nt := "0"
					if nontrivial(a, b) {
						nt = "1"
					}
					if !d {
						hlib.Emit("pair", a.id, b.id, s.name, "same", nt)
						continue
					}
					hlib.Emit("pair", a.id, b.id, s.name, "diff", nt)
					key, w, i, want, got := minimise(a, b, run)
					hlib.Emit("witness", key, w, fmt.Sprint(i), hx(want), hx(got), s.name)
				}
			}
		}
	case "concurrent":
		tier := os.Args[2]
		ps := programs(tier, rng)
		reps := 2
		if tier == "thorough" {
			reps = 4
		} else if tier == "race" {
			reps = 3
		} else {
			ps = ps[:len(fragments)]
		}
		for _, a := range ps {
			for _, b := range ps {
				same := true
				for k := 0; k < reps && same; k++ {
					d, _, _, _, _ := checkPair(a, b, concurrent)
					if d {
						same = false
					}
				}
				nt := "0"
				if nontrivial(a, b) {
					nt = "1"
				}
				if same {
					hlib.Emit("conc", a.id, b.id, "same", nt)
				} else {
					hlib.Emit("conc", a.id, b.id, "diff", nt)
					key, w, i, want, got := minimise(a, b, concurrent)
					hlib.Emit("witness", key, w, fmt.Sprint(i), hx(want), hx(got), "concurrent")
				}
			}
		}
	case "replay":
		fa, fb := fragByName(os.Args[2]), fragByName(os.Args[3])
		if fa == nil || fb == nil {
			fmt.Fprintln(os.Stderr, "unknown fragment")
			os.Exit(2)
		}
		a, b := prog{fa.name, []*fragment{fa}}, prog{fb.name, []*fragment{fb}}
		sa, stA := soloStable(a)
		sb, stB := soloStable(b)
		for _, s := range schedules(rng, 2) {
			ta, tb := interleaved(a, b, s.f)
			hlib.Emit("schedule", s.name)
			for i := range sa {
				hlib.Emit("  A", fmt.Sprintf("%-70q", fa.stmts[i]), "solo", sa[i], "stable", fmt.Sprint(stA[i]), "with-B", ta[i])
			}
			for i := range sb {
				hlib.Emit("  B", fmt.Sprintf("%-70q", fb.stmts[i]), "solo", sb[i], "stable", fmt.Sprint(stB[i]), "with-A", tb[i])
			}
		}
	}
}
