// c16: correspondence harness for the numeric for loop.  Runs the real golua
// pipeline (parser → astcomp ProcessForStat → prepfor/advfor in runtime/luacont.go
// → runtime/comp.go) on triples (initial value, limit, step) and prints one line
// per case:
//
//	<mode> <a> <b> <c> = <status> <v1,v2,…|->
//
// mode:   arg  – `for i = a, b, c` with the three values passed as function arguments
//
//	arg2 – `for i = a, b` (step omitted; c is printed as `-`)
//	asg  – as arg, the body assigns to the loop variable
//	lit  – the three values written as literals in the source text
//
// a b c:  protocol values; a string is printed `s<hex>~<enc of tonumber(s)>`.
// status: ok (loop ended by itself) | cap (still running after CAP iterations) |
//
//	E (Lua error) | P (Go panic) | T (math.type(i) disagrees with the value's type)
//
// values: the loop variable in each iteration, as recorded by the host callback.
package main

import (
	"errors"
	"fmt"
	"math"
	"os"
	"strconv"
	"strings"

	rt "github.com/arnodel/golua/runtime"
	"verifharness/hlib"
)

const CAP = 40

var errCap = errors.New("c16-cap-reached")

type env struct {
	r        *rt.Runtime
	vals     []string
	capHit   bool
	typeBad  bool
	bad      string // set by the host function check(ok, msg) / again(v)
	againIdx int
	extra    map[string]rt.Value
	arg      rt.Value
	arg2     rt.Value
	asg      rt.Value
	tonumber rt.Value
}

func newEnv() *env {
	r, _ := hlib.NewRuntime(os.Stderr)
	e := &env{r: r}
	r.SetEnvGoFunc(r.GlobalEnv(), "emit", func(t *rt.Thread, c *rt.GoCont) (rt.Cont, error) {
		if len(e.vals) >= CAP {
			e.capHit = true
			return nil, errCap
		}
		v := c.Arg(0)
		ty, _ := c.Arg(1).TryString()
		switch v.Type() {
		case rt.IntType:
			if ty != "integer" {
				e.typeBad = true
			}
		case rt.FloatType:
			if ty != "float" {
				e.typeBad = true
			}
		default:
			e.typeBad = true
		}
		e.vals = append(e.vals, hlib.Enc(v))
		return c.Next(), nil
	}, 2, false)
	r.SetEnvGoFunc(r.GlobalEnv(), "check", func(t *rt.Thread, c *rt.GoCont) (rt.Cont, error) {
		if !rt.Truth(c.Arg(0)) && e.bad == "" {
			msg, _ := c.Arg(1).TryString()
			e.bad = strings.ReplaceAll(msg, " ", "-")
		}
		return c.Next(), nil
	}, 2, false)
	r.SetEnvGoFunc(r.GlobalEnv(), "again", func(t *rt.Thread, c *rt.GoCont) (rt.Cont, error) {
		// the k-th closure created in the loop must still see the k-th value of the loop variable
		if e.againIdx >= len(e.vals) || hlib.Enc(c.Arg(0)) != e.vals[e.againIdx] {
			if e.bad == "" {
				e.bad = "closure-" + strconv.Itoa(e.againIdx+1) + "-sees-" + hlib.Enc(c.Arg(0))
			}
		}
		e.againIdx++
		return c.Next(), nil
	}, 1, false)
	e.extra = map[string]rt.Value{}
	for name, src := range extraModes {
		e.extra[name] = e.compile(extraPrelude + src)
	}
	e.arg = e.compile("return function(a, b, c) for i = a, b, c do emit(i, math.type(i)) end end")
	e.arg2 = e.compile("return function(a, b) for i = a, b do emit(i, math.type(i)) end end")
	e.asg = e.compile("return function(a, b, c) for i = a, b, c do emit(i, math.type(i)) i = i * 2 + 100 i = nil local i = 5 i = i + 1 end end")
	e.tonumber = e.compile("return tonumber")
	return e
}

// "evaluates its three expressions once": the three control expressions in every shape a Lua program can
// give them; whatever the body does to the variables / fields / functions they came from, the loop must
// run exactly as with plain values, each expression must be evaluated exactly once (in order), and the
// loop must not write to the places the values came from.
const extraPrelude = `
local function same(x, y)
  return type(x) == type(y) and math.type(x) == math.type(y) and (x == y or (x ~= x and y ~= y))
end
local function far(d) if (tonumber(d) or 1) > 0 then return math.huge else return -math.huge end end
`

var extraModes = map[string]string{
	// locals reassigned by the body: to numbers that would change the iteration, to nil, to strings
	"locnum": `return function(a, b, c)
  local s, l, d = a, b, c
  for i = s, l, d do emit(i, math.type(i)) s = -7 l = far(d) d = (tonumber(d) or 1) * 2 end
end`,
	"locnil": `return function(a, b, c)
  local s, l, d = a, b, c
  for i = s, l, d do emit(i, math.type(i)) s, l, d = nil, nil, nil end
end`,
	"locstr": `return function(a, b, c)
  local s, l, d = a, b, c
  for i = s, l, d do emit(i, math.type(i)) s, l, d = "x", "y", "z" end
end`,
	// upvalues modified by a function called in the body
	"upval": `return function(a, b, c)
  local s, l, d = a, b, c
  local function bump() s = nil l = far(d) d = 1e300 end
  for i = s, l, d do emit(i, math.type(i)) bump() end
end`,
	// globals
	"global": `return function(a, b, c)
  GS, GL, GD = a, b, c
  for i = GS, GL, GD do emit(i, math.type(i)) GS, GL, GD = nil, far(c), 0 end
  GS, GL, GD = nil, nil, nil
end`,
	// a call, a table field read through __index, a call: each exactly once, in order
	"once": `return function(a, b, c)
  local order = ""
  local t = setmetatable({}, {__index = function(_, k) order = order .. "2" return b end})
  local function f() order = order .. "1" return a end
  local function g() order = order .. "3" return c end
  for i = f(), t.n, g() do emit(i, math.type(i)) t.n = nil end
  check(order == "123", "control expressions evaluated in order " .. order)
end`,
	// the loop must not write to the variables its control values came from (type and value intact)
	"keep": `return function(a, b, c)
  local s, l, d = a, b, c
  for i = s, l, d do emit(i, math.type(i)) end
  check(same(s, a), "initial value variable changed to " .. tostring(s) .. ":" .. tostring(math.type(s) or type(s)))
  check(same(l, b), "limit variable changed to " .. tostring(l) .. ":" .. tostring(math.type(l) or type(l)))
  check(same(d, c), "step variable changed to " .. tostring(d) .. ":" .. tostring(math.type(d) or type(d)))
end`,
	// a fresh loop variable per iteration: closures created in the body keep their own value
	"clos": `return function(a, b, c)
  local fs = {}
  for i = a, b, c do emit(i, math.type(i)) fs[#fs + 1] = function() return i end end
  for k = 1, #fs do again(fs[k]()) end
end`,
	// every control expression is ONE value: calls returning several values are cut, also the last one
	"trunc": `return function(a, b, c)
  local function pair(x, y) return x, y end
  for i = pair(a, 5), pair(b, 6), pair(c, 7) do emit(i, math.type(i)) end
end`,
	// a break in the body, then the same loop again: the hidden registers are fresh each time
	"rerun": `return function(a, b, c)
  for i = a, b, c do emit(i, math.type(i)) break end
  local n = 0
  for i = a, b, c do n = n + 1 if n > 1 then emit(i, math.type(i)) end end
end`,
	// the loop state survives a yield in every iteration
	"coyield": `return function(a, b, c)
  local co = coroutine.wrap(function()
    for i = a, b, c do emit(i, math.type(i)) coroutine.yield(i) end
    return "done"
  end)
  while co() ~= "done" do end
end`,
}

var extraOrder = []string{"locnum", "locnil", "locstr", "upval", "global", "once", "keep", "clos", "trunc", "rerun", "coyield"}

func (e *env) compile(src string) rt.Value {
	c, err := hlib.Load(e.r, "c16", src)
	if err != nil {
		fmt.Fprintln(os.Stderr, "harness: cannot compile", src, err)
		os.Exit(2)
	}
	class, res, msg := hlib.PCall(e.r, rt.FunctionValue(c))
	if class != hlib.OK || len(res) != 1 {
		fmt.Fprintln(os.Stderr, "harness: cannot run", src, msg)
		os.Exit(2)
	}
	return res[0]
}

func (e *env) enc(v rt.Value) string {
	if v.Type() == rt.StringType {
		class, res, _ := hlib.PCall(e.r, e.tonumber, v)
		conv := "n"
		if class == hlib.OK && len(res) == 1 {
			conv = hlib.Enc(res[0])
		}
		return hlib.Enc(v) + "~" + conv
	}
	return hlib.Enc(v)
}

func (e *env) finish(class string) string {
	status := "ok"
	switch {
	case class == hlib.PANIC || class == hlib.KILLED:
		status = "P"
	case e.bad != "":
		status = "X:" + e.bad
	case e.typeBad:
		status = "T"
	case e.capHit:
		status = "cap"
	case class == hlib.ERR:
		status = "E"
	}
	vals := "-"
	if len(e.vals) > 0 {
		vals = strings.Join(e.vals, ",")
	}
	return status + " " + vals
}

func (e *env) reset() {
	e.vals = e.vals[:0]
	e.capHit = false
	e.typeBad = false
	e.bad = ""
	e.againIdx = 0
}

func (e *env) runArgs(mode string, a, b, c rt.Value) {
	e.reset()
	var class string
	switch mode {
	case "arg":
		class, _, _ = hlib.PCall(e.r, e.arg, a, b, c)
	case "asg":
		class, _, _ = hlib.PCall(e.r, e.asg, a, b, c)
	case "arg2":
		class, _, _ = hlib.PCall(e.r, e.arg2, a, b)
		hlib.Emit(mode, e.enc(a), e.enc(b), "-", "=", e.finish(class))
		return
	default:
		f, ok := e.extra[mode]
		if !ok {
			fmt.Fprintln(os.Stderr, "unknown mode", mode)
			os.Exit(2)
		}
		class, _, _ = hlib.PCall(e.r, f, a, b, c)
	}
	hlib.Emit(mode, e.enc(a), e.enc(b), e.enc(c), "=", e.finish(class))
}

var litCount int

// literal renders v as a Lua expression that evaluates to exactly v.
func literal(v rt.Value) string {
	switch v.Type() {
	case rt.NilType:
		return "nil"
	case rt.BoolType:
		if v.AsBool() {
			return "true"
		}
		return "false"
	case rt.IntType:
		n := v.AsInt()
		if n == math.MinInt64 {
			return "math.mininteger"
		}
		return strconv.FormatInt(n, 10)
	case rt.FloatType:
		f := v.AsFloat()
		switch {
		case math.IsNaN(f):
			return "(0/0)"
		case math.IsInf(f, 1):
			return "math.huge"
		case math.IsInf(f, -1):
			return "-math.huge"
		case f == 0 && math.Signbit(f):
			// the negative zero in its spellings: literal, computed, hexadecimal
			litCount++
			return []string{"-0.0", "(0*-1.0)", "(-1/math.huge)", "-0x0p0", "-0e5", "(-0.0)"}[litCount%6]
		case f == 0:
			litCount++
			return []string{"0.0", "0e0", "0x0p0", "(1/math.huge)", ".0"}[litCount%5]
		}
		return strconv.FormatFloat(f, 'x', -1, 64)
	case rt.StringType:
		var sb strings.Builder
		sb.WriteByte('"')
		for _, c := range []byte(v.AsString()) {
			fmt.Fprintf(&sb, "\\x%02x", c)
		}
		sb.WriteByte('"')
		return sb.String()
	}
	return "nil"
}

func (e *env) runLit(a, b, c rt.Value) {
	e.reset()
	// the spelling of a zero literal depends on the triple only (replayable)
	litCount = 0
	for _, ch := range hlib.Enc(a) + hlib.Enc(b) + hlib.Enc(c) {
		litCount = (litCount*31 + int(ch)) % 1000003
	}
	src := "for i = " + literal(a) + ", " + literal(b) + ", " + literal(c) + " do emit(i, math.type(i)) end"
	cl, err := hlib.Load(e.r, "c16lit", src)
	if err != nil {
		hlib.Emit("lit", e.enc(a), e.enc(b), e.enc(c), "=", "C -")
		return
	}
	class, _, _ := hlib.PCall(e.r, rt.FunctionValue(cl))
	hlib.Emit("lit", e.enc(a), e.enc(b), e.enc(c), "=", e.finish(class))
}

func iv(n int64) rt.Value   { return rt.IntValue(n) }
func fv(f float64) rt.Value { return rt.FloatValue(f) }
func sv(s string) rt.Value  { return rt.StringValue(s) }

// lattice returns the boundary values; level 0 = core (quick), 1 = full (thorough).
func lattice(level int) []rt.Value {
	var out []rt.Value
	seen := map[string]bool{}
	add := func(v rt.Value) {
		k := hlib.Enc(v)
		if !seen[k] {
			seen[k] = true
			out = append(out, v)
		}
	}
	p53 := int64(1) << 53
	// integers
	for _, n := range []int64{0, 1, -1, 2, -2, math.MaxInt64, math.MinInt64, math.MaxInt64 - 1, p53, p53 + 1} {
		add(iv(n))
	}
	// floats
	for _, f := range []float64{0, math.Copysign(0, -1), 0.5, 1, -1, 2.5, -1.5, math.Ldexp(1, 63), -math.Ldexp(1, 63), math.Inf(1), math.Inf(-1), math.NaN(),
		math.Nextafter(math.Ldexp(1, 63), 0), math.Ldexp(1, 53)} {
		add(fv(f))
	}
	add(sv("2"))
	add(sv("-0.0")) // a zero step in every spelling is an error: both signed zeros, also out of a string
	add(rt.NilValue)
	if level == 0 {
		return out
	}
	for _, n := range []int64{3, math.MinInt64 + 1, -p53, -3, 5, 7, -7, 40, 41, math.MaxInt64 - 2, math.MaxInt64 - 40, math.MinInt64 + 2, math.MinInt64 + 40,
		p53 - 1, -(p53 + 1), -(p53 - 1), 1 << 62, -(1 << 62), math.MaxInt64 / 2, math.MaxInt64/2 + 1} {
		add(iv(n))
	}
	for _, f := range []float64{0, math.Copysign(0, -1), -0.5, 1.5, -2.5, 3, 1e308, -1e308, math.SmallestNonzeroFloat64,
		-math.Ldexp(1, 53), math.Ldexp(1, 53) + 2, math.Nextafter(-math.Ldexp(1, 63), math.Inf(-1)),
		math.Nextafter(math.Ldexp(1, 63), math.Inf(1)), math.Ldexp(1, 62), 9.2e18, -9.2e18, math.MaxFloat64} {
		add(fv(f))
	}
	for _, s := range []string{"0x10", "1e1", " 3 ", "2.5", "abc", "", "-1", "-0"} {
		add(sv(s))
	}
	add(rt.BoolValue(true))
	return out
}

func randNum(rng *hlib.Rng) rt.Value {
	switch rng.Below(10) {
	case 0:
		return iv(int64(rng.Next()))
	case 1:
		return iv(int64(rng.Next()) >> uint(rng.Below(64)))
	case 2:
		return fv(math.Float64frombits(rng.Next()))
	case 3:
		return fv(float64(int64(rng.Next()) >> uint(rng.Below(12))))
	case 4:
		k := rng.Below(66)
		return fv(math.Ldexp(1, k) + float64(int64(rng.Below(5))-2))
	case 5:
		k := uint(rng.Below(63))
		return iv((int64(1) << k) + int64(rng.Below(5)) - 2)
	case 6:
		return fv(float64(int64(rng.Below(2001))-1000) / 8)
	case 7:
		return iv(math.MaxInt64 - int64(rng.Below(100)))
	case 8:
		return iv(math.MinInt64 + int64(rng.Below(100)))
	default:
		return iv(int64(rng.Below(201)) - 100)
	}
}

// randTriple biases towards loops that run a handful of iterations: the limit is placed
// near start + k*step.
func randTriple(rng *hlib.Rng) (a, b, c rt.Value) {
	a, c = randNum(rng), randNum(rng)
	if rng.Below(25) == 0 {
		c = []rt.Value{iv(0), fv(0), fv(math.Copysign(0, -1)), sv("-0.0"), sv("0x0"), sv("-0")}[rng.Below(6)]
	}
	if rng.Chance(30) {
		return a, randNum(rng), c
	}
	k := float64(rng.Below(50))
	jit := float64(int64(rng.Below(5)) - 2)
	af, _ := rt.ToFloat(a)
	cf, _ := rt.ToFloat(c)
	target := af + k*cf + jit*0.5
	if a.Type() == rt.IntType && c.Type() == rt.IntType && rng.Bool() {
		// exact integer arithmetic with wrap-around, to land near the overflow edge as well
		n := a.AsInt() + int64(k)*c.AsInt() + int64(jit)
		return a, iv(n), c
	}
	if rng.Bool() && target >= -9.3e18 && target <= 9.3e18 && target == math.Trunc(target) && math.Abs(target) < 9.2e18 {
		return a, iv(int64(target)), c
	}
	return a, fv(target), c
}

func main() {
	if len(os.Args) < 2 {
		fmt.Fprintln(os.Stderr, "usage: c16 lattice quick|thorough | random N | replay <mode> <a> <b> <c> | fadd N")
		os.Exit(2)
	}
	defer hlib.Out.Flush()
	e := newEnv()
	switch os.Args[1] {
	case "lattice":
		thorough := len(os.Args) > 2 && os.Args[2] == "thorough"
		level := 0
		if thorough {
			level = 1
		}
		vals := lattice(level)
		core := lattice(0)
		for _, a := range vals {
			for _, b := range vals {
				for _, c := range vals {
					e.runArgs("arg", a, b, c)
				}
			}
		}
		// the other renderings on the core lattice (quick) / the full one for arg2
		second := core
		if thorough {
			second = vals
		}
		for _, a := range second {
			for _, b := range second {
				e.runArgs("arg2", a, b, rt.NilValue)
			}
		}
		// body assignment and literal renderings: every second value of the core lattice in quick
		// (ints and floats alternate in it), the whole core lattice in thorough
		small := core
		if !thorough {
			small = nil
			for i, v := range core {
				if i%2 == 0 || i >= len(core)-4 {
					small = append(small, v)
				}
			}
		}
		for _, a := range small {
			for _, b := range small {
				for _, c := range small {
					e.runArgs("asg", a, b, c)
					e.runLit(a, b, c)
				}
			}
		}
		// a zero in every spelling, as step (an error whatever the other two are), as initial value, as limit
		zeros := []rt.Value{iv(0), fv(0), fv(math.Copysign(0, -1)), sv("0"), sv("-0"), sv("0.0"), sv("-0.0"), sv("0e0"),
			sv("-0x0p0"), sv("0x0"), sv(" -0.0 "), sv("-0e-5")}
		zab := core
		if !thorough {
			zab = nil
			for i, v := range small {
				if i%2 == 0 {
					zab = append(zab, v)
				}
			}
		}
		for _, z := range zeros {
			for _, a := range zab {
				for _, b := range zab {
					e.runArgs("arg", a, b, z)
					e.runArgs("arg", z, a, b)
					e.runArgs("arg", a, z, b)
					e.runLit(a, b, z)
				}
			}
		}
		// the control expressions in every syntactic shape ("evaluates its three expressions once")
		shapes := []rt.Value{iv(0), iv(1), iv(-1), iv(math.MaxInt64 - 1), fv(2.5), fv(math.Copysign(0, -1)),
			fv(math.NaN()), sv("2"), rt.NilValue}
		if thorough {
			shapes = append(shapes, iv(3), fv(1), fv(math.Inf(1)), sv("-0"), iv(-3), iv(math.MinInt64), fv(-1.5), fv(math.Ldexp(1, 63)), sv("0x10"), sv("1e1"), rt.BoolValue(true))
		}
		for _, mode := range extraOrder {
			for _, a := range shapes {
				for _, b := range shapes {
					for _, c := range shapes {
						e.runArgs(mode, a, b, c)
					}
				}
			}
		}
	case "random":
		n, _ := strconv.Atoi(os.Args[2])
		rng := hlib.NewRng(hlib.Seed())
		for i := 0; i < n; i++ {
			a, b, c := randTriple(rng)
			switch rng.Below(12) {
			case 8, 9, 10, 11:
				e.runArgs(extraOrder[rng.Below(len(extraOrder))], a, b, c)
			case 0:
				e.runArgs("asg", a, b, c)
			case 1:
				e.runLit(a, b, c)
			case 2:
				e.runArgs("arg2", a, b, rt.NilValue)
			default:
				e.runArgs("arg", a, b, c)
			}
		}
	case "fadd":
		// self-test lines for the oracle's float addition: `fadd x y = x+y` computed by the hardware
		n, _ := strconv.Atoi(os.Args[2])
		rng := hlib.NewRng(hlib.Seed() + 77)
		for i := 0; i < n; i++ {
			x, _ := rt.ToFloat(randNum(rng))
			y, _ := rt.ToFloat(randNum(rng))
			if rng.Chance(30) {
				y = -x * (1 + float64(rng.Below(3))*math.Ldexp(1, -52))
			}
			if rng.Chance(10) {
				x = math.Float64frombits(rng.Next())
				y = math.Float64frombits(rng.Next()&0x800fffffffffffff | x2exp(x, rng))
			}
			hlib.Emit("fadd", hlib.Enc(fv(x)), hlib.Enc(fv(y)), "=", hlib.Enc(fv(x+y)))
		}
	case "replay":
		if len(os.Args) < 6 {
			fmt.Fprintln(os.Stderr, "replay <mode> <a> <b> <c>")
			os.Exit(2)
		}
		dec := func(s string) rt.Value {
			if s == "-" {
				return rt.NilValue
			}
			if i := strings.IndexByte(s, '~'); i >= 0 {
				s = s[:i]
			}
			v, err := hlib.Dec(s)
			if err != nil {
				fmt.Fprintln(os.Stderr, err)
				os.Exit(2)
			}
			return v
		}
		a, b, c := dec(os.Args[3]), dec(os.Args[4]), dec(os.Args[5])
		if os.Args[2] == "lit" {
			e.runLit(a, b, c)
		} else {
			e.runArgs(os.Args[2], a, b, c)
		}
	default:
		fmt.Fprintln(os.Stderr, "unknown mode")
		os.Exit(2)
	}
}

// x2exp returns exponent bits close to those of x (so that the sum needs rounding).
func x2exp(x float64, rng *hlib.Rng) uint64 {
	e := int((math.Float64bits(x) >> 52) & 0x7ff)
	e += rng.Below(7) - 3
	if e < 0 {
		e = 0
	}
	if e > 2046 {
		e = 2046
	}
	return uint64(e) << 52
}
