// c10: correspondence harness for to-be-closed variables.  Generates programs of the
// mini-language of lean/GoluaVerif/Spec/Tbc.lean, renders them to Lua, runs them on the
// real golua pipeline and prints one line per case:
//
//	<variant> <prog> <handlers> = <event log> <clpush/cltrunc skeleton>
//
// variant:  pcall – the chunk body runs under pcall
//
//	co    – the chunk body is the body of a coroutine (errors end the coroutine: Thread.end path)
//	trail – as pcall, but goto labels are the last statement of their block where possible
//	        ("back labels" of astcomp/compstat.go); the skeleton is not compared for this variant
//	coclose – the body runs in a coroutine that is closed with coroutine.close at its first `Y`
//
// prog:     T<id> N Z M<n> B(..) L<n>(..) K G<k> R E<n> P(..) C(..) Y   (see Oracle/C10.lean)
// handlers: `-` or id:e[n|s],…
// events:   c<id>:<err> (a __close call), m<n> (a plain statement), p:<err> (result of the protected call)
// skeleton: the clpush / cltrunc h / jump / ret instructions of each function in program order, taken
//
//	from golua's own disassembly of the compiled unit.
package main

import (
	"bytes"
	"fmt"
	"os"
	"regexp"
	"runtime/debug"
	"runtime/pprof"
	"strconv"
	"strings"

	"github.com/arnodel/golua/code"
	rt "github.com/arnodel/golua/runtime"
	"verifharness/hlib"
)

// ---------------------------------------------------------------------------
// programs

type Prog struct {
	Op   byte // T N Z M B L F K G R E P C V Y   (F: Body[0] is the closing value T/N/Z)
	N    int
	S    int // rendering shape (F: how the iterator triple + closing value are supplied; L: 1 = repeat-until;
	// P: which function is given directly to pcall, see pShapes)
	Body []*Prog
}

func (p *Prog) String() string {
	switch p.Op {
	case 'T', 'M', 'G', 'E':
		return string(p.Op) + strconv.Itoa(p.N)
	case 'N', 'Z', 'K', 'R', 'Y':
		return string(p.Op)
	case 'L', 'F':
		sh := ""
		if p.S != 0 {
			sh = "_" + strconv.Itoa(p.S)
		}
		return string(p.Op) + strconv.Itoa(p.N) + sh + "(" + seqString(p.Body) + ")"
	}
	if p.Op == 'P' && p.S != 0 {
		return "P_" + strconv.Itoa(p.S) + "(" + seqString(p.Body) + ")"
	}
	return string(p.Op) + "(" + seqString(p.Body) + ")"
}

func seqString(ps []*Prog) string {
	ss := make([]string, len(ps))
	for i, p := range ps {
		ss[i] = p.String()
	}
	return strings.Join(ss, ",")
}

type renderer struct {
	sb     strings.Builder
	nvar   int
	nlabel int
	nrep   int
	trail  bool
	vf     *Prog            // the generic for of the current function that takes its values from `...`
	names  map[*Prog]string // variable name of every rendered to-be-closed declaration
}

// shapes of the expression list of a generic for (iterator, state, control, closing value):
const (
	fExplicit4 = iota // nxt, n, 0, CV
	fCall4            // four(nxt, n, 0, CV)                       all four out of one call
	fCall3            // nxt, four(n, 0, CV)                       the closing value out of a trailing call
	fUnpack           // table.unpack({nxt, n, 0, CV}, 1, 4)
	fMidCall          // nxt, n, four(0, mk(999)), CV              a call in the middle is cut to one value
	fVararg4          // ...            with nxt, n, 0, CV
	fVararg5          // ...            with nxt, n, 0, CV, "extra"
	fFVararg          // nxt, ...       with n, 0, CV
	fVararg3          // ...            with nxt, n, 0             (no closing value)
	fParen            // (four(iter(n), nil, nil, mk(999)))        cut to one value: nothing to close
	fExplicit3        // nxt, n, 0                                  (no closing value)
	fShapes
)

func isVarargShape(s int) bool { return s == fVararg4 || s == fVararg5 || s == fFVararg || s == fVararg3 }

// needsNoClosing: shapes that deliver no fourth value; only for a generic for whose closing value is nil
func needsNoClosing(s int) bool { return s == fVararg3 || s == fParen || s == fExplicit3 }

func closingExpr(f *Prog) string {
	switch f.Body[0].Op {
	case 'T':
		return fmt.Sprintf("mk(%d)", f.Body[0].N)
	case 'Z':
		return "42"
	}
	if f.N%2 == 0 {
		return "false"
	}
	return "nil"
}

// effShape: the shape actually used (a shape that cannot apply falls back to the explicit list)
func (r *renderer) effShape(f *Prog) int {
	s := f.S
	noClosing := f.Body[0].Op == 'N'
	if needsNoClosing(s) && !noClosing {
		s = fExplicit4
	}
	if isVarargShape(s) && r.vf != f {
		s = fExplicit4
	}
	return s
}

// findVarargF: the first generic for of this function body (not of nested functions) that wants `...`
func findVarargF(ps []*Prog) *Prog {
	for _, p := range ps {
		switch p.Op {
		case 'F':
			if isVarargShape(p.S) && !(needsNoClosing(p.S) && p.Body[0].Op != 'N') {
				return p
			}
			if f := findVarargF(p.Body[1:]); f != nil {
				return f
			}
		case 'B', 'L':
			if f := findVarargF(p.Body); f != nil {
				return f
			}
		}
	}
	return nil
}

// Shapes of a protected call: what is handed DIRECTLY to pcall / xpcall.  In all but the first the
// protected function is a Go library function (or a callable object) that calls back into Lua; the
// callback runs the body in a Lua function of its own, so `return` in the body means the same.  The
// to-be-closed variables pending in the callback when it raises must be closed, with the error, before
// pcall returns.
const (
	pLua       = iota // pcall(function() body end)
	pGsub             // pcall(string.gsub, "x", "x", callback)
	pSort             // pcall(table.sort, {2, 1}, comparator)        (the body runs in the first comparison)
	pTostring         // pcall(tostring, obj with __tostring)
	pIndex            // pcall(table.unpack, obj with __index, 1, 1)
	pXpcall           // xpcall(string.gsub, handler, "x", "x", callback)
	pCallable         // pcall(obj with __call)
	pLt               // pcall(table.sort, {o1, o2}) with __lt
	pWrap             // pcall(coroutine.wrap(function() body end))    (not with a yield in the body)
	pPcall            // pcall(pcall, function() body end)
	pShapes
)

func hasYield(ps []*Prog) bool {
	for _, p := range ps {
		if p.Op == 'Y' || hasYield(p.Body) {
			return true
		}
	}
	return false
}

func (r *renderer) pcall(p *Prog) {
	w := &r.sb
	shape := p.S
	if shape == pWrap && hasYield(p.Body) {
		shape = pGsub
	}
	// inner renders `(function(...) body end)(args)`, the call of the body's own function
	inner := func() {
		w.WriteString("(")
		args := r.function(p.Body, false)
		w.WriteString(")(" + args + ")")
	}
	switch shape {
	case pLua:
		w.WriteString("do local ok, e = pcall(")
		args := r.function(p.Body, true)
		w.WriteString(args + ") caught(ok, e) end\n")
	case pGsub:
		w.WriteString("do local ok, e = pcall(string.gsub, 'x', 'x', function() ")
		inner()
		w.WriteString(" end) caught(ok, e) end\n")
	case pXpcall:
		w.WriteString("do local ok, e = xpcall(string.gsub, function(m) return m end, 'x', 'x', function() ")
		inner()
		w.WriteString(" end) caught(ok, e) end\n")
	case pSort:
		w.WriteString("do local done = false local ok, e = pcall(table.sort, {2, 1}, function() if done then return false end done = true ")
		inner()
		w.WriteString(" return false end) caught(ok, e) end\n")
	case pLt:
		w.WriteString("do local done = false local mt = {__lt = function() if done then return false end done = true ")
		inner()
		w.WriteString(" return false end} local ok, e = pcall(table.sort, {setmetatable({}, mt), setmetatable({}, mt)}) caught(ok, e) end\n")
	case pTostring:
		w.WriteString("do local ok, e = pcall(tostring, setmetatable({}, {__tostring = function() ")
		inner()
		w.WriteString(" return 's' end})) caught(ok, e) end\n")
	case pIndex:
		w.WriteString("do local ok, e = pcall(table.unpack, setmetatable({}, {__index = function() ")
		inner()
		w.WriteString(" end}), 1, 1) caught(ok, e) end\n")
	case pCallable:
		w.WriteString("do local ok, e = pcall(setmetatable({}, {__call = function() ")
		inner()
		w.WriteString(" end})) caught(ok, e) end\n")
	case pWrap:
		w.WriteString("do local ok, e = pcall(coroutine.wrap(")
		args := r.function(p.Body, true)
		w.WriteString(")" + args + ") caught(ok, e) end\n")
	case pPcall:
		w.WriteString("do local ok, ok2, e = pcall(pcall, ")
		args := r.function(p.Body, true)
		w.WriteString(args + ") if ok then caught(ok2, e) else caught(ok, ok2) end end\n")
	}
}

func hasShapedPcall(ps []*Prog) bool {
	for _, p := range ps {
		if (p.Op == 'P' && p.S != 0) || hasShapedPcall(p.Body) {
			return true
		}
	}
	return false
}

// function renders `function(...) body end` and returns the argument list the call must pass (with a
// leading ", " when `lead`), so that a generic for inside can take its four values from `...`
func (r *renderer) function(body []*Prog, lead bool) string {
	prev := r.vf
	r.vf = findVarargF(body)
	args := ""
	if f := r.vf; f != nil {
		r.sb.WriteString("function(...)\n")
		switch f.S {
		case fVararg4:
			args = fmt.Sprintf("nxt, %d, 0, %s", f.N, closingExpr(f))
		case fVararg5:
			args = fmt.Sprintf("nxt, %d, 0, %s, 'extra'", f.N, closingExpr(f))
		case fFVararg:
			args = fmt.Sprintf("%d, 0, %s", f.N, closingExpr(f))
		case fVararg3:
			args = fmt.Sprintf("nxt, %d, 0", f.N)
		}
		if lead {
			args = ", " + args
		}
	} else {
		r.sb.WriteString("function()\n")
	}
	r.seq(body, nil)
	r.sb.WriteString("end")
	r.vf = prev
	return args
}

// render writes the statements of seq; labels[i] is the label name standing after the i-th enclosing
// block (innermost first), "" if none has been allocated yet (allocated on demand through *string).
func (r *renderer) seq(ps []*Prog, labels []*string) {
	for _, p := range ps {
		r.stat(p, labels)
	}
}

func (r *renderer) blockWithLabel(open, close string, body []*Prog, labels []*string) {
	var lbl string
	r.sb.WriteString(open)
	r.seq(body, append([]*string{&lbl}, labels...))
	r.sb.WriteString(close)
	if lbl != "" {
		r.sb.WriteString(" ::" + lbl + "::")
		if !r.trail {
			r.sb.WriteString(" do end")
		}
	}
	r.sb.WriteString("\n")
}

func (r *renderer) stat(p *Prog, labels []*string) {
	w := &r.sb
	switch p.Op {
	case 'T':
		r.nvar++
		if r.names == nil {
			r.names = map[*Prog]string{}
		}
		r.names[p] = fmt.Sprintf("v%d", r.nvar)
		switch r.nvar % 3 {
		case 1:
			// <const> and <close> in one statement, either order
			fmt.Fprintf(w, "local k%d <const>, v%d <close> = 0, mk(%d)\n", r.nvar, r.nvar, p.N)
		case 2:
			fmt.Fprintf(w, "local v%d <close>, k%d <const> = mk(%d), 0\n", r.nvar, r.nvar, p.N)
		default:
			fmt.Fprintf(w, "local v%d <close> = mk(%d)\n", r.nvar, p.N)
		}
	case 'N':
		r.nvar++
		if r.nvar%2 == 0 {
			fmt.Fprintf(w, "local v%d <close> = nil\n", r.nvar)
		} else {
			fmt.Fprintf(w, "local v%d <close> = false\n", r.nvar)
		}
	case 'Z':
		r.nvar++
		fmt.Fprintf(w, "local v%d <close> = 42\n", r.nvar)
	case 'M':
		fmt.Fprintf(w, "mark(%d)\n", p.N)
	case 'B':
		r.blockWithLabel("do\n", "end", p.Body, labels)
	case 'L':
		if p.S == 1 {
			// repeat … until: the body's locals are visible in the condition, which runs before they are
			// closed; a trailing plain statement of the body is moved into the condition
			r.nrep++
			it := fmt.Sprintf("it%d", r.nrep)
			body, k := p.Body, "nil"
			if n := len(body); n > 0 && body[n-1].Op == 'M' {
				k = strconv.Itoa(body[n-1].N)
				body = body[:n-1]
			}
			var seen *Prog
			for _, q := range body {
				if q.Op == 'T' {
					seen = q
				}
			}
			open := fmt.Sprintf("do local %s = 0 repeat %s = %s + 1\n", it, it, it)
			var lbl string
			w.WriteString(open)
			r.seq(body, append([]*string{&lbl}, labels...))
			v := "nil"
			if seen != nil {
				v = r.names[seen]
			}
			fmt.Fprintf(w, "until rcond(%s, %s >= %d, %s) end", k, it, p.N, v)
			if lbl != "" {
				w.WriteString(" ::" + lbl + "::")
				if !r.trail {
					w.WriteString(" do end")
				}
			}
			w.WriteString("\n")
			return
		}
		r.blockWithLabel(fmt.Sprintf("for _ = 1, %d do\n", p.N), "end", p.Body, labels)
	case 'F':
		// generic for with a closing value: two levels for goto indices (the body, the implicit block that
		// holds the closing value); both labels stand right after the loop.  The four values are supplied
		// through the expression-list shape p.S.
		cv := closingExpr(p)
		var list string
		switch r.effShape(p) {
		case fExplicit4:
			list = fmt.Sprintf("nxt, %d, 0, %s", p.N, cv)
		case fCall4:
			list = fmt.Sprintf("four(nxt, %d, 0, %s)", p.N, cv)
		case fCall3:
			list = fmt.Sprintf("nxt, four(%d, 0, %s)", p.N, cv)
		case fUnpack:
			list = fmt.Sprintf("table.unpack({nxt, %d, 0, %s}, 1, 4)", p.N, cv)
		case fMidCall:
			list = fmt.Sprintf("nxt, %d, four(0, mk(999)), %s", p.N, cv)
		case fVararg4, fVararg5, fVararg3:
			list = "..."
		case fFVararg:
			list = "nxt, ..."
		case fParen:
			list = fmt.Sprintf("(four(iter(%d), nil, nil, mk(999)))", p.N)
		case fExplicit3:
			list = fmt.Sprintf("nxt, %d, 0", p.N)
		}
		var lbl string
		fmt.Fprintf(w, "for _ in %s do\n", list)
		r.seq(p.Body[1:], append([]*string{&lbl, &lbl}, labels...))
		w.WriteString("end")
		if lbl != "" {
			w.WriteString(" ::" + lbl + "::")
			if !r.trail {
				w.WriteString(" do end")
			}
		}
		w.WriteString("\n")
	case 'V':
		w.WriteString("do return (")
		args := r.function(p.Body, false)
		w.WriteString(")(" + args + ") end\n")
	case 'K':
		w.WriteString("break\n")
	case 'G':
		if p.N >= len(labels) {
			w.WriteString("goto nowhere\n")
			return
		}
		l := labels[p.N]
		if *l == "" {
			r.nlabel++
			*l = "L" + strconv.Itoa(r.nlabel)
		}
		fmt.Fprintf(w, "goto %s\n", *l)
	case 'R':
		w.WriteString("do return end\n")
	case 'E':
		fmt.Fprintf(w, "error(%d, 0)\n", p.N)
	case 'Y':
		w.WriteString("coroutine.yield()\n")
	case 'P':
		r.pcall(p)
	case 'C':
		w.WriteString(";(")
		args := r.function(p.Body, false)
		w.WriteString(")(" + args + ")\n")
	}
}

func render(variant string, body []*Prog) string {
	r := &renderer{trail: variant == "trail"}
	switch variant {
	case "pcall", "trail":
		r.sb.WriteString("local ok, e = pcall(")
		args := r.function(body, true)
		r.sb.WriteString(args + ") caught(ok, e)\n")
	case "co":
		r.sb.WriteString("local co = coroutine.create(")
		args := r.function(body, true)
		r.sb.WriteString(") local ok, e = coroutine.resume(co" + args + ") caught(ok, e)\n")
	case "coclose":
		r.sb.WriteString("local co = coroutine.create(")
		args := r.function(body, true)
		r.sb.WriteString(") local ok, e = coroutine.resume(co" + args + ")\n")
		r.sb.WriteString("if coroutine.status(co) == 'suspended' then closed(coroutine.close(co)) else caught(ok, e) end\n")
	}
	return r.sb.String()
}

// ---------------------------------------------------------------------------
// running

type handler struct{ err, mode int }

type env struct {
	r        *rt.Runtime
	log      []string
	handlers map[int]handler
}

func encErr(v rt.Value) string {
	switch v.Type() {
	case rt.NilType:
		return "n"
	case rt.IntType:
		return "u" + strconv.FormatInt(v.AsInt(), 10)
	case rt.StringType:
		if strings.Contains(v.AsString(), "__close") {
			return "x"
		}
		return "?" + hlib.Hex(v.AsString())
	}
	return "?" + v.TypeName()
}

func newEnv() *env {
	r, _ := hlib.NewRuntime(os.Stderr)
	e := &env{r: r}
	g := r.GlobalEnv()
	r.SetEnvGoFunc(g, "rec_close", func(t *rt.Thread, c *rt.GoCont) (rt.Cont, error) {
		id := int(c.Arg(0).AsInt())
		arg := c.Arg(1)
		e.log = append(e.log, "c"+strconv.Itoa(id)+":"+encErr(arg))
		next := c.Next()
		if h, ok := e.handlers[id]; ok && (h.mode == 0 || (h.mode == 1 && arg.IsNil()) || (h.mode == 2 && !arg.IsNil())) {
			t.Push1(next, rt.IntValue(int64(h.err)))
		} else {
			t.Push1(next, rt.NilValue)
		}
		return next, nil
	}, 2, false)
	r.SetEnvGoFunc(g, "mark", func(t *rt.Thread, c *rt.GoCont) (rt.Cont, error) {
		e.log = append(e.log, "m"+strconv.FormatInt(c.Arg(0).AsInt(), 10))
		return c.Next(), nil
	}, 1, false)
	r.SetEnvGoFunc(g, "rcond", func(t *rt.Thread, c *rt.GoCont) (rt.Cont, error) {
		// condition of a repeat-until: logs the plain statement k (if any), sees the body's variable v
		if !c.Arg(0).IsNil() {
			e.log = append(e.log, "m"+strconv.FormatInt(c.Arg(0).AsInt(), 10))
		}
		next := c.Next()
		t.Push1(next, rt.BoolValue(rt.Truth(c.Arg(1))))
		return next, nil
	}, 3, false)
	r.SetEnvGoFunc(g, "caught", func(t *rt.Thread, c *rt.GoCont) (rt.Cont, error) {
		if rt.Truth(c.Arg(0)) {
			e.log = append(e.log, "p:n")
		} else {
			e.log = append(e.log, "p:"+encErr(c.Arg(1)))
		}
		return c.Next(), nil
	}, 2, false)
	r.SetEnvGoFunc(g, "closed", func(t *rt.Thread, c *rt.GoCont) (rt.Cont, error) {
		if rt.Truth(c.Arg(0)) {
			e.log = append(e.log, "k:n")
		} else {
			e.log = append(e.log, "k:"+encErr(c.Arg(1)))
		}
		return c.Next(), nil
	}, 2, false)
	prelude := `
function iter(n)
  local i = 0
  return function() i = i + 1 if i <= n then return i end end
end
function nxt(n, i) if i < n then return i + 1 end end
function four(...) return ... end
function mk(id)
  return setmetatable({}, {__close = function(_, e)
    local r = rec_close(id, e)
    if r then error(r, 0) end
  end})
end`
	cl, err := hlib.Load(r, "prelude", prelude)
	if err != nil {
		fmt.Fprintln(os.Stderr, "prelude:", err)
		os.Exit(2)
	}
	if class, _, msg := hlib.PCall(r, rt.FunctionValue(cl)); class != hlib.OK {
		fmt.Fprintln(os.Stderr, "prelude:", msg)
		os.Exit(2)
	}
	return e
}

var (
	reConst = regexp.MustCompile(`^K(\d+) = function .* \[(\d+) - (\d+)\]$`)
	reCode  = regexp.MustCompile(`^\s*-?\d+\s+.*?\s(\d+)\s+[0-9a-f]{8}\s+(.*)$`)
	reClos  = regexp.MustCompile(`clos\(K(\d+)\)`)
)

// skeleton extracts, from golua's disassembly of the unit, the close-stack instructions of every
// function, nested as  [ own… [child…] [child…] ].
func skeleton(unit *code.Unit) string {
	var buf bytes.Buffer
	unit.Disassemble(&buf)
	type span struct{ start, end int }
	spans := map[int]span{}
	code := map[int]string{}
	for _, line := range strings.Split(buf.String(), "\n") {
		if m := reConst.FindStringSubmatch(line); m != nil {
			k, _ := strconv.Atoi(m[1])
			s, _ := strconv.Atoi(m[2])
			e, _ := strconv.Atoi(m[3])
			spans[k] = span{s, e}
			continue
		}
		if m := reCode.FindStringSubmatch(line); m != nil {
			i, _ := strconv.Atoi(m[1])
			code[i] = m[2]
		}
	}
	var walk func(k int) []string
	walk = func(k int) []string {
		out := []string{"["}
		var kids []int
		sp := spans[k]
		for i := sp.start; i <= sp.end; i++ {
			ins := code[i]
			switch {
			case strings.HasPrefix(ins, "clpush"):
				out = append(out, "push")
			case strings.HasPrefix(ins, "cltrunc "):
				out = append(out, "trunc"+strings.TrimPrefix(ins, "cltrunc "))
			case strings.HasPrefix(ins, "jump +"):
				// forward jumps are break/goto; the backward jump of a generic for is the loop itself
				out = append(out, "jump")
			case ins == "tailcall r0":
				out = append(out, "ret")
			case strings.HasPrefix(ins, "tailcall "):
				out = append(out, "tcall")
			}
			if m := reClos.FindStringSubmatch(ins); m != nil {
				kk, _ := strconv.Atoi(m[1])
				kids = append(kids, kk)
			}
		}
		for _, kk := range kids {
			out = append(out, walk(kk)...)
		}
		return append(out, "]")
	}
	// K0 is the main chunk
	return strings.Join(walk(0), ",")
}

func (e *env) run(variant string, body []*Prog, hs map[int]handler) {
	e.log = e.log[:0]
	e.handlers = hs
	src := render(variant, body)
	status := ""
	unit, sz, err := e.r.CompileLuaChunk("c10", []byte(src))
	if err != nil {
		status = "compile-error"
	} else {
		e.r.ReleaseMem(sz)
		cl := e.r.LoadLuaUnit(unit, rt.TableValue(e.r.GlobalEnv()))
		class, _, _ := hlib.PCall(e.r, rt.FunctionValue(cl))
		switch class {
		case hlib.PANIC, hlib.KILLED:
			status = "P"
		case hlib.ERR:
			status = "escaped"
		}
	}
	log := strings.Join(e.log, ",")
	if status != "" {
		if log != "" {
			log += ","
		}
		log += "!" + status
	}
	if log == "" {
		log = "-"
	}
	sk := "-"
	if variant == "pcall" && status != "compile-error" && !hasShapedPcall(body) {
		// (a shaped protected call wraps the body in one more Lua function: the skeleton is then not compared)
		sk = skeleton(unit)
	}
	hlib.Emit(variant, seqString(body), handlersString(hs), "=", log, sk)
}

func handlersString(hs map[int]handler) string {
	if len(hs) == 0 {
		return "-"
	}
	var parts []string
	for id := 0; id < 64; id++ {
		if h, ok := hs[id]; ok {
			s := strconv.Itoa(id) + ":" + strconv.Itoa(h.err)
			switch h.mode {
			case 1:
				s += "n"
			case 2:
				s += "s"
			}
			parts = append(parts, s)
		}
	}
	return strings.Join(parts, ",")
}

// ---------------------------------------------------------------------------
// parsing (replay)

func parseSeq(s string, i int) ([]*Prog, int, error) {
	var out []*Prog
	for i < len(s) {
		switch c := s[i]; c {
		case ')':
			return out, i + 1, nil
		case ',':
			i++
		case 'N', 'Z', 'K', 'R', 'Y':
			out = append(out, &Prog{Op: c})
			i++
		case 'T', 'M', 'G', 'E', 'L', 'F':
			j := i + 1
			for j < len(s) && s[j] >= '0' && s[j] <= '9' {
				j++
			}
			n, err := strconv.Atoi(s[i+1 : j])
			if err != nil {
				return nil, 0, fmt.Errorf("number expected at %d", i+1)
			}
			shape := 0
			if (c == 'L' || c == 'F') && j < len(s) && s[j] == '_' {
				k := j + 1
				for k < len(s) && s[k] >= '0' && s[k] <= '9' {
					k++
				}
				shape, _ = strconv.Atoi(s[j+1 : k])
				j = k
			}
			if c == 'L' || c == 'F' {
				if j >= len(s) || s[j] != '(' {
					return nil, 0, fmt.Errorf("( expected at %d", j)
				}
				body, k, err := parseSeq(s, j+1)
				if err != nil {
					return nil, 0, err
				}
				out = append(out, &Prog{Op: c, N: n, S: shape, Body: body})
				i = k
			} else {
				out = append(out, &Prog{Op: c, N: n})
				i = j
			}
		case 'B', 'P', 'C', 'V':
			shape := 0
			if c == 'P' && i+1 < len(s) && s[i+1] == '_' {
				k := i + 2
				for k < len(s) && s[k] >= '0' && s[k] <= '9' {
					k++
				}
				shape, _ = strconv.Atoi(s[i+2 : k])
				i = k - 1
			}
			if i+1 >= len(s) || s[i+1] != '(' {
				return nil, 0, fmt.Errorf("( expected at %d", i+1)
			}
			body, k, err := parseSeq(s, i+2)
			if err != nil {
				return nil, 0, err
			}
			out = append(out, &Prog{Op: c, S: shape, Body: body})
			i = k
		default:
			return nil, 0, fmt.Errorf("unexpected %q at %d", c, i)
		}
	}
	return out, i, nil
}

func parseHandlers(s string) map[int]handler {
	hs := map[int]handler{}
	if s == "-" || s == "" {
		return hs
	}
	for _, item := range strings.Split(s, ",") {
		ab := strings.SplitN(item, ":", 2)
		if len(ab) != 2 {
			continue
		}
		id, _ := strconv.Atoi(ab[0])
		mode := 0
		b := ab[1]
		if strings.HasSuffix(b, "n") {
			mode, b = 1, b[:len(b)-1]
		} else if strings.HasSuffix(b, "s") {
			mode, b = 2, b[:len(b)-1]
		}
		n, _ := strconv.Atoi(b)
		hs[id] = handler{n, mode}
	}
	return hs
}

// ---------------------------------------------------------------------------
// generation

func T(id int) *Prog           { return &Prog{Op: 'T', N: id} }
func M(n int) *Prog            { return &Prog{Op: 'M', N: n} }
func op(c byte) *Prog          { return &Prog{Op: c} }
func opn(c byte, n int) *Prog  { return &Prog{Op: c, N: n} }
func comp(c byte, n int, body []*Prog) *Prog {
	return &Prog{Op: c, N: n, Body: body}
}

// chain programs: kinds[0] is the outermost construct.  At every level:
//
//	[pre tbc] M  CONSTRUCT(…)  M [post tbc] [exit] M
//
// and in the innermost body:  [pre tbc] M [exit] M.
type chain struct {
	kinds     []byte // B L P C
	pre       []int  // len = depth+1: 0 none, 1 obj, 2 nil
	post      []int  // len = depth: 0 none, 1 obj
	exitLevel int    // level at which the exit statement stands (depth = innermost)
	exit      *Prog  // nil = none
	trailing  bool   // nothing follows the nested construct at any level (labels become "back labels")
	seed      int    // selects the rendering shapes of the loops of this chain
}

func (c *chain) build() ([]*Prog, []int) {
	id := 0
	mark := 0
	var ids []int
	var level func(l int) []*Prog
	level = func(l int) []*Prog {
		var out []*Prog
		switch c.pre[l] {
		case 1:
			id++
			ids = append(ids, id)
			out = append(out, T(id))
		case 2:
			out = append(out, op('N'))
		}
		mark++
		out = append(out, M(mark))
		if l < len(c.kinds) {
			n := 0
			if c.kinds[l] == 'L' || c.kinds[l] == 'F' {
				n = 2
			}
			inner := level(l + 1)
			shape := 0
			if c.kinds[l] == 'F' {
				// the closing value of the generic for, supplied through one of the expression-list shapes
				shape = (c.seed + 3*l) % fShapes
				if needsNoClosing(shape) {
					inner = append([]*Prog{op('N')}, inner...)
				} else {
					id++
					ids = append(ids, id)
					inner = append([]*Prog{T(id)}, inner...)
				}
			}
			if c.kinds[l] == 'L' && (c.seed+l)%3 == 0 {
				shape = 1 // repeat-until
			}
			if c.kinds[l] == 'P' && (c.seed+l)%2 == 0 {
				shape = 1 + (c.seed/2+l)%(pShapes-1) // a Go function handed to pcall, calling back
			}
			q := comp(c.kinds[l], n, inner)
			q.S = shape
			out = append(out, q)
			if c.trailing {
				return out
			}
			mark++
			out = append(out, M(mark))
			if c.post[l] == 1 {
				id++
				ids = append(ids, id)
				out = append(out, T(id))
			}
		}
		if c.exitLevel == l && c.exit != nil {
			out = append(out, c.exit)
		}
		mark++
		out = append(out, M(mark))
		return out
	}
	return level(0), ids
}

// exits valid at level l of the chain: break needs an enclosing loop within the same function,
// goto k needs k+1 enclosing blocks/loop bodies within the same function.
func (c *chain) exitsAt(l int) []*Prog {
	out := []*Prog{nil, op('R'), opn('E', 90), op('Z'), op('Y'), comp('V', 0, []*Prog{M(99)})}
	// goto levels seen from level l, innermost first; a generic for counts twice (its body, the implicit
	// block holding the closing value) and its body level cannot be named by a Lua label
	var allowed []bool
	inLoop := false
	for i := l - 1; i >= 0; i-- {
		k := c.kinds[i]
		if k == 'P' || k == 'C' {
			break
		}
		if k == 'F' {
			allowed = append(allowed, false, true)
		} else {
			allowed = append(allowed, true)
		}
		if k == 'L' || k == 'F' {
			inLoop = true
		}
	}
	if inLoop {
		out = append(out, op('K'))
	}
	for k, ok := range allowed {
		if ok {
			out = append(out, opn('G', k))
		}
	}
	return out
}

func handlerConfigs(ids []int, rich bool) []map[int]handler {
	out := []map[int]handler{{}}
	for _, id := range ids {
		out = append(out, map[int]handler{id: {50 + id, 0}})
		if rich {
			out = append(out, map[int]handler{id: {50 + id, 1}}, map[int]handler{id: {50 + id, 2}})
		}
	}
	if len(ids) >= 2 {
		all := map[int]handler{}
		for _, id := range ids {
			all[id] = handler{50 + id, 0}
		}
		out = append(out, all)
		out = append(out, map[int]handler{ids[0]: {50 + ids[0], 0}, ids[len(ids)-1]: {50 + ids[len(ids)-1], 2}})
	}
	return out
}

func enumChains(maxDepth, maxTbc int, emit func(c *chain)) {
	kinds := []byte{'B', 'L', 'P', 'C', 'F'}
	var rec func(d int, ks []byte)
	rec = func(d int, ks []byte) {
		// all pre/post assignments
		npre, npost := len(ks)+1, len(ks)
		total := 1
		for i := 0; i < npre; i++ {
			total *= 3
		}
		for i := 0; i < npost; i++ {
			total *= 2
		}
		for code := 0; code < total; code++ {
			x := code
			pre := make([]int, npre)
			post := make([]int, npost)
			cnt := 0
			for i := range pre {
				pre[i] = x % 3
				x /= 3
				if pre[i] != 0 {
					cnt++
				}
			}
			for i := range post {
				post[i] = x % 2
				x /= 2
				cnt += post[i]
			}
			if cnt > maxTbc || cnt == 0 {
				continue
			}
			c := &chain{kinds: append([]byte(nil), ks...), pre: pre, post: post}
			for l := 0; l <= len(ks); l++ {
				for _, ex := range c.exitsAt(l) {
					if ex == nil && l > 0 {
						continue // "no exit" once
					}
					cc := *c
					cc.exitLevel, cc.exit = l, ex
					emit(&cc)
				}
			}
		}
		if d == maxDepth {
			return
		}
		for _, k := range kinds {
			rec(d+1, append(ks, k))
		}
	}
	rec(0, nil)
}

// random programs: recursive, wider than the chains (several constructs per sequence, yields)
type rgen struct {
	rng   *hlib.Rng
	id    int
	mark  int
	ids   []int
	yield bool
}

func (g *rgen) seq(depth int, levels []bool, inLoop bool) []*Prog {
	n := 1 + g.rng.Below(4)
	var out []*Prog
	for i := 0; i < n; i++ {
		switch r := g.rng.Below(20); {
		case r < 5 && len(g.ids) < 5:
			g.id++
			g.ids = append(g.ids, g.id)
			out = append(out, T(g.id))
		case r == 5:
			out = append(out, op('N'))
		case r < 8:
			g.mark++
			out = append(out, M(g.mark))
		case r < 13 && depth > 0:
			k := []byte{'B', 'L', 'P', 'C', 'B', 'L', 'F', 'V'}[g.rng.Below(8)]
			switch k {
			case 'B':
				out = append(out, comp('B', 0, g.seq(depth-1, append([]bool{true}, levels...), inLoop)))
			case 'L':
				q := comp('L', 1+g.rng.Below(2), g.seq(depth-1, append([]bool{true}, levels...), true))
				if g.rng.Below(3) == 0 {
					q.S = 1
				}
				out = append(out, q)
			case 'F':
				var cv *Prog
				shape := g.rng.Below(fShapes)
				switch {
				case needsNoClosing(shape) || g.rng.Below(8) == 0:
					cv = op('N')
				case g.rng.Below(12) == 0:
					cv = op('Z')
				default:
					g.id++
					g.ids = append(g.ids, g.id)
					cv = T(g.id)
				}
				body := g.seq(depth-1, append([]bool{false, true}, levels...), true)
				q := comp('F', 1+g.rng.Below(2), append([]*Prog{cv}, body...))
				q.S = shape
				out = append(out, q)
			default:
				q := comp(k, 0, g.seq(depth-1, nil, false))
				if k == 'P' && g.rng.Below(2) == 0 {
					q.S = 1 + g.rng.Below(pShapes-1)
				}
				out = append(out, q)
			}
		case r == 13:
			out = append(out, op('R'))
		case r == 14:
			out = append(out, opn('E', 90+g.rng.Below(3)))
		case r == 15 && inLoop:
			out = append(out, op('K'))
		case r == 16 && len(levels) > 0:
			if k := g.rng.Below(len(levels)); levels[k] {
				out = append(out, opn('G', k))
			}
		case r == 17 && g.rng.Chance(30):
			out = append(out, op('Z'))
		case r == 18 && g.yield:
			out = append(out, op('Y'))
		default:
			g.mark++
			out = append(out, M(g.mark))
		}
	}
	return out
}

// static cases: shapes that the mini-language does not generate; the expected event log is written down
// here from the manual (`~` = any error object, its text is not prescribed).
type staticCase struct{ name, src, expect string }

const rmPrelude = `
local function gone(id)   -- a closable value whose __close is removed after the declaration
  local v = mk(id)
  return v, function() getmetatable(v).__close = nil end
end
`

var staticCases = []staticCase{
	// manual 3.3.7: "A list of variables can contain at most one to-be-closed variable"
	{"multiclose-rejected", `mark(load("local a <close>, b <close> = nil, nil") and 1 or 0)`, "m0"},
	{"multiclose-rejected-values", `mark(load("local a <close>, b <close> = mk(1), mk(2)") and 1 or 0)`, "m0"},
	{"close-const-accepted", `mark(load("local a <const>, b <close>, c <const> = 1, nil, 3") and 1 or 0)`, "m1"},
	// __close is looked up in the metatable itself (raw), not through the metatable's __index
	{"close-not-inherited", `local ok, e = pcall(function()
  local x <close> = setmetatable({}, setmetatable({}, {__index = {__close = function() mark(666) end}}))
  mark(1)
end) caught(ok, e)`, "p:x"},
	{"close-in-metatable-with-index", `local ok, e = pcall(function()
  local mt = setmetatable({__close = function(_, e) rec_close(5, e) end}, {__index = {__close = function() mark(666) end}})
  local x <close> = setmetatable({}, mt)
  mark(1)
end) caught(ok, e)`, "m1,c5:n,p:n"},
	// __close replaced after the declaration: the one present at exit time is called
	{"close-replaced", `local ok, e = pcall(function()
  local v = mk(1)
  local x <close> = v
  getmetatable(v).__close = function(_, e) rec_close(2, e) end
end) caught(ok, e)`, "c2:n,p:n"},
	// __close removed after the declaration: an error at exit time, the other pending values are still closed
	{"removed-normal-exit", rmPrelude + `local ok, e = pcall(function()
  local a <close> = mk(1)
  local v, rm = gone(2)
  local b <close> = v
  rm() mark(1)
end) caught(ok, e)`, "m1,c1:~,p:~"},
	{"removed-error-exit", rmPrelude + `local ok, e = pcall(function()
  local a <close> = mk(1)
  local v, rm = gone(2)
  local b <close> = v
  rm() error(7, 0)
end) caught(ok, e) mark(9)`, "c1:~,p:~,m9"},
	{"removed-return", rmPrelude + `local ok, e = pcall(function()
  local a <close> = mk(1)
  local v, rm = gone(2)
  local b <close> = v
  rm() do return end
end) caught(ok, e) mark(9)`, "c1:~,p:~,m9"},
	{"removed-break", rmPrelude + `local ok, e = pcall(function()
  local a <close> = mk(1)
  for _ = 1, 2 do
    local c <close> = mk(3)
    local v, rm = gone(2)
    local b <close> = v
    rm() break
  end
end) caught(ok, e) mark(9)`, "c3:~,c1:~,p:~,m9"},
	{"removed-error-in-coroutine", rmPrelude + `local co = coroutine.create(function()
  local a <close> = mk(1)
  local v, rm = gone(2)
  local b <close> = v
  rm() error(7, 0)
end)
local ok, e = coroutine.resume(co) caught(ok, e) mark(9)`, "c1:~,p:~,m9"},
	{"removed-coroutine-close", rmPrelude + `local co = coroutine.create(function()
  local a <close> = mk(1)
  local v, rm = gone(2)
  local b <close> = v
  rm() coroutine.yield()
end)
coroutine.resume(co) closed(coroutine.close(co)) mark(9)`, "c1:~,k:~,m9"},
	{"removed-middle-of-three", rmPrelude + `local ok, e = pcall(function()
  local a <close> = mk(1)
  local v, rm = gone(2)
  local b <close> = v
  local c <close> = mk(3)
  rm() error(7, 0)
end) caught(ok, e) mark(9)`, "c3:u7,c1:~,p:~,m9"},
	// goto out of nested loops of different kinds, closing on the way
	{"goto-out-of-nested-loops", `local ok, e = pcall(function()
  local a <close> = mk(1)
  for _ = 1, 2 do
    local b <close> = mk(2)
    while true do
      local c <close> = mk(3)
      repeat
        local d <close> = mk(4)
        goto out
      until true
    end
  end
  ::out:: mark(1)
end) caught(ok, e)`, "c4:n,c3:n,c2:n,m1,c1:n,p:n"},
	// continue-style goto to the end of the enclosing loop body closes only the body's variables
	{"goto-continue", `local ok, e = pcall(function()
  local a <close> = mk(1)
  for i = 1, 2 do
    local b <close> = mk(2)
    do
      local c <close> = mk(3)
      goto continue
    end
    mark(666)
    ::continue::
  end
  mark(1)
end) caught(ok, e)`, "c3:n,c2:n,c3:n,c2:n,m1,c1:n,p:n"},
	// backward goto out of the scope of a to-be-closed variable closes it every time round
	{"goto-backward", `local ok, e = pcall(function()
  local n = 0
  ::top::
  do
    local b <close> = mk(2)
    n = n + 1
    if n < 3 then goto top end
  end
  mark(1)
end) caught(ok, e)`, "c2:n,c2:n,c2:n,m1,p:n"},
	// a to-be-closed variable of a while loop whose condition is re-evaluated
	{"while-loop", `local ok, e = pcall(function()
  local n = 0
  while n < 2 do
    local b <close> = mk(2)
    n = n + 1
  end
end) caught(ok, e)`, "c2:n,c2:n,p:n"},
	// the value returned by a function with a pending close is computed before the close runs
	{"return-value-before-close", `local ok, e = pcall(function()
  local function f()
    local x = 1
    local b <close> = setmetatable({}, {__close = function() x = 2 rec_close(2, nil) end})
    return x
  end
  mark(f())
end) caught(ok, e)`, "c2:n,m1,p:n"},
	// a method call in tail position with a pending close is not a tail call either
	{"method-tail-call", `local ok, e = pcall(function()
  local o = {m = function(self) mark(1) end}
  local function f() local b <close> = mk(2) return o:m() end
  f() mark(3)
end) caught(ok, e)`, "m1,c2:n,m3,p:n"},
}

func (e *env) runStatic(sc staticCase) {
	e.log = e.log[:0]
	e.handlers = nil
	status := ""
	cl, err := hlib.Load(e.r, "c10static", sc.src)
	if err != nil {
		status = "compile-error"
	} else {
		class, _, _ := hlib.PCall(e.r, rt.FunctionValue(cl))
		switch class {
		case hlib.PANIC, hlib.KILLED:
			status = "P"
		case hlib.ERR:
			status = "escaped"
		}
	}
	log := strings.Join(e.log, ",")
	if status != "" {
		if log != "" {
			log += ","
		}
		log += "!" + status
	}
	if log == "" {
		log = "-"
	}
	hlib.Emit("static", sc.name, sc.expect, "=", log, "-")
}

func main() {
	if os.Getenv("C10PROF") != "" {
		f, _ := os.Create(os.Getenv("C10PROF"))
		pprof.StartCPUProfile(f)
		defer pprof.StopCPUProfile()
	}
	if len(os.Args) < 2 {
		fmt.Fprintln(os.Stderr, "usage: c10 chains quick|thorough | random N | replay <variant> <prog> <handlers>")
		os.Exit(2)
	}
	defer hlib.Out.Flush()
	debug.SetGCPercent(800)
	e := newEnv()
	switch os.Args[1] {
	case "chains":
		thorough := len(os.Args) > 2 && os.Args[2] == "thorough"
		rng := hlib.NewRng(hlib.Seed())
		maxDepth := 3
		n := 0
		nc := 0
		enumChains(maxDepth, 3, func(c *chain) {
			depth := len(c.kinds)
			// quick: everything up to depth 1, seeded samples of depth 2 (1 in 16) and depth 3 (1 in 200);
			// thorough: everything up to depth 2, a seeded 1-in-20 sample of depth 3
			if !thorough && ((depth == 2 && rng.Below(16) != 0) || (depth == 3 && rng.Below(200) != 0)) {
				return
			}
			if thorough && depth == 3 && rng.Below(20) != 0 {
				return
			}
			nc++
			c.seed = nc
			body, ids := c.build()
			for hi, hs := range handlerConfigs(ids, (thorough && depth <= 2) || depth == 0) {
				if !thorough && depth >= 2 && hi > 0 && rng.Below(3) != 0 {
					continue
				}
				if thorough && depth == 3 && hi > 0 && rng.Below(2) != 0 {
					continue
				}
				n++
				if c.exit != nil && c.exit.Op == 'Y' {
					e.run("coclose", body, hs)
					continue
				}
				if c.exit != nil && c.exit.Op == 'G' && c.exitLevel == depth {
					// the same chain with nothing after the nested constructs: the goto label is a back label
					ct := *c
					ct.seed = nc
					ct.trailing = true
					tb, _ := ct.build()
					e.run("trail", tb, hs)
				}
				e.run("pcall", body, hs)
				if (thorough && depth <= 2) || n%4 == 0 {
					e.run("co", body, hs)
				}
				if (thorough && depth <= 2) || n%4 == 1 {
					e.run("trail", body, hs)
				}
			}
		})
	case "static":
		for _, sc := range staticCases {
			if len(os.Args) > 2 && os.Args[2] != sc.name {
				continue
			}
			if len(os.Args) > 2 {
				fmt.Fprintln(os.Stderr, sc.src)
			}
			e.runStatic(sc)
		}
	case "random":
		n, _ := strconv.Atoi(os.Args[2])
		rng := hlib.NewRng(hlib.Seed() + 10)
		for i := 0; i < n; i++ {
			g := &rgen{rng: rng}
			variant := []string{"pcall", "pcall", "co", "trail", "coclose"}[rng.Below(5)]
			g.yield = variant == "coclose"
			body := g.seq(2+rng.Below(3), nil, false)
			hs := map[int]handler{}
			for _, id := range g.ids {
				if rng.Chance(25) {
					hs[id] = handler{50 + id, rng.Below(3)}
				}
			}
			e.run(variant, body, hs)
		}
	case "replay":
		if len(os.Args) < 5 {
			fmt.Fprintln(os.Stderr, "replay <variant> <prog> <handlers>")
			os.Exit(2)
		}
		body, _, err := parseSeq(os.Args[3]+")", 0)
		if err != nil {
			fmt.Fprintln(os.Stderr, err)
			os.Exit(2)
		}
		fmt.Fprintln(os.Stderr, render(os.Args[2], body))
		e.run(os.Args[2], body, parseHandlers(os.Args[4]))
	default:
		fmt.Fprintln(os.Stderr, "unknown mode")
		os.Exit(2)
	}
}
