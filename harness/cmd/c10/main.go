// c10: correspondence harness for to-be-closed variables.  Generates programs of the
// mini-language of lean/GoluaVerif/Spec/Tbc.lean, renders them to Lua, runs them on the
// real golua pipeline and prints one line per case:
//
//	<variant> <prog> <handlers> = <event log> <clpush/cltrunc skeleton>
//
// variant:  pcall – the chunk body runs under pcall
//
//	co    – the chunk body is the body of a coroutine (errors end the coroutine: Thread.end path)
//	trail – as pcall, but goto labels are the last statement of their block where possible
//	        ("back labels" of astcomp/compstat.go); the skeleton is not compared for this variant
//	coclose – the body runs in a coroutine that is closed with coroutine.close at its first `Y`
//
// prog:     T<id> N Z M<n> B(..) L<n>(..) K G<k> R E<n> P(..) C(..) Y   (see Oracle/C10.lean)
// handlers: `-` or id:e[n|s],…
// events:   c<id>:<err> (a __close call), m<n> (a plain statement), p:<err> (result of the protected call)
// skeleton: the clpush / cltrunc h / jump / ret instructions of each function in program order, taken
//
//	from golua's own disassembly of the compiled unit.
package main

import (
	"bytes"
	"fmt"
	"os"
	"regexp"
	"runtime/debug"
	"runtime/pprof"
	"strconv"
	"strings"

	"github.com/arnodel/golua/code"
	rt "github.com/arnodel/golua/runtime"
	"verifharness/hlib"
)

// ---------------------------------------------------------------------------
// programs

type Prog struct {
	Op   byte // T N Z M B L F K G R E P C V Y   (F: Body[0] is the closing value T/N/Z)
	N    int
	Body []*Prog
}

func (p *Prog) String() string {
	switch p.Op {
	case 'T', 'M', 'G', 'E':
		return string(p.Op) + strconv.Itoa(p.N)
	case 'N', 'Z', 'K', 'R', 'Y':
		return string(p.Op)
	case 'L', 'F':
		return string(p.Op) + strconv.Itoa(p.N) + "(" + seqString(p.Body) + ")"
	}
	return string(p.Op) + "(" + seqString(p.Body) + ")"
}

func seqString(ps []*Prog) string {
	ss := make([]string, len(ps))
	for i, p := range ps {
		ss[i] = p.String()
	}
	return strings.Join(ss, ",")
}

type renderer struct {
	sb     strings.Builder
	nvar   int
	nlabel int
	trail  bool
}

// render writes the statements of seq; labels[i] is the label name standing after the i-th enclosing
// block (innermost first), "" if none has been allocated yet (allocated on demand through *string).
func (r *renderer) seq(ps []*Prog, labels []*string) {
	for _, p := range ps {
		r.stat(p, labels)
	}
}

func (r *renderer) blockWithLabel(open, close string, body []*Prog, labels []*string) {
	var lbl string
	r.sb.WriteString(open)
	r.seq(body, append([]*string{&lbl}, labels...))
	r.sb.WriteString(close)
	if lbl != "" {
		r.sb.WriteString(" ::" + lbl + "::")
		if !r.trail {
			r.sb.WriteString(" do end")
		}
	}
	r.sb.WriteString("\n")
}

func (r *renderer) stat(p *Prog, labels []*string) {
	w := &r.sb
	switch p.Op {
	case 'T':
		r.nvar++
		fmt.Fprintf(w, "local v%d <close> = mk(%d)\n", r.nvar, p.N)
	case 'N':
		r.nvar++
		if r.nvar%2 == 0 {
			fmt.Fprintf(w, "local v%d <close> = nil\n", r.nvar)
		} else {
			fmt.Fprintf(w, "local v%d <close> = false\n", r.nvar)
		}
	case 'Z':
		r.nvar++
		fmt.Fprintf(w, "local v%d <close> = 42\n", r.nvar)
	case 'M':
		fmt.Fprintf(w, "mark(%d)\n", p.N)
	case 'B':
		r.blockWithLabel("do\n", "end", p.Body, labels)
	case 'L':
		r.blockWithLabel(fmt.Sprintf("for _ = 1, %d do\n", p.N), "end", p.Body, labels)
	case 'F':
		// generic for with a closing value: two levels for goto indices (the body, the implicit block that
		// holds the closing value); both labels stand right after the loop
		closing := "nil"
		switch p.Body[0].Op {
		case 'T':
			closing = fmt.Sprintf("mk(%d)", p.Body[0].N)
		case 'Z':
			closing = "42"
		}
		var lbl string
		fmt.Fprintf(w, "for _ in iter(%d), nil, nil, %s do\n", p.N, closing)
		r.seq(p.Body[1:], append([]*string{&lbl, &lbl}, labels...))
		w.WriteString("end")
		if lbl != "" {
			w.WriteString(" ::" + lbl + "::")
			if !r.trail {
				w.WriteString(" do end")
			}
		}
		w.WriteString("\n")
	case 'V':
		w.WriteString("do return (function()\n")
		r.seq(p.Body, nil)
		w.WriteString("end)() end\n")
	case 'K':
		w.WriteString("break\n")
	case 'G':
		if p.N >= len(labels) {
			w.WriteString("goto nowhere\n")
			return
		}
		l := labels[p.N]
		if *l == "" {
			r.nlabel++
			*l = "L" + strconv.Itoa(r.nlabel)
		}
		fmt.Fprintf(w, "goto %s\n", *l)
	case 'R':
		w.WriteString("do return end\n")
	case 'E':
		fmt.Fprintf(w, "error(%d, 0)\n", p.N)
	case 'Y':
		w.WriteString("coroutine.yield()\n")
	case 'P':
		w.WriteString("do local ok, e = pcall(function()\n")
		r.seq(p.Body, nil)
		w.WriteString("end) caught(ok, e) end\n")
	case 'C':
		w.WriteString(";(function()\n")
		r.seq(p.Body, nil)
		w.WriteString("end)()\n")
	}
}

func render(variant string, body []*Prog) string {
	r := &renderer{trail: variant == "trail"}
	switch variant {
	case "pcall", "trail":
		r.sb.WriteString("local ok, e = pcall(function()\n")
		r.seq(body, nil)
		r.sb.WriteString("end) caught(ok, e)\n")
	case "co":
		r.sb.WriteString("local co = coroutine.create(function()\n")
		r.seq(body, nil)
		r.sb.WriteString("end) local ok, e = coroutine.resume(co) caught(ok, e)\n")
	case "coclose":
		r.sb.WriteString("local co = coroutine.create(function()\n")
		r.seq(body, nil)
		r.sb.WriteString("end) local ok, e = coroutine.resume(co)\n")
		r.sb.WriteString("if coroutine.status(co) == 'suspended' then closed(coroutine.close(co)) else caught(ok, e) end\n")
	}
	return r.sb.String()
}

// ---------------------------------------------------------------------------
// running

type handler struct{ err, mode int }

type env struct {
	r        *rt.Runtime
	log      []string
	handlers map[int]handler
}

func encErr(v rt.Value) string {
	switch v.Type() {
	case rt.NilType:
		return "n"
	case rt.IntType:
		return "u" + strconv.FormatInt(v.AsInt(), 10)
	case rt.StringType:
		if strings.Contains(v.AsString(), "__close") {
			return "x"
		}
		return "?" + hlib.Hex(v.AsString())
	}
	return "?" + v.TypeName()
}

func newEnv() *env {
	r, _ := hlib.NewRuntime(os.Stderr)
	e := &env{r: r}
	g := r.GlobalEnv()
	r.SetEnvGoFunc(g, "rec_close", func(t *rt.Thread, c *rt.GoCont) (rt.Cont, error) {
		id := int(c.Arg(0).AsInt())
		arg := c.Arg(1)
		e.log = append(e.log, "c"+strconv.Itoa(id)+":"+encErr(arg))
		next := c.Next()
		if h, ok := e.handlers[id]; ok && (h.mode == 0 || (h.mode == 1 && arg.IsNil()) || (h.mode == 2 && !arg.IsNil())) {
			t.Push1(next, rt.IntValue(int64(h.err)))
		} else {
			t.Push1(next, rt.NilValue)
		}
		return next, nil
	}, 2, false)
	r.SetEnvGoFunc(g, "mark", func(t *rt.Thread, c *rt.GoCont) (rt.Cont, error) {
		e.log = append(e.log, "m"+strconv.FormatInt(c.Arg(0).AsInt(), 10))
		return c.Next(), nil
	}, 1, false)
	r.SetEnvGoFunc(g, "caught", func(t *rt.Thread, c *rt.GoCont) (rt.Cont, error) {
		if rt.Truth(c.Arg(0)) {
			e.log = append(e.log, "p:n")
		} else {
			e.log = append(e.log, "p:"+encErr(c.Arg(1)))
		}
		return c.Next(), nil
	}, 2, false)
	r.SetEnvGoFunc(g, "closed", func(t *rt.Thread, c *rt.GoCont) (rt.Cont, error) {
		if rt.Truth(c.Arg(0)) {
			e.log = append(e.log, "k:n")
		} else {
			e.log = append(e.log, "k:"+encErr(c.Arg(1)))
		}
		return c.Next(), nil
	}, 2, false)
	prelude := `
function iter(n)
  local i = 0
  return function() i = i + 1 if i <= n then return i end end
end
function mk(id)
  return setmetatable({}, {__close = function(_, e)
    local r = rec_close(id, e)
    if r then error(r, 0) end
  end})
end`
	cl, err := hlib.Load(r, "prelude", prelude)
	if err != nil {
		fmt.Fprintln(os.Stderr, "prelude:", err)
		os.Exit(2)
	}
	if class, _, msg := hlib.PCall(r, rt.FunctionValue(cl)); class != hlib.OK {
		fmt.Fprintln(os.Stderr, "prelude:", msg)
		os.Exit(2)
	}
	return e
}

var (
	reConst = regexp.MustCompile(`^K(\d+) = function .* \[(\d+) - (\d+)\]$`)
	reCode  = regexp.MustCompile(`^\s*-?\d+\s+.*?\s(\d+)\s+[0-9a-f]{8}\s+(.*)$`)
	reClos  = regexp.MustCompile(`clos\(K(\d+)\)`)
)

// skeleton extracts, from golua's disassembly of the unit, the close-stack instructions of every
// function, nested as  [ own… [child…] [child…] ].
func skeleton(unit *code.Unit) string {
	var buf bytes.Buffer
	unit.Disassemble(&buf)
	type span struct{ start, end int }
	spans := map[int]span{}
	code := map[int]string{}
	for _, line := range strings.Split(buf.String(), "\n") {
		if m := reConst.FindStringSubmatch(line); m != nil {
			k, _ := strconv.Atoi(m[1])
			s, _ := strconv.Atoi(m[2])
			e, _ := strconv.Atoi(m[3])
			spans[k] = span{s, e}
			continue
		}
		if m := reCode.FindStringSubmatch(line); m != nil {
			i, _ := strconv.Atoi(m[1])
			code[i] = m[2]
		}
	}
	var walk func(k int) []string
	walk = func(k int) []string {
		out := []string{"["}
		var kids []int
		sp := spans[k]
		for i := sp.start; i <= sp.end; i++ {
			ins := code[i]
			switch {
			case strings.HasPrefix(ins, "clpush"):
				out = append(out, "push")
			case strings.HasPrefix(ins, "cltrunc "):
				out = append(out, "trunc"+strings.TrimPrefix(ins, "cltrunc "))
			case strings.HasPrefix(ins, "jump +"):
				// forward jumps are break/goto; the backward jump of a generic for is the loop itself
				out = append(out, "jump")
			case ins == "tailcall r0":
				out = append(out, "ret")
			case strings.HasPrefix(ins, "tailcall "):
				out = append(out, "tcall")
			}
			if m := reClos.FindStringSubmatch(ins); m != nil {
				kk, _ := strconv.Atoi(m[1])
				kids = append(kids, kk)
			}
		}
		for _, kk := range kids {
			out = append(out, walk(kk)...)
		}
		return append(out, "]")
	}
	// K0 is the main chunk
	return strings.Join(walk(0), ",")
}

func (e *env) run(variant string, body []*Prog, hs map[int]handler) {
	e.log = e.log[:0]
	e.handlers = hs
	src := render(variant, body)
	status := ""
	unit, sz, err := e.r.CompileLuaChunk("c10", []byte(src))
	if err != nil {
		status = "compile-error"
	} else {
		e.r.ReleaseMem(sz)
		cl := e.r.LoadLuaUnit(unit, rt.TableValue(e.r.GlobalEnv()))
		class, _, _ := hlib.PCall(e.r, rt.FunctionValue(cl))
		switch class {
		case hlib.PANIC, hlib.KILLED:
			status = "P"
		case hlib.ERR:
			status = "escaped"
		}
	}
	log := strings.Join(e.log, ",")
	if status != "" {
		if log != "" {
			log += ","
		}
		log += "!" + status
	}
	if log == "" {
		log = "-"
	}
	sk := "-"
	if variant == "pcall" && status != "compile-error" {
		sk = skeleton(unit)
	}
	hlib.Emit(variant, seqString(body), handlersString(hs), "=", log, sk)
}

func handlersString(hs map[int]handler) string {
	if len(hs) == 0 {
		return "-"
	}
	var parts []string
	for id := 0; id < 64; id++ {
		if h, ok := hs[id]; ok {
			s := strconv.Itoa(id) + ":" + strconv.Itoa(h.err)
			switch h.mode {
			case 1:
				s += "n"
			case 2:
				s += "s"
			}
			parts = append(parts, s)
		}
	}
	return strings.Join(parts, ",")
}

// ---------------------------------------------------------------------------
// parsing (replay)

func parseSeq(s string, i int) ([]*Prog, int, error) {
	var out []*Prog
	for i < len(s) {
		switch c := s[i]; c {
		case ')':
			return out, i + 1, nil
		case ',':
			i++
		case 'N', 'Z', 'K', 'R', 'Y':
			out = append(out, &Prog{Op: c})
			i++
		case 'T', 'M', 'G', 'E', 'L', 'F':
			j := i + 1
			for j < len(s) && s[j] >= '0' && s[j] <= '9' {
				j++
			}
			n, err := strconv.Atoi(s[i+1 : j])
			if err != nil {
				return nil, 0, fmt.Errorf("number expected at %d", i+1)
			}
			if c == 'L' || c == 'F' {
				if j >= len(s) || s[j] != '(' {
					return nil, 0, fmt.Errorf("( expected at %d", j)
				}
				body, k, err := parseSeq(s, j+1)
				if err != nil {
					return nil, 0, err
				}
				out = append(out, &Prog{Op: c, N: n, Body: body})
				i = k
			} else {
				out = append(out, &Prog{Op: c, N: n})
				i = j
			}
		case 'B', 'P', 'C', 'V':
			if i+1 >= len(s) || s[i+1] != '(' {
				return nil, 0, fmt.Errorf("( expected at %d", i+1)
			}
			body, k, err := parseSeq(s, i+2)
			if err != nil {
				return nil, 0, err
			}
			out = append(out, &Prog{Op: c, Body: body})
			i = k
		default:
			return nil, 0, fmt.Errorf("unexpected %q at %d", c, i)
		}
	}
	return out, i, nil
}

func parseHandlers(s string) map[int]handler {
	hs := map[int]handler{}
	if s == "-" || s == "" {
		return hs
	}
	for _, item := range strings.Split(s, ",") {
		ab := strings.SplitN(item, ":", 2)
		if len(ab) != 2 {
			continue
		}
		id, _ := strconv.Atoi(ab[0])
		mode := 0
		b := ab[1]
		if strings.HasSuffix(b, "n") {
			mode, b = 1, b[:len(b)-1]
		} else if strings.HasSuffix(b, "s") {
			mode, b = 2, b[:len(b)-1]
		}
		n, _ := strconv.Atoi(b)
		hs[id] = handler{n, mode}
	}
	return hs
}

// ---------------------------------------------------------------------------
// generation

func T(id int) *Prog           { return &Prog{Op: 'T', N: id} }
func M(n int) *Prog            { return &Prog{Op: 'M', N: n} }
func op(c byte) *Prog          { return &Prog{Op: c} }
func opn(c byte, n int) *Prog  { return &Prog{Op: c, N: n} }
func comp(c byte, n int, body []*Prog) *Prog {
	return &Prog{Op: c, N: n, Body: body}
}

// chain programs: kinds[0] is the outermost construct.  At every level:
//
//	[pre tbc] M  CONSTRUCT(…)  M [post tbc] [exit] M
//
// and in the innermost body:  [pre tbc] M [exit] M.
type chain struct {
	kinds     []byte // B L P C
	pre       []int  // len = depth+1: 0 none, 1 obj, 2 nil
	post      []int  // len = depth: 0 none, 1 obj
	exitLevel int    // level at which the exit statement stands (depth = innermost)
	exit      *Prog  // nil = none
	trailing  bool   // nothing follows the nested construct at any level (labels become "back labels")
}

func (c *chain) build() ([]*Prog, []int) {
	id := 0
	mark := 0
	var ids []int
	var level func(l int) []*Prog
	level = func(l int) []*Prog {
		var out []*Prog
		switch c.pre[l] {
		case 1:
			id++
			ids = append(ids, id)
			out = append(out, T(id))
		case 2:
			out = append(out, op('N'))
		}
		mark++
		out = append(out, M(mark))
		if l < len(c.kinds) {
			n := 0
			if c.kinds[l] == 'L' || c.kinds[l] == 'F' {
				n = 2
			}
			inner := level(l + 1)
			if c.kinds[l] == 'F' {
				// the closing value of the generic for
				id++
				ids = append(ids, id)
				inner = append([]*Prog{T(id)}, inner...)
			}
			out = append(out, comp(c.kinds[l], n, inner))
			if c.trailing {
				return out
			}
			mark++
			out = append(out, M(mark))
			if c.post[l] == 1 {
				id++
				ids = append(ids, id)
				out = append(out, T(id))
			}
		}
		if c.exitLevel == l && c.exit != nil {
			out = append(out, c.exit)
		}
		mark++
		out = append(out, M(mark))
		return out
	}
	return level(0), ids
}

// exits valid at level l of the chain: break needs an enclosing loop within the same function,
// goto k needs k+1 enclosing blocks/loop bodies within the same function.
func (c *chain) exitsAt(l int) []*Prog {
	out := []*Prog{nil, op('R'), opn('E', 90), op('Z'), op('Y'), comp('V', 0, []*Prog{M(99)})}
	// goto levels seen from level l, innermost first; a generic for counts twice (its body, the implicit
	// block holding the closing value) and its body level cannot be named by a Lua label
	var allowed []bool
	inLoop := false
	for i := l - 1; i >= 0; i-- {
		k := c.kinds[i]
		if k == 'P' || k == 'C' {
			break
		}
		if k == 'F' {
			allowed = append(allowed, false, true)
		} else {
			allowed = append(allowed, true)
		}
		if k == 'L' || k == 'F' {
			inLoop = true
		}
	}
	if inLoop {
		out = append(out, op('K'))
	}
	for k, ok := range allowed {
		if ok {
			out = append(out, opn('G', k))
		}
	}
	return out
}

func handlerConfigs(ids []int, rich bool) []map[int]handler {
	out := []map[int]handler{{}}
	for _, id := range ids {
		out = append(out, map[int]handler{id: {50 + id, 0}})
		if rich {
			out = append(out, map[int]handler{id: {50 + id, 1}}, map[int]handler{id: {50 + id, 2}})
		}
	}
	if len(ids) >= 2 {
		all := map[int]handler{}
		for _, id := range ids {
			all[id] = handler{50 + id, 0}
		}
		out = append(out, all)
		out = append(out, map[int]handler{ids[0]: {50 + ids[0], 0}, ids[len(ids)-1]: {50 + ids[len(ids)-1], 2}})
	}
	return out
}

func enumChains(maxDepth, maxTbc int, emit func(c *chain)) {
	kinds := []byte{'B', 'L', 'P', 'C', 'F'}
	var rec func(d int, ks []byte)
	rec = func(d int, ks []byte) {
		// all pre/post assignments
		npre, npost := len(ks)+1, len(ks)
		total := 1
		for i := 0; i < npre; i++ {
			total *= 3
		}
		for i := 0; i < npost; i++ {
			total *= 2
		}
		for code := 0; code < total; code++ {
			x := code
			pre := make([]int, npre)
			post := make([]int, npost)
			cnt := 0
			for i := range pre {
				pre[i] = x % 3
				x /= 3
				if pre[i] != 0 {
					cnt++
				}
			}
			for i := range post {
				post[i] = x % 2
				x /= 2
				cnt += post[i]
			}
			if cnt > maxTbc || cnt == 0 {
				continue
			}
			c := &chain{kinds: append([]byte(nil), ks...), pre: pre, post: post}
			for l := 0; l <= len(ks); l++ {
				for _, ex := range c.exitsAt(l) {
					if ex == nil && l > 0 {
						continue // "no exit" once
					}
					cc := *c
					cc.exitLevel, cc.exit = l, ex
					emit(&cc)
				}
			}
		}
		if d == maxDepth {
			return
		}
		for _, k := range kinds {
			rec(d+1, append(ks, k))
		}
	}
	rec(0, nil)
}

// random programs: recursive, wider than the chains (several constructs per sequence, yields)
type rgen struct {
	rng   *hlib.Rng
	id    int
	mark  int
	ids   []int
	yield bool
}

func (g *rgen) seq(depth int, levels []bool, inLoop bool) []*Prog {
	n := 1 + g.rng.Below(4)
	var out []*Prog
	for i := 0; i < n; i++ {
		switch r := g.rng.Below(20); {
		case r < 5 && len(g.ids) < 5:
			g.id++
			g.ids = append(g.ids, g.id)
			out = append(out, T(g.id))
		case r == 5:
			out = append(out, op('N'))
		case r < 8:
			g.mark++
			out = append(out, M(g.mark))
		case r < 13 && depth > 0:
			k := []byte{'B', 'L', 'P', 'C', 'B', 'L', 'F', 'V'}[g.rng.Below(8)]
			switch k {
			case 'B':
				out = append(out, comp('B', 0, g.seq(depth-1, append([]bool{true}, levels...), inLoop)))
			case 'L':
				out = append(out, comp('L', 1+g.rng.Below(2), g.seq(depth-1, append([]bool{true}, levels...), true)))
			case 'F':
				var cv *Prog
				switch g.rng.Below(6) {
				case 0:
					cv = op('N')
				default:
					g.id++
					g.ids = append(g.ids, g.id)
					cv = T(g.id)
				}
				body := g.seq(depth-1, append([]bool{false, true}, levels...), true)
				out = append(out, comp('F', 1+g.rng.Below(2), append([]*Prog{cv}, body...)))
			default:
				out = append(out, comp(k, 0, g.seq(depth-1, nil, false)))
			}
		case r == 13:
			out = append(out, op('R'))
		case r == 14:
			out = append(out, opn('E', 90+g.rng.Below(3)))
		case r == 15 && inLoop:
			out = append(out, op('K'))
		case r == 16 && len(levels) > 0:
			if k := g.rng.Below(len(levels)); levels[k] {
				out = append(out, opn('G', k))
			}
		case r == 17 && g.rng.Chance(30):
			out = append(out, op('Z'))
		case r == 18 && g.yield:
			out = append(out, op('Y'))
		default:
			g.mark++
			out = append(out, M(g.mark))
		}
	}
	return out
}

func main() {
	if os.Getenv("C10PROF") != "" {
		f, _ := os.Create(os.Getenv("C10PROF"))
		pprof.StartCPUProfile(f)
		defer pprof.StopCPUProfile()
	}
	if len(os.Args) < 2 {
		fmt.Fprintln(os.Stderr, "usage: c10 chains quick|thorough | random N | replay <variant> <prog> <handlers>")
		os.Exit(2)
	}
	defer hlib.Out.Flush()
	debug.SetGCPercent(800)
	e := newEnv()
	switch os.Args[1] {
	case "chains":
		thorough := len(os.Args) > 2 && os.Args[2] == "thorough"
		rng := hlib.NewRng(hlib.Seed())
		maxDepth := 3
		n := 0
		enumChains(maxDepth, 3, func(c *chain) {
			depth := len(c.kinds)
			// quick: everything up to depth 1, seeded samples of depth 2 (1 in 16) and depth 3 (1 in 200);
			// thorough: everything up to depth 2, a seeded 1-in-20 sample of depth 3
			if !thorough && ((depth == 2 && rng.Below(16) != 0) || (depth == 3 && rng.Below(200) != 0)) {
				return
			}
			if thorough && depth == 3 && rng.Below(20) != 0 {
				return
			}
			body, ids := c.build()
			for hi, hs := range handlerConfigs(ids, (thorough && depth <= 2) || depth == 0) {
				if !thorough && depth >= 2 && hi > 0 && rng.Below(3) != 0 {
					continue
				}
				if thorough && depth == 3 && hi > 0 && rng.Below(2) != 0 {
					continue
				}
				n++
				if c.exit != nil && c.exit.Op == 'Y' {
					e.run("coclose", body, hs)
					continue
				}
				if c.exit != nil && c.exit.Op == 'G' && c.exitLevel == depth {
					// the same chain with nothing after the nested constructs: the goto label is a back label
					ct := *c
					ct.trailing = true
					tb, _ := ct.build()
					e.run("trail", tb, hs)
				}
				e.run("pcall", body, hs)
				if (thorough && depth <= 2) || n%4 == 0 {
					e.run("co", body, hs)
				}
				if (thorough && depth <= 2) || n%4 == 1 {
					e.run("trail", body, hs)
				}
			}
		})
	case "random":
		n, _ := strconv.Atoi(os.Args[2])
		rng := hlib.NewRng(hlib.Seed() + 10)
		for i := 0; i < n; i++ {
			g := &rgen{rng: rng}
			variant := []string{"pcall", "pcall", "co", "trail", "coclose"}[rng.Below(5)]
			g.yield = variant == "coclose"
			body := g.seq(2+rng.Below(3), nil, false)
			hs := map[int]handler{}
			for _, id := range g.ids {
				if rng.Chance(25) {
					hs[id] = handler{50 + id, rng.Below(3)}
				}
			}
			e.run(variant, body, hs)
		}
	case "replay":
		if len(os.Args) < 5 {
			fmt.Fprintln(os.Stderr, "replay <variant> <prog> <handlers>")
			os.Exit(2)
		}
		body, _, err := parseSeq(os.Args[3]+")", 0)
		if err != nil {
			fmt.Fprintln(os.Stderr, err)
			os.Exit(2)
		}
		fmt.Fprintln(os.Stderr, render(os.Args[2], body))
		e.run(os.Args[2], body, parseHandlers(os.Args[4]))
	default:
		fmt.Fprintln(os.Stderr, "unknown mode")
		os.Exit(2)
	}
}
