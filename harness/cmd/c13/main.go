// c13: correspondence harness for string.dump / load.
//
// Modes (tier = quick|thorough):
//
//	gen <tier>          generated Lua functions; per function:
//	    dump <id> <prototype tree tokens…> = <dump bytes hex>          (tree exported through the verif hook)
//	    beh <id> <what> = <outcome of f> || <outcome of load(string.dump(f))>
//	    redump <id> = <sha of dump f> <sha of dump(load(dump f))> <sha of second dump f>
//	malgen <tier>       the damaged dumps: `<kind> x<hex>` per line (crafted | trunc<n> | flip | bytes)
//	    seq <ops> = <state> | <state after op 1> | …    operation sequences (length <= 4) on ONE live function;
//	        ops: D dump, S dump strip=true, F strip=false, N strip=nil, C call, E call raising an error, K dump the nested
//	        closures obtained by calling, L load a stripped dump and call it; state = sha of dump(f), outcomes of the live
//	        f on two error inputs, outcomes of load(dump(f)) on the same
//	mal <file> <start>  the damaged dumps of <file> fed to load, one line each, printed BEFORE the call and completed after:
//	    load <index> <kind> x<hex> = ok|err|panic:<msg>   (run in a child process under RLIMIT_AS: a crash leaves the
//	    line without " = " and the driver restarts after it)
//	latent              the marshalling-error path of lib/stringlib/dump.go on a hand-made code unit
//	src <id>            print the Lua source of generated function <id>
//
// tree tokens: I<dec> | D<16 hex> | S<hex> | C S<src> S<name> <nops> <op hex8>… <nlines> <int32>… <nconsts> <const>…
//
//	<uv> <reg> <cell> <nup> S<name>…
package main

import (
	"bufio"
	"crypto/sha1"
	"encoding/hex"
	"fmt"
	"math"
	"os"
	"strconv"
	"strings"

	"github.com/arnodel/golua/code"
	rt "github.com/arnodel/golua/runtime"
	"verifharness/hlib"
)

// ---------------------------------------------------------------- prototype tree export

func treeTokens(r *rt.Runtime, c *rt.Code, out *[]string) {
	src, name, ops, lines, consts := rt.VerifCodeFields(c)
	*out = append(*out, "C", "S"+hlib.Hex(src), "S"+hlib.Hex(name), strconv.Itoa(len(ops)))
	for _, op := range ops {
		*out = append(*out, fmt.Sprintf("%08x", uint32(op)))
	}
	*out = append(*out, strconv.Itoa(len(lines)))
	for _, l := range lines {
		*out = append(*out, strconv.Itoa(int(l)))
	}
	*out = append(*out, strconv.Itoa(len(consts)))
	for _, k := range consts {
		switch k.Type() {
		case rt.IntType:
			*out = append(*out, "I"+strconv.FormatInt(k.AsInt(), 10))
		case rt.FloatType:
			*out = append(*out, fmt.Sprintf("D%016x", math.Float64bits(k.AsFloat())))
		case rt.StringType:
			*out = append(*out, "S"+hlib.Hex(k.AsString()))
		case rt.CodeType:
			treeTokens(r, k.AsCode(), out)
		default:
			*out = append(*out, "?"+k.TypeName())
		}
	}
	*out = append(*out, strconv.Itoa(int(c.UpvalueCount)), strconv.Itoa(int(c.RegCount)), strconv.Itoa(int(c.CellCount)),
		strconv.Itoa(len(c.UpNames)))
	for _, n := range c.UpNames {
		*out = append(*out, "S"+hlib.Hex(n))
	}
}

func protoTokens(c *rt.Code, out *[]string) {
	src, name, ops, lines, _ := rt.VerifCodeFields(c)
	*out = append(*out, "S"+hlib.Hex(src), "S"+hlib.Hex(name), strconv.Itoa(len(ops)))
	for _, op := range ops {
		*out = append(*out, fmt.Sprintf("%08x", uint32(op)))
	}
	*out = append(*out, strconv.Itoa(len(lines)))
	for _, l := range lines {
		*out = append(*out, strconv.Itoa(int(l)))
	}
	*out = append(*out, strconv.Itoa(int(c.UpvalueCount)), strconv.Itoa(int(c.RegCount)), strconv.Itoa(int(c.CellCount)),
		strconv.Itoa(len(c.UpNames)))
	for _, n := range c.UpNames {
		*out = append(*out, "S"+hlib.Hex(n))
	}
}

// unitTokens: the UNREFACTORED prototype c followed by the constant vector it shares with the other functions of its
// chunk (function constants as prototypes without their own constants): the input of RefactorCodeConsts.
func unitTokens(c *rt.Code) []string {
	out := []string{"P"}
	protoTokens(c, &out)
	_, _, _, _, consts := rt.VerifCodeFields(c)
	out = append(out, strconv.Itoa(len(consts)))
	for _, k := range consts {
		switch k.Type() {
		case rt.IntType:
			out = append(out, "I"+strconv.FormatInt(k.AsInt(), 10))
		case rt.FloatType:
			out = append(out, fmt.Sprintf("D%016x", math.Float64bits(k.AsFloat())))
		case rt.StringType:
			out = append(out, "S"+hlib.Hex(k.AsString()))
		case rt.CodeType:
			out = append(out, "P")
			protoTokens(k.AsCode(), &out)
		default:
			out = append(out, "?"+k.TypeName())
		}
	}
	return out
}

// ---------------------------------------------------------------- generator

type gen struct {
	rng   *hlib.Rng
	sb    strings.Builder
	depth int
	vars  []string
	nvar  int
	line  int
}

func (g *gen) w(s string) {
	g.sb.WriteString(strings.Repeat(" ", g.depth))
	g.sb.WriteString(s)
	g.sb.WriteString("\n")
	g.line++
}

func (g *gen) fresh() string {
	g.nvar++
	v := "v" + strconv.Itoa(g.nvar)
	g.vars = append(g.vars, v)
	return v
}

func (g *gen) anyVar() string {
	if len(g.vars) == 0 {
		return "a"
	}
	return g.vars[g.rng.Below(len(g.vars))]
}

var strConsts = []string{`""`, `"x"`, `"hello"`, `"a\0b"`, `"line\nbreak"`, `"\255\128"`, `"a somewhat longer string constant that is not inlined"`,
	`"tab\tquote\"bs\\"`, `"é€"`, `[[long
bracket]]`}
var intConsts = []string{"100000", "9007199254740992", "1000000000000000", "0", "1", "-1", "7", "255", "256", "65536", "1000003", "9223372036854775807", "math.mininteger", "0x7fffffff", "-32769", "4294967296"}
var fltConsts = []string{"100000.0", "9007199254740992.0", "1e15", "65536.0", "0.0", "0.5", "1.5e300", "-0.0", "1e-320", "3.14159", "2^53", "1/0", "-1/0", "0/0", "1e15", "0x1p-1074", "123456.789"}

func (g *gen) atom() string {
	switch g.rng.Below(9) {
	case 0:
		return strConsts[g.rng.Below(len(strConsts))]
	case 1:
		return intConsts[g.rng.Below(len(intConsts))]
	case 2:
		return fltConsts[g.rng.Below(len(fltConsts))]
	case 3:
		return []string{"true", "false", "nil"}[g.rng.Below(3)]
	case 4:
		return "a"
	case 5:
		return "b"
	case 6:
		return "(select('#', ...))"
	default:
		return g.anyVar()
	}
}

func (g *gen) expr(d int) string {
	if d <= 0 || g.rng.Below(3) == 0 {
		return g.atom()
	}
	switch g.rng.Below(12) {
	case 0:
		if g.rng.Below(8) == 0 {
			return "(" + g.expr(d-1) + " + " + g.expr(d-1) + ")" // may raise
		}
		return "(N(" + g.expr(d-1) + ") + N(" + g.expr(d-1) + "))"
	case 1:
		return "(T(" + g.expr(d-1) + ") .. T(" + g.expr(d-1) + "))"
	case 2:
		return "(" + g.expr(d-1) + " == " + g.expr(d-1) + ")"
	case 3:
		return "(" + g.expr(d-1) + " and " + g.expr(d-1) + " or " + g.expr(d-1) + ")"
	case 4:
		return "{" + g.expr(d-1) + ", " + g.expr(d-1) + ", k = " + g.expr(d-1) + "}"
	case 5:
		return "T(" + g.expr(d-1) + ")"
	case 6:
		return "(N(" + g.expr(d-1) + ") // " + strconv.Itoa(2+g.rng.Below(5)) + ")"
	case 7:
		return "#" + strConsts[g.rng.Below(len(strConsts))]
	case 8:
		return "(N(" + g.expr(d-1) + ") < N(" + g.expr(d-1) + "))"
	case 9:
		return "select(" + strconv.Itoa(1+g.rng.Below(3)) + ", ...)"
	case 10:
		return "math.type(" + g.expr(d-1) + ")"
	default:
		return "(not " + g.expr(d-1) + ")"
	}
}

func (g *gen) block(n, d int) {
	saved := len(g.vars)
	for i := 0; i < n; i++ {
		g.stat(d)
	}
	g.vars = g.vars[:saved]
}

func (g *gen) stat(d int) {
	switch r := g.rng.Below(16); {
	case r < 4:
		e := g.expr(2)
		g.w("local " + g.fresh() + " = " + e)
	case r == 4:
		g.w("acc[#acc + 1] = " + g.expr(2))
	case r == 5 && d > 0:
		g.w("if " + g.expr(2) + " then")
		g.depth++
		g.block(1+g.rng.Below(3), d-1)
		g.depth--
		if g.rng.Bool() {
			g.w("else")
			g.depth++
			g.block(1+g.rng.Below(2), d-1)
			g.depth--
		}
		g.w("end")
	case r == 6 && d > 0:
		v := g.fresh()
		g.w("for " + v + " = 1, " + strconv.Itoa(1+g.rng.Below(4)) + " do")
		g.depth++
		g.block(1+g.rng.Below(3), d-1)
		g.depth--
		g.w("end")
	case r == 7 && d > 0:
		// a nested closure capturing locals of the enclosing function (upvalues) and called at once or kept
		f := g.fresh()
		cap := g.anyVar()
		va := ""
		if g.rng.Bool() {
			va = ", ..."
		}
		g.w("local function " + f + "(p, q" + va + ")")
		g.depth++
		saved := g.vars
		g.vars = append(append([]string{}, saved...), "p", "q")
		g.w("acc[#acc + 1] = " + cap)
		g.block(1+g.rng.Below(3), d-1)
		g.w("return p, " + g.expr(1))
		g.vars = saved
		g.depth--
		g.w("end")
		g.w("acc[#acc + 1] = pcall(" + f + ", " + g.expr(1) + ", " + g.expr(1) + ")")
	case r == 8:
		g.w("acc[#acc + 1] = select('#', pcall(function(...) return ... end, " + g.expr(1) + ", " + g.expr(1) + "))")
	case r == 9:
		// an error with line information (runtime error or explicit)
		switch g.rng.Below(3) {
		case 0:
			g.w("if a == 'err' then error('boom ' .. tostring(b)) end")
		case 1:
			g.w("if a == 'idx' then local z = nil; acc[1] = z.field end")
		default:
			g.w("if a == 'arith' then acc[1] = {} + 1 end")
		}
	case r == 10:
		g.w("G_" + strconv.Itoa(g.rng.Below(3)) + " = " + g.expr(1))
	case r == 11:
		g.w("acc[#acc + 1] = G_" + strconv.Itoa(g.rng.Below(3)))
	case r == 12 && d > 0:
		g.w("do")
		g.depth++
		g.block(1+g.rng.Below(3), d-1)
		g.depth--
		g.w("end")
	case r == 13 && d > 0:
		v := g.fresh()
		g.w("local " + v + " = 0")
		g.w("while " + v + " < " + strconv.Itoa(1+g.rng.Below(3)) + " do")
		g.depth++
		g.w(v + " = " + v + " + 1")
		g.block(1, d-1)
		g.depth--
		g.w("end")
	default:
		g.w("acc[#acc + 1] = " + g.expr(3))
	}
}

// genFunc: source of a chunk `local a, b = ...` that collects values in acc and returns them all.
func genFunc(seed uint64, size int) string {
	g := &gen{rng: hlib.NewRng(seed)}
	g.w("local a, b = ...")
	g.w("local acc = {}")
	g.w("local function T(x) local t = type(x) if t == 'table' or t == 'function' then return t end return tostring(x) end")
	g.w("local function N(x) if math.type(x) then return x end return #T(x) end")
	g.block(size, 3)
	g.w("return table.unpack(acc, 1, #acc)")
	return g.sb.String()
}

// handSources: shapes every generated family may miss
var handSources = []string{
	"return",
	"return 1",
	"return ...",
	"local a, b = ... return a, b, select('#', ...)",
	"local t = {} for i = 1, 300 do t[i] = i * 2 end return #t, t[300]",
	"local function fib(n) if n < 2 then return n end return fib(n-1) + fib(n-2) end return fib(15)",
	"local a = ... local function mk() local c = 0 return function() c = c + 1 return c + (a or 0) end end local f = mk() return f(), f(), f()",
	"return function(x) return x end",
	"local s = 0 for k, v in pairs({1, 2, 3}) do s = s + v end return s",
	"goto done do return 1 end ::done:: return 2",
	"local x <close> = setmetatable({}, {__close = function() G_0 = 'closed' end}) return 5",
	"return 1.5, -0.0, 1/0, 0/0, math.mininteger, 9007199254740993, 'a\\0b', ('x'):rep(70)",
	"local a = ... return a.b.c",
	"local ok, e = pcall(error, {code = 7}) if not ok then error('E' .. e.code, 1) end",
	twinSrc,
	manyConsts(300, 12),
	manyConsts(12, 300),
	manyConsts(700, 300),
	"local co = coroutine.wrap(function(...) local x = coroutine.yield(...) return x * 2 end) return co(1, 2), co(21)",
}

// twin constants: an integer and a float of equal value (and both zeros) in ONE function; results are compared by
// subtype and bit pattern, so a constant table that merges them shows
const twinSrc = `local function twins(...)
  return 100000, 100000.0, 9007199254740992, 9007199254740992.0, 1000000000000000, 1e15, 65536.0, 65536,
    0.0, -0.0, 4294967296, 4294967296.0, -100000.0, -100000, "100000", 2^53, math.type(100000.0), math.type(100000)
end
local t = {100000.0, 100000, [100000] = "int key", [65536.0] = 65536}
return twins, 100000.0, 100000, 1/0.0, 1/-0.0, t[1], t[2], twins()`

// manyConsts: a chunk with nb distinct non-inlined constants before a nested function that has ni of its own and
// returns closures two levels deeper: the dumped nested functions have their K-operands re-indexed from high unit
// indices (>= 256 for nb >= 300) and, for ni >= 300, to new indices >= 256 as well.
func manyConsts(nb, ni int) string {
	var b strings.Builder
	b.WriteString("local t = {}\n")
	for i := 0; i < nb; i++ {
		switch i % 3 {
		case 0:
			fmt.Fprintf(&b, "t[#t+1] = \"outer-const-%05d-padding\"\n", i)
		case 1:
			fmt.Fprintf(&b, "t[#t+1] = %d\n", 1000003+7*i)
		default:
			fmt.Fprintf(&b, "t[#t+1] = %d.25\n", 2000003+11*i)
		}
	}
	b.WriteString("local function inner(a)\n  local u = {}\n")
	for i := 0; i < ni; i++ {
		switch i % 3 {
		case 0:
			fmt.Fprintf(&b, "  u[#u+1] = \"inner-const-%05d-padding\"\n", i)
		case 1:
			fmt.Fprintf(&b, "  u[#u+1] = %d\n", 3000017+13*i)
		default:
			fmt.Fprintf(&b, "  u[#u+1] = %d.5\n", 4000037+17*i)
		}
	}
	b.WriteString(`  local function deep(x)
    return "deep-const-one-padding", 5000011.75, x, function(y)
      return "deeper-const-two-padding", 6000029, 6000029.0, y
    end
  end
  return #u, u[1], u[2], u[3], u[#u], u[#u-1], u[#u-2], deep, deep(a)
end
`)
	b.WriteString("return #t, t[1], t[2], t[3], t[#t], t[#t-1], t[#t-2], inner, inner(...)\n")
	return b.String()
}

type env struct {
	r                     *rt.Runtime
	dump, load, mk, churn rt.Value
}

func newEnv() *env {
	r, _ := hlib.NewRuntime(os.Stderr)
	e := &env{r: r}
	e.dump = e.compile("return string.dump")
	e.load = e.compile(`return function(d, name) return load(d, name, "b", setmetatable({}, {__index = _G})) end`)
	e.churn = e.compile(`return function(f)
  local t = {}
  for i = 1, 40 do t[i] = ("churn" .. i):rep(20) end
  local s = table.concat(t)
  local d = string.dump(f) .. string.dump(load("return 1, 'another function', 2.5"))
  return #s + #d
end`)
	e.mk = e.compile(`return function(src, name) return load(src, name, "t", setmetatable({}, {__index = _G})) end`)
	return e
}

func (e *env) compile(src string) rt.Value {
	c, err := hlib.Load(e.r, "c13", src)
	if err != nil {
		fmt.Fprintln(os.Stderr, "harness: cannot compile", src, err)
		os.Exit(2)
	}
	class, res, msg := hlib.PCall(e.r, rt.FunctionValue(c))
	if class != hlib.OK || len(res) != 1 {
		fmt.Fprintln(os.Stderr, "harness: cannot run", src, msg)
		os.Exit(2)
	}
	return res[0]
}

func encAll(vs []rt.Value) string {
	var p []string
	for _, v := range vs {
		switch v.Type() {
		case rt.BoolType:
			if v.AsBool() {
				p = append(p, "t")
			} else {
				p = append(p, "F")
			}
		case rt.FloatType:
			f := v.AsFloat()
			if f != f {
				p = append(p, "fnan")
			} else {
				p = append(p, hlib.Enc(v))
			}
		default:
			p = append(p, hlib.Enc(v))
		}
	}
	return strings.Join(p, ",")
}

func outcome(e *env, f rt.Value, args []rt.Value) string {
	class, res, msg := hlib.PCall(e.r, f, args...)
	switch class {
	case hlib.OK:
		return "ok(" + encAll(res) + ")"
	case hlib.ERR:
		return "err(" + hlib.Hex(msg) + ")"
	}
	return class + "(" + hlib.Hex(msg) + ")"
}

func sha(s string) string {
	h := sha1.Sum([]byte(s))
	return hex.EncodeToString(h[:8])
}

var argTuples = [][]rt.Value{
	{},
	{rt.IntValue(1), rt.IntValue(2)},
	{rt.StringValue("err"), rt.IntValue(3)},
	{rt.StringValue("idx")},
	{rt.StringValue("arith"), rt.FloatValue(2.5)},
	{rt.FloatValue(1.5), rt.StringValue("s"), rt.BoolValue(true), rt.NilValue, rt.IntValue(7)},
	{rt.NilValue, rt.NilValue},
}

func argName(i int) string { return "args" + strconv.Itoa(i) }

// job: one closure whose dump was taken in phase 1 and is verified in phase 2, after every other dump and a lot of
// other allocation has happened: the dump STRING kept here must still be what string.dump returned.
type job struct {
	id, name string
	f        rt.Value
	fresh    func() rt.Value
	toks     []string // prototype tree after RefactorCodeConsts
	utoks    []string // prototype + shared constant vector before it
	d        string   // the value string.dump returned (not copied)
	dumpErr  string
}

func dumpable(v rt.Value) bool {
	cl, ok := v.TryClosure()
	return ok && cl.UpvalueCount <= 1 && (cl.UpvalueCount == 0 || cl.UpNames[0] == "_ENV")
}

// collect: phase 1 for one source: the chunk itself and, to depth 3, the closures without free local variables that
// it (or they) return when called without arguments.
func (e *env) collect(id string, src string, jobs *[]job) {
	name := "=" + id
	mk := func() rt.Value {
		_, fr, _ := hlib.PCall(e.r, e.mk, rt.StringValue(src), rt.StringValue(name))
		if len(fr) == 0 {
			return rt.NilValue
		}
		return fr[0]
	}
	class, res, msg := hlib.PCall(e.r, e.mk, rt.StringValue(src), rt.StringValue(name))
	if class != hlib.OK || len(res) == 0 || res[0].IsNil() {
		m := msg
		if len(res) > 1 {
			m, _ = res[1].ToString()
		}
		hlib.Emit("skip", id, hlib.Hex(m))
		return
	}
	e.collectClosure(id, res[0], name, mk, jobs)
	e.collectSubs(id, res[0], name, 1, jobs)
}

func (e *env) collectSubs(id string, f rt.Value, name string, depth int, jobs *[]job) {
	if depth > 3 {
		return
	}
	class, rs, _ := hlib.PCall(e.r, f)
	if class != hlib.OK {
		return
	}
	for i, v := range rs {
		if dumpable(v) {
			vv := v
			sid := id + "." + strconv.Itoa(i)
			e.collectClosure(sid, v, name, func() rt.Value { return vv }, jobs)
			e.collectSubs(sid, v, name, depth+1, jobs)
		}
	}
}

func (e *env) collectClosure(id string, f rt.Value, name string, fresh func() rt.Value, jobs *[]job) {
	cl, ok := f.TryClosure()
	if !ok {
		return
	}
	j := job{id: id, name: name, f: f, fresh: fresh}
	treeTokens(e.r, e.r.RefactorCodeConsts(cl.Code), &j.toks)
	j.utoks = unitTokens(cl.Code)
	class, res, msg := hlib.PCall(e.r, e.dump, f)
	if class != hlib.OK || len(res) != 1 || res[0].Type() != rt.StringType {
		j.dumpErr = class + "(" + hlib.Hex(msg) + ")"
	} else {
		j.d = res[0].AsString()
	}
	*jobs = append(*jobs, j)
	// other work between two dumps: allocation, string building, and a dump that is thrown away
	hlib.PCall(e.r, e.churn, f)
}

// verify: phase 2 for one closure
func (e *env) verify(j job) {
	id, f, name := j.id, j.f, j.name
	hlib.Emit("unit", id, strings.Join(j.utoks, " "), "=", strings.Join(j.toks, " "))
	if j.dumpErr != "" {
		hlib.Emit("dump", id, strings.Join(j.toks, " "), "=", j.dumpErr)
		return
	}
	d := j.d
	hlib.Emit("dump", id, strings.Join(j.toks, " "), "=", "x"+hlib.Hex(d))
	// a fresh dump of the same function now, and the dump of the reloaded function
	_, res2, _ := hlib.PCall(e.r, e.dump, f)
	class, lres, lmsg := hlib.PCall(e.r, e.load, rt.StringValue(d), rt.StringValue(name))
	if class != hlib.OK || len(lres) == 0 || lres[0].IsNil() {
		m := lmsg
		if len(lres) > 1 {
			m, _ = lres[1].ToString()
		}
		hlib.Emit("beh", id, "load", "=", "loaded", "||", class+"("+hlib.Hex(m)+")")
		return
	}
	g := lres[0]
	_, res3, _ := hlib.PCall(e.r, e.dump, g)
	s2, s3 := "none", "none"
	if len(res2) == 1 && res2[0].Type() == rt.StringType {
		s2 = sha(res2[0].AsString())
	}
	if len(res3) == 1 && res3[0].Type() == rt.StringType {
		s3 = sha(res3[0].AsString())
	}
	hlib.Emit("redump", id, "=", sha(d), s3, s2)
	for i, args := range argTuples {
		// fresh instances for every tuple: both sides start from the same state
		_, fr, _ := hlib.PCall(e.r, e.load, rt.StringValue(d), rt.StringValue(name))
		if len(fr) == 0 || fr[0].IsNil() {
			continue
		}
		f0 := j.fresh() // a fresh instance from source, with a fresh environment
		if f0.IsNil() {
			continue
		}
		hlib.Emit("beh", id, argName(i), "=", outcome(e, f0, args), "||", outcome(e, fr[0], args))
	}
}

func sources(tier string) (ids []string, srcs []string) {
	for i, s := range handSources {
		ids = append(ids, "h"+strconv.Itoa(i))
		srcs = append(srcs, s)
	}
	n := 150
	if tier == "thorough" {
		n = 3000
	}
	seed := hlib.Seed()
	for i := 0; i < n; i++ {
		size := 2 + i%12
		if i%25 == 24 {
			size = 120 // long functions: many constants, long line tables
		}
		ids = append(ids, "g"+strconv.Itoa(i))
		srcs = append(srcs, genFunc(seed*1000003+uint64(i), size))
	}
	return
}

// ---------------------------------------------------------------- size-parameterised chunk shapes

// siblings: a chunk that defines n sibling closures (none nested in another), calls some and returns two of them
func siblings(n int) string {
	var b strings.Builder
	b.WriteString("local a = ...\nlocal t = {}\n")
	for i := 1; i <= n; i++ {
		fmt.Fprintf(&b, "t[%d] = function(x) if x == 'err' then error('sibling %d') end return (x or 0) + %d end\n", i, i, i)
	}
	fmt.Fprintf(&b, "return #t, t[1](a), t[%d](a), t[%d](2), t[1], t[%d]\n", n, (n+1)/2, n)
	return b.String()
}

// nested: functions nested d deep; the innermost raises an error with its line when asked to
func nested(d int) string {
	var b strings.Builder
	b.WriteString("local a = ...\n")
	for i := 1; i <= d; i++ {
		fmt.Fprintf(&b, "%slocal function f%d(x)\n", strings.Repeat(" ", i-1), i)
	}
	fmt.Fprintf(&b, "%sif x == 'err' then error('innermost') end\n%sreturn %d, x\n", strings.Repeat(" ", d), strings.Repeat(" ", d), d)
	for i := d; i >= 1; i-- {
		ind := strings.Repeat(" ", i-1)
		fmt.Fprintf(&b, "%send\n", ind)
		if i > 1 {
			fmt.Fprintf(&b, "%sreturn f%d(x)\n", ind, i)
		}
	}
	b.WriteString("return f1(a)\n")
	return b.String()
}

// wideDeep: d levels, each defining w sibling closures next to the function that holds the next level
func wideDeep(w, d int) string {
	var b strings.Builder
	b.WriteString("local a = ...\nlocal acc = 0\n")
	for i := 1; i <= d; i++ {
		ind := strings.Repeat(" ", i-1)
		for j := 1; j <= w; j++ {
			fmt.Fprintf(&b, "%slocal function s%d_%d(x) return x + %d end\n", ind, i, j, i*100+j)
		}
		fmt.Fprintf(&b, "%slocal function lvl%d(x)\n", ind, i)
	}
	fmt.Fprintf(&b, "%sif x == 'err' then error('bottom') end\n%sreturn %d\n", strings.Repeat(" ", d), strings.Repeat(" ", d), d)
	for i := d; i >= 1; i-- {
		ind := strings.Repeat(" ", i-1)
		fmt.Fprintf(&b, "%send\n", ind)
		if i > 1 {
			fmt.Fprintf(&b, "%sreturn lvl%d(x) + s%d_1(1) + s%d_%d(2)\n", ind, i, i, i, w)
		}
	}
	fmt.Fprintf(&b, "return lvl1(a) + s1_1(1) + s1_%d(2)\n", w)
	return b.String()
}

// longLines: n statements, then blank lines up to line `at`, where an error is raised on request: a long line table
// with line numbers beyond 16 bits
func longLines(n, at int) string {
	var b strings.Builder
	b.WriteString("local a = ...\nlocal s = 0\n")
	for i := 0; i < n; i++ {
		fmt.Fprintf(&b, "s = s + %d\n", i%7)
	}
	b.WriteString(strings.Repeat("\n", at-n-3))
	b.WriteString("if a == 'err' then error('far away') end\nlocal z = nil\nif a == 'idx' then return z.x end\nreturn s\n")
	return b.String()
}

// maxNesting: the deepest `nested` shape the compiler accepts (at most limit)
func maxNesting(e *env, limit int) int {
	lo, hi := 1, limit
	for lo < hi {
		mid := (lo + hi + 1) / 2
		_, res, _ := hlib.PCall(e.r, e.mk, rt.StringValue(nested(mid)), rt.StringValue("=probe"))
		if len(res) > 0 && !res[0].IsNil() {
			lo = mid
		} else {
			hi = mid - 1
		}
	}
	return lo
}

func shapeSources(e *env, tier string) (ids []string, srcs []string) {
	add := func(id, src string) { ids = append(ids, id); srcs = append(srcs, src) }
	for _, n := range []int{10, 199, 200, 201, 1000} {
		add("sib"+strconv.Itoa(n), siblings(n))
	}
	top := maxNesting(e, 400)
	seen := map[int]bool{}
	for _, d := range []int{10, 50, top / 2, top - 1, top} {
		if d >= 1 && !seen[d] {
			seen[d] = true
			add("nest"+strconv.Itoa(d), nested(d))
		}
	}
	dd := top / 2
	if dd > 40 {
		dd = 40
	}
	add("wd5x"+strconv.Itoa(dd), wideDeep(5, dd))
	add("wd40x5", wideDeep(40, 5))
	add("lines2000at70000", longLines(2000, 70000))
	add("lines20at100", longLines(20, 100))
	if tier == "thorough" {
		add("sib3000", siblings(3000))
		add("wd12x"+strconv.Itoa(dd), wideDeep(12, dd))
		add("lines20000at300000", longLines(20000, 300000))
	}
	return
}

// ---------------------------------------------------------------- operation sequences on one live function

const seqSrc = `local x = ...
local function inner(v)
  if v == nil then
    error("missing value")
  end
  return v + 1
end
local function outer(v)
  return (inner(v))
end
if x == "nested" then return inner, outer end
return outer(x)`

var seqOps = []string{"D", "S", "F", "N", "C", "E", "K", "L"}

// seqState: what must never change over the life of a function, whatever was done to it before
func (e *env) seqState(f rt.Value, name string) string {
	_, d, _ := hlib.PCall(e.r, e.dump, f)
	ds := "nodump"
	var lerr string
	if len(d) == 1 && d[0].Type() == rt.StringType {
		ds = sha(d[0].AsString())
		_, g, _ := hlib.PCall(e.r, e.load, d[0], rt.StringValue(name))
		if len(g) > 0 && !g[0].IsNil() {
			lerr = outcome(e, g[0], nil) + "/" + outcome(e, g[0], []rt.Value{rt.TableValue(rt.NewTable())})
		} else {
			lerr = "noload"
		}
	}
	live := outcome(e, f, nil) + "/" + outcome(e, f, []rt.Value{rt.TableValue(rt.NewTable())})
	return ds + " " + live + " " + lerr
}

// doSeq: apply the operations to ONE live function and record the state after each
func (e *env) doSeq(ops string) {
	name := "=seq"
	_, fr, _ := hlib.PCall(e.r, e.mk, rt.StringValue(seqSrc), rt.StringValue(name))
	if len(fr) == 0 || fr[0].IsNil() {
		hlib.Emit("seq", ops, "=", "nocompile")
		return
	}
	f := fr[0]
	states := []string{e.seqState(f, name)}
	for _, op := range ops {
		switch op {
		case 'D':
			hlib.PCall(e.r, e.dump, f)
		case 'S':
			hlib.PCall(e.r, e.dump, f, rt.BoolValue(true))
		case 'F':
			hlib.PCall(e.r, e.dump, f, rt.BoolValue(false))
		case 'N':
			hlib.PCall(e.r, e.dump, f, rt.NilValue)
		case 'C':
			hlib.PCall(e.r, f, rt.IntValue(1))
		case 'E':
			hlib.PCall(e.r, f)
		case 'K': // dump (stripped and plain) the nested closures obtained by calling
			_, rs, _ := hlib.PCall(e.r, f, rt.StringValue("nested"))
			for _, v := range rs {
				if _, ok := v.TryClosure(); ok {
					hlib.PCall(e.r, e.dump, v, rt.BoolValue(true))
					hlib.PCall(e.r, e.dump, v)
				}
			}
		case 'L': // load a stripped dump and call it
			_, d, _ := hlib.PCall(e.r, e.dump, f, rt.BoolValue(true))
			if len(d) == 1 && d[0].Type() == rt.StringType {
				_, g, _ := hlib.PCall(e.r, e.load, d[0], rt.StringValue(name))
				if len(g) > 0 && !g[0].IsNil() {
					hlib.PCall(e.r, g[0])
				}
			}
		}
		states = append(states, e.seqState(f, name))
	}
	hlib.Emit("seq", ops, "=", strings.Join(states, " | "))
}

func seqAll(e *env, tier string) {
	maxLen := 4
	var rec func(prefix string)
	rec = func(prefix string) {
		if prefix != "" {
			e.doSeq(prefix)
		}
		if len(prefix) == maxLen {
			return
		}
		for _, o := range seqOps {
			rec(prefix + o)
		}
	}
	rec("")
}

// ---------------------------------------------------------------- damaged dumps

func le64(n uint64) string {
	b := make([]byte, 8)
	for i := range b {
		b[i] = byte(n >> (8 * uint(i)))
	}
	return string(b)
}

func crafted() []string {
	hdr := "\x06\x00\x04"
	str := func(s string) string { return le64(uint64(len(s))) + s }
	codeHead := hdr + "\x05" + str("=x") + str("f")
	small := codeHead + le64(0) + le64(0) + le64(0) + "\x00\x00\x01\x00\x00\x00" + le64(0)
	return []string{
		hdr,
		hdr + "\x01",
		hdr + "\x01" + le64(5),
		hdr + "\x02" + le64(5),
		hdr + "\x04" + str("just a string"),
		hdr + "\x03\x01",
		hdr + "\x09",
		small,
		codeHead + le64(1<<40),           // make([]Opcode, 2^40): 4 TiB before a byte is read
		codeHead + le64(1<<62),           // > maxAlloc: makeslice panic, swallowed
		codeHead + le64(math.MaxUint64),  // negative
		codeHead + le64(0) + le64(1<<33), // line table
		codeHead + le64(0) + le64(0) + le64(1<<36),                                                  // constants
		codeHead + le64(0) + le64(0) + le64(0) + "\xff\xff\x01\x00\x00\x00" + le64(0),               // UpvalueCount = -1
		codeHead + le64(0) + le64(0) + le64(0) + "\x00\x00\x01\x00\x00\x00" + le64(1<<40),           // upvalue names
		codeHead + le64(0) + le64(0) + le64(0) + "\x00\x00\x01\x00\x00\x00" + le64(1) + le64(1<<41), // string length
		hdr + "\x04" + le64(1<<42),
		hdr + "\x04" + le64(math.MaxUint64),
		hdr + "\x04" + le64(10) + "abc", // short string: silently zero-padded
		small[:len(small)-1],
	}
}

// malInputs: the damaged dumps and, for each, what was done to it (crafted | trunc<bytes missing> | flip | bytes)
func malInputs(tier string) (out []string, kinds []string) {
	e := newEnv()
	for _, c := range crafted() {
		out = append(out, c)
		kinds = append(kinds, "crafted")
	}
	ids, srcs := sources("quick")
	rng := hlib.NewRng(hlib.Seed() ^ 0xd13)
	nf := 5
	per := 24
	if tier == "thorough" {
		nf, per = 40, 300
	}
	picked := 0
	for i := range ids {
		if picked >= nf {
			break
		}
		if i%7 != 3 && i != 0 {
			continue
		}
		class, res, _ := hlib.PCall(e.r, e.mk, rt.StringValue(srcs[i]), rt.StringValue("="+ids[i]))
		if class != hlib.OK || len(res) == 0 || res[0].IsNil() {
			continue
		}
		class, d, _ := hlib.PCall(e.r, e.dump, res[0])
		if class != hlib.OK || len(d) != 1 {
			continue
		}
		s := d[0].AsString()
		if len(s) > 8000 {
			continue // keep the damaged-dump corpus small: every truncation of s is in it
		}
		picked++
		// every truncation of short dumps, sampled truncations of long ones
		step := 1
		if len(s) > 400 {
			step = len(s) / 200
		}
		for n := 3; n < len(s); n += step {
			out = append(out, s[:n])
			kinds = append(kinds, "trunc"+strconv.Itoa(len(s)-n))
		}
		for n := len(s) - 12; n < len(s); n++ { // the tail: inside the last upvalue name
			if n > 3 && step > 1 {
				out = append(out, s[:n])
				kinds = append(kinds, "trunc"+strconv.Itoa(len(s)-n))
			}
		}
		for k := 0; k < per; k++ {
			b := []byte(s)
			pos := 3 + rng.Below(len(b)-3)
			b[pos] ^= byte(1 << uint(rng.Below(8)))
			out = append(out, string(b))
			kinds = append(kinds, "flip")
		}
		for k := 0; k < per/4; k++ {
			b := []byte(s)
			pos := 3 + rng.Below(len(b)-3)
			b[pos] = byte(rng.Below(256))
			if pos+1 < len(b) {
				b[pos+1] = byte(rng.Below(256))
			}
			out = append(out, string(b))
			kinds = append(kinds, "bytes")
		}
	}
	return out, kinds
}

// malgen prints the damaged dumps (`<kind> x<hex>` per line); it runs without a memory limit.
func malgen(tier string) {
	ins, kinds := malInputs(tier)
	for i := range ins {
		hlib.Emit(kinds[i], "x"+hlib.Hex(ins[i]))
	}
}

// mal feeds the damaged dumps listed in file `path` (from index start) to load(), under the caller's memory limit.
func mal(path string, start int) {
	f, err := os.Open(path)
	if err != nil {
		fmt.Fprintln(os.Stderr, err)
		os.Exit(2)
	}
	defer f.Close()
	sc := bufio.NewScanner(f) // streamed: the process runs under an address-space limit
	sc.Buffer(make([]byte, 1<<20), 1<<26)
	e := newEnv()
	for i := 0; sc.Scan(); i++ {
		if i < start {
			continue
		}
		t := strings.SplitN(sc.Text(), " ", 2)
		if len(t) != 2 {
			continue
		}
		b, err := hex.DecodeString(strings.TrimPrefix(t[1], "x"))
		if err != nil {
			continue
		}
		kind, in := t[0], string(b)
		hlib.Out.WriteString("load " + strconv.Itoa(i) + " " + kind + " " + t[1])
		hlib.Out.Flush()
		class, res, msg := hlib.PCall(e.r, e.load, rt.StringValue(in), rt.StringValue("=m"))
		o := class
		if class == hlib.OK {
			if len(res) > 0 && !res[0].IsNil() {
				o = "ok"
			} else {
				o = "err"
			}
		} else if class == hlib.PANIC {
			e = newEnv()
			if len(msg) > 60 {
				msg = msg[:60]
			}
			o = "panic:" + strings.ReplaceAll(msg, " ", "_")
		}
		hlib.Out.WriteString(" = " + o + "\n")
		hlib.Out.Flush()
	}
}

// ---------------------------------------------------------------- dump.go's error path

// latent builds (by hand: the compiler always inlines booleans) a prototype whose constant vector holds a boolean,
// which MarshalConst cannot write, and reports what string.dump does with the marshalling error.
func latent() {
	e := newEnv()
	unit := &code.Unit{
		Source: "=latent",
		Code:   []code.Opcode{code.LoadConst(code.ValueReg(0), code.KIndexFromInt(1)), code.LoadConst(code.ValueReg(1), code.KIndexFromInt(2))},
		Lines:  []int32{1, 1},
		Constants: []code.Constant{
			code.Code{Name: "f", StartOffset: 0, EndOffset: 2, RegCount: 2},
			code.Bool(true),
			code.String("a long enough string constant that follows the boolean"),
		},
	}
	cl := e.r.LoadLuaUnit(unit, rt.TableValue(e.r.GlobalEnv()))
	class, res, msg := hlib.PCall(e.r, e.dump, rt.FunctionValue(cl))
	if class != hlib.OK || len(res) != 1 {
		hlib.Emit("latent", "dump", "=", class, hlib.Hex(msg))
		return
	}
	d := res[0].AsString()
	class, lres, _ := hlib.PCall(e.r, e.load, rt.StringValue(d), rt.StringValue("=latent"))
	lo := class
	if class == hlib.OK && (len(lres) == 0 || lres[0].IsNil()) {
		m, _ := lres[1].ToString()
		lo = "err(" + m + ")"
	}
	hlib.Emit("latent", "dump", "=", "returned-"+strconv.Itoa(len(d))+"-bytes-without-error", "load:", lo)
}

func main() {
	if len(os.Args) < 2 {
		fmt.Fprintln(os.Stderr, "usage: c13 gen|mal|latent|src …")
		os.Exit(2)
	}
	defer hlib.Out.Flush()
	tier := "quick"
	if len(os.Args) > 2 {
		tier = os.Args[2]
	}
	switch os.Args[1] {
	case "gen":
		e := newEnv()
		ids, srcs := sources(tier)
		sids, ssrcs := shapeSources(e, tier)
		ids, srcs = append(ids, sids...), append(srcs, ssrcs...)
		var jobs []job
		for i := range ids {
			e.collect(ids[i], srcs[i], &jobs) // phase 1: every dump is taken (and kept) before any is verified
		}
		for _, j := range jobs {
			e.verify(j)
		}
		seqAll(e, tier)
	case "seq":
		newEnv().doSeq(os.Args[2])
	case "malgen":
		malgen(tier)
	case "mal":
		start := 0
		if len(os.Args) > 3 {
			start, _ = strconv.Atoi(os.Args[3])
		}
		mal(tier, start)
	case "malone":
		b, _ := hex.DecodeString(os.Args[2])
		e := newEnv()
		class, res, msg := hlib.PCall(e.r, e.load, rt.StringValue(string(b)), rt.StringValue("=m"))
		fmt.Println(class, len(res), msg)
		if len(res) > 1 {
			fmt.Println(res[1].ToString())
		}
	case "latent":
		latent()
	case "src":
		ids, srcs := sources("thorough")
		sids, ssrcs := shapeSources(newEnv(), "thorough")
		ids, srcs = append(ids, sids...), append(srcs, ssrcs...)
		for i := range ids {
			if ids[i] == os.Args[2] {
				fmt.Print(srcs[i])
			}
		}
	default:
		fmt.Fprintln(os.Stderr, "unknown mode")
		os.Exit(2)
	}
}
