//go:build !verif || noregpool
// +build !verif noregpool

package main

import (
	"fmt"
	"os"
)

func poolMode(args []string) {
	fmt.Fprintln(os.Stderr, "pool mode needs tags verif and !noregpool")
	os.Exit(2)
}
