//go:build !verif || nocontpool
// +build !verif nocontpool

package main

import (
	"fmt"
	"os"
)

func cpoolMode(args []string) {
	fmt.Fprintln(os.Stderr, "cpool mode needs tags verif and !nocontpool")
	os.Exit(2)
}
