//go:build verif && !nocontpool
// +build verif,!nocontpool

package main

import (
	"fmt"
	"strconv"

	rt "github.com/arnodel/golua/runtime"
	"verifharness/hlib"
)

// cpoolMode: N random disciplined histories against the real luaContPool.
//   cnew <cap>   -> -
//   cget         -> id zeroed(0/1)
//   crelease id  -> -
func cpoolMode(args []string) {
	n, _ := strconv.Atoi(args[0])
	rng := hlib.NewRng(hlib.Seed() + 77)
	for prog := 0; prog < n; prog++ {
		p := rt.VerifNewLuaContPool()
		hlib.Emit("cnew", strconv.Itoa(rt.VerifLuaContPoolSize), "=", "-")
		var live []int
		steps := 5 + rng.Below(80)
		burst := rng.Chance(20) // occasionally overflow the pool capacity
		if burst {
			steps = 260
		}
		for s := 0; s < steps; s++ {
			get := len(live) == 0 || rng.Chance(50)
			if burst {
				get = s < 120 || (s >= 240)
			}
			if get {
				id, z := p.Get()
				zi := 0
				if z {
					zi = 1
				}
				live = append(live, id)
				hlib.Emit("cget", "=", fmt.Sprintf("%d %d", id, zi))
			} else {
				if len(live) == 0 {
					continue
				}
				i := rng.Below(len(live))
				id := live[i]
				live = append(live[:i], live[i+1:]...)
				p.Release(id)
				hlib.Emit("crelease", strconv.Itoa(id), "=", "-")
			}
		}
	}
}
