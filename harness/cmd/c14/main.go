// c14: (1) `pool N` — drives the private valuePool through the verif hook with
// disciplined random client programs and prints what each operation returns;
// (2) `prog` — runs the pool-stressing Lua templates (and any program files given)
// and prints their host-visible event traces.  The same binary source is built
// under each tag set; checks/c14.py diffs the traces between builds.
package main

import (
	"fmt"
	"os"
	"strings"

	rt "github.com/arnodel/golua/runtime"
	"verifharness/hlib"
)

func main() {
	defer hlib.Out.Flush()
	if len(os.Args) < 2 {
		fmt.Fprintln(os.Stderr, "usage: c14 pool N | prog [files...]")
		os.Exit(2)
	}
	switch os.Args[1] {
	case "pool":
		poolMode(os.Args[2:])
	case "cpool":
		cpoolMode(os.Args[2:])
	case "prog":
		for i, src := range templates {
			runProg(fmt.Sprintf("template%02d", i), src)
		}
		for _, f := range os.Args[2:] {
			b, err := os.ReadFile(f)
			if err != nil {
				fmt.Fprintln(os.Stderr, err)
				os.Exit(2)
			}
			for i, src := range strings.Split(string(b), "\n--@@\n") {
				runProg(fmt.Sprintf("%s#%d", f, i), src)
			}
		}
	}
}

func runProg(name, src string) {
	r, cleanup := hlib.NewRuntime(os.Stderr)
	var trace []string
	r.SetEnvGoFunc(r.GlobalEnv(), "emit", func(t *rt.Thread, c *rt.GoCont) (rt.Cont, error) {
		var parts []string
		for _, a := range c.Etc() {
			parts = append(parts, hlib.Enc(a))
		}
		trace = append(trace, strings.Join(parts, ","))
		return c.Next(), nil
	}, 0, true)
	// re-entrant call from Go: callback(f, ...) calls f from inside a Go function
	r.SetEnvGoFunc(r.GlobalEnv(), "callback", func(t *rt.Thread, c *rt.GoCont) (rt.Cont, error) {
		term := rt.NewTerminationWith(c, 0, true)
		if err := rt.Call(t, c.Arg(0), c.Etc(), term); err != nil {
			return nil, err
		}
		next := c.Next()
		t.Push(next, term.Etc()...)
		return next, nil
	}, 1, true)
	clos, err := hlib.Load(r, name, src)
	if err != nil {
		cleanup()
		hlib.Emit("prog", name, "compile-error")
		return
	}
	class, res, msg := hlib.PCall(r, rt.FunctionValue(clos))
	// closing the runtime runs the pending finalisers: their events are part of the trace
	trace = append(trace, "<close>")
	func() {
		defer func() {
			if p := recover(); p != nil {
				trace = append(trace, "<panic-in-close>")
			}
		}()
		var cerr error
		r.Close(&cerr)
		cleanup()
	}()
	var rs []string
	for _, v := range res {
		rs = append(rs, hlib.Enc(v))
	}
	if class == hlib.ERR {
		// keep only the error class + position prefix free text up to the first ':' pair
		msg = hlib.Hex(msg)
	} else {
		msg = ""
	}
	hlib.Emit("prog", name, class, "["+strings.Join(rs, ",")+"]", msg, "trace="+strings.Join(trace, ";"))
}

var templates = []string{
	// deep non-tail recursion with captured variables (cell pool) and varying frame sizes
	`local function f(n) local a, b = n, n * 2 local function g() return a + b end if n == 0 then return 0 end return g() + f(n - 1) end
emit(f(3000))`,
	// tail recursion
	`local function loop(n, acc) if n == 0 then return acc end return loop(n - 1, acc + n) end emit(loop(200000, 0))`,
	// mutual tail recursion with different register counts
	`local even, odd
function even(n, a, b, c) if n == 0 then return "even" end return odd(n - 1) end
function odd(n) local x, y, z, w, v = 1, 2, 3, 4, 5 if n == 0 then return "odd" end return even(n - 1, x, y, z) end
emit(even(100001))`,
	// error unwinding through many frames, repeatedly
	`local function deep(n) if n == 0 then error({code = 7}) end local a, b, c = n, n, n return 1 + deep(n - 1) + a + b + c end
for i = 1, 50 do local ok, e = pcall(deep, 150 + i) emit(ok, type(e), e.code) end
local function fine(n) if n == 0 then return 0 end return 1 + fine(n - 1) end emit(fine(500))`,
	// coroutines abandoned mid-call, closures outliving their frame
	`local keep = {}
for i = 1, 40 do
  local co = coroutine.wrap(function(a) local x = a * 2 local function inner() x = x + 1 return x end keep[#keep + 1] = inner coroutine.yield(inner()) return inner() end)
  emit(co(i))
end
local s = 0 for _, f in ipairs(keep) do s = s + f() end emit(s)`,
	// closures outliving frames: counters
	`local function counter() local n = 0 return function() n = n + 1 return n end end
local cs = {} for i = 1, 30 do cs[i] = counter() end
for r = 1, 3 do for i = 1, 30 do cs[i]() end end
local t = 0 for i = 1, 30 do t = t + cs[i]() end emit(t)`,
	// fresh variable per iteration captured
	`local fs = {} for i = 1, 20 do local j = i * i fs[i] = function() j = j + 1 return i + j end end
local t = 0 for k = 1, 20 do t = t + fs[k]() + fs[k]() end emit(t)`,
	// re-entrant calls from Go: sort comparator, gsub callback, callback()
	`local t = {} for i = 1, 200 do t[i] = (i * 7919) % 211 end
table.sort(t, function(a, b) local x = a local y = b return x < y end) emit(t[1], t[100], t[200])
emit((string.gsub("hello world", "%w+", function(w) local u = w:upper() return u .. #w end)))
emit(callback(function(a, b) return callback(function(x) return x * 2 end, a) + b end, 20, 2))`,
	// errors thrown through Go re-entrancy
	`for i = 1, 30 do
  local ok, e = pcall(table.sort, {3, 2, 1, i}, function(a, b) if a == i then error("boom" .. i, 0) end return a < b end)
  emit(ok, e)
end
emit(pcall(callback, function() local a, b, c = 1, 2, 3 error("x", 0) end))`,
	// varargs and many frame shapes
	`local function v(...) local n = select("#", ...) if n == 0 then return 0 end local a = ... return a + v(select(2, ...)) end
emit(v(1, 2, 3, 4, 5, 6, 7, 8, 9, 10))
local function shapes(k) if k == 0 then return 0 end
  if k % 3 == 0 then local a, b, c, d, e, f, g = 1, 2, 3, 4, 5, 6, 7 return a + g + shapes(k - 1)
  elseif k % 3 == 1 then local a = 1 return a + shapes(k - 1)
  else local a, b, c = 1, 2, 3 local function h() return a + b + c end return h() + shapes(k - 1) end end
emit(shapes(300))`,
	// metamethod re-entrancy and pcall inside metamethods
	`local mt = {} mt.__index = function(t, k) local ok, v = pcall(function() return k * 2 end) return ok and v or -1 end
mt.__add = function(a, b) return setmetatable({v = a.v + b.v}, mt) end
local x = setmetatable({v = 1}, mt) local y = x for i = 1, 100 do y = y + x end emit(y.v, x[21], x.name)`,
	// tbc variables with errors, unwinding
	`local log = {}
local function mk(n) return setmetatable({}, {__close = function(_, e) log[#log + 1] = n .. ":" .. tostring(e ~= nil) end}) end
local function f(k) local a <close> = mk("a" .. k) local b <close> = mk("b" .. k) if k == 0 then error("E", 0) end return f(k - 1) end
emit(pcall(f, 5)) emit(table.concat(log, ","))`,
	// register-set reuse: same function (with captured locals) called again after an earlier call returned,
	// non-tail recursion in between, closures from both generations kept alive
	`local keep = {}
local function mk(tag, depth)
  local a, b = tag .. "-a" .. depth, tag .. "-b" .. depth
  local function get() return a .. b end
  keep[#keep + 1] = get
  if depth > 0 then local inner = mk(tag, depth - 1) return function() return get() .. "|" .. inner() end end
  return get
end
local f1 = mk("x", 0) emit(f1())
local f2 = mk("y", 2) emit(f2())
local f3 = mk("z", 1) emit(f3(), f1(), f2())
local out = {} for i, g in ipairs(keep) do out[i] = g() end emit(table.concat(out, ","))`,
	`local function frame(n) local v = "frame" .. n local function show() return v end
  if n < 3 then local inner = frame(n + 1) return function() return show() .. " " .. inner() end end return show end
local a = frame(2) emit(a()) local b = frame(0) emit(b()) local c = frame(1) emit(a(), b(), c())
for i = 1, 20 do local f = frame(i % 4) emit(f()) end`,
	// return/call debug hooks inspecting the function that triggered the event
	`local function leaf(x) return x + 1 end
local function middle(x) local y = leaf(x) return y * 2 end
local function tailer(x) return middle(x) end
local events = {}
local function hook(ev) local info = debug.getinfo(2, "nSl")
  events[#events + 1] = ev .. ":" .. tostring(info and info.name) .. ":" .. tostring(info and info.currentline) end
debug.sethook(hook, "cr") local r = middle(20) + tailer(1) debug.sethook()
emit(r) emit(table.concat(events, " "))`,
	// finalisers: order at close, re-marking, objects created inside pcall / xpcall / coroutine staying reachable
	`local log = {}
local function obj(name) return setmetatable({name = name}, {__gc = function(o) emit("gc", o.name) end}) end
KEEP = {}
KEEP[1] = obj("a") KEEP[2] = obj("b") KEEP[3] = obj("c")
setmetatable(KEEP[1], getmetatable(KEEP[1]))  -- re-mark a after b and c
KEEP[4] = obj("d")
setmetatable(KEEP[3], {__gc = function(o) emit("gc2", o.name) end})  -- re-mark c with another finaliser
pcall(function() KEEP[5] = obj("in-pcall") end)
xpcall(function() KEEP[6] = obj("in-xpcall") error("x") end, function(e) KEEP[7] = obj("in-handler") return e end)
coroutine.wrap(function() KEEP[8] = obj("in-co") coroutine.yield() end)()
emit("end of chunk")`,
	`local function obj(name) return setmetatable({name = name}, {__gc = function(o) emit("gc", o.name) end}) end
G1 = obj("outer1")
local ok = pcall(function() G2 = obj("inner1") local t <close> = setmetatable({}, {__close = function() emit("close-inner") end}) error("boom") end)
emit(ok) G3 = obj("outer2")
for i = 1, 3 do pcall(function() _G["P" .. i] = obj("p" .. i) end) end
emit("still alive", G2.name, P1.name, P3.name)`,
	// generic for with stateful iterators and string building
	`local function range(n) local i = 0 return function() i = i + 1 if i <= n then return i, i * i end end end
local parts = {} for i, sq in range(50) do parts[#parts + 1] = i .. "=" .. sq end emit(#table.concat(parts, ","))
local s = 0 for k, v in pairs({10, 20, 30, x = 1, y = 2}) do s = s + v end emit(s)`,
	// errors raised by the close actions of a returning function (a to-be-closed value that lost its __close, a raising
	// handler), followed by calls that reuse whatever the failed return gave back to the pools
	`local function f(drop, raise) local mt = {__close = function() emit("closed") if raise then error("in close") end end}
  local x <close> = setmetatable({}, mt) local y <close> = setmetatable({}, {__close = function() emit("closed y") end})
  if drop then mt.__close = nil end return 1, 2 end
local function g(n) local a, b = n, n + 1 if n == 0 then return 0 end return 1 + g(n - 1) + (a - b + 1) end
emit(pcall(f, false, false)) emit(g(25))
emit(pcall(f, true, false)) emit(g(30)) emit(pcall(f, false, true)) emit(g(12))
for i = 1, 5 do local ok, e = pcall(f, i % 2 == 0, i % 3 == 0) emit(ok, type(e), g(i)) end
local co = coroutine.wrap(function() emit(pcall(f, true, false)) coroutine.yield(g(7)) emit(pcall(f, true, true)) return g(9) end)
emit(co()) emit(co())`,
	// chunk loaders reading through the file API, and the budget-metered library paths (their metering is compiled out
	// under noquotas and must not change what they compute)
	`local name = os.tmpname() local fh = assert(io.open(name, "w"))
fh:write("local a, b = ... emit('from file', a, b) return (a or 0) + 41, 'x'") fh:close()
local chunk, err = loadfile(name) emit(type(chunk), err) if chunk then emit(chunk(1, 2)) end
emit(pcall(dofile, name))
local chunk2 = loadfile(name, "t", {emit = emit}) emit(type(chunk2)) if chunk2 then emit(chunk2(5)) end
local fh2 = assert(io.open(name, "rb")) local all = fh2:read("a") fh2:close() emit(#all, select("#", load(all)))
local bin = string.dump(load("return 1 + ..., 'bin'")) emit(load(bin, "b", "b")(2))
local fh3 = assert(io.open(name, "wb")) fh3:write(bin) fh3:close() emit(pcall(dofile, name)) emit(loadfile(name, "t"))
os.remove(name)
emit(#string.rep("ab", 1000, ","), #table.concat({1, 2, 3, "x"}, "--"), string.format("%5d|%-5s|%q", 42, "ab", "q\n"))
emit(string.unpack("<i4 z s1", string.pack("<i4 z s1", -2, "zed", "s")))
emit(string.gsub("hello world from lua", "(%w+) (%w+)", "%2 %1", 1), string.find("aXb", "%u"), #string.rep("x", 300):gsub("x", "yy"))
emit(tostring(12345.678), tostring(-0.0), 2^53 | 0, math.tointeger("8"), #tostring(setmetatable({}, {__tostring = function() return "T" end})))`,
}
