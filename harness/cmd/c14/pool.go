//go:build verif && !noregpool
// +build verif,!noregpool

package main

import (
	"fmt"
	"strconv"

	rt "github.com/arnodel/golua/runtime"
	"verifharness/hlib"
)

// poolMode: N random disciplined client programs against the real valuePool.
// Line format (one per op, programs separated by "new"):
//   new <size> <maxAge>
//   get <sz>            -> id len zero(0/1)
//   write <h> <idx> <v> -> -
//   read <h> <idx>      -> v
//   release <h>         -> -
// Handles are the order of `get`s within the program.
type regPool interface {
	Get(sz int) (int, int, bool)
	Write(id, idx int, n int64)
	Read(id, idx int) int64
	Release(id int)
}

func poolMode(args []string) {
	n, _ := strconv.Atoi(args[0])
	rng := hlib.NewRng(hlib.Seed())
	for prog := 0; prog < n; prog++ {
		// the value pool and the cell pool are two copies of the same algorithm: alternate
		var p regPool
		if prog%2 == 0 {
			p = rt.VerifNewValuePool(10, 10)
		} else {
			p = rt.VerifNewCellPool(10, 10)
		}
		hlib.Emit("new", "10", "10", "=", "-")
		type h struct {
			id, sz int
			held   bool
		}
		var hs []h
		steps := 5 + rng.Below(60)
		for s := 0; s < steps; s++ {
			var heldIdx []int
			for i, x := range hs {
				if x.held {
					heldIdx = append(heldIdx, i)
				}
			}
			k := rng.Below(10)
			switch {
			case k < 3 || len(heldIdx) == 0:
				sz := rng.Below(5)
				if rng.Chance(10) {
					sz = rng.Below(40)
				}
				id, l, z := p.Get(sz)
				zi := 0
				if z {
					zi = 1
				}
				hs = append(hs, h{id, l, true})
				hlib.Emit("get", strconv.Itoa(sz), "=", fmt.Sprintf("%d %d %d", id, l, zi))
			case k < 6:
				i := heldIdx[rng.Below(len(heldIdx))]
				if hs[i].sz == 0 {
					continue
				}
				idx := rng.Below(hs[i].sz)
				v := 1 + rng.Below(1000)
				p.Write(hs[i].id, idx, int64(v))
				hlib.Emit("write", strconv.Itoa(i), strconv.Itoa(idx), strconv.Itoa(v), "=", "-")
			case k < 8:
				i := heldIdx[rng.Below(len(heldIdx))]
				if hs[i].sz == 0 {
					continue
				}
				idx := rng.Below(hs[i].sz)
				hlib.Emit("read", strconv.Itoa(i), strconv.Itoa(idx), "=", strconv.FormatInt(p.Read(hs[i].id, idx), 10))
			default:
				i := heldIdx[rng.Below(len(heldIdx))]
				if hs[i].sz == 0 {
					hs[i].held = false
					continue
				}
				p.Release(hs[i].id)
				hs[i].held = false
				hlib.Emit("release", strconv.Itoa(i), "=", "-")
			}
		}
	}
}
