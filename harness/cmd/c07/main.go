// c07: correspondence harness for the runtime-context stack (C07, shared with C05/C06).
//
// Drives a REAL *rt.Runtime through its exported API (PushContext, PopContext,
// RequireCPU, RequireMem, ReleaseMem, SetStopLevel) and prints, after every
// operation, the outcome class and the observable state of the whole context
// stack (HardLimits/SoftLimits/UsedResources/Status/Due/RequiredFlags of the
// active context and of every Parent()).
//
//	H <id>
//	<op> <args…> = <outcome> | <frame> | <frame> …      (active context first)
//	frame = hc hm ht sc sm st uc um ut status due flags
//
// ops: push hc hm ht sc sm st flags | pop | cpu n | mem n | rel n | stop lvl
// outcome: ok | terminated | crash | panic:<text>
//
// modes:  exh <depth> [shard nshards] | rand <count> | replay (op lines on stdin)
//
//	call <count>   bracketed form through Thread.CallContext (see callmode.go)
package main

import (
	"bufio"
	"fmt"
	"os"
	"reflect"
	"strconv"
	"strings"

	rt "github.com/arnodel/golua/runtime"
	"verifharness/hlib"
)

type op struct {
	kind string
	a    [7]uint64
}

func (o op) String() string {
	switch o.kind {
	case "push":
		s := "push"
		for _, v := range o.a {
			s += " " + strconv.FormatUint(v, 10)
		}
		return s
	case "pop":
		return "pop"
	}
	return o.kind + " " + strconv.FormatUint(o.a[0], 10)
}

func parseOp(line string) (op, error) {
	f := strings.Fields(line)
	var o op
	if len(f) == 0 {
		return o, fmt.Errorf("empty")
	}
	o.kind = f[0]
	want := map[string]int{"push": 7, "pop": 0, "cpu": 1, "mem": 1, "rel": 1, "stop": 1}
	n, ok := want[o.kind]
	if !ok || len(f) < 1+n {
		return o, fmt.Errorf("bad op %q", line)
	}
	for i := 0; i < n; i++ {
		v, err := strconv.ParseUint(f[1+i], 10, 64)
		if err != nil {
			return o, err
		}
		o.a[i] = v
	}
	return o, nil
}

// canonMs removes the wall-clock jitter from Millis fields: limits used by the generators are 0 or
// multiples of 2^30 above 2^61, elapsed time is a few ms.
func canonMs(v uint64) uint64 { return ((v + (1 << 20)) >> 21) << 21 }

func isNilCtx(c rt.RuntimeContext) bool {
	if c == nil {
		return true
	}
	v := reflect.ValueOf(c)
	return v.Kind() == reflect.Ptr && v.IsNil()
}

func frameStr(c rt.RuntimeContext) string {
	h, s, u := c.HardLimits(), c.SoftLimits(), c.UsedResources()
	due := 0
	if c.Due() {
		due = 1
	}
	return fmt.Sprintf("%d %d %d %d %d %d %d %d %d %d %d %d", h.Cpu, h.Memory, canonMs(h.Millis), s.Cpu, s.Memory, canonMs(s.Millis),
		u.Cpu, u.Memory, canonMs(u.Millis), uint16(c.Status()), due, uint16(c.RequiredFlags()))
}

func stackStr(r *rt.Runtime) string {
	var sb strings.Builder
	var c rt.RuntimeContext = r.RuntimeContext()
	for !isNilCtx(c) {
		sb.WriteString(" | ")
		sb.WriteString(frameStr(c))
		c = c.Parent()
	}
	return sb.String()
}

func apply(r *rt.Runtime, o op) (outcome string) {
	defer func() {
		if p := recover(); p != nil {
			switch v := p.(type) {
			case rt.ContextTerminationError:
				outcome = "terminated"
			case string:
				if v == "Too much mem released" {
					outcome = "crash"
				} else {
					outcome = "panic:" + strings.ReplaceAll(v, " ", "_")
				}
			default:
				outcome = "panic:" + strings.ReplaceAll(fmt.Sprint(p), " ", "_")
			}
		}
	}()
	switch o.kind {
	case "push":
		r.PushContext(rt.RuntimeContextDef{
			HardLimits:    rt.RuntimeResources{Cpu: o.a[0], Memory: o.a[1], Millis: o.a[2]},
			SoftLimits:    rt.RuntimeResources{Cpu: o.a[3], Memory: o.a[4], Millis: o.a[5]},
			RequiredFlags: rt.ComplianceFlags(o.a[6]),
		})
	case "pop":
		r.PopContext()
	case "cpu":
		r.RequireCPU(o.a[0])
	case "mem":
		r.RequireMem(o.a[0])
	case "rel":
		r.ReleaseMem(o.a[0])
	case "stop":
		r.SetStopLevel(rt.StopLevel(o.a[0]))
	}
	return "ok"
}

var histID int

func execHistory(ops []op) {
	histID++
	r := rt.New(nil)
	hlib.Emit("H", strconv.Itoa(histID))
	for _, o := range ops {
		out := apply(r, o)
		hlib.Out.WriteString(o.String())
		hlib.Out.WriteString(" = ")
		hlib.Out.WriteString(out)
		hlib.Out.WriteString(stackStr(r))
		hlib.Out.WriteByte('\n')
	}
}

const (
	p63 = uint64(1) << 63
	m1  = ^uint64(0)
	m2  = ^uint64(0) - 1
	bigT = uint64(1) << 62
)

func pushOp(hc, hm, ht, sc, sm, st, fl uint64) op {
	return op{"push", [7]uint64{hc, hm, ht, sc, sm, st, fl}}
}
func op1(k string, n uint64) op { return op{k, [7]uint64{n}} }

// alphabet for the exhaustive enumeration; L = 5
func alphabet() []op {
	const L = 5
	a := []op{
		pushOp(0, 0, 0, 0, 0, 0, 0),
		pushOp(L, 0, 0, 0, 0, 0, 0),
		pushOp(2, 0, 0, 0, 0, 0, 0),
		pushOp(L+1, 0, 0, 0, 0, 0, 0),
		pushOp(m1, 0, 0, 0, 0, 0, 0),
		pushOp(0, L, 0, 0, 0, 0, 0),
		pushOp(0, p63, 0, 0, 0, 0, 0),
		pushOp(L, L, 0, 2, 2, 0, 0),
		pushOp(0, 0, 0, L+1, L+1, 0, 0),
		pushOp(0, 0, 0, 1, 0, 0, 0),
		pushOp(0, 0, bigT, 0, 0, 0, 4),
		pushOp(0, 0, 0, 0, 0, bigT, 0),
		{kind: "pop"},
	}
	for _, n := range []uint64{0, 1, 2, L - 1, L, L + 1, p63, m2, m1} {
		a = append(a, op1("cpu", n))
	}
	for _, n := range []uint64{0, 1, L - 1, L, p63, m1} {
		a = append(a, op1("mem", n))
	}
	for _, n := range []uint64{0, 1, 2, L, m1} {
		a = append(a, op1("rel", n))
	}
	for _, n := range []uint64{1, 2, 3} {
		a = append(a, op1("stop", n))
	}
	return a
}

func exhaustive(depth, shard, nshards int) {
	a := alphabet()
	idx := make([]int, depth)
	ops := make([]op, depth)
	n := 0
	for {
		if n%nshards == shard {
			for i, k := range idx {
				ops[i] = a[k]
			}
			execHistory(ops)
		}
		n++
		i := depth - 1
		for i >= 0 {
			idx[i]++
			if idx[i] < len(a) {
				break
			}
			idx[i] = 0
			i--
		}
		if i < 0 {
			return
		}
	}
}

func boundary(rng *hlib.Rng, L uint64) uint64 {
	vals := []uint64{0, 1, 2, L - 1, L, L + 1, p63, m2, m1, L / 2, 3, m1 - L, m1 - L + 1, m1 - L + 2}
	return vals[rng.Below(len(vals))]
}

func small(rng *hlib.Rng, L uint64) uint64 {
	if L < 4 {
		return uint64(rng.Below(3))
	}
	switch rng.Below(4) {
	case 0:
		return uint64(rng.Below(3))
	case 1:
		return L / 4
	case 2:
		return L / 2
	}
	return L/3 + 1
}

// random histories.  Even-numbered ones are "disciplined": amounts small against the limits (no uint64
// overflow) and, once the active context is no longer live, only pop follows — the shape real callers
// produce; odd-numbered ones are unconstrained API abuse around the uint64 boundaries.
func random(count int) {
	rng := hlib.NewRng(hlib.Seed()*0x9E37 + 7)
	Ls := []uint64{2, 5, 7, 100, 1 << 32, p63}
	for h := 0; h < count; h++ {
		L := Ls[rng.Below(len(Ls))]
		disciplined := h%2 == 0
		n := 4 + rng.Below(36)
		val := func() uint64 {
			if disciplined {
				return small(rng, L)
			}
			return boundary(rng, L)
		}
		lim := func() uint64 {
			switch rng.Below(6) {
			case 0, 1:
				return 0
			case 2:
				return L
			case 3:
				return L/2 + 1
			}
			return boundary(rng, L)
		}
		tl := func() uint64 {
			switch rng.Below(8) {
			case 0:
				return bigT
			case 1:
				return bigT + (1 << 30)
			}
			return 0
		}
		var ops []op
		ops = append(ops, pushOp(L, lim(), tl(), lim(), lim(), tl(), uint64(rng.Below(16))))
		for i := 1; i < n; i++ {
			k := rng.Below(100)
			switch {
			case k < 22:
				ops = append(ops, pushOp(lim(), lim(), tl(), lim(), lim(), tl(), uint64(rng.Below(16))))
			case k < 40:
				ops = append(ops, op{kind: "pop"})
			case k < 65:
				ops = append(ops, op1("cpu", val()))
			case k < 80:
				ops = append(ops, op1("mem", val()))
			case k < 92:
				ops = append(ops, op1("rel", val()))
			case k < 97:
				ops = append(ops, op1("stop", 1))
			default:
				ops = append(ops, op1("stop", uint64(1+rng.Below(3))))
			}
		}
		if disciplined {
			execDisciplined(ops)
		} else {
			execHistory(ops)
		}
	}
}

// execDisciplined runs ops but replaces every operation issued while the active context is not live
// by a pop (what CallContext's deferred PopContext does after a kill).
func execDisciplined(ops []op) {
	histID++
	r := rt.New(nil)
	hlib.Emit("H", strconv.Itoa(histID))
	for _, o := range ops {
		if r.Status() != rt.StatusLive {
			o = op{kind: "pop"}
		}
		out := apply(r, o)
		hlib.Out.WriteString(o.String())
		hlib.Out.WriteString(" = ")
		hlib.Out.WriteString(out)
		hlib.Out.WriteString(stackStr(r))
		hlib.Out.WriteByte('\n')
	}
}

func replay() {
	sc := bufio.NewScanner(os.Stdin)
	sc.Buffer(make([]byte, 1<<20), 1<<20)
	var ops []op
	flush := func() {
		if ops != nil {
			execHistory(ops)
			ops = nil
		}
	}
	for sc.Scan() {
		line := strings.TrimSpace(sc.Text())
		if line == "" || strings.HasPrefix(line, "#") {
			continue
		}
		if i := strings.Index(line, " = "); i >= 0 {
			line = line[:i]
		}
		if strings.HasPrefix(line, "T ") {
			flush()
			tok := strings.Fields(line[2:])
			pos := 0
			it, err := parseTree(tok, &pos)
			if err != nil {
				fmt.Fprintln(os.Stderr, "c07 replay:", err)
				os.Exit(2)
			}
			execTree(it)
			continue
		}
		if strings.HasPrefix(line, "H") {
			flush()
			ops = []op{}
			continue
		}
		o, err := parseOp(line)
		if err != nil {
			fmt.Fprintln(os.Stderr, "c07 replay:", err)
			os.Exit(2)
		}
		ops = append(ops, o)
	}
	flush()
}

func main() {
	defer hlib.Out.Flush()
	if len(os.Args) < 2 {
		fmt.Fprintln(os.Stderr, "usage: c07 exh <depth> [shard nshards] | rand <count> | replay | call <count>")
		os.Exit(2)
	}
	atoi := func(i, def int) int {
		if len(os.Args) > i {
			n, err := strconv.Atoi(os.Args[i])
			if err == nil {
				return n
			}
		}
		return def
	}
	switch os.Args[1] {
	case "exh":
		exhaustive(atoi(2, 3), atoi(3, 0), atoi(4, 1))
	case "rand":
		random(atoi(2, 1000))
	case "replay":
		replay()
	case "call":
		callMode(atoi(2, 1000))
	default:
		fmt.Fprintln(os.Stderr, "unknown mode", os.Args[1])
		os.Exit(2)
	}
}
