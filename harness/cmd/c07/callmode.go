package main

// Bracketed form: random trees of nested Thread.CallContext calls whose bodies issue raw context
// operations, return errors, or call further contexts — executed with NO recover between the levels, so
// that the deferred PopContext / recover logic of CallContext itself is what is observed.
//
//	T <tree> = <exit> ; <depth:status:usedCpu:usedMem:exit>… ; | <frame> | <frame>…
//
// tree: ( call hc hm ht sc sm st fl ITEM… ) | ( cpu n ) | ( mem n ) | ( rel n ) | ( stop l ) | err

import (
	"errors"
	"fmt"
	"strconv"
	"strings"

	rt "github.com/arnodel/golua/runtime"
	"verifharness/hlib"
)

type item struct {
	kind string // call, cpu, mem, rel, stop, err
	a    [7]uint64
	body []item
}

func (it item) String() string {
	switch it.kind {
	case "err":
		return "err"
	case "call":
		var sb strings.Builder
		sb.WriteString("( call")
		for _, v := range it.a {
			sb.WriteString(" " + strconv.FormatUint(v, 10))
		}
		for _, b := range it.body {
			sb.WriteString(" " + b.String())
		}
		sb.WriteString(" )")
		return sb.String()
	}
	return "( " + it.kind + " " + strconv.FormatUint(it.a[0], 10) + " )"
}

type callRes struct {
	depth  int
	status uint16
	uc, um uint64
	exit   string
}

func depthOf(r *rt.Runtime) int {
	n := 0
	c := r.RuntimeContext().Parent()
	for !isNilCtx(c) {
		n++
		c = c.Parent()
	}
	return n
}

var errBody = errors.New("body error")

func runBody(r *rt.Runtime, body []item, res *[]callRes) error {
	for _, it := range body {
		switch it.kind {
		case "err":
			return errBody
		case "call":
			exit := "done"
			d := 0
			ctx, err := r.MainThread().CallContext(rt.RuntimeContextDef{
				HardLimits:    rt.RuntimeResources{Cpu: it.a[0], Memory: it.a[1], Millis: it.a[2]},
				SoftLimits:    rt.RuntimeResources{Cpu: it.a[3], Memory: it.a[4], Millis: it.a[5]},
				RequiredFlags: rt.ComplianceFlags(it.a[6]),
			}, func() error {
				d = depthOf(r)
				e := runBody(r, it.body, res)
				if e != nil {
					exit = "error"
				}
				return e
			})
			if _, ok := err.(rt.ContextTerminationError); ok {
				exit = "killed"
			}
			u := ctx.UsedResources()
			*res = append(*res, callRes{d, uint16(ctx.Status()), u.Cpu, u.Memory, exit})
		case "cpu":
			r.RequireCPU(it.a[0])
		case "mem":
			r.RequireMem(it.a[0])
		case "rel":
			r.ReleaseMem(it.a[0])
		case "stop":
			r.SetStopLevel(rt.StopLevel(it.a[0]))
		}
	}
	return nil
}

func execTree(top item) {
	r := rt.New(nil)
	var res []callRes
	exit := func() (exit string) {
		defer func() {
			if p := recover(); p != nil {
				switch v := p.(type) {
				case rt.ContextTerminationError:
					exit = "killed"
				case string:
					if v == "Too much mem released" {
						exit = "crashed"
					} else {
						exit = "panic:" + strings.ReplaceAll(v, " ", "_")
					}
				default:
					exit = "panic:" + strings.ReplaceAll(fmt.Sprint(p), " ", "_")
				}
			}
		}()
		if err := runBody(r, []item{top}, &res); err != nil {
			return "error"
		}
		return "done"
	}()
	var sb strings.Builder
	sb.WriteString("T ")
	sb.WriteString(top.String())
	sb.WriteString(" = ")
	sb.WriteString(exit)
	sb.WriteString(" ;")
	for _, c := range res {
		fmt.Fprintf(&sb, " %d:%d:%d:%d:%s", c.depth, c.status, c.uc, c.um, c.exit)
	}
	sb.WriteString(" ;")
	sb.WriteString(stackStr(r))
	hlib.Emit(sb.String())
}

func genBody(rng *hlib.Rng, L uint64, depth int, abuse bool) []item {
	n := rng.Below(6)
	if depth == 0 {
		n = 1 + rng.Below(6)
	}
	var body []item
	val := func() uint64 {
		if abuse && rng.Chance(30) {
			return boundary(rng, L)
		}
		return small(rng, L)
	}
	lim := func() uint64 {
		switch rng.Below(6) {
		case 0, 1, 2:
			return 0
		case 3:
			return L
		case 4:
			return L/2 + 1
		}
		return boundary(rng, L)
	}
	for i := 0; i < n; i++ {
		k := rng.Below(100)
		switch {
		case k < 30 && depth < 4:
			var it item
			it.kind = "call"
			if rng.Chance(45) { // pcall-like
				it.a = [7]uint64{}
			} else {
				it.a = [7]uint64{lim(), lim(), 0, lim(), lim(), 0, uint64(rng.Below(16))}
			}
			it.body = genBody(rng, L, depth+1, abuse)
			body = append(body, it)
		case k < 65:
			body = append(body, item{kind: "cpu", a: [7]uint64{val()}})
		case k < 82:
			body = append(body, item{kind: "mem", a: [7]uint64{val()}})
		case k < 88:
			v := uint64(rng.Below(3))
			if abuse {
				v = val()
			}
			body = append(body, item{kind: "rel", a: [7]uint64{v}})
		case k < 92:
			body = append(body, item{kind: "err"})
		case k < 96:
			body = append(body, item{kind: "stop", a: [7]uint64{1}})
		default:
			body = append(body, item{kind: "stop", a: [7]uint64{uint64(1 + rng.Below(3))}})
		}
	}
	return body
}

func callMode(count int) {
	rng := hlib.NewRng(hlib.Seed()*0x51ED + 3)
	Ls := []uint64{2, 5, 7, 20, 100, 1 << 32, p63}
	for i := 0; i < count; i++ {
		L := Ls[rng.Below(len(Ls))]
		abuse := i%4 == 3
		top := item{kind: "call", a: [7]uint64{L, 0, 0, 0, 0, 0, uint64(rng.Below(16))}}
		if rng.Chance(40) {
			top.a[1] = L * 3
		}
		if rng.Chance(30) {
			top.a[3] = L / 2
		}
		top.body = genBody(rng, L, 0, abuse)
		execTree(top)
	}
}

// ---- replay of trees from text ----

func parseTree(tok []string, pos *int) (item, error) {
	var it item
	if *pos >= len(tok) {
		return it, fmt.Errorf("unexpected end")
	}
	if tok[*pos] == "err" {
		*pos++
		it.kind = "err"
		return it, nil
	}
	if tok[*pos] != "(" {
		return it, fmt.Errorf("expected ( at %d", *pos)
	}
	*pos++
	it.kind = tok[*pos]
	*pos++
	n := 1
	if it.kind == "call" {
		n = 7
	}
	for i := 0; i < n; i++ {
		v, err := strconv.ParseUint(tok[*pos], 10, 64)
		if err != nil {
			return it, err
		}
		it.a[i] = v
		*pos++
	}
	for *pos < len(tok) && tok[*pos] != ")" {
		b, err := parseTree(tok, pos)
		if err != nil {
			return it, err
		}
		it.body = append(it.body, b)
	}
	if *pos >= len(tok) {
		return it, fmt.Errorf("missing )")
	}
	*pos++
	return it, nil
}
