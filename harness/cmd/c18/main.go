// c18: correspondence harness for finalisers and release (property C18).
//
//	c18 pool <quick|thorough>       histories on the REAL luagc.ClonePool through the verif hook,
//	                                Go finalisers captured and fired deterministically
//	c18 rt <quick|thorough>         histories on a real rt.Runtime: values with __gc / releasable
//	                                userdata, re-marks, fired Go finalisers, continuation steps,
//	                                nested CallContexts ending done|error|killed, PushContext, Close
//	c18 lua <quick|thorough>        Lua scripts under Go's real collector; host callbacks log
//	                                marks, __gc calls, releases, context ends, close
//	c18 replay <pool|rt> <op>*      one history
//	c18 replaylua <scenario> <seed> one Lua scenario
//	c18 crash <cross1|cross2>       run in a child process: Lua programs that re-mark a value in
//	                                another context's pool (real runtime.SetFinalizer)
//
// One line per history: `<leg> <op>* = <outputs>`; the Lean oracle (mode c18) prints what the
// model says for the same ops and checks/c18.py diffs.
package main

import (
	"fmt"
	"os"
	"strconv"

	"verifharness/hlib"
)

func main() {
	defer hlib.Out.Flush()
	if len(os.Args) < 2 {
		fmt.Fprintln(os.Stderr, "usage: c18 pool|rt|lua|replay|replaylua|crash ...")
		os.Exit(2)
	}
	tier := "quick"
	if len(os.Args) > 2 {
		tier = os.Args[2]
	}
	switch os.Args[1] {
	case "pool":
		poolLeg(tier == "thorough")
	case "rt":
		rtLeg(tier == "thorough")
	case "lua":
		luaLeg(tier == "thorough")
	case "replay":
		if len(os.Args) < 3 {
			os.Exit(2)
		}
		switch os.Args[2] {
		case "pool":
			hlib.Emit(runPoolHistory(os.Args[3:]))
		case "rt":
			hlib.Emit(runRtHistory(os.Args[3:]))
		default:
			os.Exit(2)
		}
	case "replaylua":
		if len(os.Args) < 4 {
			os.Exit(2)
		}
		seed, _ := strconv.ParseUint(os.Args[3], 10, 64)
		hlib.Emit(runLuaScenario(os.Args[2], seed, true))
	case "crash":
		if len(os.Args) < 3 {
			os.Exit(2)
		}
		crashCase(os.Args[2])
	default:
		os.Exit(2)
	}
}
