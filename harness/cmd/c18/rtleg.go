package main

import (
	"errors"
	"fmt"
	"strconv"
	"strings"

	rt "github.com/arnodel/golua/runtime"
	"verifharness/hlib"
)

// resVal is the Go value wrapped by releasable userdata: it implements rt.UserDataResourceReleaser.
type resVal struct {
	k   int
	run *rtRun
}

func (v *resVal) ReleaseResources(d *rt.UserData) {
	if v.run.logging {
		v.run.log = append(v.run.log, "r"+strconv.Itoa(v.k))
	}
}

type rtRun struct {
	c       *rt.VerifGCCollector
	r       *rt.Runtime
	gcMeta  *rt.Table // metatable with __gc
	plain   *rt.Table // metatable without __gc
	orig    map[int]rt.Value
	clone   map[int]rt.Value
	log     []string
	logging bool
	outs    []string
	dead    bool
	closed  bool
	noop    rt.Value
}

func newRtRun() *rtRun {
	x := &rtRun{c: rt.VerifGCInstallCollector(), orig: map[int]rt.Value{}, clone: map[int]rt.Value{}, logging: true}
	x.r = rt.New(nil)
	x.gcMeta = rt.NewTable()
	x.plain = rt.NewTable()
	gc := rt.NewGoFunction(func(t *rt.Thread, c *rt.GoCont) (rt.Cont, error) {
		v := c.Arg(0)
		k := -1
		if tbl, ok := v.TryTable(); ok {
			k = int(tbl.Get(rt.StringValue("k")).AsInt())
		} else if u, ok := v.TryUserData(); ok {
			k = u.Value().(*resVal).k
		}
		if x.logging {
			x.log = append(x.log, "f"+strconv.Itoa(k))
			x.clone[k] = v
		}
		return c.Next(), nil
	}, "gc", 1, false)
	rt.SolemnlyDeclareCompliance(rt.ComplyCpuSafe|rt.ComplyMemSafe|rt.ComplyTimeSafe|rt.ComplyIoSafe, gc)
	x.gcMeta.Set(rt.StringValue("__gc"), rt.FunctionValue(gc))
	noop := rt.NewGoFunction(func(t *rt.Thread, c *rt.GoCont) (rt.Cont, error) {
		return c.Next(), nil
	}, "noop", 0, false)
	rt.SolemnlyDeclareCompliance(rt.ComplyCpuSafe|rt.ComplyMemSafe|rt.ComplyTimeSafe|rt.ComplyIoSafe, noop)
	x.noop = rt.FunctionValue(noop)
	return x
}

func (x *rtRun) ptr(v rt.Value) interface{} {
	if t, ok := v.TryTable(); ok {
		return t
	}
	if u, ok := v.TryUserData(); ok {
		return u
	}
	return nil
}

func (x *rtRun) value(name string) (rt.Value, bool) {
	k, err := strconv.Atoi(name[:len(name)-1])
	if err != nil {
		return rt.NilValue, false
	}
	m := x.orig
	if name[len(name)-1] == 'c' {
		m = x.clone
	}
	v, ok := m[k]
	return v, ok
}

func (x *rtRun) meta(flags int) *rt.Table {
	if flags&1 != 0 {
		return x.gcMeta
	}
	return x.plain
}

var errBody = errors.New("body error")

// exec runs ops[i:] until the end of the history or the end marker of the current CallContext;
// returns the index after the last op consumed and the end marker seen ("" at top level).
func (x *rtRun) exec(ops []string, i int, depth int) (int, string, bool) {
	for i < len(ops) {
		op := ops[i]
		if x.dead {
			// Go would have thrown: nothing after this point runs
			for ; i < len(ops); i++ {
				x.outs = append(x.outs, "X")
			}
			return i, "dead", true
		}
		mark := len(x.log)
		out := ""
		panicked := false
		switch {
		case op == "ed" || op == "ee" || op == "ek":
			if depth == 0 {
				return i, "", false
			}
			return i, op, true
		case op == "cc" || op == "cs":
			def := rt.RuntimeContextDef{}
			if op == "cc" {
				def.HardLimits.Cpu = 1 << 40
			}
			x.outs = append(x.outs, "-")
			slot := -1
			end, ok := i+1, true
			t := x.r.MainThread()
			_, _ = t.CallContext(def, func() error {
				var marker string
				end, marker, ok = x.exec(ops, i+1, depth+1)
				if marker == "dead" {
					return nil
				}
				if !ok || marker == "" {
					ok = false
					return nil
				}
				// the end marker's output slot: everything logged from here to the return of CallContext
				mark = len(x.log)
				x.outs = append(x.outs, "")
				slot = len(x.outs) - 1
				switch marker {
				case "ee":
					return errBody
				case "ek":
					t.KillContext()
				}
				return nil
			})
			if !ok {
				return end, "", false
			}
			if slot >= 0 {
				x.outs[slot] = x.delta(mark)
			}
			if x.c.DoubleSets() > 0 {
				x.dead = true
			}
			i = end + 1
			continue
		case op == "st":
			term := rt.NewTerminationWith(nil, 0, false)
			func() {
				defer func() {
					if recover() != nil {
						panicked = true
					}
				}()
				_ = rt.Call(x.r.MainThread(), x.noop, nil, term)
			}()
		case op == "pu":
			if depth != 0 {
				return i, "", false
			}
			x.r.PushContext(rt.RuntimeContextDef{HardLimits: rt.RuntimeResources{Cpu: 1 << 40}})
		case op == "ps":
			// a context that SHARES its parent's pool: Close then extracts from the same pool once per context
			if depth != 0 {
				return i, "", false
			}
			x.r.PushContext(rt.RuntimeContextDef{})
		case op == "cl":
			if depth != 0 {
				return i, "", false
			}
			x.r.Close(nil)
			x.closed = true
		default:
			j := strings.IndexByte(op, ':')
			if j < 0 {
				return i, "", false
			}
			head, arg := op[:j], op[j+1:]
			switch {
			case len(head) == 3 && head[:2] == "mk":
				flags := int(head[2] - '0')
				k, err := strconv.Atoi(arg)
				if err != nil {
					return i, "", false
				}
				func() {
					defer func() {
						if recover() != nil {
							panicked = true
						}
					}()
					if flags == 1 {
						tbl := rt.NewTable()
						tbl.Set(rt.StringValue("k"), rt.IntValue(int64(k)))
						x.orig[k] = rt.TableValue(tbl)
						x.r.SetRawMetatable(x.orig[k], x.gcMeta)
					} else {
						rv := &resVal{k: k, run: x}
						if x.closed {
							// Mark will panic on the released pool: keep hold of the object it registered
							x.orig[k] = rt.UserDataValue(rt.NewUserData(rv, nil))
							x.r.SetRawMetatable(x.orig[k], x.meta(flags))
						} else {
							x.orig[k] = x.r.NewUserDataValue(rv, x.meta(flags))
						}
					}
				}()
			case len(head) == 3 && head[:2] == "rm":
				flags := int(head[2] - '0')
				v, ok := x.value(arg)
				if !ok {
					out = "n" // no such clone yet: nothing to do
					break
				}
				func() {
					defer func() {
						if recover() != nil {
							panicked = true
						}
					}()
					x.r.SetRawMetatable(v, x.meta(flags))
				}()
			case head == "fi":
				v, ok := x.value(arg)
				if !ok {
					out = "n"
					break
				}
				if x.c.Fire(x.ptr(v)) {
					out = "1"
				} else {
					out = "0"
				}
			case head == "dr":
			default:
				return i, "", false
			}
		}
		if out == "" {
			out = x.delta(mark)
		}
		if panicked {
			out = "panic"
		}
		if x.c.DoubleSets() > 0 {
			x.dead = true
			out = "X" // runtime.SetFinalizer would have thrown inside this op
		}
		x.outs = append(x.outs, out)
		i++
	}
	if x.dead {
		return i, "dead", true
	}
	return i, "", depth == 0
}

func (x *rtRun) delta(from int) string {
	if len(x.log) == from {
		return "-"
	}
	return strings.Join(x.log[from:], ",")
}

func runRtHistory(ops []string) string {
	x := newRtRun()
	_, _, ok := x.exec(ops, 0, 0)
	res := "bad-history"
	if ok {
		ds := 0
		if x.c.DoubleSets() > 0 {
			ds = 1
		}
		res = strings.Join(x.outs, " ") + " ; ds=" + strconv.Itoa(ds)
	}
	// leave nothing behind: the Runtime's own Go finaliser would otherwise close it later, concurrently
	x.logging = false
	func() {
		defer func() { recover() }()
		x.r.Close(nil)
	}()
	return "rt " + strings.Join(ops, " ") + " = " + res
}

// genRt generates a well-bracketed random runtime history.  Most histories respect the environment
// assumption (a Go finaliser fires only for an object the program has dropped, `dr`; only objects
// still held are re-marked); `wild` ones do not (they are compared with the model but not judged
// against the spec: Go's collector cannot produce them).
func genRt(rng *hlib.Rng, maxLen int) []string {
	var ops []string
	nextK := 1
	type val struct {
		k, flags            int
		origHeld, cloneHeld bool
	}
	var vals []*val
	var stack []string
	closed := false
	wild := rng.Chance(15)
	n := 3 + rng.Below(maxLen-2)
	for len(ops) < n {
		c := rng.Below(100)
		switch {
		case c < 20 && nextK <= 6:
			fl := 1 + rng.Below(3)
			ops = append(ops, fmt.Sprintf("mk%d:%d", fl, nextK))
			vals = append(vals, &val{k: nextK, flags: fl, origHeld: true, cloneHeld: true})
			nextK++
		case c < 44 && len(vals) > 0:
			// drop and let Go collect
			v := vals[rng.Below(len(vals))]
			who := "o"
			if rng.Chance(35) {
				who = "c"
			}
			held := &v.origHeld
			if who == "c" {
				held = &v.cloneHeld
			}
			if *held && !wild {
				ops = append(ops, fmt.Sprintf("dr:%d%s", v.k, who))
				*held = false
				if rng.Chance(25) {
					break // dropped, not collected yet
				}
			}
			ops = append(ops, fmt.Sprintf("fi:%d%s", v.k, who))
			if who == "o" {
				v.cloneHeld = true // the finaliser will hand out a new clone
			}
		case c < 54 && len(vals) > 0:
			v := vals[rng.Below(len(vals))]
			who := "o"
			if rng.Chance(40) {
				who = "c"
			}
			if !wild && ((who == "o" && !v.origHeld) || (who == "c" && !v.cloneHeld)) {
				break
			}
			ops = append(ops, fmt.Sprintf("rm%d:%d%s", v.flags, v.k, who))
		case c < 68:
			ops = append(ops, "st")
		case c < 78 && len(stack) < 3 && !closed:
			if rng.Chance(75) {
				ops = append(ops, "cc")
				stack = append(stack, "cc")
			} else {
				ops = append(ops, "cs")
				stack = append(stack, "cs")
			}
		case c < 90 && len(stack) > 0:
			ops = append(ops, []string{"ed", "ee", "ek"}[rng.Below(3)])
			stack = stack[:len(stack)-1]
		case c < 93 && len(stack) == 0 && !closed:
			if rng.Chance(70) {
				ops = append(ops, "pu")
			} else {
				ops = append(ops, "ps")
			}
		case c < 100 && len(stack) == 0 && !closed && len(ops) > 2:
			ops = append(ops, "cl")
			closed = true
		}
	}
	for len(stack) > 0 {
		ops = append(ops, []string{"ed", "ee", "ek"}[rng.Below(3)])
		stack = stack[:len(stack)-1]
	}
	if !closed && rng.Chance(80) {
		ops = append(ops, "cl")
	}
	return ops
}

func rtLeg(thorough bool) {
	for _, h := range [][]string{
		{"mk1:1", "mk3:2", "mk2:3", "cl"},
		{"mk1:1", "dr:1o", "fi:1o", "cl"},             // Go finaliser fired, Close before the next step
		{"mk1:1", "dr:1o", "fi:1o", "st", "cl"},       // same with a step in between
		{"cc", "mk1:1", "dr:1o", "fi:1o", "ed", "cl"}, // the same inside an isolating CallContext
		{"cc", "mk3:1", "mk1:2", "ek", "st", "cl"},    // killed: released, not finalised
		{"cc", "mk3:1", "mk1:2", "ee", "cl"},          // error: finalised and released
		{"mk1:1", "cc", "rm1:1o", "ed", "cl"},         // re-mark in another context's pool
		{"cc", "mk1:1", "ed", "rm1:1o", "cl"},         // value escapes its context and is re-marked outside
		{"mk3:1", "mk3:2", "rm3:1o", "cl"},            // re-mark moves to the front of the close order
		{"mk3:1", "dr:1o", "fi:1o", "st", "rm3:1c", "dr:1c", "fi:1c", "st", "cl"},
		{"pu", "mk3:1", "pu", "mk1:2", "cs", "mk3:3", "ed", "cl"},
		{"mk1:1", "ps", "mk3:2", "ps", "cl"}, // Close over contexts sharing the root pool
		// finalised at its context's end, the finaliser's clone re-marked and dropped, original still held
		{"cc", "mk1:1", "ed", "rm1:1c", "dr:1c", "fi:1c", "st", "cl"},
		{"mk1:1", "cl", "mk1:2"}, // use after Close
	} {
		hlib.Emit(runRtHistory(h))
	}
	rng := hlib.NewRng(hlib.Seed()*104729 + 18)
	n := 30000
	if thorough {
		n = 400000
	}
	for i := 0; i < n; i++ {
		hlib.Emit(runRtHistory(genRt(rng, 16)))
	}
}
