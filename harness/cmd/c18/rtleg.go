package main

import (
	"errors"
	"fmt"
	"strconv"
	"strings"

	rt "github.com/arnodel/golua/runtime"
	"verifharness/hlib"
)

type keyed interface{ key() int }

// resVal is the Go value wrapped by RELEASABLE userdata: it implements rt.UserDataResourceReleaser.
type resVal struct {
	k   int
	run *rtRun
}

func (v *resVal) key() int { return v.k }

func (v *resVal) ReleaseResources(d *rt.UserData) {
	if v.run.logging {
		v.run.log = append(v.run.log, fmt.Sprintf("r%d@%d", v.k, rt.VerifGCContextDepth(v.run.r)))
	}
}

// plainVal is wrapped by userdata that has nothing to release.
type plainVal struct{ k int }

func (v *plainVal) key() int { return v.k }

type warner struct{ n int }

func (w *warner) Warn(msgs ...string) {
	if strings.HasPrefix(strings.Join(msgs, ""), "error in finalizer") {
		w.n++
	}
}

type rtRun struct {
	c       *rt.VerifGCCollector
	r       *rt.Runtime
	metas   [4]*rt.Table // 0: none (nil), 1: no __gc, 2: __gc, 3: __gc that raises
	orig    map[int]rt.Value
	clone   map[int]rt.Value
	relsbl  map[int]bool
	log     []string
	warn    *warner
	logging bool
	outs    []string
	dead    bool
	closed  bool
	noop    rt.Value
}

var errGc = errors.New("finaliser raises")

func newRtRun() *rtRun {
	x := &rtRun{c: rt.VerifGCInstallCollector(), orig: map[int]rt.Value{}, clone: map[int]rt.Value{},
		relsbl: map[int]bool{}, logging: true, warn: &warner{}}
	x.r = rt.New(nil)
	x.r.SetWarner(x.warn)
	mkgc := func(raises bool) *rt.GoFunction {
		gc := rt.NewGoFunction(func(t *rt.Thread, c *rt.GoCont) (rt.Cont, error) {
			v := c.Arg(0)
			k := -1
			if tbl, ok := v.TryTable(); ok {
				k = int(tbl.Get(rt.StringValue("k")).AsInt())
			} else if u, ok := v.TryUserData(); ok {
				k = u.Value().(keyed).key()
			}
			// one finaliser = 1000 CPU units, charged to whatever context it runs in
			t.RequireCPU(1000)
			if x.logging {
				s := fmt.Sprintf("f%d@%d", k, rt.VerifGCContextDepth(t.Runtime))
				if raises {
					s += "!"
				}
				x.log = append(x.log, s)
				x.clone[k] = v
			}
			if raises {
				return nil, errGc
			}
			return c.Next(), nil
		}, "gc", 1, false)
		rt.SolemnlyDeclareCompliance(rt.ComplyCpuSafe|rt.ComplyMemSafe|rt.ComplyTimeSafe|rt.ComplyIoSafe, gc)
		return gc
	}
	x.metas[1] = rt.NewTable()
	x.metas[2] = rt.NewTable()
	x.metas[2].Set(rt.StringValue("__gc"), rt.FunctionValue(mkgc(false)))
	x.metas[3] = rt.NewTable()
	x.metas[3].Set(rt.StringValue("__gc"), rt.FunctionValue(mkgc(true)))
	noop := rt.NewGoFunction(func(t *rt.Thread, c *rt.GoCont) (rt.Cont, error) {
		return c.Next(), nil
	}, "noop", 0, false)
	rt.SolemnlyDeclareCompliance(rt.ComplyCpuSafe|rt.ComplyMemSafe|rt.ComplyTimeSafe|rt.ComplyIoSafe, noop)
	x.noop = rt.FunctionValue(noop)
	return x
}

func (x *rtRun) ptr(v rt.Value) interface{} {
	if t, ok := v.TryTable(); ok {
		return t
	}
	if u, ok := v.TryUserData(); ok {
		return u
	}
	return nil
}

func (x *rtRun) value(name string) (rt.Value, bool) {
	k, err := strconv.Atoi(name[:len(name)-1])
	if err != nil {
		return rt.NilValue, false
	}
	m := x.orig
	if name[len(name)-1] == 'c' {
		m = x.clone
	}
	v, ok := m[k]
	return v, ok
}

// parseDef: cc.<lims>.<pol>[.<flags>] / pu.<lims>.<pol>[.<flags>], lims ⊆ "cmt", pol ∈ d|s|i,
// flags ⊆ "cimt" (required compliance flags: cpusafe, iosafe, memsafe, timesafe)
func parseDef(op string) (rt.RuntimeContextDef, bool) {
	parts := strings.Split(op, ".")
	def := rt.RuntimeContextDef{}
	if (len(parts) != 3 && len(parts) != 4) || len(parts[2]) != 1 {
		return def, false
	}
	if len(parts) == 4 {
		if parts[3] == "" {
			return def, false
		}
		for _, c := range parts[3] {
			switch c {
			case 'c':
				def.RequiredFlags |= rt.ComplyCpuSafe
			case 'i':
				def.RequiredFlags |= rt.ComplyIoSafe
			case 'm':
				def.RequiredFlags |= rt.ComplyMemSafe
			case 't':
				def.RequiredFlags |= rt.ComplyTimeSafe
			default:
				return def, false
			}
		}
	}
	for _, c := range parts[1] {
		switch c {
		case 'c':
			def.HardLimits.Cpu = 1 << 40
		case 'm':
			def.HardLimits.Memory = 1 << 40
		case 't':
			def.HardLimits.Millis = 1 << 30
		default:
			return def, false
		}
	}
	switch parts[2] {
	case "d":
		def.GCPolicy = rt.DefaultGCPolicy
	case "s":
		def.GCPolicy = rt.ShareGCPolicy
	case "i":
		def.GCPolicy = rt.IsolateGCPolicy
	default:
		return def, false
	}
	return def, true
}

var errBody = errors.New("body error")

func (x *rtRun) recovering(f func()) (panicked bool) {
	defer func() {
		if recover() != nil {
			panicked = true
		}
	}()
	f()
	return false
}

// exec runs ops[i:] until the end of the history or the end marker of the current CallContext;
// returns the index after the last op consumed and the end marker seen ("" at top level).
func (x *rtRun) exec(ops []string, i int, depth int) (int, string, bool) {
	for i < len(ops) {
		op := ops[i]
		if x.dead {
			// Go would have thrown: nothing after this point runs
			for ; i < len(ops); i++ {
				x.outs = append(x.outs, "X")
			}
			return i, "dead", true
		}
		mark := len(x.log)
		warns := x.warn.n
		out := ""
		panicked := false
		switch {
		case op == "ed" || op == "ee" || op == "ek":
			if depth == 0 {
				return i, "", false
			}
			return i, op, true
		case strings.HasPrefix(op, "cc."):
			def, ok := parseDef(op)
			if !ok {
				return i, "", false
			}
			x.outs = append(x.outs, "-")
			slot := -1
			end := i + 1
			t := x.r.MainThread()
			ctx, _ := t.CallContext(def, func() error {
				var marker string
				end, marker, ok = x.exec(ops, i+1, depth+1)
				if marker == "dead" {
					return nil
				}
				if !ok || marker == "" {
					ok = false
					return nil
				}
				// the end marker's output slot: everything logged from here to the return of CallContext
				mark = len(x.log)
				warns = x.warn.n
				x.outs = append(x.outs, "")
				slot = len(x.outs) - 1
				switch marker {
				case "ee":
					return errBody
				case "ek":
					t.KillContext()
				}
				return nil
			})
			if !ok {
				return end, "", false
			}
			if slot >= 0 {
				x.outs[slot] = x.delta(mark, warns) + "~" + strconv.FormatUint(ctx.UsedResources().Cpu/1000, 10)
				if x.c.DoubleSets() > 0 {
					x.outs[slot] = "X"
				}
			}
			if x.c.DoubleSets() > 0 {
				x.dead = true
			}
			i = end + 1
			continue
		case op == "st":
			term := rt.NewTerminationWith(nil, 0, false)
			panicked = x.recovering(func() { _ = rt.Call(x.r.MainThread(), x.noop, nil, term) })
		case strings.HasPrefix(op, "pu."):
			def, ok := parseDef(op)
			if !ok || depth != 0 {
				return i, "", false
			}
			x.r.PushContext(def)
		case op == "cl":
			if depth != 0 {
				return i, "", false
			}
			x.r.Close(nil)
			x.closed = true
		default:
			j := strings.IndexByte(op, ':')
			if j < 0 {
				return i, "", false
			}
			head, arg := op[:j], op[j+1:]
			switch {
			case strings.HasPrefix(head, "mk"):
				k, err := strconv.Atoi(arg)
				if err != nil {
					return i, "", false
				}
				switch {
				case len(head) == 4 && head[2] == 'T' && head[3] >= '1' && head[3] <= '3':
					meta := x.metas[head[3]-'0']
					tbl := rt.NewTable()
					tbl.Set(rt.StringValue("k"), rt.IntValue(int64(k)))
					x.orig[k] = rt.TableValue(tbl)
					panicked = x.recovering(func() { x.r.SetRawMetatable(x.orig[k], meta) })
				case len(head) == 5 && head[2] == 'U' && (head[3] == '0' || head[3] == '1') && head[4] >= '0' && head[4] <= '3':
					meta := x.metas[head[4]-'0']
					var wrapped interface{} = &plainVal{k: k}
					if head[3] == '1' {
						wrapped = &resVal{k: k, run: x}
						x.relsbl[k] = true
					}
					panicked = x.recovering(func() {
						if x.closed {
							// Mark will panic on the released pool: keep hold of the object it registered
							x.orig[k] = rt.UserDataValue(rt.NewUserData(wrapped, nil))
							x.r.SetRawMetatable(x.orig[k], meta)
						} else {
							x.orig[k] = x.r.NewUserDataValue(wrapped, meta)
						}
					})
				default:
					return i, "", false
				}
			case len(head) == 3 && head[:2] == "rm" && head[2] >= '1' && head[2] <= '3':
				v, ok := x.value(arg)
				if !ok {
					out = "n" // no such clone yet: nothing to do
					break
				}
				meta := x.metas[head[2]-'0']
				panicked = x.recovering(func() { x.r.SetRawMetatable(v, meta) })
			case head == "fi":
				v, ok := x.value(arg)
				if !ok {
					out = "n"
					break
				}
				if x.c.Fire(x.ptr(v)) {
					out = "1"
				} else {
					out = "0"
				}
			case head == "dr":
			default:
				return i, "", false
			}
		}
		if out == "" {
			out = x.delta(mark, warns)
		}
		if panicked {
			out = "panic"
		}
		if x.c.DoubleSets() > 0 {
			x.dead = true
			out = "X" // runtime.SetFinalizer would have thrown inside this op
		}
		x.outs = append(x.outs, out)
		i++
	}
	if x.dead {
		return i, "dead", true
	}
	return i, "", depth == 0
}

func (x *rtRun) delta(from int, warnsBefore int) string {
	s := "-"
	if len(x.log) > from {
		s = strings.Join(x.log[from:], ",")
	}
	if x.warn.n > warnsBefore {
		s += "|w" + strconv.Itoa(x.warn.n-warnsBefore)
	}
	return s
}

func runRtHistory(ops []string) string {
	x := newRtRun()
	_, _, ok := x.exec(ops, 0, 0)
	res := "bad-history"
	if ok {
		ds := 0
		if x.c.DoubleSets() > 0 {
			ds = 1
		}
		res = strings.Join(x.outs, " ") + " ; ds=" + strconv.Itoa(ds)
	}
	// leave nothing behind: the Runtime's own Go finaliser would otherwise close it later, concurrently
	x.logging = false
	func() {
		defer func() { recover() }()
		x.r.Close(nil)
	}()
	return "rt " + strings.Join(ops, " ") + " = " + res
}

// every combination of hard limits × GC policy, without required flags and with each of a few flag sets
var allDefs = func() []string {
	var out []string
	for _, lims := range []string{"", "c", "m", "t", "cm", "ct", "mt", "cmt"} {
		for _, pol := range []string{"d", "s", "i"} {
			out = append(out, lims+"."+pol)
		}
	}
	for _, flags := range []string{"c", "i", "m", "t", "ci", "mt", "cimt"} {
		for _, lims := range []string{"", "", "c", "m", "ct"} {
			for _, pol := range []string{"d", "s", "i"} {
				out = append(out, lims+"."+pol+"."+flags)
			}
		}
	}
	return out
}()

var valueKinds = []string{"T1", "T2", "T2", "T3", "U00", "U01", "U02", "U03", "U10", "U10", "U11", "U12", "U12", "U13"}

// genRt generates a well-bracketed random runtime history.  Most histories respect the environment
// assumption (a Go finaliser fires only for an object the program has dropped, `dr`; only objects
// still held are re-marked); `wild` ones do not (they are compared with the model but not judged
// against the spec: Go's collector cannot produce them).
func genRt(rng *hlib.Rng, maxLen int) []string {
	var ops []string
	nextK := 1
	type val struct {
		k                   int
		origHeld, cloneHeld bool
	}
	var vals []*val
	var stack []string
	closed := false
	wild := rng.Chance(15)
	n := 3 + rng.Below(maxLen-2)
	for len(ops) < n {
		c := rng.Below(100)
		switch {
		case c < 22 && nextK <= 6:
			ops = append(ops, fmt.Sprintf("mk%s:%d", valueKinds[rng.Below(len(valueKinds))], nextK))
			vals = append(vals, &val{k: nextK, origHeld: true, cloneHeld: true})
			nextK++
		case c < 44 && len(vals) > 0:
			// drop and let Go collect
			v := vals[rng.Below(len(vals))]
			who := "o"
			if rng.Chance(35) {
				who = "c"
			}
			held := &v.origHeld
			if who == "c" {
				held = &v.cloneHeld
			}
			if *held && !wild {
				ops = append(ops, fmt.Sprintf("dr:%d%s", v.k, who))
				*held = false
				if rng.Chance(25) {
					break // dropped, not collected yet
				}
			}
			ops = append(ops, fmt.Sprintf("fi:%d%s", v.k, who))
			if who == "o" {
				v.cloneHeld = true // the finaliser will hand out a new clone
			}
		case c < 53 && len(vals) > 0:
			v := vals[rng.Below(len(vals))]
			who := "o"
			if rng.Chance(40) {
				who = "c"
			}
			if !wild && ((who == "o" && !v.origHeld) || (who == "c" && !v.cloneHeld)) {
				break
			}
			ops = append(ops, fmt.Sprintf("rm%d:%d%s", 1+rng.Below(3), v.k, who))
		case c < 66:
			ops = append(ops, "st")
		case c < 78 && len(stack) < 3 && !closed:
			ops = append(ops, "cc."+allDefs[rng.Below(len(allDefs))])
			stack = append(stack, "cc")
		case c < 90 && len(stack) > 0:
			ops = append(ops, []string{"ed", "ee", "ek"}[rng.Below(3)])
			stack = stack[:len(stack)-1]
		case c < 93 && len(stack) == 0 && !closed:
			ops = append(ops, "pu."+allDefs[rng.Below(len(allDefs))])
		case c < 100 && len(stack) == 0 && !closed && len(ops) > 2:
			ops = append(ops, "cl")
			closed = true
		}
	}
	for len(stack) > 0 {
		ops = append(ops, []string{"ed", "ee", "ek"}[rng.Below(3)])
		stack = stack[:len(stack)-1]
	}
	if !closed && rng.Chance(80) {
		ops = append(ops, "cl")
	}
	return ops
}

func rtLeg(thorough bool) {
	for _, h := range [][]string{
		{"mkT2:1", "mkU12:2", "mkU11:3", "cl"},
		{"mkT2:1", "dr:1o", "fi:1o", "cl"},       // Go finaliser fired, Close before the next step
		{"mkT2:1", "dr:1o", "fi:1o", "st", "cl"}, // same with a step in between
		{"cc.c.d", "mkT2:1", "dr:1o", "fi:1o", "ed", "cl"},
		{"cc.c.d", "mkU12:1", "mkT2:2", "ek", "st", "cl"}, // killed: released, not finalised
		{"cc.c.d", "mkU12:1", "mkT2:2", "ee", "cl"},       // error: finalised and released
		{"mkT2:1", "cc.c.d", "rm2:1o", "ed", "cl"},        // re-mark in another context's pool
		{"cc.c.d", "mkT2:1", "ed", "rm2:1o", "cl"},        // value escapes its context and is re-marked outside
		{"mkU12:1", "mkU12:2", "rm2:1o", "cl"},            // re-mark moves to the front of the close order
		{"mkU12:1", "dr:1o", "fi:1o", "st", "rm2:1c", "dr:1c", "fi:1c", "st", "cl"},
		{"pu.c.d", "mkU12:1", "pu.m.d", "mkT2:2", "cc..d", "mkU12:3", "ed", "cl"},
		{"mkT2:1", "pu..d", "mkU12:2", "pu..s", "cl"}, // Close over contexts sharing the root pool
		// finalised at its context's end, the finaliser's clone re-marked and dropped, original still held
		{"cc.c.d", "mkT2:1", "ed", "rm2:1c", "dr:1c", "fi:1c", "st", "cl"},
		{"mkT2:1", "cl", "mkT2:2"}, // use after Close
		// every way of getting an own pool, and the ways of not getting one
		{"cc.m.d", "mkT2:1", "mkU12:2", "ed", "cl"},
		{"cc.t.d", "mkT2:1", "mkU12:2", "ee", "cl"},
		{"cc..i", "mkT2:1", "mkU12:2", "ed", "cl"},
		{"cc.m.s", "mkT2:1", "mkU12:2", "ed", "cl"},
		{"cc..d", "mkT2:1", "mkU12:2", "ed", "st", "cl"},
		{"cc..s", "mkT2:1", "mkU12:2", "ek", "cl"},
		{"cc.c.d", "cc.m.d", "mkT2:1", "ed", "mkT2:2", "ed", "cl"},
		// contexts that only REQUIRE FLAGS own a pool too: finalised and released inside them, by their end
		{"cc..d.i", "mkT2:1", "mkU12:2", "ed", "st", "cl"},
		{"cc..s.c", "mkT2:1", "mkU10:2", "ee", "cl"},
		{"cc..d.cimt", "mkT3:1", "cc..d.m", "mkT2:2", "ed", "mkU12:3", "ek", "cl"},
		{"pu..d.i", "mkT2:1", "cc..d", "mkU12:2", "ed", "cl"},
		{"mkT2:1", "cc..d.i", "rm2:1o", "mkT2:2", "ed", "cl"}, // a root-owned value re-marked inside a flags context stays with the root
		// releasable userdata whatever its metatable; non-releasable userdata; tables without __gc
		{"mkU10:1", "mkU11:2", "mkU12:3", "mkU00:4", "mkU02:5", "mkT1:6", "cl"},
		{"cc.c.d", "mkU10:1", "ed", "cc.m.d", "mkU10:2", "ee", "cc.t.d", "mkU10:3", "ek", "cl"},
		{"mkU10:1", "dr:1o", "fi:1o", "st", "cl"},
		{"mkU12:1", "rm1:1o", "cl"}, // a metatable without __gc cancels the finaliser, not the release
		// finalisers that raise: first, middle, last of a batch; at a step, at a context's end, at Close
		{"mkT3:1", "mkT2:2", "mkT2:3", "cl"},
		{"mkT2:1", "mkT3:2", "mkT2:3", "cl"},
		{"mkT2:1", "mkT2:2", "mkT3:3", "cl"},
		{"cc.c.d", "mkT2:1", "mkU13:2", "mkT2:3", "ed", "cl"},
		{"mkT2:1", "mkT3:2", "mkT2:3", "dr:1o", "fi:1o", "dr:2o", "fi:2o", "dr:3o", "fi:3o", "st", "cl"},
		{"mkT3:1", "rm2:1o", "mkT2:2", "rm3:2o", "cl"},
	} {
		hlib.Emit(runRtHistory(h))
	}
	rng := hlib.NewRng(hlib.Seed()*104729 + 18)
	n := 30000
	if thorough {
		n = 400000
	}
	for i := 0; i < n; i++ {
		hlib.Emit(runRtHistory(genRt(rng, 16)))
	}
}
