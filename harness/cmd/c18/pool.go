package main

import (
	"fmt"
	"sort"
	"strings"

	rt "github.com/arnodel/golua/runtime"
	"verifharness/hlib"
)

func showObj(v interface{}) string {
	if o, ok := v.(*rt.VerifGCObj); ok {
		return o.String()
	}
	return fmt.Sprintf("?%T", v)
}

func showObjs(vs []interface{}) string {
	parts := make([]string, len(vs))
	for i, v := range vs {
		parts[i] = showObj(v)
	}
	return "[" + strings.Join(parts, ",") + "]"
}

// poolRun executes one history of pool ops on a fresh real ClonePool.
type poolRun struct {
	c     *rt.VerifGCCollector
	p     *rt.VerifGCPool
	objs  map[string]*rt.VerifGCObj // every object seen, by name
	lastC map[int]*rt.VerifGCObj    // clone of key k most recently handed out by PF/AF
	outs  []string
	dead  bool // SetFinalizer was called on an object that already had a finaliser: Go would have thrown
}

func newPoolRun() *poolRun {
	return &poolRun{
		c:     rt.VerifGCInstallCollector(),
		p:     rt.VerifGCNewClonePool(),
		objs:  map[string]*rt.VerifGCObj{},
		lastC: map[int]*rt.VerifGCObj{},
	}
}

func (pr *poolRun) obj(name string) *rt.VerifGCObj {
	if o, ok := pr.objs[name]; ok {
		return o
	}
	var k, id int
	if _, err := fmt.Sscanf(name[1:], "%d.%d", &k, &id); err != nil || name[0] != 'o' {
		return nil // a clone that was never handed out: cannot be named by the program
	}
	o := pr.p.NewObj(k, id)
	pr.objs[name] = o
	return o
}

func (pr *poolRun) extracted(vs []interface{}, toProgram bool) string {
	for _, v := range vs {
		o := v.(*rt.VerifGCObj)
		pr.objs[o.String()] = o
		if toProgram {
			pr.lastC[o.K] = o
		}
	}
	return showObjs(vs)
}

// do runs one op and returns false if the op cannot be run (names an unknown clone).
func (pr *poolRun) do(op string) bool {
	if pr.dead {
		pr.outs = append(pr.outs, "X")
		return true
	}
	out := "-"
	switch op {
	case "PF":
		out = pr.extracted(pr.p.ExtractPendingFinalize(), true)
	case "PR":
		out = pr.extracted(pr.p.ExtractPendingRelease(), false)
	case "AF":
		out = pr.extracted(pr.p.ExtractAllMarkedFinalize(), true)
	case "AR":
		out = pr.extracted(pr.p.ExtractAllMarkedRelease(), false)
	case "ST":
		a := pr.extracted(pr.p.ExtractPendingFinalize(), true)
		b := pr.extracted(pr.p.ExtractPendingRelease(), false)
		out = a + "+" + b
	case "FA":
		out = pr.extracted(pr.p.ExtractAllMarkedFinalize(), true)
	case "PO":
		pr.p.ExtractAllMarkedFinalize()
		out = pr.extracted(pr.p.ExtractAllMarkedRelease(), false)
	default:
		i := strings.IndexByte(op, ':')
		if i < 0 {
			return false
		}
		o := pr.obj(op[i+1:])
		if o == nil {
			return false
		}
		switch {
		case op[0] == 'm' && i == 2:
			flags := uint8(op[1] - '0')
			out = "ok"
			func() {
				defer func() {
					if recover() != nil {
						out = "panic"
					}
				}()
				pr.p.Mark(o, flags)
			}()
		case op[0] == 'f':
			if pr.c.Fire(o) {
				out = "1"
			} else {
				out = "0"
			}
		case op[0] == 'd':
			out = "-"
		default:
			return false
		}
	}
	pr.outs = append(pr.outs, out)
	if pr.c.DoubleSets() > 0 {
		pr.dead = true
	}
	return true
}

func (pr *poolRun) result() string {
	var reg []string
	for name, o := range pr.objs {
		if pr.c.Has(o) {
			reg = append(reg, name)
		}
	}
	sort.Strings(reg)
	ds := 0
	if pr.c.DoubleSets() > 0 {
		ds = 1
	}
	return fmt.Sprintf("%s ; %s ; reg=[%s] ; ds=%d", strings.Join(pr.outs, " "), pr.p.Dump(showObj), strings.Join(reg, ","), ds)
}

func runPoolHistory(ops []string) string {
	pr := newPoolRun()
	for _, op := range ops {
		if !pr.do(op) {
			return "pool " + strings.Join(ops, " ") + " = bad-op " + op
		}
	}
	return "pool " + strings.Join(ops, " ") + " = " + pr.result()
}

// poolAlphabet: the abstract ops over nk keys.  `mF:k` marks the original of key k with flags F,
// `mF:c k` re-marks the clone of k most recently handed out, `f:k` / `f:c k` fire Go finalisers.
type absOp struct {
	kind  byte // 'm' mark orig, 'M' mark clone, 'f' fire orig, 'F' fire clone, 'x' extract
	key   int
	flags int
	name  string // for extracts
}

func poolAlphabet(nk int, composite bool, flags ...int) []absOp {
	var a []absOp
	if len(flags) == 0 {
		flags = []int{1, 2, 3, 0}
	}
	for k := 1; k <= nk; k++ {
		for _, fl := range flags {
			a = append(a, absOp{kind: 'm', key: k, flags: fl})
		}
		a = append(a, absOp{kind: 'f', key: k})
		a = append(a, absOp{kind: 'M', key: k, flags: 3}, absOp{kind: 'M', key: k, flags: 0}, absOp{kind: 'F', key: k})
	}
	for _, x := range []string{"PF", "PR", "AF", "AR"} {
		a = append(a, absOp{kind: 'x', name: x})
	}
	if composite {
		for _, x := range []string{"ST", "FA", "PO"} {
			a = append(a, absOp{kind: 'x', name: x})
		}
	}
	return a
}

// concretise turns an abstract op into a concrete token given the run so far; "" if it cannot be run.
func (pr *poolRun) concretise(o absOp) string {
	switch o.kind {
	case 'x':
		return o.name
	case 'm':
		return fmt.Sprintf("m%d:o%d.%d", o.flags, o.key, o.key)
	case 'f':
		return fmt.Sprintf("f:o%d.%d", o.key, o.key)
	case 'M', 'F':
		c := pr.lastC[o.key]
		if c == nil {
			return ""
		}
		if o.kind == 'M' {
			return fmt.Sprintf("m%d:%s", o.flags, c)
		}
		return "f:" + c.String()
	}
	return ""
}

func replayAbs(seq []absOp) (ops []string, pr *poolRun, ok bool) {
	pr = newPoolRun()
	for _, o := range seq {
		tok := pr.concretise(o)
		if tok == "" {
			return nil, nil, false
		}
		pr.do(tok)
		ops = append(ops, tok)
	}
	return ops, pr, true
}

func enumPool(alpha []absOp, maxLen int, seq []absOp, count *int) {
	if len(seq) > 0 {
		ops, pr, ok := replayAbs(seq)
		if !ok {
			return // prune: names a clone that does not exist; so do all extensions' prefixes
		}
		hlib.Emit("pool " + strings.Join(ops, " ") + " = " + pr.result())
		*count++
	}
	if len(seq) == maxLen {
		return
	}
	for _, o := range alpha {
		enumPool(alpha, maxLen, append(seq[:len(seq):len(seq)], o), count)
	}
}

func poolLeg(thorough bool) {
	n := 0
	// hand-picked: the luagc package's own test history, the lost-finaliser witness, use after release
	for _, h := range [][]string{
		{"m1:o1.1", "m3:o2.2", "m2:o3.3", "m1:o1.1", "m3:o4.4", "m0:o4.4", "f:o2.2", "f:o1.1", "f:o3.3", "f:o4.4", "PF", "PR"},
		{"m1:o1.1", "f:o1.1", "AF", "AR"},
		{"m1:o1.1", "f:o1.1", "PF", "AF", "AR"},
		{"m3:o1.1", "AF", "AR", "m3:o1.1"},
		{"m1:o1.1", "AF", "m0:c1.1", "m1:o1.1"},
	} {
		hlib.Emit(runPoolHistory(h))
		n++
	}
	if thorough {
		enumPool(poolAlphabet(3, false), 4, nil, &n)
		enumPool(poolAlphabet(2, true), 4, nil, &n)
		enumPool(poolAlphabet(2, false, 3, 0), 5, nil, &n)
		enumPool(poolAlphabet(1, true), 6, nil, &n)
	} else {
		enumPool(poolAlphabet(3, false), 3, nil, &n)
		enumPool(poolAlphabet(2, true), 4, nil, &n)
	}
	// random, longer, 3 keys, biased towards fire/extract interleavings
	rng := hlib.NewRng(hlib.Seed()*7919 + 18)
	alpha := poolAlphabet(3, true)
	nr := 40000
	if thorough {
		nr = 600000
	}
	for i := 0; i < nr; i++ {
		l := 5 + rng.Below(12)
		pr := newPoolRun()
		var ops []string
		for len(ops) < l {
			tok := pr.concretise(alpha[rng.Below(len(alpha))])
			if tok == "" {
				continue
			}
			pr.do(tok)
			ops = append(ops, tok)
		}
		hlib.Emit("pool " + strings.Join(ops, " ") + " = " + pr.result())
		n++
	}
}
