package main

import (
	"fmt"
	"io/ioutil"
	"os"
	"path/filepath"
	"runtime"
	"runtime/debug"
	"strings"
	"time"

	"github.com/arnodel/golua/lib"
	rt "github.com/arnodel/golua/runtime"
	"verifharness/hlib"
)

// Lua-level leg: Go's REAL collector and runtime.SetFinalizer.  Host callbacks append tokens
//
//	M:<id>:<flags>  value id marked (flags 1 = __gc, 2 = releasable, 3 = both)
//	G:<id>          __gc called for id          R:<id>  resources of id released
//	B               isolating callcontext begins    Q  its body is about to return
//	E:<status>      callcontext returned (done|error|killed)
//	C / Z           Runtime.Close begins / returned
//
// GC timing is free: the oracle validates the log against the relation, never against one schedule.

type luaRes struct {
	id int
	x  *luaRun
}

func (v *luaRes) ReleaseResources(d *rt.UserData) {
	v.x.tok(fmt.Sprintf("R:%d@%d", v.id, rt.VerifGCContextDepth(v.x.r)))
}

type luaRun struct {
	r    *rt.Runtime
	toks []string
	on   bool
}

func (x *luaRun) tok(s string) {
	if x.on {
		x.toks = append(x.toks, s)
	}
}

const prelude = `
local GCMT = {}
GCMT.__gc = function(o) hgc(o.id) end
local RAISEMT = {}
RAISEMT.__gc = function(o) hgc(o.id); error("finaliser raises") end
local RESMT = {}
RESMT.__gc = function(o) hgc(resid(o)) end
saved = {}
local KEEPMT = {}
KEEPMT.__gc = function(o) hgc(o.id); saved[o.id] = o end
function mk(id) local t = setmetatable({id = id}, GCMT); hmark(id, 1); return t end
function mkraise(id) local t = setmetatable({id = id}, RAISEMT); hmark(id, 1); return t end
function mkkeep(id) local t = setmetatable({id = id}, KEEPMT); hmark(id, 1); return t end
-- owner: the value is already looked after by the owner-th enclosing context that has its own pool (nil: mark in the current one)
function remark(t, owner) setmetatable(t, GCMT); hmark(t.id, 1, owner); return t end
-- releasable userdata made by Go: kind = "gc" (metatable with __gc), "plain" (metatable without), "nometa" (no metatable)
function mkres(id, kind) if kind == "gc" then return newres(id, RESMT) elseif kind == "plain" then return newres(id, {}) else return newres(id, nil) end end
-- a finaliser that tries something an iosafe context forbids: opening a file for writing
local EVILMT = {}
EVILMT.__gc = function(o)
  hgc(o.id)
  local ok, f = pcall(io.open, EVILPATH, "w")
  if ok and f then f:write("x"); f:close(); hnote("gc-escaped") else hnote("gc-refused") end
end
function mkevil(id) local t = setmetatable({id = id}, EVILMT); hmark(id, 1); return t end
function spin() local i = 0 while true do i = i + 1 end end
function memhog() local t = {} while true do t[#t + 1] = ("x"):rep(4096) .. #t end end
local depth = 0
-- a killed inner context charges its parent: give every level a tenth of its parent's budget
local cpubudget = {3000000, 300000, 30000}
local membudget = {8000000, 800000, 80000}
-- lims: which hard limits the context has, a subset of "cmt" (cpu, memory, millis); flags: required compliance
-- flags, e.g. "iosafe" or "cpusafe iosafe" (nil: none).  ANY limit and ANY required flag gives the context its
-- own pool.
function ctx(body, how, lims, flags)
  lims = lims or (flags and "" or "c")
  hctx("B:0")
  depth = depth + 1
  local kill = {}
  if lims:find("c") then kill.cpu = cpubudget[depth] end
  if lims:find("m") then kill.memory = membudget[depth] end
  if lims:find("t") then kill.millis = 20000 end
  local c = runtime.callcontext({kill = kill, flags = flags}, function()
    body()
    if how == "error" then hctx("Q"); error("boom") end
    if how == "killed" then if kill.cpu then spin() else memhog() end end
    hctx("Q")
  end)
  depth = depth - 1
  hctx("E:" .. c.status)
end
`

func newLuaRun() *luaRun {
	x := &luaRun{on: true}
	x.r = rt.New(ioutil.Discard)
	lib.LoadAll(x.r)
	env := x.r.GlobalEnv()
	set := func(name string, nargs int, f func(t *rt.Thread, c *rt.GoCont) (rt.Cont, error)) {
		g := x.r.SetEnvGoFunc(env, name, f, nargs, false)
		rt.SolemnlyDeclareCompliance(rt.ComplyCpuSafe|rt.ComplyMemSafe|rt.ComplyTimeSafe|rt.ComplyIoSafe, g)
	}
	set("hgc", 1, func(t *rt.Thread, c *rt.GoCont) (rt.Cont, error) {
		n, _ := c.IntArg(0)
		x.tok(fmt.Sprintf("G:%d@%d", n, rt.VerifGCContextDepth(t.Runtime)))
		return c.Next(), nil
	})
	set("hmark", 3, func(t *rt.Thread, c *rt.GoCont) (rt.Cont, error) {
		n, _ := c.IntArg(0)
		f, _ := c.IntArg(1)
		if c.NArgs() > 2 && !c.Arg(2).IsNil() {
			o, _ := c.IntArg(2)
			x.tok(fmt.Sprintf("M:%d:%d:%d", n, f, o))
		} else {
			x.tok(fmt.Sprintf("M:%d:%d", n, f))
		}
		return c.Next(), nil
	})
	set("hctx", 1, func(t *rt.Thread, c *rt.GoCont) (rt.Cont, error) {
		s, _ := c.StringArg(0)
		x.tok(s)
		return c.Next(), nil
	})
	set("resid", 1, func(t *rt.Thread, c *rt.GoCont) (rt.Cont, error) {
		u, err := c.UserDataArg(0)
		if err != nil {
			return nil, err
		}
		return c.PushingNext1(t.Runtime, rt.IntValue(int64(u.Value().(*luaRes).id))), nil
	})
	set("newres", 2, func(t *rt.Thread, c *rt.GoCont) (rt.Cont, error) {
		n, _ := c.IntArg(0)
		var meta *rt.Table // nil: a releasable userdata without any metatable
		flags := 2
		if m, ok := c.Arg(1).TryTable(); ok {
			meta = m
			if !rt.RawGet(m, rt.StringValue("__gc")).IsNil() {
				flags = 3
			}
		}
		// token first: NewUserDataValue marks
		x.tok(fmt.Sprintf("M:%d:%d", n, flags))
		return c.PushingNext1(t.Runtime, t.NewUserDataValue(&luaRes{id: int(n), x: x}, meta)), nil
	})
	set("hnote", 1, func(t *rt.Thread, c *rt.GoCont) (rt.Cont, error) {
		s, _ := c.StringArg(0)
		x.tok("N:" + s)
		return c.Next(), nil
	})
	set("hstep", 0, func(t *rt.Thread, c *rt.GoCont) (rt.Cont, error) { return c.Next(), nil })
	set("gcwait", 0, func(t *rt.Thread, c *rt.GoCont) (rt.Cont, error) {
		realGC()
		return c.Next(), nil
	})
	x.run(prelude)
	return x
}

// realGC lets Go's collector find garbage and run the queued Go finalisers (another goroutine).
func realGC() {
	for i := 0; i < 2; i++ {
		runtime.GC()
		time.Sleep(2 * time.Millisecond)
	}
}

func (x *luaRun) run(src string) string {
	c, err := hlib.Load(x.r, "c18", src)
	if err != nil {
		return "compile-error " + err.Error()
	}
	class, _, msg := hlib.PCall(x.r, rt.FunctionValue(c))
	if class != hlib.OK {
		return class + " " + msg
	}
	return "ok"
}

func (x *luaRun) close() {
	x.tok("C")
	x.r.Close(nil)
	x.tok("Z")
	x.on = false
}

// scenario sources.  %d-free: ids are literals so a scenario + seed is a complete replay.
func genLuaScript(rng *hlib.Rng) string {
	var b strings.Builder
	id := 0
	next := func() int { id++; return id }
	var emit func(depth int, n int)
	emit = func(depth int, n int) {
		for i := 0; i < n; i++ {
			switch c := rng.Below(100); {
			case c < 18:
				fmt.Fprintf(&b, "mk(%d)\n", next()) // dropped at once
			case c < 30:
				fmt.Fprintf(&b, "keep%d = mk(%d)\n", depth, next()) // kept in a global, maybe overwritten later
			case c < 38:
				fmt.Fprintf(&b, "mkres(%d, %q)\n", next(), resKinds[rng.Below(3)])
			case c < 44:
				fmt.Fprintf(&b, "keepres%d = mkres(%d, %q)\n", depth, next(), resKinds[rng.Below(3)])
			case c < 47:
				fmt.Fprintf(&b, "mkkeep(%d)\n", next()) // resurrects itself in its finaliser
			case c < 50:
				fmt.Fprintf(&b, "mkraise(%d)\n", next()) // its finaliser raises
			case c < 58:
				fmt.Fprintf(&b, "do local t = mk(%d); remark(t) end\n", next())
			case c < 64:
				fmt.Fprintf(&b, "if keep%d then remark(keep%d) end\n", depth, depth)
			case c < 70:
				fmt.Fprintf(&b, "keep%d = nil keepres%d = nil\n", depth, depth)
			case c < 84:
				if depth == 0 {
					b.WriteString("gcwait() collectgarbage()\n")
				} else {
					// collectgarbage is not cpu-safe, so it raises inside a limited context; returning from
					// any host function is followed by runPendingFinalizers anyway
					b.WriteString("gcwait() hstep()\n")
				}
			case c < 88:
				b.WriteString("gcwait()\n") // Go finalisers queued, no step guaranteed before what follows
			case c < 100 && depth < 2:
				how := []string{"done", "error", "killed"}[rng.Below(3)]
				lims := []string{"c", "m", "t", "cm", "ct", "mt", "cmt", "", "", ""}[rng.Below(10)]
				flags := "nil"
				if lims == "" || rng.Chance(25) {
					flags = []string{`"iosafe"`, `"cpusafe"`, `"memsafe timesafe"`, `"cpusafe iosafe"`}[rng.Below(4)]
				}
				if (lims == "t" || lims == "") && how == "killed" {
					how = "done" // nothing to exhaust quickly
				}
				b.WriteString("ctx(function()\n")
				emit(depth+1, 1+rng.Below(4))
				fmt.Fprintf(&b, "end, %q, %q, %s)\n", how, lims, flags)
				// values marked in that context's pool must not be re-marked in another pool (the real
				// runtime.SetFinalizer would throw and take the harness down; see `crash`)
				fmt.Fprintf(&b, "keep%d = nil keepres%d = nil\n", depth+1, depth+1)
			}
		}
	}
	emit(0, 3+rng.Below(7))
	return b.String()
}

var resKinds = []string{"gc", "plain", "nometa"}

var fixedLua = map[string]string{
	// every value still referenced at close: all finalised in reverse order of marking, then released
	"close-order": `a = mk(1) b = mkres(2, "gc") c = mk(3) d = mkres(4, "plain") remark(a)`,
	// dropped, collected and finalised while running; nothing left for close
	"pending": `mk(1) mkres(2, "gc") mkres(3, "plain") gcwait() collectgarbage() gcwait() collectgarbage()`,
	// dropped, Go finaliser has run, then Close with no continuation step in between (harness does the GC)
	"gc-before-close": `mk(1) keep = mk(2)`,
	// the same at the end of an isolating callcontext
	"gc-before-context-end": `ctx(function() mk(1) keep = mk(2) gcwait() end, "done")`,
	"killed":                `ctx(function() mk(1) k2 = mkres(2, "gc") mkres(3, "plain") end, "killed")`,
	"error":                 `ctx(function() mk(1) k2 = mkres(2, "gc") mkres(3, "plain") end, "error")`,
	"nested":                `a = mk(1) ctx(function() b = mk(2) ctx(function() c = mkres(3, "gc") end, "killed") d = mk(4) end, "done") e = mk(5)`,
	"resurrect":             `mkkeep(1) gcwait() collectgarbage() gcwait() collectgarbage()`,
	// every kind of hard limit gives the context its own pool: finalised INSIDE it, BY its end
	"ctx-memory-only":   `ctx(function() k1 = mk(1) k2 = mkres(2, "gc") mkres(3, "nometa") end, "done", "m")`,
	"ctx-millis-only":   `ctx(function() k1 = mk(1) k2 = mkres(2, "gc") mkres(3, "nometa") end, "error", "t")`,
	"ctx-memory-killed": `ctx(function() k1 = mk(1) k2 = mkres(2, "gc") k3 = mkres(3, "nometa") end, "killed", "m")`,
	"ctx-all-limits":    `ctx(function() k1 = mk(1) ctx(function() k2 = mk(2) end, "done", "mt") k3 = mk(3) end, "done", "cmt")`,
	// releasable userdata is released whatever its metatable
	"res-nometa":     `a = mkres(1, "nometa") mkres(2, "nometa") b = mkres(3, "plain") gcwait() collectgarbage()`,
	"res-nometa-ctx": `ctx(function() a = mkres(1, "nometa") mkres(2, "plain") end, "done", "c") ctx(function() b = mkres(3, "nometa") end, "killed", "c")`,
	// finalisers that raise do not stop the others: first / middle / last of a batch; at close, at a context's end, at a step
	"raise-close":   `a = mkraise(1) b = mk(2) c = mkraise(3) d = mk(4) e = mkraise(5)`,
	"raise-ctx-end": `ctx(function() a = mk(1) b = mkraise(2) c = mk(3) end, "done", "c") ctx(function() d = mkraise(4) e = mk(5) end, "error", "m")`,
	// a value belongs to the context in which it was first marked: re-marked inside a nested context it stays with
	// its owner (not finalised at the inner end); escaped from an ended context and re-marked, it is finalised again
	"remark-outer-inside": `t = mk(1) ctx(function() remark(t, 1) ctx(function() remark(t, 2) end, "done", "m") end, "done", "c") t = nil gcwait() collectgarbage()`,
	"remark-escaped":      `ctx(function() u = mk(1) end, "done", "c") remark(u) ctx(function() v = mk(2) end, "killed", "c") remark(v)`,
	// contexts that only REQUIRE FLAGS own a pool too: a finaliser set inside runs inside, by the context's end,
	// under its restrictions (io.open is refused in an iosafe context), never later outside it
	"flags-iosafe":       `ctx(function() mkevil(1) k2 = mkevil(2) end, "done", nil, "iosafe") gcwait() collectgarbage() gcwait() collectgarbage()`,
	"flags-iosafe-error": `ctx(function() k1 = mkevil(1) end, "error", nil, "iosafe") k1 = nil gcwait() collectgarbage()`,
	"flags-cpusafe":      `ctx(function() mk(1) k2 = mkres(2, "gc") mkres(3, "nometa") end, "done", nil, "cpusafe") gcwait() collectgarbage()`,
	"flags-combination":  `ctx(function() mkevil(1) ctx(function() k2 = mkevil(2) end, "done", "m", "memsafe") k3 = mkres(3, "plain") end, "done", nil, "cpusafe iosafe")`,
	"flags-and-limit":    `ctx(function() mkevil(1) k2 = mkres(2, "nometa") end, "killed", "c", "iosafe")`,
	"raise-step":         `mk(1) mkraise(2) mk(3) mkraise(4) gcwait() collectgarbage() gcwait() collectgarbage()`,
}

var fixedOrder = []string{"close-order", "pending", "gc-before-close", "gc-before-context-end", "killed", "error", "nested", "resurrect",
	"ctx-memory-only", "ctx-millis-only", "ctx-memory-killed", "ctx-all-limits", "res-nometa", "res-nometa-ctx",
	"raise-close", "raise-ctx-end", "raise-step", "remark-outer-inside", "remark-escaped",
	"flags-iosafe", "flags-iosafe-error", "flags-cpusafe", "flags-combination", "flags-and-limit"}

func runLuaScenario(name string, seed uint64, verbose bool) string {
	var src string
	if name == "random" {
		src = genLuaScript(hlib.NewRng(seed))
	} else if strings.HasPrefix(name, "iofile") {
		return ioFileScenario(name[len("iofile"):])
	} else {
		src = fixedLua[name]
	}
	// Go's collector runs only when the scenario says so: a finaliser that fires between the last
	// continuation step and Close / the end of a context used to be lost (fixed by 5fae9c3); GC must not
	// happen at random.
	debug.SetGCPercent(-1)
	x := newLuaRun()
	// where the `mkevil` finalisers try to create a file (forbidden inside an iosafe context)
	evilDir, _ := ioutil.TempDir("", "c18evil")
	defer os.RemoveAll(evilDir)
	evilPath := filepath.Join(evilDir, "escaped.txt")
	x.r.GlobalEnv().Set(rt.StringValue("EVILPATH"), rt.StringValue(evilPath))
	st := x.run(src)
	gcb := 0
	if name == "gc-before-close" || (name == "random" && seed%3 == 0) {
		realGC()
		gcb = 1
	}
	x.close()
	if _, err := os.Stat(evilPath); err == nil {
		x.toks = append(x.toks, "N:file-exists")
	}
	if verbose {
		fmt.Fprintln(os.Stderr, src)
	}
	return fmt.Sprintf("lua %s = %s %d %s gcb=%d", strings.Join(x.toks, " "), name, seed, strings.Fields(st)[0], gcb)
}

// io files are releasable userdata made by Lua code: an unflushed, unclosed file must be flushed and closed
// by the end of the context that owns it (where = "" : the root, closed by Close; else a callcontext ending that way).
func ioFileScenario(where string) string {
	dir, err := ioutil.TempDir("", "c18")
	if err != nil {
		return "lua = iofile 0 tempdir-failed"
	}
	defer os.RemoveAll(dir)
	path := filepath.Join(dir, "f.txt")
	x := newLuaRun()
	flushed := func() bool {
		data, err := ioutil.ReadFile(path)
		return err == nil && string(data) == "payload"
	}
	x.r.SetEnvGoFunc(x.r.GlobalEnv(), "hfile", func(t *rt.Thread, c *rt.GoCont) (rt.Cont, error) {
		if flushed() {
			x.tok("R:1")
		}
		return c.Next(), nil
	}, 0, false)
	var st string
	if where == "" {
		x.tok("M:1:2")
		st = x.run(fmt.Sprintf("local f = io.open(%q, 'w'); f:write('payload')", path))
		x.tok("C")
		x.r.Close(nil)
		if flushed() {
			x.tok("R:1")
		}
		x.tok("Z")
	} else {
		tail := ""
		switch where {
		case "error":
			tail = `error("boom")`
		case "killed":
			tail = `spin()`
		}
		st = x.run(fmt.Sprintf(`hctx("B:0")
local c = runtime.callcontext({kill = {cpu = 1000000}}, function()
  local f = io.open(%q, 'w'); hmark(1, 2); f:write('payload')
  %s
end)
hfile()
hctx("E:" .. c.status)`, path, tail))
		x.close()
	}
	x.on = false
	return fmt.Sprintf("lua %s = iofile%s 0 %s gcb=0", strings.Join(x.toks, " "), where, strings.Fields(st)[0])
}

func luaLeg(thorough bool) {
	for _, name := range fixedOrder {
		hlib.Emit(runLuaScenario(name, 0, false))
	}
	for _, w := range []string{"", "done", "error", "killed"} {
		hlib.Emit(runLuaScenario("iofile"+w, 0, false))
	}
	n := 70
	if thorough {
		n = 600
	}
	base := hlib.Seed() * 1000003
	for i := 0; i < n; i++ {
		hlib.Emit(runLuaScenario("random", base+uint64(i), false))
	}
}

// crashCase: run in a child process by the check; the real runtime.SetFinalizer throws.
func crashCase(name string) {
	x := newLuaRun()
	src := map[string]string{
		"cross1": `local t = mk(1)
			runtime.callcontext({kill={cpu=1000000}}, function() remark(t) end)`,
		"cross2": `local t
			runtime.callcontext({kill={cpu=1000000}}, function() t = mk(1) end)
			remark(t)`,
	}[name]
	st := x.run(src)
	fmt.Println("survived", st)
}
