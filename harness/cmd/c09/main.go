// c09: correspondence harness for coroutines.  Runs coroutine *scripts* on the real golua
// (compiled Lua driver → lib/coroutine → runtime/thread.go) and prints one line per script:
//
//	<script tokens> => <events> | F <final statuses> | G <d1> <d2> | <outcome>
//
// A script is a sequence of actions; every action is executed by whichever thread is running
// when its turn comes (the main thread or a coroutine body — they all run the same interpreter
// loop and fetch the next action through the host callback `nextop`):
//
//	cN cNt cNT      coroutine.create of coroutine N (t: body holds a to-be-closed guard;
//	                T: a guard whose __close handler resumes a fresh coroutine)
//	wN wNt          coroutine.wrap of coroutine N
//	rN[:a[,b]]      resume N (wrap: call it under pcall) passing the values
//	y[:a[,b]]       coroutine.yield(values)         py[:a[,b]]  pcall(coroutine.yield, values)
//	ret[:a[,b]]     the body returns the values     e:v         error(v, 0) in the body
//	pe:v            pcall(error, v, 0)              xN          pcall(coroutine.close, N)
//	sN              coroutine.status(N)             iy          coroutine.isyieldable()
//	spin            loop until the CPU quota of the enclosing runtime.callcontext kills the thread
//
// Events (emitted through the host callback `emit`, in order): B k vals (body k started with
// vals), R k true vals | R k false v | R k illegal (resume returned), W … (same for a wrap
// call), Y k vals / P k true vals (yield returned in coroutine k), PE k false v, C k ok | C k
// fail v | C k illegal, S k status, I k bool, T k v (to-be-closed guard of k closed with error
// v), H k … (result of the resume done inside the guard's handler).
// F: coroutine.status of every created coroutine seen from the main thread afterwards.
// G: runtime.NumGoroutine() minus its value before the script — d1 after the script (must be the
// number of still-suspended coroutines), d2 after closing those (must be 0).
// outcome: done | killed | DEADLOCK | TIMEOUT | PANIC.
//
// Modes: enum <maxlen> <ncor> | random <count> <maxlen> | scripts (reads scripts from stdin).
// Flag -memctx wraps every script in a context with a (huge) memory limit so that memory
// accounting is active (used by the -race runs).
package main

import (
	"bufio"
	"fmt"
	"os"
	"runtime"
	"strconv"
	"strings"
	"time"

	rt "github.com/arnodel/golua/runtime"
	"verifharness/hlib"
)

const driver = `
local nextop, emit, mute = ...
local co, wrapf, created = {}, {}, {}
local run

local function vals(n, a, b)
  if n == 0 then return elseif n == 1 then return a else return a, b end
end

local function guard(k, mode)
  if mode == 0 then return nil end
  return setmetatable({}, {__close = function(_, e)
    emit("T", k, e)
    if mode == 2 then
      local c2 = coroutine.create(function() return 1 end)
      emit("H", k, coroutine.resume(c2))
    end
  end})
end

-- a to-be-closed guard declared in an INNER frame (inside a pcall / a nested function) of thread me;
-- its tag is <me>.<n>, n counting the inner guards of that thread
local gseq = {}
local function inner(me)
  gseq[me] = (gseq[me] or 0) + 1
  local tag = me .. "." .. gseq[me]
  return setmetatable({}, {__close = function(_, e) emit("T", tag, e) end})
end

-- what every thread can observe before each action: the status of every thread (the main thread's too),
-- who is running, whether it can yield
local function observe(me)
  local function st(k) if co[k] then return coroutine.status(co[k]) else return "-" end end
  local r, ismain = coroutine.running()
  local rk = -1
  for k = 0, 3 do if co[k] == r then rk = k end end
  emit("O", me, st(0), st(1), st(2), st(3), rk, ismain, coroutine.isyieldable())
end

local function body(k, mode)
  return function(...)
    co[k] = coroutine.running()
    local g <close> = guard(k, mode)
    emit("B", k, ...)
    return run(k)
  end
end

run = function(me)
  while true do
    observe(me)
    local op, k, n, a, b = nextop()
    if op == nil then
      if me == 0 then return end
      coroutine.yield()
    elseif op == "c" then
      created[k] = true; wrapf[k] = nil
      co[k] = coroutine.create(body(k, n))
    elseif op == "w" then
      created[k] = true; co[k] = nil
      wrapf[k] = coroutine.wrap(body(k, n))
    elseif op == "r" then
      if wrapf[k] then
        emit("W", k, pcall(wrapf[k], vals(n, a, b)))
      else
        emit("R", k, coroutine.resume(co[k], vals(n, a, b)))
      end
    elseif op == "y" then
      if me == 0 then
        emit("Y", 0, pcall(coroutine.yield, vals(n, a, b)))
      else
        emit("Y", me, coroutine.yield(vals(n, a, b)))
      end
    elseif op == "py" then
      emit("P", me, pcall(coroutine.yield, vals(n, a, b)))
    elseif op == "pyt" then
      -- yield inside a pcall whose frame holds a to-be-closed guard
      if me == 0 then
        emit("P", me, pcall(coroutine.yield, vals(n, a, b)))
      else
        -- (every other inner guard of a thread sits in an xpcall frame instead of a pcall frame)
        local f = function(...) local g <close> = inner(me); return coroutine.yield(...) end
        if (gseq[me] or 0) % 2 == 0 then
          emit("P", me, pcall(f, vals(n, a, b)))
        else
          emit("P", me, xpcall(f, function(m) return m end, vals(n, a, b)))
        end
      end
    elseif op == "fy" then
      -- yield inside a nested function frame that holds a to-be-closed guard
      if me == 0 then
        emit("Y", 0, pcall(coroutine.yield, vals(n, a, b)))
      else
        emit("Y", me, (function(...) local g <close> = inner(me); return coroutine.yield(...) end)(vals(n, a, b)))
      end
    elseif op == "pge" then
      -- error under a guard, caught by pcall: the guard is closed with the error
      local f = function() local g <close> = inner(me); error(a, 0) end
      if (gseq[me] or 0) % 2 == 0 then
        emit("PG", me, pcall(f))
      else
        emit("PG", me, xpcall(f, function(m) return m end))
      end
    elseif op == "fe" then
      -- uncaught error under a guard in a nested frame
      if me ~= 0 then (function() local g <close> = inner(me); error(a, 0) end)() end
    elseif op == "ret" then
      if me ~= 0 then return vals(n, a, b) end
    elseif op == "e" then
      if me ~= 0 then error(a, 0) end
    elseif op == "pe" then
      emit("PE", me, pcall(error, a, 0))
    elseif op == "x" then
      if co[k] then emit("C", k, pcall(coroutine.close, co[k])) else emit("C", k, "nohandle") end
    elseif op == "s" then
      if co[k] then emit("S", k, coroutine.status(co[k])) else emit("S", k, "nohandle") end
    elseif op == "iy" then
      emit("I", me, coroutine.isyieldable())
    elseif op == "spin" then
      while true do end
    end
  end
end

local function reset()
  co, wrapf, created, gseq = {}, {}, {}, {}
end

local function main(limit, memlimit)
  co[0] = coroutine.running()
  if limit > 0 or memlimit > 0 then
    local kill = {}
    if limit > 0 then kill.cpu = limit end
    if memlimit > 0 then kill.memory = memlimit end
    local ctx = runtime.callcontext({kill = kill}, run, 0)
    return ctx.status
  end
  run(0)
  return "done"
end

local function final(k)
  if not created[k] then return "none" end
  if not co[k] then return "nohandle" end
  return coroutine.status(co[k])
end

-- after the script: start never-started wrap coroutines (so that they have a handle), then close
-- every suspended coroutine
local function cleanup()
  mute(1)   -- only the handler events (T, H) are recorded, in the cleanup section
  for k = 1, 3 do
    if created[k] and wrapf[k] and not co[k] then pcall(wrapf[k]) end
  end
  for k = 1, 3 do
    if created[k] and co[k] and coroutine.status(co[k]) == "suspended" then pcall(coroutine.close, co[k]) end
  end
  mute(0)
end

return main, final, cleanup, reset
`

type action struct {
	op   string
	k    int
	mode int // create/wrap: 0 none, 1 tbc guard, 2 guard whose handler resumes
	vals []int64
}

func (a action) String() string {
	s := a.op
	switch a.op {
	case "c", "w":
		s += strconv.Itoa(a.k)
		if a.mode == 1 {
			s += "t"
		} else if a.mode == 2 {
			s += "T"
		}
		return s
	case "r", "x", "s":
		s += strconv.Itoa(a.k)
	}
	if len(a.vals) > 0 {
		var vs []string
		for _, v := range a.vals {
			vs = append(vs, strconv.FormatInt(v, 10))
		}
		s += ":" + strings.Join(vs, ",")
	}
	return s
}

func parseAction(tok string) (action, error) {
	var a action
	head := tok
	if i := strings.IndexByte(tok, ':'); i >= 0 {
		head = tok[:i]
		for _, v := range strings.Split(tok[i+1:], ",") {
			n, err := strconv.ParseInt(v, 10, 64)
			if err != nil {
				return a, err
			}
			a.vals = append(a.vals, n)
		}
	}
	switch {
	case head == "y" || head == "py" || head == "ret" || head == "e" || head == "pe" || head == "iy" || head == "spin" ||
		head == "pyt" || head == "fy" || head == "pge" || head == "fe":
		a.op = head
	case len(head) >= 2 && strings.ContainsRune("cwrxs", rune(head[0])) && head[1] >= '1' && head[1] <= '3':
		a.op = head[:1]
		a.k = int(head[1] - '0')
		switch head[2:] {
		case "":
		case "t":
			a.mode = 1
		case "T":
			a.mode = 2
		default:
			return a, fmt.Errorf("bad token %q", tok)
		}
	default:
		return a, fmt.Errorf("bad token %q", tok)
	}
	return a, nil
}

type env struct {
	r       *rt.Runtime
	main    rt.Value
	final   rt.Value
	cleanup rt.Value
	reset   rt.Value
	script  []action
	pc      int
	events  []string
	cevents []string // handler events during the final cleanup
	muted   int      // 0: record; 1: cleanup phase (record T/H into cevents)
	used    int
}

func encVal(v rt.Value) string {
	switch v.Type() {
	case rt.NilType:
		return "n"
	case rt.BoolType:
		if v.AsBool() {
			return "t"
		}
		return "F"
	case rt.IntType:
		return strconv.FormatInt(v.AsInt(), 10)
	case rt.StringType:
		return "\"" + v.AsString() + "\""
	}
	return "?" + v.TypeName()
}

// canonical event text: error *messages* (strings) are the class `illegal`, statuses are kept
func canonEvent(tag string, args []rt.Value) string {
	parts := []string{tag}
	switch tag {
	case "S":
		parts = append(parts, encVal(args[0]), string(args[1].AsString()))
		return strings.Join(parts, " ")
	case "T":
		// T <guard tag> <error value>: the body guard's tag is the coroutine number, inner guards are "<k>.<n>"
		tag0 := encVal(args[0])
		if args[0].Type() == rt.StringType {
			tag0 = string(args[0].AsString())
		}
		return "T " + tag0 + " " + encVal(args[1])
	case "O":
		for _, a := range args {
			if a.Type() == rt.StringType {
				parts = append(parts, string(a.AsString()))
			} else {
				parts = append(parts, encVal(a))
			}
		}
		return strings.Join(parts, " ")
	case "R", "W", "C", "PE", "P", "H", "PG":
		// k, ok, ...  — (false, string) is a refusal with a message; messages are free text
		if len(args) >= 2 && args[1].Type() == rt.StringType {
			return tag + " " + encVal(args[0]) + " " + string(args[1].AsString()) // "nohandle"
		}
		if tag == "C" {
			// pcall(coroutine.close, co): true,true | true,false,err | false,msg
			if len(args) >= 3 && args[1].Type() == rt.BoolType && args[1].AsBool() {
				if args[2].Type() == rt.BoolType && args[2].AsBool() {
					return "C " + encVal(args[0]) + " ok"
				}
				if len(args) >= 4 {
					return "C " + encVal(args[0]) + " fail " + encVal(args[3])
				}
			}
			return "C " + encVal(args[0]) + " illegal"
		}
		if len(args) >= 3 && args[1].Type() == rt.BoolType && !args[1].AsBool() && args[2].Type() == rt.StringType {
			return tag + " " + encVal(args[0]) + " illegal"
		}
	case "Y":
		if len(args) >= 3 && args[0].Type() == rt.IntType && args[0].AsInt() == 0 {
			if args[1].Type() == rt.BoolType && !args[1].AsBool() {
				return "Y 0 illegal"
			}
		}
	}
	for _, a := range args {
		parts = append(parts, encVal(a))
	}
	return strings.Join(parts, " ")
}

func newEnv() *env {
	r, _ := hlib.NewRuntime(os.Stderr)
	e := &env{r: r}
	nextop := rt.NewGoFunction(func(t *rt.Thread, c *rt.GoCont) (rt.Cont, error) {
		next := c.Next()
		if e.pc >= len(e.script) {
			return next, nil
		}
		a := e.script[e.pc]
		e.pc++
		t.Push1(next, rt.StringValue(a.op))
		t.Push1(next, rt.IntValue(int64(a.k)))
		if a.op == "c" || a.op == "w" {
			t.Push1(next, rt.IntValue(int64(a.mode)))
			return next, nil
		}
		t.Push1(next, rt.IntValue(int64(len(a.vals))))
		for _, v := range a.vals {
			t.Push1(next, rt.IntValue(v))
		}
		return next, nil
	}, "nextop", 0, false)
	emit := rt.NewGoFunction(func(t *rt.Thread, c *rt.GoCont) (rt.Cont, error) {
		args := append([]rt.Value{c.Arg(0)}, c.Etc()...)
		tag := string(args[0].AsString())
		if e.muted == 0 {
			e.events = append(e.events, canonEvent(tag, args[1:]))
		} else if tag == "T" || tag == "H" {
			e.cevents = append(e.cevents, canonEvent(tag, args[1:]))
		}
		return c.Next(), nil
	}, "emit", 1, true)
	mute := rt.NewGoFunction(func(t *rt.Thread, c *rt.GoCont) (rt.Cont, error) {
		e.muted = int(c.Arg(0).AsInt())
		return c.Next(), nil
	}, "mute", 1, false)
	all := rt.ComplyCpuSafe | rt.ComplyMemSafe | rt.ComplyTimeSafe | rt.ComplyIoSafe
	rt.SolemnlyDeclareCompliance(all, nextop, emit, mute)
	cl, err := hlib.Load(r, "c09driver", driver)
	if err != nil {
		fmt.Fprintln(os.Stderr, "harness: cannot compile driver:", err)
		os.Exit(2)
	}
	class, res, msg := hlib.PCall(r, rt.FunctionValue(cl), rt.FunctionValue(nextop), rt.FunctionValue(emit), rt.FunctionValue(mute))
	if class != hlib.OK || len(res) != 4 {
		fmt.Fprintln(os.Stderr, "harness: cannot run driver:", class, msg)
		os.Exit(2)
	}
	e.main, e.final, e.cleanup, e.reset = res[0], res[1], res[2], res[3]
	return e
}

// settle waits until the number of goroutines is at most `want` (finished coroutine goroutines
// exit shortly after handing control back) or a deadline passes; returns the count.
var settleTimeouts = 0

func settle(want int) int {
	wait := 2 * time.Second
	if settleTimeouts >= 3 {
		wait = 20 * time.Millisecond // goroutines are evidently not going away: do not wait 2 s per script
	}
	deadline := time.Now().Add(wait)
	n := runtime.NumGoroutine()
	for i := 0; n > want && time.Now().Before(deadline); i++ {
		if i < 200 {
			runtime.Gosched()
		} else {
			time.Sleep(200 * time.Microsecond)
		}
		n = runtime.NumGoroutine()
	}
	if n > want {
		settleTimeouts++
	}
	return n
}

// blockedOnThreadMutex reports whether some goroutine is blocked in sync.(*Mutex).Lock called
// from runtime/thread.go code.
func blockedOnThreadMutex() bool {
	buf := make([]byte, 1<<20)
	n := runtime.Stack(buf, true)
	for _, g := range strings.Split(string(buf[:n]), "\n\n") {
		if strings.Contains(g, "sync.(*Mutex).Lock") && strings.Contains(g, "golua/runtime.(*Thread).") {
			return true
		}
	}
	return false
}

var memctx = false

type result struct {
	class string
	res   []rt.Value
}

// watched calls a Lua function on the main thread from a separate goroutine under a watchdog: it returns
// wedged = "DEADLOCK" if some goroutine stays blocked in a Thread mutex for 8 consecutive polls (1.2 s), or
// "TIMEOUT" after 20 s.
func (e *env) watched(f rt.Value, args ...rt.Value) (r result, wedged string) {
	done := make(chan result, 1)
	go func() {
		class, res, _ := hlib.PCall(e.r, f, args...)
		done <- result{class, res}
	}()
	// fast path: almost every call returns within a millisecond; no timers then
	for i := 0; i < 2000; i++ {
		select {
		case r = <-done:
			return r, ""
		default:
			runtime.Gosched()
		}
	}
	timer := time.NewTimer(20 * time.Second)
	defer timer.Stop()
	timeout := timer.C
	tick := time.NewTicker(150 * time.Millisecond)
	defer tick.Stop()
	blocked := 0
	for {
		select {
		case r = <-done:
			return r, ""
		case <-tick.C:
			if blockedOnThreadMutex() {
				blocked++
				if blocked >= 8 {
					return r, "DEADLOCK"
				}
			} else {
				blocked = 0
			}
		case <-timeout:
			return r, "TIMEOUT"
		}
	}
}

func (e *env) runScript(script []action, expectSusp func(final []string) int) (line string, broken bool) {
	e.script, e.pc, e.events, e.cevents, e.muted = script, 0, nil, nil, 0
	hlib.PCall(e.r, e.reset)
	before := runtime.NumGoroutine()
	limit, mem := int64(0), int64(0)
	for _, a := range script {
		if a.op == "spin" {
			limit = 20000
		}
	}
	if memctx {
		mem = 1 << 40
	}
	outcome := ""
	r, wedged := e.watched(e.main, rt.IntValue(limit), rt.IntValue(mem))
	switch {
	case wedged != "":
		outcome = wedged
	case r.class == hlib.OK && len(r.res) == 1 && r.res[0].Type() == rt.StringType &&
		(string(r.res[0].AsString()) == "done" || string(r.res[0].AsString()) == "killed"):
		outcome = string(r.res[0].AsString())
	case r.class == hlib.OK:
		outcome = "status-odd"
	case r.class == hlib.KILLED:
		outcome = "killed-escaped"
	default:
		outcome = strings.ToUpper(r.class)
	}
	ev := strings.Join(e.events, " ; ")
	toks := make([]string, len(script))
	for i, a := range script {
		toks[i] = a.String()
	}
	if outcome == "DEADLOCK" || outcome == "TIMEOUT" {
		// the runtime is wedged: abandon it
		return fmt.Sprintf("%s => %s | F - | G - - | %s", strings.Join(toks, " "), ev, outcome), true
	}
	var finals []string
	for k := 1; k <= 3; k++ {
		class, res, _ := hlib.PCall(e.r, e.final, rt.IntValue(int64(k))) // coroutine.status takes no mutex
		s := "?"
		if class == hlib.OK && len(res) == 1 {
			s = string(res[0].AsString())
		}
		finals = append(finals, s)
	}
	want := expectSusp(finals)
	d1 := settle(before+want) - before
	if _, w := e.watched(e.cleanup); w != "" {
		// closing the still-suspended coroutines wedged: report it as the script's outcome
		return fmt.Sprintf("%s => %s | F %s | G %d - | %s", strings.Join(toks, " "), ev, strings.Join(finals, " "), d1, "cleanup-"+w), true
	}
	d2 := settle(before) - before
	// pcall pushes a frame on the runtime-wide context stack: a coroutine left suspended inside a pcall leaves
	// that stack unbalanced, and an escaped kill leaves the runtime inside a dead context — do not reuse the runtime
	for _, a := range script {
		if a.op == "py" || a.op == "pyt" {
			broken = true
		}
	}
	if outcome != "done" && outcome != "killed" {
		broken = true
	}
	return fmt.Sprintf("%s => %s | F %s | G %d %d | %s | X %s", strings.Join(toks, " "), ev, strings.Join(finals, " "), d1, d2, outcome,
		strings.Join(e.cevents, " ; ")), broken
}

func countSuspended(finals []string) int {
	n := 0
	for _, f := range finals {
		if f == "suspended" || f == "nohandle" {
			n++
		}
	}
	return n
}

type runner struct {
	e      *env
	n      int
	wedged int // scripts that ended in DEADLOCK / TIMEOUT
}

// after this many wedged scripts the run stops: each one costs seconds and leaks goroutines, and the
// check has its failing inputs already
const maxWedged = 6

func (r *runner) run(script []action) {
	if r.wedged >= maxWedged {
		return
	}
	if r.e == nil || r.e.used >= 2000 {
		r.e = newEnv()
	}
	r.e.used++
	line, broken := r.e.runScript(script, countSuspended)
	hlib.Emit(line)
	if strings.HasSuffix(line, "DEADLOCK") || strings.HasSuffix(line, "TIMEOUT") {
		r.wedged++
	}
	if broken {
		hlib.Out.Flush()
		r.e = nil
	}
	r.n++
}

func valsFor(i int) []int64 {
	n := i % 3
	var vs []int64
	for j := 0; j < n; j++ {
		vs = append(vs, int64(10*(i+1)+j+1))
	}
	return vs
}

// enumerate every script of length 1..maxlen over at most ncor coroutines (created in order
// 1, 2, …; operations refer to created coroutines only; nothing follows `spin`; the
// deadlocking guard mode T is not enumerated).
func enumerate(r *runner, maxlen, ncor int) {
	var rec func(prefix []action, created int, hasTbc bool)
	rec = func(prefix []action, created int, hasTbc bool) {
		if len(prefix) > 0 {
			r.run(prefix)
		}
		if len(prefix) == maxlen {
			return
		}
		if len(prefix) > 0 && prefix[len(prefix)-1].op == "spin" {
			return
		}
		i := len(prefix)
		ext := func(a action, created int, hasTbc bool) {
			p := append(append([]action(nil), prefix...), a)
			rec(p, created, hasTbc)
		}
		if created < ncor {
			ext(action{op: "c", k: created + 1}, created+1, hasTbc)
			ext(action{op: "c", k: created + 1, mode: 1}, created+1, true)
			ext(action{op: "w", k: created + 1}, created+1, hasTbc)
		}
		for k := 1; k <= created; k++ {
			ext(action{op: "r", k: k, vals: valsFor(i)}, created, hasTbc)
			ext(action{op: "x", k: k}, created, hasTbc)
			ext(action{op: "s", k: k}, created, hasTbc)
		}
		ext(action{op: "y", vals: valsFor(i)}, created, hasTbc)
		if !memctx {
			// (under -memctx the whole script runs inside a memory-limited context: a coroutine left
			// suspended inside a pcall unbalances the context stack — known finding — and the later
			// release of its stack can then crash the process with "Too much mem released")
			ext(action{op: "py", vals: valsFor(i)}, created, hasTbc)
		}
		ext(action{op: "ret", vals: valsFor(i)}, created, hasTbc)
		ext(action{op: "e", vals: []int64{int64(100 + i)}}, created, hasTbc)
		if created > 0 {
			// to-be-closed guards in inner frames (inside pcall / a nested function) of whichever thread runs
			if !memctx {
				ext(action{op: "pyt", vals: valsFor(i)}, created, true)
			}
			ext(action{op: "fy", vals: valsFor(i)}, created, true)
			ext(action{op: "pge", vals: []int64{int64(300 + i)}}, created, hasTbc)
			ext(action{op: "fe", vals: []int64{int64(400 + i)}}, created, hasTbc)
			ext(action{op: "pe", vals: []int64{int64(200 + i)}}, created, hasTbc)
			ext(action{op: "iy"}, created, hasTbc)
			if !hasTbc && !memctx {
				ext(action{op: "spin"}, created, hasTbc)
			}
		}
	}
	rec(nil, 0, false)
}

func random(r *runner, count, maxlen int) {
	rng := hlib.NewRng(hlib.Seed()*0x9E3779B1 + 9)
	for n := 0; n < count; n++ {
		l := 4 + rng.Below(maxlen-3)
		var s []action
		created := 0
		hasTbc := false
		for i := 0; i < l; i++ {
			var a action
			switch c := rng.Below(100); {
			case c < 14 && created < 3:
				created++
				a = action{op: "c", k: created}
				if rng.Chance(30) {
					a.mode, hasTbc = 1, true
					if rng.Chance(25) {
						a.mode = 2 // the guard's __close handler resumes a fresh coroutine
					}
				}
				if rng.Chance(25) {
					a.op = "w"
				}
			case c < 50 && created > 0:
				a = action{op: "r", k: 1 + rng.Below(created), vals: valsFor(int(rng.Below(30)))}
			case c < 58 && created > 0:
				a = action{op: "x", k: 1 + rng.Below(created)}
			case c < 66 && created > 0:
				a = action{op: "s", k: 1 + rng.Below(created)}
			case c < 78:
				a = action{op: "y", vals: valsFor(int(rng.Below(30)))}
			case c < 82 && !memctx:
				a = action{op: "py", vals: valsFor(int(rng.Below(30)))}
			case c < 85 && created > 0:
				switch rng.Below(4) {
				case 0:
					if memctx {
						a = action{op: "fy", vals: valsFor(int(rng.Below(30)))}
					} else {
						a = action{op: "pyt", vals: valsFor(int(rng.Below(30)))}
					}
					hasTbc = true
				case 1:
					a, hasTbc = action{op: "fy", vals: valsFor(int(rng.Below(30)))}, true
				case 2:
					a = action{op: "pge", vals: []int64{int64(300 + i)}}
				default:
					a = action{op: "fe", vals: []int64{int64(400 + i)}}
				}
			case c < 89:
				a = action{op: "ret", vals: valsFor(int(rng.Below(30)))}
			case c < 93:
				a = action{op: "e", vals: []int64{int64(100 + i)}}
			case c < 96:
				a = action{op: "pe", vals: []int64{int64(200 + i)}}
			case c < 98:
				a = action{op: "iy"}
			default:
				// (a quota kill of a coroutine holding a to-be-closed guard is left out: whether and how its
				// handlers run in the dead context is C05/C10 territory; under -memctx no kill at all)
				if i >= 3 && created > 0 && !hasTbc && !memctx {
					a = action{op: "spin"}
				} else {
					a = action{op: "iy"}
				}
			}
			s = append(s, a)
			if a.op == "spin" {
				break
			}
		}
		r.run(s)
	}
}

func main() {
	defer hlib.Out.Flush()
	args := os.Args[1:]
	if len(args) > 0 && args[0] == "-memctx" {
		memctx = true
		args = args[1:]
	}
	if len(args) == 0 {
		fmt.Fprintln(os.Stderr, "usage: c09 [-memctx] enum <maxlen> <ncor> | random <count> <maxlen> | scripts")
		os.Exit(2)
	}
	r := &runner{}
	switch args[0] {
	case "enum":
		maxlen, _ := strconv.Atoi(args[1])
		ncor, _ := strconv.Atoi(args[2])
		enumerate(r, maxlen, ncor)
	case "random":
		count, _ := strconv.Atoi(args[1])
		maxlen, _ := strconv.Atoi(args[2])
		random(r, count, maxlen)
	case "scripts":
		sc := bufio.NewScanner(os.Stdin)
		sc.Buffer(make([]byte, 1<<20), 1<<20)
		for sc.Scan() {
			line := strings.TrimSpace(sc.Text())
			if line == "" || strings.HasPrefix(line, "#") {
				continue
			}
			if i := strings.Index(line, "=>"); i >= 0 {
				line = strings.TrimSpace(line[:i])
			}
			var s []action
			bad := false
			for _, tok := range strings.Fields(line) {
				a, err := parseAction(tok)
				if err != nil {
					fmt.Fprintln(os.Stderr, "harness:", err)
					bad = true
					break
				}
				s = append(s, a)
			}
			if !bad {
				r.run(s)
			}
		}
	}
}
