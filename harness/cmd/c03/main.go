// c03: correspondence harness for tables.  Drives the REAL runtime.Table (Go leg:
// NewTable/Get/Set/Reset/Next/Len, Runtime.SetTableCheck) and compiled Lua
// (Lua leg: t[k]=v, t[k], rawset, rawget, next, pairs, #t) with generated
// operation sequences and prints, per operation, its output, the dump of the private
// table state (verif hook) and the key hashes the table computed.
//
// Line protocol (tokens separated by one space):
//
//	C <id> <leg> <descr>            new case: fresh table (leg: go | lua | luaraw | meta)
//	S <K> <h> <V> = ok|err          t[k] = v   (V = n: assignment of nil)
//	R <K> <h> <V> = t|F             Table.Reset (go leg only)
//	G <K> <h> = <V>                 t[k]
//	N <K> <h> = inv|end|err|<K'> <V'>   next(t, k)   (K = n: start)
//	L = <int>                       #t
//	X <K> <h> <V> = t|F|err         t[k] = v on a table whose __newindex logs: was it called?
//	I <K> <h> = t|F|err <V>         t[k] on a table whose __index logs: was it called, result
//	D A .. H ..                     dump (see runtime/verif_hooks_table.go)
//	K ok|<message>                  (*Table).VerifCheckInvariants()
//
// K: n | t | F | i<dec> | f<16 hex IEEE> | s<hex> | r<class>[b]  (reference values: class =
// equivalence class under runtime.RawEqual; `b` marks a second object of the same class)
// V: n | i<dec>.   h: hash of the normalised key as the table computes it (for an integer-valued
// float: <hash of the normalised key>/<hash of the float as given>).
//
// usage: c03 gen <quick|thorough> | c03 replay   (script on stdin: the same lines without `= ...`, D, K)
package main

import (
	"bufio"
	"fmt"
	"math"
	"os"
	"strconv"
	"strings"

	rt "github.com/arnodel/golua/runtime"
	"verifharness/hlib"
)

// ---------------------------------------------------------------- environment

type ref struct {
	v   rt.Value
	tok string
}

type env struct {
	r    *rt.Runtime
	fn   map[string]rt.Value
	refs []ref
	ctr  int64 // value counter: every assignment stores a fresh integer
}

const luaHelpers = `
return {
  set = function(t, k, v) t[k] = v end,
  rawset = function(t, k, v) rawset(t, k, v) end,
  get = function(t, k) return t[k] end,
  rawget = function(t, k) return rawget(t, k) end,
  next = function(t, k) return next(t, k) end,
  len = function(t) return #t end,
  tinsert = function(t, v) table.insert(t, v) end,
  tinsertp = function(t, p, v) table.insert(t, p, v) end,
  tremove = function(t) return (table.remove(t)) end,
  tremovep = function(t, p) return (table.remove(t, p)) end,
  tunpack = function(t) return select("#", table.unpack(t)), table.unpack(t) end,
  pairs = function(t, visit, after)
    for k, v in pairs(t) do
      local m = table.pack(visit(k, v))
      for i = 1, m.n, 2 do
        t[m[i]] = m[i + 1]
        after(m[i], m[i + 1])
      end
    end
  end,
  pairsraw = function(t, visit, after)
    for k, v in pairs(t) do
      local m = table.pack(visit(k, v))
      for i = 1, m.n, 2 do
        rawset(t, m[i], m[i + 1])
        after(m[i], m[i + 1])
      end
    end
  end,
  twins = function()
    local fs = {}
    for i = 1, 2 do fs[i] = function() end end
    return fs[1], fs[2]
  end,
  upv = function()
    local function mk(x) return function() return x end end
    return mk(1), mk(1)
  end,
  f1 = function() return 1 end,
  f2 = function() return 2 end,
}
`

func newEnv() *env {
	r, _ := hlib.NewRuntime(os.Stderr)
	e := &env{r: r, fn: map[string]rt.Value{}}
	c, err := hlib.Load(r, "c03", luaHelpers)
	if err != nil {
		fatal("cannot compile helpers: " + err.Error())
	}
	class, res, msg := hlib.PCall(r, rt.FunctionValue(c))
	if class != hlib.OK || len(res) != 1 {
		fatal("cannot run helpers: " + msg)
	}
	ht := res[0].AsTable()
	for _, n := range []string{"set", "rawset", "get", "rawget", "next", "len", "tinsert", "tinsertp", "tremove", "tremovep", "tunpack", "pairs", "pairsraw", "twins", "upv", "f1", "f2"} {
		e.fn[n] = ht.Get(rt.StringValue(n))
	}
	// reference values used as identity keys; tokens are stable across processes
	for i := 0; i < 4; i++ {
		e.addRef(rt.TableValue(rt.NewTable()))
	}
	for i := 0; i < 2; i++ {
		e.addRef(rt.FunctionValue(rt.NewGoFunction(func(t *rt.Thread, c *rt.GoCont) (rt.Cont, error) { return c.Next(), nil }, "g"+strconv.Itoa(i), 0, false)))
	}
	e.addRef(e.fn["f1"])
	e.addRef(e.fn["f2"])
	// two closures of one function definition without upvalues, then two with (distinct) upvalues
	for _, name := range []string{"twins", "upv"} {
		class, res, msg = hlib.PCall(r, e.fn[name])
		if class != hlib.OK || len(res) != 2 {
			fatal("cannot make closures: " + msg)
		}
		e.addRef(res[0])
		e.addRef(res[1])
	}
	return e
}

// addRef gives v the class of an earlier RawEqual value, if any.
func (e *env) addRef(v rt.Value) {
	for i, x := range e.refs {
		if eq, _ := rt.RawEqual(x.v, v); eq {
			e.refs = append(e.refs, ref{v, e.refs[i].tok + "b"})
			return
		}
	}
	n := 0
	for _, x := range e.refs {
		if !strings.HasSuffix(x.tok, "b") {
			n++
		}
	}
	e.refs = append(e.refs, ref{v, "r" + strconv.Itoa(n+1)})
}

func (e *env) refTok(v rt.Value) string {
	for _, x := range e.refs {
		if x.v.Interface() == v.Interface() {
			return x.tok
		}
	}
	return "o" + v.TypeName()
}

func (e *env) enc(v rt.Value) string {
	switch v.Type() {
	case rt.TableType, rt.FunctionType:
		return e.refTok(v)
	}
	return hlib.Enc(v)
}

func (e *env) dec(s string) rt.Value {
	if s == "v" { // replay scripts: any non-nil value
		return rt.IntValue(1)
	}
	if s[0] == 'r' {
		for _, x := range e.refs {
			if x.tok == s {
				return x.v
			}
		}
		fatal("unknown reference " + s)
	}
	v, err := hlib.Dec(s)
	if err != nil {
		fatal("bad token " + s)
	}
	return v
}

// edge values: falsy-looking, zero-like and NaN values are values like any other (only nil removes)
var edgeValues = []rt.Value{
	rt.BoolValue(false), rt.IntValue(0), rt.FloatValue(0), rt.FloatValue(math.Copysign(0, -1)), rt.StringValue(""),
	rt.FloatValue(math.NaN()), rt.BoolValue(true), rt.StringValue("false"), rt.BoolValue(false), rt.StringValue("nil"),
}

// fresh returns the value to assign next: a fresh integer, and every fourth time an edge value.
func (e *env) fresh() rt.Value {
	e.ctr++
	if e.ctr%4 == 0 {
		return edgeValues[int(e.ctr/4)%len(edgeValues)]
	}
	return rt.IntValue(e.ctr)
}

// value decodes a V token of a replay script: `v` and integers stand for "a fresh value"
func (e *env) value(tok string) rt.Value {
	if tok == "v" || tok[0] == 'i' {
		e.ctr++
		return rt.IntValue(e.ctr)
	}
	return e.dec(tok)
}

func fatal(msg string) {
	hlib.Out.Flush()
	fmt.Fprintln(os.Stderr, "c03 harness:", msg)
	os.Exit(2)
}

// ---------------------------------------------------------------- a case: one table, one leg

type kase struct {
	e      *env
	leg    string
	t      *rt.Table
	tv     rt.Value
	called bool // set by the logging metamethods
	nops   int
}

func (e *env) newCase(id string, leg string, descr string) *kase {
	c := &kase{e: e, leg: leg, t: rt.NewTable()}
	c.tv = rt.TableValue(c.t)
	if strings.HasPrefix(leg, "meta") {
		meta := rt.NewTable()
		log := func(ret bool) *rt.GoFunction {
			return rt.NewGoFunction(func(t *rt.Thread, gc *rt.GoCont) (rt.Cont, error) {
				c.called = true
				next := gc.Next()
				if ret {
					t.Push1(next, rt.IntValue(-7))
				}
				return next, nil
			}, "log", 3, false)
		}
		switch leg {
		case "meta": // handlers are functions
			meta.Set(rt.StringValue("__newindex"), rt.FunctionValue(log(false)))
			meta.Set(rt.StringValue("__index"), rt.FunctionValue(log(true)))
		case "metachain": // handlers are tables whose own metatables end in the logging functions
			cls, cls2 := rt.NewTable(), rt.NewTable()
			m1, m2 := rt.NewTable(), rt.NewTable()
			m1.Set(rt.StringValue("__index"), rt.FunctionValue(log(true)))
			m2.Set(rt.StringValue("__newindex"), rt.FunctionValue(log(false)))
			cls.SetMetatable(m1)
			cls2.SetMetatable(m2)
			meta.Set(rt.StringValue("__index"), rt.TableValue(cls))
			meta.Set(rt.StringValue("__newindex"), rt.TableValue(cls2))
		default: // metaplain: a metatable with neither __index nor __newindex
			meta.Set(rt.StringValue("__name"), rt.StringValue("plain"))
		}
		c.t.SetMetatable(meta)
	}
	hlib.Out.Flush() // a hang in the table code must leave the case that hangs on stdout
	hlib.Emit("C", id, leg, descr)
	c.state()
	return c
}

func hashTok(k rt.Value) string {
	if k.IsNil() {
		return "0"
	}
	h := strconv.FormatUint(uint64(rt.VerifKeyHash(k)), 10)
	if _, isFloat := k.TryFloat(); isFloat {
		if _, ok := rt.ToIntNoString(k); ok {
			// an integer-valued float: also the hash of the value as given
			h += "/" + strconv.FormatUint(uint64(rt.VerifHash(k)), 10)
		}
	}
	return h
}

func (c *kase) state() {
	hlib.Emit("D", c.t.VerifDump(c.e.enc))
	if err := c.t.VerifCheckInvariants(); err != nil {
		hlib.Emit("K", strings.ReplaceAll(err.Error(), "\n", " "))
	} else {
		hlib.Emit("K", "ok")
	}
	hlib.Out.Flush() // a hang or crash in the next operation must leave everything before it on stdout
}

func (c *kase) lua(name string, args ...rt.Value) (string, []rt.Value, string) {
	return hlib.PCall(c.e.r, c.e.fn[name], args...)
}

// guard runs a direct call into the table code and reports a Go panic instead of dying.
func guard(f func()) (panicked bool) {
	defer func() {
		if p := recover(); p != nil {
			panicked = true
		}
	}()
	f()
	return false
}

// S: t[k] = v
func (c *kase) S(k, v rt.Value) {
	c.nops++
	out := "ok"
	switch c.leg {
	case "go":
		if guard(func() {
			if k.IsNil() || k.IsNaN() || c.nops%3 == 0 {
				if err := c.e.r.SetTableCheck(c.t, k, v); err != nil {
					out = "err"
				}
			} else {
				c.t.Set(k, v)
			}
		}) {
			out = "panic"
		}
	case "lua":
		if class, _, _ := c.lua("set", c.tv, k, v); class != hlib.OK {
			out = "err"
		}
	default: // luaraw, meta: rawset
		if class, _, _ := c.lua("rawset", c.tv, k, v); class != hlib.OK {
			out = "err"
		}
	}
	hlib.Emit("S", c.e.enc(k), hashTok(k), c.e.enc(v), "=", out)
	c.state()
}

// R: Table.Reset
func (c *kase) R(k, v rt.Value) {
	c.nops++
	out := "F"
	if guard(func() {
		if c.t.Reset(k, v) {
			out = "t"
		}
	}) {
		out = "panic"
	}
	hlib.Emit("R", c.e.enc(k), hashTok(k), c.e.enc(v), "=", out)
	c.state()
}

// G: t[k]
func (c *kase) G(k rt.Value) {
	var v rt.Value
	out := ""
	switch c.leg {
	case "go":
		if guard(func() { v = c.t.Get(k) }) {
			out = "panic"
		}
	case "lua":
		class, res, _ := c.lua("get", c.tv, k)
		if class != hlib.OK {
			out = "err"
		} else if len(res) > 0 {
			v = res[0]
		}
	default:
		class, res, _ := c.lua("rawget", c.tv, k)
		if class != hlib.OK {
			out = "err"
		} else if len(res) > 0 {
			v = res[0]
		}
	}
	if out == "" {
		out = c.e.enc(v)
	}
	hlib.Emit("G", c.e.enc(k), hashTok(k), "=", out)
}

// N: next(t, k); returns the key and what happened ("item", "end", "inv", "err")
func (c *kase) N(k rt.Value) (rt.Value, string) {
	var nk, nv rt.Value
	what := "item"
	if c.leg == "go" {
		var ok bool
		if guard(func() { nk, nv, ok = c.t.Next(k) }) {
			what = "err"
		} else if !ok {
			what = "inv"
		} else if nk.IsNil() {
			what = "end"
		}
	} else {
		class, res, msg := c.lua("next", c.tv, k)
		switch {
		case class != hlib.OK && strings.Contains(msg, "invalid key"):
			what = "inv"
		case class != hlib.OK:
			what = "err"
		case len(res) == 0 || res[0].IsNil():
			what = "end"
		default:
			nk = res[0]
			if len(res) > 1 {
				nv = res[1]
			}
		}
	}
	if what == "item" {
		hlib.Emit("N", c.e.enc(k), hashTok(k), "=", c.e.enc(nk), c.e.enc(nv))
	} else {
		hlib.Emit("N", c.e.enc(k), hashTok(k), "=", what)
	}
	return nk, what
}

// L: #t
func (c *kase) L() {
	var n int64
	if c.leg == "go" {
		if guard(func() { n = c.t.Len() }) {
			hlib.Emit("L", "=", "err")
			return
		}
	} else {
		class, res, _ := c.lua("len", c.tv)
		if class != hlib.OK || len(res) != 1 {
			hlib.Emit("L", "=", "err")
			return
		}
		n = res[0].AsInt()
	}
	hlib.Emit("L", "=", strconv.FormatInt(n, 10))
}

// TI / TP / TR / TQ / TU: table.insert, table.remove, table.unpack from compiled Lua
func (c *kase) TI(v rt.Value) {
	out := "ok"
	if class, _, _ := c.lua("tinsert", c.tv, v); class != hlib.OK {
		out = "err"
	}
	hlib.Emit("TI", c.e.enc(v), "=", out)
	c.state()
}

func (c *kase) TP(pos int64, v rt.Value) {
	out := "ok"
	if class, _, _ := c.lua("tinsertp", c.tv, rt.IntValue(pos), v); class != hlib.OK {
		out = "err"
	}
	hlib.Emit("TP", strconv.FormatInt(pos, 10), c.e.enc(v), "=", out)
	c.state()
}

func (c *kase) TR() {
	class, res, _ := c.lua("tremove", c.tv)
	out := "err"
	if class == hlib.OK {
		var v rt.Value
		if len(res) > 0 {
			v = res[0]
		}
		out = c.e.enc(v)
	}
	hlib.Emit("TR", "=", out)
	c.state()
}

func (c *kase) TQ(pos int64) {
	class, res, _ := c.lua("tremovep", c.tv, rt.IntValue(pos))
	out := "err"
	if class == hlib.OK {
		var v rt.Value
		if len(res) > 0 {
			v = res[0]
		}
		out = c.e.enc(v)
	}
	hlib.Emit("TQ", strconv.FormatInt(pos, 10), "=", out)
	c.state()
}

func (c *kase) TU() {
	class, res, _ := c.lua("tunpack", c.tv)
	parts := []string{"TU", "="}
	if class != hlib.OK || len(res) == 0 {
		parts = append(parts, "err")
	} else {
		n := int(res[0].AsInt())
		for i := 0; i < n; i++ {
			var v rt.Value
			if 1+i < len(res) {
				v = res[1+i]
			}
			parts = append(parts, c.e.enc(v))
		}
	}
	hlib.Emit(parts...)
}

// X: t[k] = v through SetIndex with a logging __newindex
func (c *kase) X(k, v rt.Value) {
	c.called = false
	out := "F"
	class, _, _ := c.lua("set", c.tv, k, v)
	if class != hlib.OK {
		out = "err"
	} else if c.called {
		out = "t"
	}
	hlib.Emit("X", c.e.enc(k), hashTok(k), c.e.enc(v), "=", out)
	c.state()
}

// I: t[k] through Index with a logging __index
func (c *kase) I(k rt.Value) {
	c.called = false
	class, res, _ := c.lua("get", c.tv, k)
	if class != hlib.OK {
		hlib.Emit("I", c.e.enc(k), hashTok(k), "=", "err", "n")
		return
	}
	var v rt.Value
	if len(res) > 0 {
		v = res[0]
	}
	out := "F"
	if c.called {
		out = "t"
	}
	hlib.Emit("I", c.e.enc(k), hashTok(k), "=", out, c.e.enc(v))
}

// present enumerates the live keys through the public API (generation only, never a verdict).
func (c *kase) present() []rt.Value {
	var out []rt.Value
	var k rt.Value
	seen := map[string]bool{}
	for {
		nk, _, ok := c.t.Next(k)
		if !ok || nk.IsNil() || seen[c.e.enc(nk)] {
			break
		}
		seen[c.e.enc(nk)] = true
		out = append(out, nk)
		k = nk
	}
	return out
}

// P: a whole `for k, v in pairs(t)` loop in Lua; after each visit the plan (seeded) assigns to
// or clears existing fields.  Emitted as the equivalent N / S lines.
func (c *kase) P(seed uint64, clearPct, assignPct, otherPct int) {
	rng := hlib.NewRng(seed)
	var last rt.Value
	e := c.e
	seen := map[string]bool{}
	visit := rt.NewGoFunction(func(t *rt.Thread, gc *rt.GoCont) (rt.Cont, error) {
		k, v := gc.Arg(0), gc.Arg(1)
		hlib.Emit("N", e.enc(last), hashTok(last), "=", e.enc(k), e.enc(v))
		if seen[e.enc(k)] {
			return nil, fmt.Errorf("harness: repeated key, loop stopped")
		}
		seen[e.enc(k)] = true
		last = k
		next := gc.Next()
		if rng.Chance(clearPct) {
			t.Push(next, k, rt.NilValue)
		} else if rng.Chance(assignPct) {
			t.Push(next, k, e.fresh())
		}
		if rng.Chance(otherPct) {
			if ps := c.present(); len(ps) > 0 {
				o := ps[rng.Below(len(ps))]
				if rng.Bool() {
					t.Push(next, o, rt.NilValue)
				} else {
					t.Push(next, o, e.fresh())
				}
			}
		}
		return next, nil
	}, "visit", 2, false)
	after := rt.NewGoFunction(func(t *rt.Thread, gc *rt.GoCont) (rt.Cont, error) {
		k, v := gc.Arg(0), gc.Arg(1)
		hlib.Emit("S", e.enc(k), hashTok(k), e.enc(v), "=", "ok")
		c.state()
		return gc.Next(), nil
	}, "after", 2, false)
	loop := "pairs"
	if c.leg != "lua" {
		loop = "pairsraw"
	}
	class, _, msg := c.lua(loop, c.tv, rt.FunctionValue(visit), rt.FunctionValue(after))
	switch {
	case class == hlib.OK:
		hlib.Emit("N", e.enc(last), hashTok(last), "=", "end")
	case strings.Contains(msg, "invalid key"):
		hlib.Emit("N", e.enc(last), hashTok(last), "=", "inv")
	case strings.Contains(msg, "repeated key"):
	default:
		hlib.Emit("N", e.enc(last), hashTok(last), "=", "err")
	}
}

// probe: read everything observable without changing the table
func (c *kase) probe(keys []rt.Value) {
	for _, k := range keys {
		c.G(k)
	}
	c.L()
	c.traverse(1 << 20)
}

// traverse runs next from nil for at most n steps, without updates
func (c *kase) traverse(n int) {
	var k rt.Value
	seen := map[string]bool{}
	for i := 0; i < n; i++ {
		nk, what := c.N(k)
		if what != "item" || seen[c.e.enc(nk)] {
			return // a repeated key is reported by the line just printed; stop there
		}
		seen[c.e.enc(nk)] = true
		k = nk
	}
}

// ---------------------------------------------------------------- key pools

func fv(f float64) rt.Value { return rt.FloatValue(f) }
func iv(n int64) rt.Value   { return rt.IntValue(n) }
func sv(s string) rt.Value  { return rt.StringValue(s) }

func (e *env) pools() map[string][]rt.Value {
	p := map[string][]rt.Value{}
	for _, n := range []int64{0, 1, 2, 3, 4, 5, 6, 7, 8, 9, 10, 15, 16, 17, 31, 32, 33, 63, 64, 65, 127, 128, 129, -1, -2} {
		p["small"] = append(p["small"], iv(n))
	}
	for _, n := range []int64{1 << 31, 1<<31 + 1, 1 << 53, 1<<53 + 1, 1 << 62, math.MaxInt64, math.MinInt64, math.MaxInt64 - 1, -(1 << 53), 1000003} {
		p["large"] = append(p["large"], iv(n))
	}
	for _, f := range []float64{1, 2, 3, 4, 8, 16, 17, 0, math.Copysign(0, -1), -1, 9007199254740992, -9223372036854775808, 9223372036854775808, 1e100, 33} {
		p["fint"] = append(p["fint"], fv(f))
	}
	for _, f := range []float64{0.5, 1.5, -2.25, 1e-300, math.Inf(1), math.Inf(-1), 2.5, 4503599627370495.5, math.SmallestNonzeroFloat64} {
		p["frac"] = append(p["frac"], fv(f))
	}
	for _, s := range []string{"", "a", "b", "ab", "abcdefg", "abcdefgh", "1", "1.0", "\x00", "a\x00", strings.Repeat("long", 10), strings.Repeat("long", 10) + "x", "x", "y", "z"} {
		p["str"] = append(p["str"], sv(s))
	}
	// pairs that differ only in the eighth byte / only by a trailing NUL / only in the length byte
	for _, x := range []string{"kkkkkkk1", "kkkkkkk2", "kkkkkk1", "kkkkkk2", "kkkkkkk", "kkkkkkk\x00", "kkkkkkk\x07", "kkkkkkk\x08",
		"abcdefghijklmno1", "abcdefghijklmno2"} {
		p["str"] = append(p["str"], sv(x))
	}
	p["zero"] = []rt.Value{iv(0), fv(0), fv(math.Copysign(0, -1))}
	p["bool"] = []rt.Value{rt.BoolValue(true), rt.BoolValue(false)}
	for _, r := range e.refs[:8] {
		p["ref"] = append(p["ref"], r.v)
	}
	// two closures of one definition (equal values, one key), and two with equal code but different
	// upvalue cells (different values)
	p["ref"] = append(p["ref"], e.refs[8].v, e.refs[9].v, e.refs[10].v, e.refs[11].v)
	p["bad"] = []rt.Value{rt.NilValue, fv(math.NaN())}
	return p
}

// ---------------------------------------------------------------- generators

type gen struct {
	e     *env
	rng   *hlib.Rng
	pools map[string][]rt.Value
	ncase int
}

func (g *gen) id(prefix string) string {
	g.ncase++
	return prefix + strconv.Itoa(g.ncase)
}

func (g *gen) pick(names ...string) rt.Value {
	p := g.pools[names[g.rng.Below(len(names))]]
	return p[g.rng.Below(len(p))]
}

// alias sometimes replaces an integer key by the float with the same value
func (g *gen) alias(k rt.Value) rt.Value {
	if n, ok := k.TryInt(); ok && g.rng.Chance(25) {
		f := float64(n)
		if int64(f) == n && math.Abs(f) < 9e18 {
			return fv(f)
		}
	}
	return k
}

// exhaustive: every sequence of at most maxLen set/delete operations over alphabet, after prefix;
// the final state of each is probed.
func (g *gen) exhaustive(leg, name string, prefix func(c *kase), alphabet func(c *kase) []rt.Value, maxLen int) {
	// the alphabet may depend on the table layout after the prefix (hashes are per process, not per table)
	var alpha []rt.Value
	var rec func(seq []int)
	run := func(seq []int) {
		c := g.e.newCase(g.id("x"), leg, name)
		prefix(c)
		if alpha == nil {
			alpha = alphabet(c)
		}
		for _, o := range seq {
			k := alpha[o/2]
			if o%2 == 0 {
				c.S(k, g.e.fresh())
			} else {
				c.S(k, rt.NilValue)
			}
		}
		c.probe(alpha)
	}
	rec = func(seq []int) {
		run(seq)
		if len(seq) == maxLen {
			return
		}
		for o := 0; o < 2*len(alpha); o++ {
			rec(append(seq[:len(seq):len(seq)], o))
		}
	}
	rec(nil)
}

type dumpSlot struct {
	key     string
	next    int
	flags   int
	hash    uint64
	hasVal  bool
}

func parseDump(d string) (asize int, slots []dumpSlot) {
	f := strings.Fields(d)
	asize, _ = strconv.Atoi(f[1])
	i := 3
	if asize > 0 {
		i += asize
	}
	// f[i] == "H"
	n, _ := strconv.Atoi(f[i+3])
	i += 4
	for j := 0; j < n; j++ {
		nx, _ := strconv.Atoi(f[i+2])
		fl, _ := strconv.Atoi(f[i+3])
		h, _ := strconv.ParseUint(f[i+4], 10, 64)
		slots = append(slots, dumpSlot{f[i], nx, fl, h, f[i+1] != "n"})
		i += 5
	}
	return
}

// hashedAlphabet picks keys by where they would land in the current (hashed-mode) table:
// an empty primary slot, a primary slot held by an unchained item, one held by a chained item,
// two fresh keys sharing a primary slot, an integer key and a key already present.
func (g *gen) hashedAlphabet(c *kase) []rt.Value {
	_, slots := parseDump(c.t.VerifDump(g.e.enc))
	mask := uint64(len(slots) - 1)
	var out []rt.Value
	want := map[string]bool{"empty": true, "primary": true, "chained": true}
	bySlot := map[uint64]rt.Value{}
	pair := false
	for i := 0; i < 4000 && (len(want) > 0 || !pair); i++ {
		k := sv("q" + strconv.Itoa(i))
		if i%3 == 1 {
			k = iv(int64(1000 + i))
		}
		p := uint64(rt.VerifKeyHash(k)) & mask
		s := slots[p]
		cls := "empty"
		if s.key != "n" {
			cls = "primary"
			if s.flags&2 != 0 {
				cls = "chained"
			}
		}
		if want[cls] {
			delete(want, cls)
			out = append(out, k)
			continue
		}
		if o, ok := bySlot[p]; ok && !pair && cls == "empty" {
			out = append(out, o, k)
			pair = true
			continue
		}
		if cls == "empty" {
			bySlot[p] = k
		}
	}
	out = append(out, iv(1))
	for _, s := range slots {
		if s.key != "n" && s.hasVal {
			out = append(out, g.e.dec(s.key))
			break
		}
	}
	return out
}

func (g *gen) random(leg string, maxOps int) {
	rng := g.rng
	profile := rng.Below(6)
	names := [][]string{
		{"small"}, {"str", "frac", "ref", "bool"}, {"small", "str", "fint", "frac"},
		{"small", "large", "fint"}, {"small", "large", "fint", "frac", "str", "bool", "ref", "zero"}, {"small", "fint", "zero"},
	}[profile]
	c := g.e.newCase(g.id("r"), leg, "random-profile"+strconv.Itoa(profile))
	nops := 10 + rng.Below(maxOps)
	seqNext := int64(1)
	var cursor rt.Value
	inTrav := false
	seen := map[string]bool{}
	for c.nops < nops {
		x := rng.Below(100)
		if inTrav {
			// during a traversal: existing fields only (mostly)
			switch {
			case x < 45:
				nk, what := c.N(cursor)
				if what != "item" || seen[g.e.enc(nk)] {
					inTrav = false
				} else {
					cursor = nk
					seen[g.e.enc(nk)] = true
				}
				c.nops++
			case x < 60 && !cursor.IsNil():
				c.S(g.alias(cursor), rt.NilValue)
			case x < 70 && !cursor.IsNil():
				c.S(g.alias(cursor), g.e.fresh())
			case x < 90:
				if ps := c.present(); len(ps) > 0 {
					k := g.alias(ps[rng.Below(len(ps))])
					if rng.Bool() {
						c.S(k, rt.NilValue)
					} else if leg == "go" && rng.Bool() {
						c.R(k, g.e.fresh())
					} else {
						c.S(k, g.e.fresh())
					}
				}
			case x < 93:
				c.S(g.pick(names...), g.e.fresh()) // may add a key: the traversal is no longer constrained
			case x < 96:
				c.G(g.pick(names...))
			default:
				inTrav = false
			}
			continue
		}
		switch {
		case x < 22: // sequential integer keys grow the array part
			n := 1 + rng.Below(3)
			for i := 0; i < n; i++ {
				c.S(g.alias(iv(seqNext)), g.e.fresh())
				seqNext++
			}
		case x < 45:
			c.S(g.alias(g.pick(names...)), g.e.fresh())
		case x < 57:
			if ps := c.present(); len(ps) > 0 && rng.Chance(70) {
				c.S(g.alias(ps[rng.Below(len(ps))]), rt.NilValue)
			} else {
				c.S(g.pick(names...), rt.NilValue)
			}
		case x < 62:
			if leg == "go" {
				v := g.e.fresh()
				if rng.Chance(30) {
					v = rt.NilValue
				}
				c.R(g.alias(g.pick(names...)), v)
			}
		case x < 66: // delete from the top of the sequence: shrinks array len
			if seqNext > 1 {
				seqNext--
				c.S(iv(seqNext), rt.NilValue)
			}
		case x < 76:
			c.G(g.alias(g.pick(names...)))
			c.nops++
		case x < 82:
			c.L()
			c.nops++
		case x < 84:
			c.S(g.pick("bad"), g.e.fresh())
		case x < 86:
			c.G(g.pick("bad"))
			c.nops++
		case x < 89:
			c.N(g.pick(names...))
			c.nops++
		case x < 96:
			inTrav = true
			cursor = rt.NilValue
			seen = map[string]bool{}
		default:
			if leg != "go" {
				c.P(rng.Next(), 30, 30, 20)
				c.nops += 5
			} else {
				c.traverse(1 << 20)
				c.nops += 5
			}
		}
	}
	c.probe(nil)
}

// nearCollisions: families of keys that differ only where an encoding (the scalar image of short
// strings, the int/float normalisation, the hash) might lose information.  For every family: assign a
// fresh value to each key, read every key back, traverse — in a small (linear-mode) table and in a
// hashed-mode table.  Level A is simply the map: two keys share a value iff they are equal keys.
func (g *gen) nearCollisions(leg string) {
	e := g.e
	le := func(u uint64) string {
		b := make([]byte, 8)
		for i := 0; i < 8; i++ {
			b[i] = byte(u >> (8 * uint(i)))
		}
		return string(b)
	}
	be := func(u uint64) string {
		b := make([]byte, 8)
		for i := 0; i < 8; i++ {
			b[7-i] = byte(u >> (8 * uint(i)))
		}
		return string(b)
	}
	// the scalar image golua gives a short string: bytes, zero padding, length in the last byte
	scalarOf := func(s string) uint64 {
		b := make([]byte, 8)
		copy(b, s)
		b[7] = byte(len(s))
		var u uint64
		for i := 0; i < 8; i++ {
			u |= uint64(b[i]) << (8 * uint(i))
		}
		return u
	}
	var fams [][]rt.Value
	var names []string
	add := func(name string, ks ...rt.Value) {
		fams = append(fams, ks)
		names = append(names, name)
	}
	alphabet := "abcdefghijklmnopqrstuvwxyz"
	for _, n := range []int{0, 1, 2, 3, 4, 5, 6, 7, 8, 9, 10, 15, 16, 17} {
		base := alphabet[:n]
		ks := []rt.Value{sv(base), sv(base + "\x00"), sv(base + "x"), sv(base + "\x00\x00")}
		if n > 0 {
			b := []byte(base)
			b[n-1] ^= 1
			ks = append(ks, sv(string(b)))
			b = []byte(base)
			b[0] ^= 1
			ks = append(ks, sv(string(b)))
			b = []byte(base)
			b[n/2] ^= 0x80
			ks = append(ks, sv(string(b)))
			ks = append(ks, sv(base[:n-1]), sv(base[:n-1]+"\x00"))
			b = []byte(base)
			b[n-1] = byte(n) // the length byte of the scalar image in the last position
			ks = append(ks, sv(string(b)))
		}
		add("strlen-"+strconv.Itoa(n), ks...)
	}
	// strings that are the 8-byte image of numbers, next to those numbers
	{
		var ks []rt.Value
		for _, n := range []uint64{0, 1, 2, 255, 256, 1 << 56, 7 << 56, 8 << 56} {
			ks = append(ks, iv(int64(n)), sv(le(n)), sv(be(n)))
		}
		add("int-images", ks...)
		ks = nil
		for _, f := range []float64{1, 0.5, 2.5, math.Copysign(0, -1), 1e100} {
			u := math.Float64bits(f)
			ks = append(ks, fv(f), sv(le(u)), sv(be(u)), iv(int64(u)))
		}
		add("float-images", ks...)
		ks = nil
		for _, s := range []string{"", "a", "ab", "abcdefg", "\x00", "\x01"} {
			u := scalarOf(s)
			ks = append(ks, sv(s), iv(int64(u)), sv(le(u)), fv(math.Float64frombits(u)))
		}
		add("scalar-images", ks...)
	}
	add("one", sv("1"), iv(1), fv(1), sv("1.0"), sv("1 "), sv("01"), sv("0x1"), rt.BoolValue(true))
	add("empty-false-zero", sv(""), rt.BoolValue(false), iv(0), fv(0), fv(math.Copysign(0, -1)), sv("0"), sv("false"),
		sv("nil"), sv("\x00"), rt.BoolValue(true), iv(1), sv("true"))
	add("two53", iv(1<<53), iv(1<<53+1), fv(9007199254740992), fv(9007199254740994), iv(1<<53-1), fv(9007199254740991),
		iv(1<<53+2))
	add("two63", iv(math.MinInt64), fv(-9223372036854775808), iv(math.MaxInt64), fv(9223372036854775808),
		iv(math.MaxInt64-1), fv(9223372036854774784), iv(9223372036854774784), iv(math.MinInt64+1),
		fv(-9223372036854777856))
	add("references", e.refs[0].v, e.refs[1].v, e.refs[4].v, e.refs[5].v, e.refs[6].v, e.refs[7].v,
		e.refs[8].v, e.refs[9].v, e.refs[10].v, e.refs[11].v)
	for fi, ks := range fams {
		for _, hashed := range []bool{false, true} {
			mode := "small"
			if hashed {
				mode = "hashed"
			}
			c := e.newCase(g.id("n"), leg, "near-"+names[fi]+"-"+mode)
			if hashed {
				for i := 0; i < 12; i++ {
					c.S(sv("p"+strconv.Itoa(i)), e.fresh())
				}
			}
			for _, k := range ks {
				c.S(k, e.fresh())
			}
			c.S(fv(math.NaN()), e.fresh())
			c.probe(ks)
			// overwrite in reverse order, clear every other key, read again
			for i := len(ks) - 1; i >= 0; i-- {
				c.S(ks[i], e.fresh())
			}
			for i := 0; i < len(ks); i += 2 {
				c.S(ks[i], rt.NilValue)
			}
			c.probe(ks)
		}
	}
}

// directed cases: the shapes named in DESIGN (growth, migration, deletion, traversal + clear)
func (g *gen) directed(leg string) {
	e := g.e
	// array migration: sequential keys, then holes, then refill
	for _, n := range []int{1, 2, 3, 4, 5, 8, 9, 16, 17, 33} {
		c := e.newCase(g.id("d"), leg, "seq-fill-"+strconv.Itoa(n))
		for i := 1; i <= n; i++ {
			c.S(iv(int64(i)), e.fresh())
		}
		c.probe(nil)
		for i := n; i >= 1; i -= 2 {
			c.S(iv(int64(i)), rt.NilValue)
		}
		c.probe(nil)
		for i := 1; i <= n; i++ {
			c.S(fv(float64(i)), e.fresh())
		}
		c.probe([]rt.Value{iv(1), fv(1), iv(int64(n)), iv(int64(n + 1)), iv(0)})
	}
	// reverse fill: keys start in the hash part and migrate
	for _, n := range []int{4, 8, 20} {
		c := e.newCase(g.id("d"), leg, "reverse-fill-"+strconv.Itoa(n))
		for i := n; i >= 1; i-- {
			c.S(iv(int64(i)), e.fresh())
			c.L()
		}
		c.probe(nil)
	}
	// hash growth with strings, deletion of everything, reuse of tombstones
	{
		c := e.newCase(g.id("d"), leg, "hash-grow-delete-reuse")
		var ks []rt.Value
		for i := 0; i < 40; i++ {
			ks = append(ks, sv("k"+strconv.Itoa(i)))
		}
		for _, k := range ks {
			c.S(k, e.fresh())
		}
		c.probe(ks[:5])
		for _, k := range ks {
			c.S(k, rt.NilValue)
		}
		c.probe(ks[:5])
		for _, k := range ks[:10] {
			c.S(k, e.fresh())
		}
		for i := 0; i < 30; i++ {
			c.S(sv("n"+strconv.Itoa(i)), e.fresh())
		}
		c.probe(ks[:12])
	}
	// traversal that clears every visited field: hash part only, then array part
	for _, arr := range []bool{false, true} {
		name := "traverse-clear-hash"
		if arr {
			name = "traverse-clear-array"
		}
		c := e.newCase(g.id("d"), leg, name)
		for i := 0; i < 12; i++ {
			if arr {
				c.S(iv(int64(i+1)), e.fresh())
			} else {
				c.S(sv("k"+strconv.Itoa(i)), e.fresh())
			}
		}
		var k rt.Value
		for i := 0; i < 100; i++ {
			nk, what := c.N(k)
			if what != "item" {
				break
			}
			c.S(nk, rt.NilValue)
			k = nk
		}
		c.probe(nil)
	}
	// traversal that reassigns every visited field and clears the following one
	{
		c := e.newCase(g.id("d"), leg, "traverse-assign-mixed")
		for i := 0; i < 6; i++ {
			c.S(iv(int64(i+1)), e.fresh())
			c.S(sv("k"+strconv.Itoa(i)), e.fresh())
			c.S(fv(float64(i)+0.5), e.fresh())
		}
		var k rt.Value
		for i := 0; i < 100; i++ {
			nk, what := c.N(k)
			if what != "item" {
				break
			}
			c.S(nk, e.fresh())
			if s, ok := nk.TryString(); ok {
				c.S(sv(s), e.fresh())
			}
			k = nk
		}
		c.probe(nil)
	}
	if leg != "go" {
		for _, plan := range [][3]int{{100, 0, 0}, {0, 100, 0}, {30, 30, 50}, {0, 0, 100}} {
			c := e.newCase(g.id("d"), leg, fmt.Sprintf("pairs-loop-%d-%d-%d", plan[0], plan[1], plan[2]))
			for i := 0; i < 10; i++ {
				c.S(sv("k"+strconv.Itoa(i)), e.fresh())
				c.S(fv(float64(i)+0.25), e.fresh())
			}
			c.P(g.rng.Next(), plan[0], plan[1], plan[2])
			c.probe(nil)
		}
		c := e.newCase(g.id("d"), leg, "pairs-loop-array-clear")
		for i := 1; i <= 3; i++ {
			c.S(iv(int64(i)), e.fresh())
		}
		c.S(sv("x"), e.fresh())
		c.P(g.rng.Next(), 100, 0, 0)
		c.probe(nil)
	}
	// identity keys: two closures of one definition compare equal (runtime.RawEqual)
	{
		c := e.newCase(g.id("d"), leg, "closure-twins")
		a, b := e.refs[8].v, e.refs[9].v
		c.S(a, e.fresh())
		c.G(a)
		c.G(b)
		for i := 0; i < 12; i++ {
			c.S(sv("k"+strconv.Itoa(i)), e.fresh())
		}
		c.G(a)
		c.G(b)
	}
}

func (g *gen) meta() {
	e := g.e
	for round := 0; round < 9; round++ {
		c := e.newCase(g.id("m"), []string{"meta", "metachain", "metaplain"}[round%3], "index-newindex")
		names := []string{"small", "str", "fint", "frac", "bool"}
		for i := 0; i < 40; i++ {
			x := g.rng.Below(100)
			k := g.alias(g.pick(names...))
			switch {
			case x < 30:
				c.S(k, e.fresh())
			case x < 40:
				c.S(k, rt.NilValue)
			case x < 65:
				c.X(k, e.fresh())
			case x < 75:
				c.X(k, rt.NilValue)
			default:
				c.I(k)
			}
		}
		c.X(rt.NilValue, e.fresh())
		c.X(fv(math.NaN()), e.fresh())
		c.I(rt.NilValue)
		c.probe(nil)
	}
	// every kind of value under every kind of key, read back through Index with the metamethods
	// observing: a field holding false / 0 / "" / NaN is present
	keys := []rt.Value{iv(1), iv(2), iv(40), fv(2.5), sv("enabled"), rt.BoolValue(true), rt.BoolValue(false), e.refs[0].v, fv(3)}
	vals := append([]rt.Value{iv(7), sv("x"), fv(1.5), e.refs[1].v}, edgeValues...)
	for _, leg := range []string{"meta", "metachain", "metaplain"} {
		for vi, v := range vals {
			c := e.newCase(g.id("m"), leg, "value-kinds")
			for _, k := range keys {
				c.I(k)    // absent: __index fires (when there is one)
				c.X(k, v) // absent: __newindex fires (when there is one); the table stays empty unless plain
				c.S(k, v) // raw assignment
				c.I(k)    // present, also when v is false
				c.G(k)    // rawget agrees
				c.X(k, vals[(vi+5)%len(vals)]) // present: raw assignment, no __newindex
				c.I(k)
				c.X(k, rt.BoolValue(false)) // false onto an existing field
				c.I(k)
			}
			c.probe(keys)
			for _, k := range keys[:4] {
				c.X(k, rt.NilValue) // present: cleared raw
				c.I(k)
				c.X(k, rt.BoolValue(false)) // absent again: __newindex
			}
			c.probe(keys)
		}
	}
}

// seqLib: table.insert / table.remove / table.unpack and # over sequences that contain false
func (g *gen) seqLib(leg string) {
	e := g.e
	elems := []rt.Value{rt.BoolValue(false), iv(10), rt.BoolValue(false), sv(""), iv(0), rt.BoolValue(false), fv(math.NaN()), rt.BoolValue(true)}
	for n := 0; n <= len(elems); n++ {
		c := e.newCase(g.id("q"), leg, "table-lib-seq-"+strconv.Itoa(n))
		for i := 0; i < n; i++ {
			if i%2 == 0 {
				c.TI(elems[i])
			} else {
				c.S(iv(int64(i+1)), elems[i])
			}
			c.L()
		}
		c.TU()
		c.TP(int64(n+1), rt.BoolValue(false))
		c.TP(1, rt.BoolValue(false))
		c.TP(int64(n/2+1), sv("mid"))
		c.TP(0, iv(1))
		c.TP(int64(n+5), iv(1))
		c.L()
		c.TU()
		c.probe(nil)
		c.TQ(1)
		c.TQ(int64(n/2 + 1))
		c.TR()
		c.TR()
		c.L()
		c.TU()
		for i := 0; i < n+2; i++ {
			c.TR()
		}
		c.TR()
		c.TQ(0)
		c.L()
		c.TU()
		c.probe(nil)
	}
}

func generate(tier string) {
	e := newEnv()
	g := &gen{e: e, rng: hlib.NewRng(hlib.Seed()*0x9E3779B97F4A7C15 + 3), pools: e.pools()}
	thorough := tier == "thorough"
	legs := []string{"go", "lua", "luaraw"}
	noPrefix := func(c *kase) {}
	smallAlpha := func(n int) func(c *kase) []rt.Value {
		return func(c *kase) []rt.Value {
			a := []rt.Value{iv(1), iv(2), fv(2), iv(3), sv("a"), fv(1.5), iv(4), rt.BoolValue(true), iv(0), e.refs[0].v}
			return a[:n]
		}
	}
	arrayPrefix := func(c *kase) {
		for i := 1; i <= 4; i++ {
			c.S(iv(int64(i)), e.fresh())
		}
		c.S(sv("p"), e.fresh())
	}
	hashedPrefix := func(n int) func(c *kase) {
		return func(c *kase) {
			for i := 0; i < n; i++ {
				c.S(sv("p"+strconv.Itoa(i)), e.fresh())
			}
		}
	}
	for _, leg := range legs {
		g.directed(leg)
	}
	g.seqLib("lua")
	g.seqLib("metaplain")
	g.nearCollisions("go")
	g.nearCollisions("lua")
	if thorough {
		g.nearCollisions("luaraw")
	}
	g.meta()
	if thorough {
		g.exhaustive("go", "exhaustive-empty", noPrefix, smallAlpha(8), 4)
		g.exhaustive("lua", "exhaustive-empty", noPrefix, smallAlpha(6), 4)
		g.exhaustive("go", "exhaustive-empty-long", noPrefix, smallAlpha(5), 5)
		g.exhaustive("go", "exhaustive-array", arrayPrefix, smallAlpha(7), 4)
		g.exhaustive("go", "exhaustive-hashed-14", hashedPrefix(14), g.hashedAlphabet, 3)
		g.exhaustive("go", "exhaustive-hashed-11", hashedPrefix(11), g.hashedAlphabet, 3)
		g.exhaustive("lua", "exhaustive-hashed-14", hashedPrefix(14), g.hashedAlphabet, 2)
	} else {
		g.exhaustive("go", "exhaustive-empty", noPrefix, smallAlpha(6), 3)
		g.exhaustive("lua", "exhaustive-empty", noPrefix, smallAlpha(5), 2)
		g.exhaustive("go", "exhaustive-array", arrayPrefix, smallAlpha(6), 2)
		g.exhaustive("go", "exhaustive-hashed-14", hashedPrefix(14), g.hashedAlphabet, 2)
		g.exhaustive("go", "exhaustive-hashed-11", hashedPrefix(11), g.hashedAlphabet, 2)
	}
	nrand := 160
	if thorough {
		nrand = 4000
	}
	for i := 0; i < nrand; i++ {
		leg := legs[i%3]
		max := 60
		if i%4 == 0 {
			max = 400
		}
		g.random(leg, max)
	}
}

// replay executes a script: the protocol lines without outputs.
func replay() {
	e := newEnv()
	var c *kase
	sc := bufio.NewScanner(os.Stdin)
	sc.Buffer(make([]byte, 1<<20), 1<<26)
	for sc.Scan() {
		f := strings.Fields(sc.Text())
		if len(f) == 0 || f[0] == "#" {
			continue
		}
		if f[0] == "C" {
			descr := "replay"
			if len(f) > 3 {
				descr = strings.Join(f[3:], " ")
			}
			c = e.newCase(f[1], f[2], descr)
			continue
		}
		if c == nil {
			fatal("script must start with a C line")
		}
		switch f[0] {
		case "S":
			v := e.value(f[len(f)-1])
			c.S(e.dec(f[1]), v)
		case "R":
			v := e.value(f[len(f)-1])
			if c.leg == "go" {
				c.R(e.dec(f[1]), v)
			} else {
				c.S(e.dec(f[1]), v)
			}
		case "G":
			c.G(e.dec(f[1]))
		case "N":
			c.N(e.dec(f[1]))
		case "L":
			c.L()
		case "X":
			v := e.value(f[len(f)-1])
			c.X(e.dec(f[1]), v)
		case "I":
			c.I(e.dec(f[1]))
		case "TI":
			c.TI(e.value(f[1]))
		case "TP":
			pos, _ := strconv.ParseInt(f[1], 10, 64)
			c.TP(pos, e.value(f[2]))
		case "TR":
			c.TR()
		case "TQ":
			pos, _ := strconv.ParseInt(f[1], 10, 64)
			c.TQ(pos)
		case "TU":
			c.TU()
		case "T": // traverse from nil to the end without updates
			c.traverse(1 << 20)
		case "TA", "TC": // traverse; re-assign (TA) or clear (TC) every visited field
			var k rt.Value
			seen := map[string]bool{}
			for {
				nk, what := c.N(k)
				if what != "item" || seen[e.enc(nk)] {
					break
				}
				seen[e.enc(nk)] = true
				if f[0] == "TA" {
					c.S(nk, e.fresh())
				} else {
					c.S(nk, rt.NilValue)
				}
				k = nk
			}
		}
	}
}

func main() {
	defer hlib.Out.Flush()
	if len(os.Args) < 2 {
		fatal("usage: c03 gen <quick|thorough> | c03 replay")
	}
	switch os.Args[1] {
	case "gen":
		tier := "quick"
		if len(os.Args) > 2 {
			tier = os.Args[2]
		}
		generate(tier)
	case "replay":
		replay()
	default:
		fatal("unknown mode " + os.Args[1])
	}
}
