// c12: correspondence harness for the front end.  Drives the REAL golua scanner
// (scanner.New), parser (parsing.ParseExp / ParseChunk) and literal decoding
// (ast.NewString / NewLongString / NewNumber via the parser) in-process.
//
//	exp <tree> <tokens> = <ast code | E:<line> | P>|<source hex>|<e: ParseExp, c: ParseChunk of `return <src>`>
//	short s<literal hex> = s<value hex> | E | P
//	long  s<literal hex> = s<value hex> | E | P
//	chunk <expect> <kind> s<source hex> = ok | E:<line> | E:? | P     expect: ok or the line the error must carry
//
// Tree / token codes: see lean/Oracle/C12.lean.
package main

import (
	"bufio"
	"encoding/hex"
	"errors"
	"fmt"
	"os"
	"runtime"
	"strings"

	"github.com/arnodel/golua/ast"
	"github.com/arnodel/golua/ops"
	"github.com/arnodel/golua/parsing"
	"github.com/arnodel/golua/scanner"
	"verifharness/hlib"
)

// ---------------------------------------------------------------------------
// expression trees

type binop struct {
	code  byte
	lua   string
	prec  int
	needL int
	needR int
}

var binops = []binop{
	{'O', "or", 0, 0, 1}, {'A', "and", 1, 1, 2},
	{'L', "<", 2, 2, 3}, {'M', "<=", 2, 2, 3}, {'G', ">", 2, 2, 3}, {'H', ">=", 2, 2, 3}, {'E', "==", 2, 2, 3}, {'N', "~=", 2, 2, 3},
	{'P', "|", 3, 3, 4}, {'X', "~", 4, 4, 5}, {'B', "&", 5, 5, 6}, {'S', "<<", 6, 6, 7}, {'R', ">>", 6, 6, 7},
	{'C', "..", 7, 8, 7}, {'D', "+", 8, 8, 9}, {'U', "-", 8, 8, 9},
	{'T', "*", 9, 9, 10}, {'V', "/", 9, 9, 10}, {'W', "//", 9, 9, 10}, {'Q', "%", 9, 9, 10},
	{'Y', "^", 11, 12, 10},
}

type unop struct {
	code byte // in trees
	tok  byte // in token strings
	lua  string
}

var unops = []unop{{'1', 'U', "-"}, {'2', '2', "not"}, {'3', '3', "#"}, {'4', 'X', "~"}}

type node struct {
	kind   int // 0 atom, 1 unary, 2 binary
	atom   int
	op     int
	l, r   *node
	parens int // redundant pairs
}

func atom(i int) *node             { return &node{kind: 0, atom: i} }
func un(op int, e *node) *node     { return &node{kind: 1, op: op, l: e} }
func bin(op int, l, r *node) *node { return &node{kind: 2, op: op, l: l, r: r} }

func (n *node) level() int {
	switch n.kind {
	case 0:
		return 12
	case 1:
		return 10
	}
	return binops[n.op].prec
}

func (n *node) clone() *node {
	if n == nil {
		return nil
	}
	c := *n
	c.l, c.r = n.l.clone(), n.r.clone()
	return &c
}

// code of the tree; withMarks adds one ' per redundant pair
func (n *node) code(b *strings.Builder, withMarks bool) {
	if withMarks {
		for i := 0; i < n.parens; i++ {
			b.WriteByte('\'')
		}
	}
	switch n.kind {
	case 0:
		b.WriteByte(byte('a' + n.atom))
	case 1:
		b.WriteByte(unops[n.op].code)
		n.l.code(b, withMarks)
	default:
		b.WriteByte(binops[n.op].code)
		n.l.code(b, withMarks)
		n.r.code(b, withMarks)
	}
}

type tok struct {
	code byte
	lua  string
}

// render: minimal parentheses from the precedence table + the redundant ones (mirrors Spec.Grammar.renderAt;
// the oracle re-checks every token string against the Lean definition)
func (n *node) render(need int, out *[]tok) {
	var body []tok
	switch n.kind {
	case 0:
		body = []tok{{byte('a' + n.atom), string(rune('a' + n.atom))}}
	case 1:
		body = append(body, tok{unops[n.op].tok, unops[n.op].lua})
		n.l.render(10, &body)
	default:
		o := binops[n.op]
		n.l.render(o.needL, &body)
		body = append(body, tok{o.code, o.lua})
		n.r.render(o.needR, &body)
	}
	k := n.parens
	if k == 0 && n.kind != 0 && n.level() < need {
		k = 1
	}
	for i := 0; i < k; i++ {
		*out = append(*out, tok{'(', "("})
	}
	*out = append(*out, body...)
	for i := 0; i < k; i++ {
		*out = append(*out, tok{')', ")"})
	}
}

func isWord(s string) bool {
	c := s[len(s)-1]
	return c == '_' || c >= '0' && c <= '9' || c >= 'a' && c <= 'z' || c >= 'A' && c <= 'Z'
}

func startsWord(s string) bool { return isWord(s[:1]) }

// separators between tokens.  Every one of them is white space or a comment in Lua 5.4.
var gapsPlain = []string{" ", " ", "  ", "\t", "\n", "\r\n", "\n\r", "\r", " \f\v "}
var gapsComment = []string{" --c\n", "--[[ c ]]", "--[==[ ]] \n ]==]", "--\n", "--[[\n]]", " --[ x\n", "--[==x\n", "--]]\r\n"}

// `--[` / `--[=` directly followed by a line break: a SHORT comment that ends at that line break
var gapsBracketNL = []string{"--[\n", " --[=\n", "--[==\r\n"}

func mustSeparate(a, b string) bool {
	if isWord(a) && startsWord(b) {
		return true
	}
	la, fb := a[len(a)-1], b[0]
	if la == '-' && fb == '-' {
		return true
	}
	// never glue operator characters that could scan as a longer token
	switch string([]byte{la, fb}) {
	case "..", "<<", ">>", "//", "==", "~=", "<=", ">=", "::", "[[", "[=":
		return true
	}
	return false
}

// spelling styles: 0 single spaces, 1 compact, 2 random plain white space, 3 comments and line breaks,
// 4 as 3 plus `--[`+newline comments
func spell(ts []tok, style int, rng *hlib.Rng) string {
	var b strings.Builder
	for i, t := range ts {
		if i > 0 {
			prev := ts[i-1].lua
			if style >= 3 && prev == "-" {
				b.WriteByte(' ') // a comment gap must not glue its `--` to a minus sign
			}
			switch style {
			case 0:
				b.WriteByte(' ')
			case 1:
				if mustSeparate(prev, t.lua) {
					b.WriteByte(' ')
				}
			case 2:
				b.WriteString(gapsPlain[rng.Below(len(gapsPlain))])
			default:
				switch {
				case style == 4 && rng.Chance(25):
					b.WriteString(gapsBracketNL[rng.Below(len(gapsBracketNL))])
				case rng.Chance(40):
					b.WriteString(gapsComment[rng.Below(len(gapsComment))])
				default:
					b.WriteString(gapsPlain[rng.Below(len(gapsPlain))])
				}
			}
		}
		b.WriteString(t.lua)
	}
	return b.String()
}

var opCode = map[ops.Op]byte{
	ops.OpOr: 'O', ops.OpAnd: 'A', ops.OpLt: 'L', ops.OpLeq: 'M', ops.OpGt: 'G', ops.OpGeq: 'H', ops.OpEq: 'E', ops.OpNeq: 'N',
	ops.OpBitOr: 'P', ops.OpBitXor: 'X', ops.OpBitAnd: 'B', ops.OpShiftL: 'S', ops.OpShiftR: 'R', ops.OpConcat: 'C',
	ops.OpAdd: 'D', ops.OpSub: 'U', ops.OpMul: 'T', ops.OpDiv: 'V', ops.OpFloorDiv: 'W', ops.OpMod: 'Q', ops.OpPow: 'Y',
	ops.OpNeg: '1', ops.OpNot: '2', ops.OpLen: '3', ops.OpBitNot: '4',
}

// dump golua's AST in the prefix code.  ast.BinOp keeps `left op1 r1 op2 r2 …` of one precedence level as
// a list that the compiler folds from the left (astcomp/compexp.go), so that is what the list denotes.
func dump(e ast.ExpNode) string {
	switch n := e.(type) {
	case ast.Name:
		if len(n.Val) == 1 && n.Val[0] >= 'a' && n.Val[0] <= 'h' {
			return n.Val
		}
		return "?name"
	case *ast.BinOp:
		return dumpBin(*n)
	case ast.BinOp:
		return dumpBin(n)
	case *ast.UnOp:
		return string(opCode[n.Op]) + dump(n.Operand)
	case ast.UnOp:
		return string(opCode[n.Op]) + dump(n.Operand)
	}
	return fmt.Sprintf("?%T", e)
}

func dumpBin(b ast.BinOp) string {
	s := dump(b.Left)
	for _, r := range b.Right {
		c, ok := opCode[r.Op]
		if !ok {
			c = '?'
		}
		s = string(c) + s + dump(r.Operand)
	}
	return s
}

func errResult(err error) string {
	var pe parsing.Error
	if errors.As(err, &pe) {
		if pe.Got != nil {
			return fmt.Sprintf("E:%d", pe.Got.Line)
		}
		return "E:?"
	}
	var re runtime.Error
	if errors.As(err, &re) {
		return "P" // a Go run-time panic swallowed by the parser's blanket recover()
	}
	return "E:?"
}

func parseExpSrc(src string) (res string) {
	defer func() {
		if p := recover(); p != nil {
			res = "P"
		}
	}()
	e, err := parsing.ParseExp(scanner.New("c12", []byte(src)))
	if err != nil {
		return errResult(err)
	}
	return dump(e)
}

func parseChunkSrc(src string) (blk ast.BlockStat, res string) {
	defer func() {
		if p := recover(); p != nil {
			res = "P"
		}
	}()
	b, err := parsing.ParseChunk(scanner.New("c12", []byte(src)))
	if err != nil {
		return b, errResult(err)
	}
	return b, "ok"
}

func parseReturnExp(src string) string {
	b, res := parseChunkSrc("return " + src)
	if res != "ok" {
		return res
	}
	if len(b.Stats) != 0 || len(b.Return) != 1 {
		return "?shape"
	}
	return dump(b.Return[0])
}

func emitExp(n *node, style int, rng *hlib.Rng, viaChunk bool) {
	var ts []tok
	n.render(0, &ts)
	var tree, tk strings.Builder
	n.code(&tree, true)
	for _, t := range ts {
		tk.WriteByte(t.code)
	}
	src := spell(ts, style, rng)
	var res string
	if viaChunk {
		res = parseReturnExp(src)
	} else {
		res = parseExpSrc(src)
	}
	mode := "e"
	if viaChunk {
		mode = "c"
	}
	hlib.Emit("exp", tree.String(), tk.String(), "=", res+"|"+hex.EncodeToString([]byte(src))+"|"+mode)
}

func setParens(n *node, f func(depth int) int, depth int) {
	if n == nil {
		return
	}
	n.parens = f(depth)
	setParens(n.l, f, depth+1)
	setParens(n.r, f, depth+1)
}

func emitTree(n *node, rng *hlib.Rng, count *int) {
	*count++
	// 1. minimal parentheses, single spaces (ParseExp) and compact (return <exp> through ParseChunk)
	emitExp(n, 0, rng, false)
	emitExp(n, 1, rng, true)
	// 2. random redundant parentheses, white space / comment variations
	m := n.clone()
	setParens(m, func(d int) int {
		if rng.Chance(35) {
			return 1 + rng.Below(2)
		}
		return 0
	}, 0)
	emitExp(m, 2+rng.Below(2), rng, rng.Bool())
	// 3. every node parenthesised once, with `--[`+newline comments now and then
	if *count%4 == 0 {
		f := n.clone()
		setParens(f, func(int) int { return 1 }, 0)
		emitExp(f, 4, rng, true)
	}
}

func depth1(leaf func() *node) []*node {
	out := []*node{leaf()}
	for u := range unops {
		out = append(out, un(u, leaf()))
	}
	for o := range binops {
		out = append(out, bin(o, leaf(), leaf()))
	}
	return out
}

func exprs(thorough bool) {
	rng := hlib.NewRng(hlib.Seed() ^ 0xc12)
	next := 0
	leaf := func() *node { next = (next + 1) % 8; return atom(next) }
	count := 0
	// exhaustive: every tree of depth ≤ 2 (all operator pairs in all positions)
	d1 := depth1(leaf)
	for _, t := range d1 {
		emitTree(t, rng, &count)
	}
	for u := range unops {
		for _, t := range d1 {
			emitTree(un(u, t.clone()), rng, &count)
		}
	}
	for o := range binops {
		for _, l := range d1 {
			for _, r := range d1 {
				emitTree(bin(o, l.clone(), r.clone()), rng, &count)
			}
		}
	}
	if thorough {
		// every shape of three binary operators × all operator triples, and with a unary at each position
		for a := range binops {
			for b := range binops {
				for c := range binops {
					x, y, z, w := leaf(), leaf(), leaf(), leaf()
					shapes := []*node{
						bin(a, bin(b, bin(c, x, y), z), w), bin(a, bin(b, x, bin(c, y, z)), w), bin(a, bin(b, x, y), bin(c, z, w)),
						bin(a, x, bin(b, bin(c, y, z), w)), bin(a, x, bin(b, y, bin(c, z, w))),
					}
					for _, s := range shapes {
						emitTree(s, rng, &count)
					}
					u := rng.Below(len(unops))
					emitTree(bin(a, un(u, bin(b, x.clone(), y.clone())), bin(c, un(u, z.clone()), w.clone())), rng, &count)
				}
			}
		}
	}
	// random deeper trees
	n := 12000
	if thorough {
		n = 150000
	}
	var gen func(d int) *node
	gen = func(d int) *node {
		if d == 0 || rng.Chance(15) {
			return atom(rng.Below(8))
		}
		if rng.Chance(22) {
			return un(rng.Below(len(unops)), gen(d-1))
		}
		o := rng.Below(len(binops))
		if rng.Chance(25) {
			o = []int{13, 20, 15, 9}[rng.Below(4)] // .. ^ - ~ : the right-associative ones and the two-faced tokens
		}
		return bin(o, gen(d-1), gen(d-1))
	}
	for i := 0; i < n; i++ {
		emitTree(gen(3+rng.Below(4)), rng, &count)
	}
}

// ---------------------------------------------------------------------------
// literals

func evalLiteral(lit string) string {
	b, res := parseChunkSrc("return " + lit)
	if res != "ok" {
		if strings.HasPrefix(res, "E") {
			return "E"
		}
		return res
	}
	if len(b.Stats) != 0 || len(b.Return) != 1 {
		return "E"
	}
	if s, ok := b.Return[0].(ast.String); ok {
		return "s" + hex.EncodeToString(s.Val)
	}
	return "E"
}

func emitLit(kind, lit string) {
	hlib.Emit(kind, "s"+hex.EncodeToString([]byte(lit)), "=", evalLiteral(lit))
}

func allBodies(alpha []byte, n int, f func(string)) {
	buf := make([]byte, n)
	var rec func(i int)
	rec = func(i int) {
		if i == n {
			f(string(buf))
			return
		}
		for _, c := range alpha {
			buf[i] = c
			rec(i + 1)
		}
	}
	rec(0)
}

var shortCorpus = []string{
	`""`, `''`, `"a"`, `'a'`, `"\a\b\f\n\r\t\v\\\"\'"`, `'\a\b\f\n\r\t\v\\\"\''`, `"'"`, `'"'`,
	"\"a\\\nb\"", "\"a\\\rb\"", "\"a\\\r\nb\"", "\"a\\\n\rb\"", "\"a\\\n\nb\"", "\"a\\\r\rb\"", "\"a\\\n\r\nb\"", "\"a\\\r\n\rb\"",
	"\"a\nb\"", "\"a\rb\"", `"abc`, `"abc\"`, `"\`, `"`, `"\q"`, `"\A"`, `"\N"`, `"\X41"`, `"\U{41}"`, `"\8"`, `"\9a"`,
	`"\x41"`, `"\x4"`, `"\x4g"`, `"\xg4"`, `"\x"`, `"\x4142"`, `"\xfF"`, `"\xFf\x00\x7f\x80"`,
	`"\0"`, `"\00"`, `"\000"`, `"\0000"`, `"\1"`, `"\12"`, `"\123"`, `"\1234"`, `"\255"`, `"\256"`, `"\300"`, `"\999"`, `"\25a"`, `"\0651"`, `"\065\0661"`,
	`"\u{0}"`, `"\u{41}"`, `"\u{7f}"`, `"\u{80}"`, `"\u{7ff}"`, `"\u{800}"`, `"\u{ffff}"`, `"\u{10000}"`, `"\u{10ffff}"`, `"\u{110000}"`, `"\u{1fffff}"`,
	`"\u{200000}"`, `"\u{3ffffff}"`, `"\u{4000000}"`, `"\u{7fffffff}"`, `"\u{7FFFFFFF}"`, `"\u{80000000}"`, `"\u{ffffffff}"`, `"\u{100000000}"`, `"\u{00000000000000000041}"`,
	`"\u{000000007fffffff}"`, `"\u{}"`, `"\u{g}"`, `"\u{41"`, `"\u41}"`, `"\u{41 }"`, `"\u{ 41}"`, `"\u{d800}"`, `"\u{dfff}"`, `"\u{20ac}"`,
	"\"\\z\"", "\"a\\z b\"", "\"a\\z \n\t\r\f\v b\"", "\"a\\z\n\n\nb\"", "\"\\z\\z  \\z\"", "\"a\\zb\"", "\"\\z \\n\"", "\"a\\z\r\n\r\nb\"",
	"\"\xc3\xa9\"", "\"\xff\xfe\"", "\"\\\xff\"", "\"\x00\"", "\"a\x00b\"", "\"\\\x00\"", "\"\x80\\x80\"", "\"tab\there\"",
	`"a" "b"`, `"a"'b'`, `"a"x`,
}

var longCorpus = []string{
	"[[]]", "[=[]=]", "[==[]==]", "[===[]===]", "[[a]]", "[[\n]]", "[[\r]]", "[[\r\n]]", "[[\n\r]]", "[[\n\n]]", "[[\r\r]]", "[[\n\r\n]]",
	"[[\na]]", "[[\n\na]]", "[[a\n]]", "[[a\r\nb\rc\n\rd\ne]]", "[=[a]]b]=]", "[=[]]]=]", "[=[]=", "[[", "[=[", "[=", "[==[a]=]", "[=[a]==]", "[=[a]==]=]",
	"[[]]]", "[[a]]]]", "[[]", "[[]=]", "[=[]=]=]", "[[\\n]]", "[[\"']]", "[[--]]", "[=[\n]=]", "[=[\r\n\r\n]=]",
	"[[\x00]]", "[[\xff]]", "[==[]=]]==]", "[==[]]=]==]", "[=[]=]]", "[[ ]]", "[[[]]", "[[[[]]", "[=[[=[]=]", "[[]]x", "[ [a]]", "[= [a]=]",
}

func literals(thorough bool) {
	rng := hlib.NewRng(hlib.Seed() ^ 0x117)
	for _, s := range shortCorpus {
		emitLit("short", s)
	}
	for _, s := range longCorpus {
		emitLit("long", s)
	}
	// exhaustive short bodies over an alphabet covering every escape class
	alpha := []byte("\\\"'anzxu{}019f \n\r")
	maxLen := 3
	if thorough {
		maxLen = 4
	}
	for n := 0; n <= maxLen; n++ {
		allBodies(alpha, n, func(b string) {
			emitLit("short", `"`+b+`"`)
			if n <= 2 {
				emitLit("short", `'`+b+`'`)
			}
		})
	}
	if thorough {
		allBodies([]byte("\\\"nzxu{}09f \n\r"), 5, func(b string) { emitLit("short", `"`+b+`"`) })
	}
	// exhaustive long contents, levels 0..3
	lalpha := []byte("]=[a\n\r")
	lmax := 4
	if thorough {
		lmax = 6
	}
	for n := 0; n <= lmax; n++ {
		allBodies(lalpha, n, func(b string) {
			for lvl := 0; lvl <= 3; lvl++ {
				if lvl == 3 && n > 3 {
					continue
				}
				eq := strings.Repeat("=", lvl)
				emitLit("long", "["+eq+"["+b+"]"+eq+"]")
			}
		})
	}
	// random byte strings in random spellings
	count := 10000
	if thorough {
		count = 100000
	}
	pool := []byte{0, 1, 7, 8, 9, 10, 11, 12, 13, 27, 32, 34, 39, 48, 49, 57, 65, 92, 97, 102, 110, 122, 127, 128, 160, 194, 255}
	for i := 0; i < count; i++ {
		n := rng.Below(10)
		q := byte('"')
		if rng.Bool() {
			q = '\''
		}
		var b strings.Builder
		b.WriteByte(q)
		for j := 0; j < n; j++ {
			c := pool[rng.Below(len(pool))]
			if rng.Chance(20) {
				c = byte(rng.Below(256))
			}
			if rng.Chance(12) {
				b.WriteString("\\z" + []string{"", " ", "\n", "\r\n \t", "\n\r\n"}[rng.Below(5)])
			}
			switch rng.Below(7) {
			case 0:
				b.WriteByte(c) // raw, possibly illegal (quote, backslash, newline)
			case 1:
				fmt.Fprintf(&b, "\\%d", c)
			case 2:
				fmt.Fprintf(&b, "\\%03d", c)
			case 3:
				fmt.Fprintf(&b, []string{"\\x%02x", "\\x%02X"}[rng.Below(2)], c)
			case 4:
				cp := uint32(c)
				if rng.Chance(50) {
					cp = uint32(rng.Next()) >> uint(rng.Below(32))
				}
				fmt.Fprintf(&b, "\\u{%s%x}", strings.Repeat("0", rng.Below(3)), cp)
			case 5:
				if k := strings.IndexByte("\a\b\f\n\r\t\v\\\"'", c); k >= 0 {
					b.WriteByte('\\')
					b.WriteByte("abfnrtv\\\"'"[k])
				} else {
					b.WriteByte('\\')
					b.WriteByte(c) // mostly an illegal escape
				}
			default:
				b.WriteString("\\" + []string{"\n", "\r", "\r\n", "\n\r"}[rng.Below(4)])
			}
		}
		b.WriteByte(q)
		emitLit("short", b.String())
		// long string with random content
		lvl := rng.Below(4)
		var lb strings.Builder
		for j := rng.Below(8); j > 0; j-- {
			lb.WriteByte([]byte("]]=[a\n\r\\\"\x00\xff")[rng.Below(11)])
		}
		eq := strings.Repeat("=", lvl)
		emitLit("long", "["+eq+"["+lb.String()+"]"+eq+"]")
	}
}

// ---------------------------------------------------------------------------
// statement forms and error lines.  Chunks are token lists; a spelling chooses the gaps.

var validChunks = [][]string{
	{";"}, {"break"}, {"goto", "l1", "::", "l1", "::"}, {"do", "end"}, {"do", "local", "x", "end"},
	{"while", "a", "do", "b", "=", "c", "end"}, {"repeat", "local", "x", "=", "f", "(", ")", "until", "x"},
	{"if", "a", "then", "b", "=", "1", "end"}, {"if", "a", "then", "b", "=", "1", "else", "c", "=", "2", "end"},
	{"if", "a", "then", "b", "=", "1", "elseif", "d", "then", "e", "=", "3", "elseif", "g", "then", "else", "c", "=", "2", "end"},
	{"for", "i", "=", "1", ",", "10", "do", "f", "(", "i", ")", "end"}, {"for", "i", "=", "1", ",", "10", ",", "2", "do", "end"},
	{"for", "k", ",", "v", "in", "pairs", "(", "t", ")", "do", "f", "(", "k", ",", "v", ")", "end"}, {"for", "k", "in", "f", ",", "s", ",", "c", "do", "end"},
	{"function", "f", "(", ")", "end"}, {"function", "t", ".", "a", ".", "b", ":", "m", "(", "x", ",", "...", ")", "return", "x", ",", "...", "end"},
	{"function", "f", "(", "...", ")", "return", "...", "end"}, {"local", "function", "f", "(", "a", ",", "b", ")", "return", "a", "+", "b", ";", "end"},
	{"local", "x"}, {"local", "x", ",", "y", "=", "1", ",", "2"}, {"local", "x", "<", "const", ">", "=", "1"}, {"local", "x", "<", "close", ">", ",", "y", "<", "const", ">", "=", "nil", ",", "2"},
	{"a", "=", "1"}, {"a", ",", "b", ".", "c", ",", "d", "[", "1", "]", "=", "1", ",", "2", ",", "3"}, {"f", "(", ")"}, {"f", "(", "a", ",", "b", ")"}, {"f", "\"s\""}, {"f", "[[s]]"}, {"f", "{", "}"},
	{"t", ":", "m", "(", "1", ")"}, {"t", ".", "x", ".", "y", ":", "m", "\"s\""}, {"f", "(", ")", "(", ")", "[", "1", "]", ".", "x", "=", "2"}, {"(", "f", ")", "(", ")"}, {"(", "a", ")", ".", "x", "=", "1"},
	{"return"}, {"return", ";"}, {"return", "a"}, {"return", "a", ",", "b", ";"}, {"return", "f", "(", ")"}, {"return", "(", "f", "(", ")", ")"}, {"return", "..."},
	{"x", "=", "{", "}"}, {"x", "=", "{", "1", ",", "2", ";", "3", ",", "}"}, {"x", "=", "{", "a", "=", "1", ",", "[", "b", "]", "=", "2", ";", "c", ",", "f", "(", ")", "}"}, {"x", "=", "{", "{", "}", ",", "{", "{", "}", "}", "}"},
	{"x", "=", "function", "(", "a", ")", "return", "a", "end"}, {"x", "=", "a", ".", "b", "[", "c", "]", ":", "d", "(", "e", ")", ".", "f"},
	{"x", "=", "nil", "==", "false", "~=", "true"}, {"x", "=", "1", "+", "0x10", "-", "1.5", "*", "0x1p4", "/", "1e2", "//", ".5", "%", "3."},
	{"x", "=", "\"a\"", "..", "'b'", "..", "[[c]]", "..", "[==[d]==]"}, {"x", "=", "#", "t", "+", "-", "a", "+", "~", "b", "+", "(", "not", "c", "and", "1", "or", "2", ")"},
	{"x", "=", "a", "<", "b", "==", "(", "c", ">=", "d", ")"}, {"x", "=", "a", "&", "b", "|", "c", "~", "d", "<<", "1", ">>", "2"}, {"x", "=", "2", "^", "-", "3", "^", "2"},
	{"::", "top", "::", "x", "=", "1", "goto", "top"}, {"local", "t", "<", "const", ">", "=", "{", "}", ";", "t", ".", "x", "=", "1"},
	{"x", "=", "a", "f", "(", ")"}, {"f", "(", ")", "g", "(", ")"}, {"x", "=", "1", "y", "=", "2"}, {"x", "=", "1", ";", ";", "y", "=", "2", ";"},
	{"while", "true", "do", "if", "a", "then", "break", "end", "end"}, {"repeat", "until", "true"}, {"do", "return", "end"}, {"do", "return", "1", "end", "x", "=", "1"},
	{"x", "=", "9223372036854775807", "+", "0xffffffffffffffff"}, {"x", "=", "\"\\65\\x41\\u{41}\\z  \\n\""},
}

func spellChunk(ts []string, style int, rng *hlib.Rng) (src string, lines []int) {
	var b strings.Builder
	line := 1
	lines = make([]int, len(ts)+1)
	addGap := func(g string) {
		b.WriteString(g)
		// count line breaks the way Lua does: \r\n and \n\r are one
		for i := 0; i < len(g); i++ {
			if g[i] == '\n' || g[i] == '\r' {
				if i+1 < len(g) && (g[i+1] == '\n' || g[i+1] == '\r') && g[i+1] != g[i] {
					i++
				}
				line++
			}
		}
	}
	for i, t := range ts {
		if i > 0 {
			switch style {
			case 0:
				addGap(" ")
			case 1:
				if mustSeparate(ts[i-1], t) || ts[i-1] == "[" || t == "[" || strings.HasSuffix(ts[i-1], ".") || strings.HasPrefix(t, ".") {
					addGap(" ")
				}
			case 2:
				addGap("\n")
			default:
				if rng.Chance(30) {
					if ts[i-1] == "-" {
						addGap(" ")
					}
					addGap(gapsComment[rng.Below(len(gapsComment))])
				} else {
					addGap(gapsPlain[rng.Below(len(gapsPlain))])
				}
			}
		}
		lines[i] = line
		b.WriteString(t)
		// tokens that contain line breaks (none in our corpora)
	}
	lines[len(ts)] = line
	return b.String(), lines
}

// kind names how the chunk was made (valid | stray:<tok> | del:<tok> | delend:<block keyword>)
func emitChunk(expect, kind, src string) {
	_, res := parseChunkSrc(src)
	hlib.Emit("chunk", expect, kind, "s"+hex.EncodeToString([]byte(src)), "=", res)
}

// the keyword of the block that the `end` at toks[d] closes
func blockOf(toks []string, d int) string {
	var stack []string
	for i, t := range toks {
		switch t {
		case "if", "while", "for", "function", "repeat":
			stack = append(stack, t)
		case "do":
			if len(stack) == 0 || (stack[len(stack)-1] != "while" && stack[len(stack)-1] != "for") {
				stack = append(stack, "do")
			}
		case "end", "until":
			if i == d {
				if len(stack) == 0 {
					return "?"
				}
				return stack[len(stack)-1]
			}
			if len(stack) > 0 {
				stack = stack[:len(stack)-1]
			}
		}
	}
	return "?"
}

// chunks for error-line tests: statements that start with a name or keyword and contain no brackets at
// the places we corrupt; index lists say where which corruption has a known first offending token
type errTemplate struct {
	toks []string
	// positions i such that deleting toks[i] makes toks[i+1] the first token no valid program continues with
	del []int
	// positions of `end` tokens closing a top-level block whose deletion moves the error to <eof>
	delEnd []int
	// positions of `end` tokens closing a block nested in a `repeat`: after deletion the error is at `until`
	delEndInner []int
	// positions i (gap before toks[i]) with no bracket open, where a stray closer / `$` is offending
	gaps []int
}

var errTemplates = []errTemplate{
	{toks: strings.Fields("x = 1 if a then y = 2 end z = 3"), del: []int{1, 5, 7}, delEnd: []int{9}, gaps: []int{0, 1, 2, 3, 4, 5, 6, 7, 8, 9, 10, 11, 12, 13}},
	{toks: strings.Fields("local a = 1 while a do b = a end c = 2"), del: []int{2, 6, 8}, delEnd: []int{10}, gaps: []int{0, 1, 2, 3, 4, 5, 6, 7, 8, 9, 10, 11, 12, 13, 14}},
	{toks: strings.Fields("for i = 1 , 2 do x = i end y = 1"), del: []int{2, 4, 6, 8}, delEnd: []int{10}, gaps: []int{0, 1, 2, 3, 4, 5, 6, 7, 8, 9, 10, 11, 12, 13, 14}},
	{toks: strings.Fields("for k , v in p do x = k end y = 1"), del: []int{4, 6, 8}, delEnd: []int{10}, gaps: []int{0, 1, 2, 3, 4, 5, 6, 7, 8, 9, 10, 11, 12, 13, 14}},
	{toks: strings.Fields("if a then x = 1 elseif b then y = 2 else z = 3 end w = 4"), del: []int{2, 4, 8, 10, 14}, delEnd: []int{16}, gaps: []int{0, 3, 6, 7, 9, 12, 13, 16, 17, 20}},
	{toks: strings.Fields("do local x = 1 end repeat y = 2 until y z = 3"), del: []int{3, 8}, delEnd: []int{5}, gaps: []int{0, 1, 5, 6, 7, 10, 11, 12, 15}},
	{toks: strings.Fields("x = a + b * c y = a .. b z = not a"), del: []int{1, 8}, gaps: []int{0, 1, 2, 3, 4, 5, 6, 7, 8, 9, 10, 11, 12, 13, 14, 15, 16}},
	{toks: strings.Fields("local function f ( a ) y = a end x = f"), del: []int{7}, delEnd: []int{9}, gaps: []int{0, 1, 2, 3, 6, 7, 8, 9, 10, 11, 12, 13}},
	{toks: strings.Fields("repeat if a then x = 1 end until b y = 2"), del: []int{3, 5}, gaps: []int{0, 1, 4, 5, 6, 7, 8, 9, 10, 11, 12, 13}, delEndInner: []int{7}},
	{toks: strings.Fields("function t . m ( ) x = 1 end y = 2"), del: []int{7}, delEnd: []int{9}, gaps: []int{0, 1, 2, 3, 4, 10, 11, 12, 13}},
	{toks: strings.Fields("goto l ; :: l :: x = 1"), del: []int{7}, gaps: []int{0, 1, 2, 3, 4, 5, 6, 7, 8, 9}},
}

func errorLines(thorough bool) {
	rng := hlib.NewRng(hlib.Seed() ^ 0xe44)
	rounds := 2
	if thorough {
		rounds = 12
	}
	// valid chunks in every spelling must be accepted
	for _, c := range validChunks {
		for style := 0; style <= 3; style++ {
			src, _ := spellChunk(c, style, rng)
			emitChunk("ok", "valid", src)
		}
		for r := 0; r < rounds; r++ {
			src, _ := spellChunk(c, 3, rng)
			emitChunk("ok", "valid", src)
		}
	}
	for _, t := range errTemplates {
		src, _ := spellChunk(t.toks, 0, rng)
		emitChunk("ok", "valid", src)
		for r := 0; r < rounds; r++ {
			styles := []int{2, 3, 3}
			style := styles[r%len(styles)]
			for _, g := range t.gaps {
				for _, bad := range []string{")", "]", "}", "$", "@", "!", "end", "until", "elseif"} {
					if (bad == "end" || bad == "until" || bad == "elseif") && !rng.Chance(35) {
						continue
					}
					if bad == "end" || bad == "until" || bad == "elseif" {
						// only where an expression must follow (after `=`), there no block keyword can stand
						if g == 0 || t.toks[g-1] != "=" {
							continue
						}
					}
					m := append(append(append([]string{}, t.toks[:g]...), bad), t.toks[g:]...)
					src, lines := spellChunk(m, style, rng)
					emitChunk(fmt.Sprint(lines[g]), "stray:"+bad, src)
				}
			}
			for _, d := range t.del {
				m := append(append([]string{}, t.toks[:d]...), t.toks[d+1:]...)
				src, lines := spellChunk(m, style, rng)
				emitChunk(fmt.Sprint(lines[d]), "del:"+t.toks[d], src)
			}
			for _, d := range t.delEnd {
				m := append(append([]string{}, t.toks[:d]...), t.toks[d+1:]...)
				src, lines := spellChunk(m, style, rng)
				kind := "delend:" + blockOf(t.toks, d)
				emitChunk(fmt.Sprint(lines[len(m)]), kind, src) // <eof> is on the last line
				src2 := src + "\n\n"
				emitChunk(fmt.Sprint(lines[len(m)]+2), kind, src2)
			}
			for _, d := range t.delEndInner {
				m := append(append([]string{}, t.toks[:d]...), t.toks[d+1:]...)
				src, lines := spellChunk(m, style, rng)
				emitChunk(fmt.Sprint(lines[d]), "delend:"+blockOf(t.toks, d), src) // toks[d+1] is `until`
			}
		}
	}
}

func main() {
	if len(os.Args) < 2 {
		fmt.Fprintln(os.Stderr, "usage: c12 all quick|thorough | stdin")
		os.Exit(2)
	}
	defer hlib.Out.Flush()
	switch os.Args[1] {
	case "all":
		thorough := len(os.Args) > 2 && os.Args[2] == "thorough"
		exprs(thorough)
		literals(thorough)
		errorLines(thorough)
	case "stdin":
		// lines: short s<hex> | long s<hex> | chunk <expect> s<hex> | expsrc s<hex> | retsrc s<hex>
		sc := bufio.NewScanner(os.Stdin)
		sc.Buffer(make([]byte, 1<<20), 1<<26)
		for sc.Scan() {
			f := strings.Fields(sc.Text())
			if len(f) < 2 {
				continue
			}
			arg := f[len(f)-1]
			raw, err := hex.DecodeString(strings.TrimPrefix(arg, "s"))
			if err != nil {
				fmt.Fprintln(os.Stderr, "bad hex", arg)
				os.Exit(2)
			}
			switch f[0] {
			case "short", "long":
				emitLit(f[0], string(raw))
			case "chunk":
				emitChunk(f[1], f[2], string(raw))
			case "expsrc":
				hlib.Emit("expsrc", arg, "=", parseExpSrc(string(raw)))
			case "retsrc":
				hlib.Emit("retsrc", arg, "=", parseReturnExp(string(raw)))
			}
		}
	default:
		fmt.Fprintln(os.Stderr, "unknown mode")
		os.Exit(2)
	}
}
