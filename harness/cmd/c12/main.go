// c12: correspondence harness for the front end.  Drives the REAL golua scanner
// (scanner.New), parser (parsing.ParseExp / ParseChunk) and literal decoding
// (ast.NewString / NewLongString / NewNumber via the parser) in-process.
//
//	exp <tree> <tokens> = <ast code | E:<line> | P>|<source hex>|<e: ParseExp, c: ParseChunk of `return <src>`>
//	eval <tree> <leaf values> = <value golua computes for `return <src>` | E | P>|<source hex>
//	mv <cap> <shape> = <number of values observed>|<context>|<form>|<source hex>
//	mvast <shape> = <AST marking of the return list>|<form>|<source hex>
//	badexp <tokens> = <ok | index of the token golua reports>|<source hex>|<e|c>   corrupted expressions, one token per line
//	fstat <expected> = <observed>|<form>|<source hex>     function statements: value when called / AST
//	short s<literal hex> = s<value hex> | E | P
//	long  s<literal hex> = s<value hex> | E | P
//	chunk <expect> <kind> s<source hex> = ok | E:<line> | E:? | P     expect: ok or the line the error must carry
//
// Tree / token codes: see lean/Oracle/C12.lean.
package main

import (
	"bufio"
	"encoding/hex"
	"errors"
	"fmt"
	"math"
	"os"
	"runtime"
	"strings"

	"github.com/arnodel/golua/ast"
	"github.com/arnodel/golua/ops"
	"github.com/arnodel/golua/parsing"
	rt "github.com/arnodel/golua/runtime"
	"github.com/arnodel/golua/scanner"
	"github.com/arnodel/golua/token"
	"verifharness/hlib"
)

// ---------------------------------------------------------------------------
// expression trees

type binop struct {
	code  byte
	lua   string
	prec  int
	needL int
	needR int
}

var binops = []binop{
	{'O', "or", 0, 0, 1}, {'A', "and", 1, 1, 2},
	{'L', "<", 2, 2, 3}, {'M', "<=", 2, 2, 3}, {'G', ">", 2, 2, 3}, {'H', ">=", 2, 2, 3}, {'E', "==", 2, 2, 3}, {'N', "~=", 2, 2, 3},
	{'P', "|", 3, 3, 4}, {'X', "~", 4, 4, 5}, {'B', "&", 5, 5, 6}, {'S', "<<", 6, 6, 7}, {'R', ">>", 6, 6, 7},
	{'C', "..", 7, 8, 7}, {'D', "+", 8, 8, 9}, {'U', "-", 8, 8, 9},
	{'T', "*", 9, 9, 10}, {'V', "/", 9, 9, 10}, {'W', "//", 9, 9, 10}, {'Q', "%", 9, 9, 10},
	{'Y', "^", 11, 12, 10},
}

type unop struct {
	code byte // in trees
	tok  byte // in token strings
	lua  string
}

var unops = []unop{{'1', 'U', "-"}, {'2', '2', "not"}, {'3', '3', "#"}, {'4', 'X', "~"}}

type node struct {
	kind   int // 0 atom, 1 unary, 2 binary
	atom   int
	op     int
	l, r   *node
	parens int // redundant pairs
}

func atom(i int) *node             { return &node{kind: 0, atom: i} }
func un(op int, e *node) *node     { return &node{kind: 1, op: op, l: e} }
func bin(op int, l, r *node) *node { return &node{kind: 2, op: op, l: l, r: r} }

func (n *node) level() int {
	switch n.kind {
	case 0:
		return 12
	case 1:
		return 10
	}
	return binops[n.op].prec
}

func (n *node) clone() *node {
	if n == nil {
		return nil
	}
	c := *n
	c.l, c.r = n.l.clone(), n.r.clone()
	return &c
}

// code of the tree; withMarks adds one ' per redundant pair
func (n *node) code(b *strings.Builder, withMarks bool) {
	if withMarks {
		for i := 0; i < n.parens; i++ {
			b.WriteByte('\'')
		}
	}
	switch n.kind {
	case 0:
		b.WriteByte(byte('a' + n.atom))
	case 1:
		b.WriteByte(unops[n.op].code)
		n.l.code(b, withMarks)
	default:
		b.WriteByte(binops[n.op].code)
		n.l.code(b, withMarks)
		n.r.code(b, withMarks)
	}
}

type tok struct {
	code byte
	lua  string
}

// a leaf: how atom i is spelled, how golua's AST node for it is dumped, and (numeric literals
// only) its value in the line protocol
type leaf struct {
	src, dump, val string
}

func nameLeaves() []leaf {
	var out []leaf
	for i := 0; i < 8; i++ {
		n := string(rune('a' + i))
		out = append(out, leaf{n, "N:" + n, ""})
	}
	return out
}

// every kind of primary expression the grammar has (simpleexp / suffixedexp)
var mixedLeaves = []leaf{
	{"a", "N:a", ""}, {"_x1", "N:_x1", ""},
	{"2", "I:2", "i2"}, {"0", "I:0", "i0"}, {"0x10", "I:16", "i16"}, {"0XfF", "I:255", "i255"},
	{"2.5", "F:4004000000000000", ""}, {"1e2", "F:4059000000000000", ""}, {".5", "F:3fe0000000000000", ""}, {"3.", "F:4008000000000000", ""},
	{"0x.8", "F:3fe0000000000000", ""}, {"0x1p4", "F:4030000000000000", ""}, {"0xA.8p0", "F:4025000000000000", ""},
	{`"s"`, "S:73", ""}, {`'t\n'`, "S:740a", ""}, {"[[l]]", "S:6c", ""}, {"[==[]]]==]", "S:5d5d", ""},
	{"nil", "nil", ""}, {"true", "true", ""}, {"false", "false", ""}, {"...", "...", ""},
	{"f(x)", "call(N:f;;N:x)", ""}, {"f()", "call(N:f;;)", ""}, {"f(x, 2)", "call(N:f;;N:x,I:2)", ""}, {"f(...)", "call(N:f;;...)", ""},
	{`f"s"`, "call(N:f;;S:73)", ""}, {"f{1}", "call(N:f;;T{-=I:1})", ""}, {"f[[l]]", "call(N:f;;S:6c)", ""}, {"f(x)(y)", "call(call(N:f;;N:x);;N:y)", ""},
	{"a.b", "idx(N:a,S:62)", ""}, {"a[i]", "idx(N:a,N:i)", ""}, {"a.b.c[1]", "idx(idx(idx(N:a,S:62),S:63),I:1)", ""}, {"a[i][2]", "idx(idx(N:a,N:i),I:2)", ""},
	{"s:m()", "call(N:s;m;)", ""}, {"s:m(1, x)", "call(N:s;m;I:1,N:x)", ""}, {`s:m"q"`, "call(N:s;m;S:71)", ""}, {"a.b:m{}", "call(idx(N:a,S:62);m;T{})", ""},
	{"{}", "T{}", ""}, {"{1, 2}", "T{-=I:1,-=I:2}", ""}, {"{x = 1; [2] = y,}", "T{S:78=I:1,I:2=N:y}", ""}, {"{f()}", "T{-=call(N:f;;)}", ""},
	{"function() end", "fn(0,false)", ""}, {"function(x, y) return x end", "fn(2,false)", ""}, {"function(...) return ... end", "fn(0,true)", ""},
}

// numeric literals in several spellings, with their values, for evaluation
var numLeaves = []leaf{
	{"2", "I:2", "i2"}, {"3", "I:3", "i3"}, {"1", "I:1", "i1"}, {"0", "I:0", "i0"}, {"7", "I:7", "i7"},
	{"0x10", "I:16", "i16"}, {"0xff", "I:255", "i255"}, {"0X2", "I:2", "i2"},
	{"2.0", "F:4000000000000000", "f4000000000000000"}, {"0.5", "F:3fe0000000000000", "f3fe0000000000000"}, {".25", "F:3fd0000000000000", "f3fd0000000000000"},
	{"3.", "F:4008000000000000", "f4008000000000000"}, {"1e1", "F:4024000000000000", "f4024000000000000"}, {"5E-1", "F:3fe0000000000000", "f3fe0000000000000"},
	{"0x1p1", "F:4000000000000000", "f4000000000000000"}, {"0x.8", "F:3fe0000000000000", "f3fe0000000000000"}, {"0xA", "I:10", "i10"}, {"0xe", "I:14", "i14"}, {"0xE1", "I:225", "i225"},
	{"9007199254740993", "I:9007199254740993", "i9007199254740993"}, {"0x7fffffffffffffff", "I:9223372036854775807", "i9223372036854775807"},
}

// render: minimal parentheses from the precedence table + the redundant ones (mirrors Spec.Grammar.renderAt;
// the oracle re-checks every token string against the Lean definition)
func (n *node) render(need int, out *[]tok, lv []leaf) {
	var body []tok
	switch n.kind {
	case 0:
		body = []tok{{byte('a' + n.atom), lv[n.atom].src}}
	case 1:
		body = append(body, tok{unops[n.op].tok, unops[n.op].lua})
		n.l.render(10, &body, lv)
	default:
		o := binops[n.op]
		n.l.render(o.needL, &body, lv)
		body = append(body, tok{o.code, o.lua})
		n.r.render(o.needR, &body, lv)
	}
	k := n.parens
	if k == 0 && n.kind != 0 && n.level() < need {
		k = 1
	}
	for i := 0; i < k; i++ {
		*out = append(*out, tok{'(', "("})
	}
	*out = append(*out, body...)
	for i := 0; i < k; i++ {
		*out = append(*out, tok{')', ")"})
	}
}

func isWord(s string) bool {
	c := s[len(s)-1]
	return c == '_' || c >= '0' && c <= '9' || c >= 'a' && c <= 'z' || c >= 'A' && c <= 'Z'
}

func startsWord(s string) bool { return isWord(s[:1]) }

// the four ways to break a line (llex.c inclinenumber: each counts as ONE line)
var lineBreaks = []string{"\n", "\r", "\r\n", "\n\r"}

// separators between tokens.  Every one of them is white space or a comment in Lua 5.4.
var gapsPlain = []string{" ", " ", "  ", "\t", " \f\v "}
var gapsComment = []string{"--[[ c ]]", "--[=[ ]] ]=]"}

// `--[` / `--[=` directly followed by a line break: a SHORT comment that ends at that line break
var gapsBracketNL []string

func init() {
	for _, nl := range lineBreaks {
		gapsPlain = append(gapsPlain, nl, nl)
		gapsComment = append(gapsComment, " --c"+nl, "--"+nl, "--]]"+nl, " --[ x"+nl, "--[==x"+nl, "-- x = 1"+nl,
			"--[[ c"+nl+"c ]]", "--[==[ ]] "+nl+" ]==]"+nl, "--[[ c ]]"+nl, "--[["+nl+nl+"]]")
		gapsBracketNL = append(gapsBracketNL, "--["+nl, " --[="+nl, "--[=="+nl)
	}
}

func mustSeparate(a, b string) bool {
	la, fb := a[len(a)-1], b[0]
	if (isWord(a) || la == '.') && (startsWord(b) || fb == '.') {
		return true // names, keywords, numerals (`2 ..`, `3. and`, `0xf ..`)
	}
	if la == '-' && fb == '-' {
		return true
	}
	// never glue operator characters that could scan as a longer token
	switch string([]byte{la, fb}) {
	case "..", "<<", ">>", "//", "==", "~=", "<=", ">=", "::", "[[", "[=":
		return true
	}
	return false
}

// spelling styles: 0 single spaces, 1 compact, 2 random plain white space, 3 comments and line breaks,
// 4 as 3 plus `--[`+newline comments
func spell(ts []tok, style int, rng *hlib.Rng) string {
	var b strings.Builder
	for i, t := range ts {
		if i > 0 {
			prev := ts[i-1].lua
			if style >= 3 && prev == "-" {
				b.WriteByte(' ') // a comment gap must not glue its `--` to a minus sign
			}
			switch style {
			case 0:
				b.WriteByte(' ')
			case 1:
				if mustSeparate(prev, t.lua) {
					b.WriteByte(' ')
				}
			case 2:
				b.WriteString(gapsPlain[rng.Below(len(gapsPlain))])
			default:
				switch {
				case style == 4 && rng.Chance(25):
					b.WriteString(gapsBracketNL[rng.Below(len(gapsBracketNL))])
				case rng.Chance(40):
					b.WriteString(gapsComment[rng.Below(len(gapsComment))])
				default:
					b.WriteString(gapsPlain[rng.Below(len(gapsPlain))])
				}
			}
		}
		b.WriteString(t.lua)
	}
	return b.String()
}

var opCode = map[ops.Op]byte{
	ops.OpOr: 'O', ops.OpAnd: 'A', ops.OpLt: 'L', ops.OpLeq: 'M', ops.OpGt: 'G', ops.OpGeq: 'H', ops.OpEq: 'E', ops.OpNeq: 'N',
	ops.OpBitOr: 'P', ops.OpBitXor: 'X', ops.OpBitAnd: 'B', ops.OpShiftL: 'S', ops.OpShiftR: 'R', ops.OpConcat: 'C',
	ops.OpAdd: 'D', ops.OpSub: 'U', ops.OpMul: 'T', ops.OpDiv: 'V', ops.OpFloorDiv: 'W', ops.OpMod: 'Q', ops.OpPow: 'Y',
	ops.OpNeg: '1', ops.OpNot: '2', ops.OpLen: '3', ops.OpBitNot: '4',
}

// structural dump of a primary expression (everything that is not an operator application)
func dumpLeaf(e ast.ExpNode) string {
	list := func(es []ast.ExpNode) string {
		var parts []string
		for _, x := range es {
			parts = append(parts, dumpAny(x))
		}
		return strings.Join(parts, ",")
	}
	call := func(c *ast.BFunctionCall) string {
		return "call(" + dumpAny(c.Target) + ";" + c.Method.Val + ";" + list(c.Args) + ")"
	}
	switch n := e.(type) {
	case ast.Name:
		return "N:" + n.Val
	case ast.Int:
		return fmt.Sprintf("I:%d", n.Val)
	case ast.Float:
		return fmt.Sprintf("F:%016x", math.Float64bits(n.Val))
	case ast.String:
		return "S:" + hex.EncodeToString(n.Val)
	case ast.Nil:
		return "nil"
	case ast.Bool:
		return fmt.Sprint(n.Val)
	case ast.Etc, ast.BEtc:
		return "..."
	case ast.FunctionCall:
		return call(n.BFunctionCall)
	case *ast.BFunctionCall:
		return call(n)
	case ast.BFunctionCall:
		return call(&n)
	case ast.IndexExp:
		return "idx(" + dumpAny(n.Coll) + "," + dumpAny(n.Idx) + ")"
	case ast.TableConstructor:
		var parts []string
		for _, f := range n.Fields {
			k := "-"
			if _, ok := f.Key.(ast.NoTableKey); !ok {
				k = dumpAny(f.Key)
			}
			parts = append(parts, k+"="+dumpAny(f.Value))
		}
		return "T{" + strings.Join(parts, ",") + "}"
	case ast.Function:
		return fmt.Sprintf("fn(%d,%v)", len(n.Params), n.HasDots)
	}
	return fmt.Sprintf("?%T", e)
}

// operator applications inside leaves (not generated, but dump them faithfully)
func dumpAny(e ast.ExpNode) string {
	switch e.(type) {
	case *ast.BinOp, ast.BinOp, *ast.UnOp, ast.UnOp:
		return "op(" + dumpWith(e, nil) + ")"
	}
	return dumpLeaf(e)
}

// dump golua's AST in the prefix code.  ast.BinOp keeps `left op1 r1 op2 r2 …` of one precedence level as
// a list that the compiler folds from the left (astcomp/compexp.go), so that is what the list denotes.
// Leaves are mapped back to the atom letters through their structural dump.
func dumpWith(e ast.ExpNode, leaves map[string]string) string {
	switch n := e.(type) {
	case *ast.BinOp:
		return dumpBin(*n, leaves)
	case ast.BinOp:
		return dumpBin(n, leaves)
	case *ast.UnOp:
		return string(opCode[n.Op]) + dumpWith(n.Operand, leaves)
	case ast.UnOp:
		return string(opCode[n.Op]) + dumpWith(n.Operand, leaves)
	}
	d := dumpLeaf(e)
	if l, ok := leaves[d]; ok {
		return l
	}
	return "?" + d
}

func dumpBin(b ast.BinOp, leaves map[string]string) string {
	s := dumpWith(b.Left, leaves)
	for _, r := range b.Right {
		c, ok := opCode[r.Op]
		if !ok {
			c = '?'
		}
		s = string(c) + s + dumpWith(r.Operand, leaves)
	}
	return s
}

func errResult(err error) string {
	var pe parsing.Error
	if errors.As(err, &pe) {
		if pe.Got != nil {
			return fmt.Sprintf("E:%d", pe.Got.Line)
		}
		return "E:?"
	}
	var re runtime.Error
	if errors.As(err, &re) {
		return "P" // a Go run-time panic swallowed by the parser's blanket recover()
	}
	return "E:?"
}

func parseExpSrc(src string, leaves map[string]string) (res string) {
	defer func() {
		if p := recover(); p != nil {
			res = "P"
		}
	}()
	e, err := parsing.ParseExp(scanner.New("c12", []byte(src)))
	if err != nil {
		return errResult(err)
	}
	return dumpWith(e, leaves)
}

func parseChunkSrc(src string) (blk ast.BlockStat, res string) {
	defer func() {
		if p := recover(); p != nil {
			res = "P"
		}
	}()
	b, err := parsing.ParseChunk(scanner.New("c12", []byte(src)))
	if err != nil {
		return b, errResult(err)
	}
	return b, "ok"
}

func parseReturnExp(src string, leaves map[string]string) string {
	b, res := parseChunkSrc("return " + src)
	if res != "ok" {
		return res
	}
	if len(b.Stats) != 0 || len(b.Return) != 1 {
		return "?shape"
	}
	return dumpWith(b.Return[0], leaves)
}

var theRuntime *rt.Runtime

// value of the chunk `return <src>` run by golua (compiler, constant folding, VM)
func evalSrc(src string) (res string) {
	defer func() {
		if p := recover(); p != nil {
			res = "P"
		}
	}()
	if theRuntime == nil {
		theRuntime, _ = hlib.NewRuntime(os.Stderr)
	}
	c, err := hlib.Load(theRuntime, "c12", "return "+src)
	if err != nil {
		return "E"
	}
	class, vals, _ := hlib.PCall(theRuntime, rt.FunctionValue(c))
	switch class {
	case hlib.OK:
		if len(vals) == 0 {
			return "n"
		}
		return hlib.Enc(vals[0])
	case hlib.ERR:
		return "E"
	}
	return "P"
}

// pick 8 leaves with pairwise different dumps
func pickLeaves(pool []leaf, rng *hlib.Rng) []leaf {
	var out []leaf
	seen := map[string]bool{}
	for len(out) < 8 {
		l := pool[rng.Below(len(pool))]
		if !seen[l.dump] {
			seen[l.dump] = true
			out = append(out, l)
		}
	}
	return out
}

func emitExp(n *node, lv []leaf, style int, rng *hlib.Rng, viaChunk, eval bool) {
	var ts []tok
	n.render(0, &ts, lv)
	var tree, tk strings.Builder
	n.code(&tree, true)
	for _, t := range ts {
		tk.WriteByte(t.code)
	}
	src := spell(ts, style, rng)
	back := map[string]string{}
	for i, l := range lv {
		back[l.dump] = string(rune('a' + i))
	}
	var res string
	if viaChunk {
		res = parseReturnExp(src, back)
	} else {
		res = parseExpSrc(src, back)
	}
	mode := "e"
	if viaChunk {
		mode = "c"
	}
	hlib.Emit("exp", tree.String(), tk.String(), "=", res+"|"+hex.EncodeToString([]byte(src))+"|"+mode)
	if eval {
		vals := make([]string, len(lv))
		for i, l := range lv {
			vals[i] = l.val
		}
		hlib.Emit("eval", tree.String(), strings.Join(vals, ","), "=", evalSrc(src)+"|"+hex.EncodeToString([]byte(src)))
	}
}

func setParens(n *node, f func(depth int) int, depth int) {
	if n == nil {
		return
	}
	n.parens = f(depth)
	setParens(n.l, f, depth+1)
	setParens(n.r, f, depth+1)
}

func emitTree(n *node, rng *hlib.Rng, count *int) {
	*count++
	names := nameLeaves()
	// 1. minimal parentheses, single spaces, names (ParseExp)
	emitExp(n, names, 0, rng, false, false)
	// 2. compact; leaves of every primary-expression kind (return <exp> through ParseChunk)
	emitExp(n, pickLeaves(mixedLeaves, rng), 1, rng, true, false)
	// 3. numeric literals as leaves: the AST again, and the VALUE of `return <exp>`
	emitExp(n, pickLeaves(numLeaves, rng), rng.Below(4), rng, rng.Bool(), true)
	// 4. random redundant parentheses, white space / comment / line-break variations
	m := n.clone()
	setParens(m, func(d int) int {
		if rng.Chance(35) {
			return 1 + rng.Below(2)
		}
		return 0
	}, 0)
	lv := names
	if rng.Bool() {
		lv = pickLeaves(mixedLeaves, rng)
	}
	if allSpellings || *count%4 != 3 {
		emitExp(m, lv, 2+rng.Below(2), rng, rng.Bool(), false)
	}
	if *count%3 == 0 {
		emitExp(m, pickLeaves(numLeaves, rng), 3, rng, true, true)
	}
	// 5. every node parenthesised once, with `--[`+line-break comments now and then
	if *count%4 == 0 {
		f := n.clone()
		setParens(f, func(int) int { return 1 }, 0)
		emitExp(f, names, 4, rng, true, false)
	}
}

func depth1(leaf func() *node) []*node {
	out := []*node{leaf()}
	for u := range unops {
		out = append(out, un(u, leaf()))
	}
	for o := range binops {
		out = append(out, bin(o, leaf(), leaf()))
	}
	return out
}

// thorough tier: every tree in every spelling
var allSpellings bool

func exprs(thorough bool) {
	allSpellings = thorough
	rng := hlib.NewRng(hlib.Seed() ^ 0xc12)
	next := 0
	leaf := func() *node { next = (next + 1) % 8; return atom(next) }
	count := 0
	// exhaustive: every tree of depth ≤ 2 (all operator pairs in all positions)
	d1 := depth1(leaf)
	for _, t := range d1 {
		emitTree(t, rng, &count)
	}
	for u := range unops {
		for _, t := range d1 {
			emitTree(un(u, t.clone()), rng, &count)
		}
	}
	for o := range binops {
		for _, l := range d1 {
			for _, r := range d1 {
				emitTree(bin(o, l.clone(), r.clone()), rng, &count)
			}
		}
	}
	if thorough {
		// every shape of three binary operators × all operator triples, and with a unary at each position
		for a := range binops {
			for b := range binops {
				for c := range binops {
					x, y, z, w := leaf(), leaf(), leaf(), leaf()
					shapes := []*node{
						bin(a, bin(b, bin(c, x, y), z), w), bin(a, bin(b, x, bin(c, y, z)), w), bin(a, bin(b, x, y), bin(c, z, w)),
						bin(a, x, bin(b, bin(c, y, z), w)), bin(a, x, bin(b, y, bin(c, z, w))),
					}
					for _, s := range shapes {
						emitTree(s, rng, &count)
					}
					u := rng.Below(len(unops))
					emitTree(bin(a, un(u, bin(b, x.clone(), y.clone())), bin(c, un(u, z.clone()), w.clone())), rng, &count)
				}
			}
		}
	}
	// random deeper trees
	n := 12000
	if thorough {
		n = 150000
	}
	var gen func(d int) *node
	gen = func(d int) *node {
		if d == 0 || rng.Chance(15) {
			return atom(rng.Below(8))
		}
		if rng.Chance(22) {
			return un(rng.Below(len(unops)), gen(d-1))
		}
		o := rng.Below(len(binops))
		if rng.Chance(25) {
			o = []int{13, 20, 15, 9}[rng.Below(4)] // .. ^ - ~ : the right-associative ones and the two-faced tokens
		}
		return bin(o, gen(d-1), gen(d-1))
	}
	for i := 0; i < n; i++ {
		emitTree(gen(3+rng.Below(4)), rng, &count)
	}
}

// ---------------------------------------------------------------------------
// literals

func evalLiteral(lit string) string {
	b, res := parseChunkSrc("return " + lit)
	if res != "ok" {
		if strings.HasPrefix(res, "E") {
			return "E"
		}
		return res
	}
	if len(b.Stats) != 0 || len(b.Return) != 1 {
		return "E"
	}
	if s, ok := b.Return[0].(ast.String); ok {
		return "s" + hex.EncodeToString(s.Val)
	}
	return "E"
}

func emitLit(kind, lit string) {
	hlib.Emit(kind, "s"+hex.EncodeToString([]byte(lit)), "=", evalLiteral(lit))
}

func allBodies(alpha []byte, n int, f func(string)) {
	buf := make([]byte, n)
	var rec func(i int)
	rec = func(i int) {
		if i == n {
			f(string(buf))
			return
		}
		for _, c := range alpha {
			buf[i] = c
			rec(i + 1)
		}
	}
	rec(0)
}

var shortCorpus = []string{
	`""`, `''`, `"a"`, `'a'`, `"\a\b\f\n\r\t\v\\\"\'"`, `'\a\b\f\n\r\t\v\\\"\''`, `"'"`, `'"'`,
	"\"a\\\nb\"", "\"a\\\rb\"", "\"a\\\r\nb\"", "\"a\\\n\rb\"", "\"a\\\n\nb\"", "\"a\\\r\rb\"", "\"a\\\n\r\nb\"", "\"a\\\r\n\rb\"",
	"\"a\nb\"", "\"a\rb\"", `"abc`, `"abc\"`, `"\`, `"`, `"\q"`, `"\A"`, `"\N"`, `"\X41"`, `"\U{41}"`, `"\8"`, `"\9a"`,
	`"\x41"`, `"\x4"`, `"\x4g"`, `"\xg4"`, `"\x"`, `"\x4142"`, `"\xfF"`, `"\xFf\x00\x7f\x80"`,
	`"\0"`, `"\00"`, `"\000"`, `"\0000"`, `"\1"`, `"\12"`, `"\123"`, `"\1234"`, `"\255"`, `"\256"`, `"\300"`, `"\999"`, `"\25a"`, `"\0651"`, `"\065\0661"`,
	`"\u{0}"`, `"\u{41}"`, `"\u{7f}"`, `"\u{80}"`, `"\u{7ff}"`, `"\u{800}"`, `"\u{ffff}"`, `"\u{10000}"`, `"\u{10ffff}"`, `"\u{110000}"`, `"\u{1fffff}"`,
	`"\u{200000}"`, `"\u{3ffffff}"`, `"\u{4000000}"`, `"\u{7fffffff}"`, `"\u{7FFFFFFF}"`, `"\u{80000000}"`, `"\u{ffffffff}"`, `"\u{100000000}"`, `"\u{00000000000000000041}"`,
	`"\u{000000007fffffff}"`, `"\u{}"`, `"\u{g}"`, `"\u{41"`, `"\u41}"`, `"\u{41 }"`, `"\u{ 41}"`, `"\u{d800}"`, `"\u{dfff}"`, `"\u{20ac}"`,
	"\"\\z\"", "\"a\\z b\"", "\"a\\z \n\t\r\f\v b\"", "\"a\\z\n\n\nb\"", "\"\\z\\z  \\z\"", "\"a\\zb\"", "\"\\z \\n\"", "\"a\\z\r\n\r\nb\"",
	"\"\xc3\xa9\"", "\"\xff\xfe\"", "\"\\\xff\"", "\"\x00\"", "\"a\x00b\"", "\"\\\x00\"", "\"\x80\\x80\"", "\"tab\there\"",
	`"a" "b"`, `"a"'b'`, `"a"x`,
}

var longCorpus = []string{
	"[[]]", "[=[]=]", "[==[]==]", "[===[]===]", "[[a]]", "[[\n]]", "[[\r]]", "[[\r\n]]", "[[\n\r]]", "[[\n\n]]", "[[\r\r]]", "[[\n\r\n]]",
	"[[\na]]", "[[\n\na]]", "[[a\n]]", "[[a\r\nb\rc\n\rd\ne]]", "[=[a]]b]=]", "[=[]]]=]", "[=[]=", "[[", "[=[", "[=", "[==[a]=]", "[=[a]==]", "[=[a]==]=]",
	"[[]]]", "[[a]]]]", "[[]", "[[]=]", "[=[]=]=]", "[[\\n]]", "[[\"']]", "[[--]]", "[=[\n]=]", "[=[\r\n\r\n]=]",
	"[[\x00]]", "[[\xff]]", "[==[]=]]==]", "[==[]]=]==]", "[=[]=]]", "[[ ]]", "[[[]]", "[[[[]]", "[=[[=[]=]", "[[]]x", "[ [a]]", "[= [a]=]",
}

func literals(thorough bool) {
	rng := hlib.NewRng(hlib.Seed() ^ 0x117)
	for _, s := range shortCorpus {
		emitLit("short", s)
	}
	for _, s := range longCorpus {
		emitLit("long", s)
	}
	// exhaustive short bodies over an alphabet covering every escape class
	alpha := []byte("\\\"'anzxu{}019f \n\r")
	maxLen := 3
	if thorough {
		maxLen = 4
	}
	for n := 0; n <= maxLen; n++ {
		allBodies(alpha, n, func(b string) {
			emitLit("short", `"`+b+`"`)
			if n <= 2 {
				emitLit("short", `'`+b+`'`)
			}
		})
	}
	if thorough {
		allBodies([]byte("\\\"nzxu{}09f \n\r"), 5, func(b string) { emitLit("short", `"`+b+`"`) })
	}
	// exhaustive long contents, levels 0..3
	lalpha := []byte("]=[a\n\r")
	lmax := 4
	if thorough {
		lmax = 6
	}
	for n := 0; n <= lmax; n++ {
		allBodies(lalpha, n, func(b string) {
			for lvl := 0; lvl <= 3; lvl++ {
				if lvl == 3 && n > 3 {
					continue
				}
				eq := strings.Repeat("=", lvl)
				emitLit("long", "["+eq+"["+b+"]"+eq+"]")
			}
		})
	}
	// contents that BEGIN with 0..3 line breaks, each in any of the four spellings (only the first is dropped),
	// levels 0..2; the same openings for long comments are in the error-line leg
	var heads []string
	var recH func(cur string, n int)
	recH = func(cur string, n int) {
		heads = append(heads, cur)
		if n == 3 {
			return
		}
		for _, nl := range lineBreaks {
			recH(cur+nl, n+1)
		}
	}
	recH("", 0)
	for _, h := range heads {
		for lvl := 0; lvl <= 2; lvl++ {
			eq := strings.Repeat("=", lvl)
			for _, tail := range []string{"", "foo", "x\ny", " "} {
				emitLit("long", "["+eq+"["+h+tail+"]"+eq+"]")
			}
		}
	}
	// random byte strings in random spellings
	count := 10000
	if thorough {
		count = 100000
	}
	pool := []byte{0, 1, 7, 8, 9, 10, 11, 12, 13, 27, 32, 34, 39, 48, 49, 57, 65, 92, 97, 102, 110, 122, 127, 128, 160, 194, 255}
	for i := 0; i < count; i++ {
		n := rng.Below(10)
		q := byte('"')
		if rng.Bool() {
			q = '\''
		}
		var b strings.Builder
		b.WriteByte(q)
		for j := 0; j < n; j++ {
			c := pool[rng.Below(len(pool))]
			if rng.Chance(20) {
				c = byte(rng.Below(256))
			}
			if rng.Chance(12) {
				b.WriteString("\\z" + []string{"", " ", "\n", "\r\n \t", "\n\r\n"}[rng.Below(5)])
			}
			switch rng.Below(7) {
			case 0:
				b.WriteByte(c) // raw, possibly illegal (quote, backslash, newline)
			case 1:
				fmt.Fprintf(&b, "\\%d", c)
			case 2:
				fmt.Fprintf(&b, "\\%03d", c)
			case 3:
				fmt.Fprintf(&b, []string{"\\x%02x", "\\x%02X"}[rng.Below(2)], c)
			case 4:
				cp := uint32(c)
				if rng.Chance(50) {
					cp = uint32(rng.Next()) >> uint(rng.Below(32))
				}
				fmt.Fprintf(&b, "\\u{%s%x}", strings.Repeat("0", rng.Below(3)), cp)
			case 5:
				if k := strings.IndexByte("\a\b\f\n\r\t\v\\\"'", c); k >= 0 {
					b.WriteByte('\\')
					b.WriteByte("abfnrtv\\\"'"[k])
				} else {
					b.WriteByte('\\')
					b.WriteByte(c) // mostly an illegal escape
				}
			default:
				b.WriteString("\\" + []string{"\n", "\r", "\r\n", "\n\r"}[rng.Below(4)])
			}
		}
		b.WriteByte(q)
		emitLit("short", b.String())
		// long string with random content
		lvl := rng.Below(4)
		var lb strings.Builder
		for j := rng.Below(8); j > 0; j-- {
			lb.WriteByte([]byte("]]=[a\n\r\\\"\x00\xff")[rng.Below(11)])
		}
		eq := strings.Repeat("=", lvl)
		emitLit("long", "["+eq+"["+lb.String()+"]"+eq+"]")
	}
}

// ---------------------------------------------------------------------------
// statement forms and error lines.  Chunks are token lists; a spelling chooses the gaps.

var validChunks = [][]string{
	{";"}, {"break"}, {"goto", "l1", "::", "l1", "::"}, {"do", "end"}, {"do", "local", "x", "end"},
	{"while", "a", "do", "b", "=", "c", "end"}, {"repeat", "local", "x", "=", "f", "(", ")", "until", "x"},
	{"if", "a", "then", "b", "=", "1", "end"}, {"if", "a", "then", "b", "=", "1", "else", "c", "=", "2", "end"},
	{"if", "a", "then", "b", "=", "1", "elseif", "d", "then", "e", "=", "3", "elseif", "g", "then", "else", "c", "=", "2", "end"},
	{"for", "i", "=", "1", ",", "10", "do", "f", "(", "i", ")", "end"}, {"for", "i", "=", "1", ",", "10", ",", "2", "do", "end"},
	{"for", "k", ",", "v", "in", "pairs", "(", "t", ")", "do", "f", "(", "k", ",", "v", ")", "end"}, {"for", "k", "in", "f", ",", "s", ",", "c", "do", "end"},
	{"function", "f", "(", ")", "end"}, {"function", "t", ".", "a", ".", "b", ":", "m", "(", "x", ",", "...", ")", "return", "x", ",", "...", "end"},
	{"function", "f", "(", "...", ")", "return", "...", "end"}, {"local", "function", "f", "(", "a", ",", "b", ")", "return", "a", "+", "b", ";", "end"},
	{"local", "x"}, {"local", "x", ",", "y", "=", "1", ",", "2"}, {"local", "x", "<", "const", ">", "=", "1"}, {"local", "x", "<", "close", ">", ",", "y", "<", "const", ">", "=", "nil", ",", "2"},
	{"a", "=", "1"}, {"a", ",", "b", ".", "c", ",", "d", "[", "1", "]", "=", "1", ",", "2", ",", "3"}, {"f", "(", ")"}, {"f", "(", "a", ",", "b", ")"}, {"f", "\"s\""}, {"f", "[[s]]"}, {"f", "{", "}"},
	{"t", ":", "m", "(", "1", ")"}, {"t", ".", "x", ".", "y", ":", "m", "\"s\""}, {"f", "(", ")", "(", ")", "[", "1", "]", ".", "x", "=", "2"}, {"(", "f", ")", "(", ")"}, {"(", "a", ")", ".", "x", "=", "1"},
	{"return"}, {"return", ";"}, {"return", "a"}, {"return", "a", ",", "b", ";"}, {"return", "f", "(", ")"}, {"return", "(", "f", "(", ")", ")"}, {"return", "..."},
	{"x", "=", "{", "}"}, {"x", "=", "{", "1", ",", "2", ";", "3", ",", "}"}, {"x", "=", "{", "a", "=", "1", ",", "[", "b", "]", "=", "2", ";", "c", ",", "f", "(", ")", "}"}, {"x", "=", "{", "{", "}", ",", "{", "{", "}", "}", "}"},
	{"x", "=", "function", "(", "a", ")", "return", "a", "end"}, {"x", "=", "a", ".", "b", "[", "c", "]", ":", "d", "(", "e", ")", ".", "f"},
	{"x", "=", "nil", "==", "false", "~=", "true"}, {"x", "=", "1", "+", "0x10", "-", "1.5", "*", "0x1p4", "/", "1e2", "//", ".5", "%", "3."},
	{"x", "=", "\"a\"", "..", "'b'", "..", "[[c]]", "..", "[==[d]==]"}, {"x", "=", "#", "t", "+", "-", "a", "+", "~", "b", "+", "(", "not", "c", "and", "1", "or", "2", ")"},
	{"x", "=", "a", "<", "b", "==", "(", "c", ">=", "d", ")"}, {"x", "=", "a", "&", "b", "|", "c", "~", "d", "<<", "1", ">>", "2"}, {"x", "=", "2", "^", "-", "3", "^", "2"},
	{"::", "top", "::", "x", "=", "1", "goto", "top"}, {"local", "t", "<", "const", ">", "=", "{", "}", ";", "t", ".", "x", "=", "1"},
	{"x", "=", "a", "f", "(", ")"}, {"f", "(", ")", "g", "(", ")"}, {"x", "=", "1", "y", "=", "2"}, {"x", "=", "1", ";", ";", "y", "=", "2", ";"},
	{"while", "true", "do", "if", "a", "then", "break", "end", "end"}, {"repeat", "until", "true"}, {"do", "return", "end"}, {"do", "return", "1", "end", "x", "=", "1"},
	{"x", "=", "9223372036854775807", "+", "0xffffffffffffffff"}, {"x", "=", "\"\\65\\x41\\u{41}\\z  \\n\""},
}

// count line breaks the way Lua does: \r\n and \n\r are one
func countLines(g string) int {
	n := 0
	for i := 0; i < len(g); i++ {
		if g[i] == '\n' || g[i] == '\r' {
			if i+1 < len(g) && (g[i+1] == '\n' || g[i+1] == '\r') && g[i+1] != g[i] {
				i++
			}
			n++
		}
	}
	return n
}

// spelling of a chunk given as a token list.  `§` inside a token stands for a line break (long strings,
// backslash-newline in short strings); styles: 0 single spaces, 1 compact, 2 every gap is the line break
// `nl`, 3 random white space / comments with every kind of line break, 5 every gap is a short comment
// ended by `nl`, 6 every gap is a long comment that contains `nl` and is followed by `nl`.
// lines[i] = line on which token i starts; lines[len] = line of <eof>.
func spellChunk(ts []string, style int, nl string, rng *hlib.Rng) (src string, lines []int) {
	var b strings.Builder
	line := 1
	lines = make([]int, len(ts)+1)
	addGap := func(g string) {
		b.WriteString(g)
		line += countLines(g)
	}
	for i, t := range ts {
		if i > 0 {
			if style >= 3 && strings.HasSuffix(ts[i-1], "-") {
				addGap(" ")
			}
			switch style {
			case 0:
				addGap(" ")
			case 1:
				if mustSeparate(ts[i-1], t) || ts[i-1] == "[" || t == "[" || strings.HasSuffix(ts[i-1], ".") || strings.HasPrefix(t, ".") {
					addGap(" ")
				}
			case 2:
				addGap(nl)
			case 5:
				addGap("--c" + nl)
			case 6:
				addGap("--[[" + nl + "c" + nl + "]]" + nl)
			default:
				if rng.Chance(30) {
					addGap(gapsComment[rng.Below(len(gapsComment))])
				} else {
					addGap(gapsPlain[rng.Below(len(gapsPlain))])
				}
			}
		}
		lines[i] = line
		t = strings.ReplaceAll(t, "§", nl)
		b.WriteString(t)
		line += countLines(t)
	}
	lines[len(ts)] = line
	return b.String(), lines
}

// kind names how the chunk was made (valid | stray:<tok> | del:<tok> | delend:<block keyword>)
func emitChunk(expect, kind, src string) { emitChunkNear(expect, kind, src, "") }

// near: the text of the offending token ("<eof>" for end of input, "" = not checked); the result then
// carries `@<hex of the token golua's message names>`
func emitChunkNear(expect, kind, src, near string) {
	res := "P"
	func() {
		defer func() { recover() }()
		_, err := parsing.ParseChunk(scanner.New("c12", []byte(src)))
		if err == nil {
			res = "ok"
			return
		}
		res = errResult(err)
		var pe parsing.Error
		if near != "" && errors.As(err, &pe) && pe.Got != nil {
			lit := string(pe.Got.Lit)
			if pe.Got.Type == token.EOF {
				lit = "<eof>"
			}
			res += "@" + hex.EncodeToString([]byte(lit))
		}
	}()
	if near != "" && res != "ok" {
		expect += "@" + hex.EncodeToString([]byte(strings.ReplaceAll(near, "§", "")))
	}
	hlib.Emit("chunk", expect, kind, "s"+hex.EncodeToString([]byte(src)), "=", res)
}

// the keyword of the block that the `end` at toks[d] closes
func blockOf(toks []string, d int) string {
	var stack []string
	for i, t := range toks {
		switch t {
		case "if", "while", "for", "function", "repeat":
			stack = append(stack, t)
		case "do":
			if len(stack) == 0 || (stack[len(stack)-1] != "while" && stack[len(stack)-1] != "for") {
				stack = append(stack, "do")
			}
		case "end", "until":
			if i == d {
				if len(stack) == 0 {
					return "?"
				}
				return stack[len(stack)-1]
			}
			if len(stack) > 0 {
				stack = stack[:len(stack)-1]
			}
		}
	}
	return "?"
}

// chunks for error-line tests: statements that start with a name or keyword and contain no brackets at
// the places we corrupt; index lists say where which corruption has a known first offending token
type errTemplate struct {
	toks []string
	// positions i such that deleting toks[i] makes toks[i+1] the first token no valid program continues with
	del []int
	// positions of `end` tokens closing a top-level block whose deletion moves the error to <eof>
	delEnd []int
	// positions of `end` tokens closing a block nested in a `repeat`: after deletion the error is at `until`
	delEndInner []int
	// positions i (gap before toks[i]) with no bracket open, where a stray closer / `$` is offending
	gaps []int
	// bracket templates: gaps and corruptions are derived from the bracket structure (bracketCases)
	auto bool
	// positions of closing brackets whose deletion makes toks[i+1] the first offending token
	delClose []int
}

// bracketing constructs: table constructors, parenthesised expressions, indexing, call arguments, function
// bodies inside them, inside blocks.  Statements start with names, so after a complete expression the
// next statement's first token cannot continue it.
// `!tok`: deleting tok makes the NEXT token the first offending one; `^end`: deleting it moves the error to <eof>
var bracketTemplates = []errTemplate{
	markedTemplate("t = { 1 !, 2 !, x != 3 !, [ k ] != 4 !; 5 !} y = 1"),
	markedTemplate("r = f ( a !, g ( b !, 2 ) !, 3 !) z = 1"),
	markedTemplate("v = ( a + ( b !* c ) !) w = t [ i ] [ j + 1 !] u = 1"),
	markedTemplate("h = function ( a !, b ) q = a ^end k = { function ( ) q ( ) !end , 2 } m = 1"),
	markedTemplate("do x = { 1 !, 2 !} end while a do y = ( 1 !) end for i = 1 , 2 do z = f ( i !) end repeat w = t [ 1 !] until w p = 1"),
	markedTemplate("o : m ( { a = { b = { 1 !, { } } } } !, ( ( 2 ) ) ) [ 1 ] . x = 1 n = 1"),
	markedTemplate("local s = { f ( 1 ) !, t [ 2 ] , ( 3 ) , { 4 } !, function ( ... ) return ... end !} e = 1"),
}

func markedTemplate(src string) errTemplate {
	t := errTemplate{auto: true}
	for i, tk := range strings.Fields(src) {
		switch {
		case len(tk) > 1 && tk[0] == '!':
			t.del = append(t.del, i)
			tk = tk[1:]
		case len(tk) > 1 && tk[0] == '^':
			t.delEnd = append(t.delEnd, i)
			tk = tk[1:]
		}
		t.toks = append(t.toks, tk)
	}
	return t
}

var closers = []string{")", "]", "}"}
var openerOf = map[string]string{")": "(", "]": "[", "}": "{"}

// (gap or token index, inserted/replacing token, kind) for a bracket template: at every gap an illegal
// character; directly inside a bracket a block keyword or a closing bracket of the wrong kind; outside all
// brackets any closing bracket; every closing bracket replaced by each other kind
type bcase struct {
	pos     int
	tok     string
	replace bool
	kind    string
}

func bracketCases(toks []string) []bcase {
	var out []bcase
	var stack []string
	fnParen := map[int]bool{} // stack depth at which the `(` opening a parameter list sits
	pendingFn := false
	for g := 0; g <= len(toks); g++ {
		// corruptions in the gap before toks[g]
		out = append(out, bcase{g, "$", false, "stray:$"})
		inBracket := false
		for _, f := range stack {
			if f != "F" {
				inBracket = true
			}
		}
		if len(stack) > 0 && stack[len(stack)-1] != "F" {
			top := stack[len(stack)-1]
			for _, kw := range []string{"end", "until", "then", "do", "else", "elseif"} {
				out = append(out, bcase{g, kw, false, "inbracket:" + kw})
			}
			for _, c := range closers {
				if openerOf[c] != top {
					out = append(out, bcase{g, c, false, "mismatch:" + top + c})
				}
			}
		}
		if !inBracket {
			for _, c := range closers {
				out = append(out, bcase{g, c, false, "stray:" + c})
			}
		}
		if g == len(toks) {
			break
		}
		t := toks[g]
		switch t {
		case "function":
			pendingFn = true
		case "(", "[", "{":
			if t == "(" && pendingFn {
				fnParen[len(stack)] = true
				pendingFn = false
			}
			stack = append(stack, t)
		case ")", "]", "}":
			for _, c := range closers {
				if c != t {
					out = append(out, bcase{g, c, true, "wrongcloser:" + t + c})
				}
			}
			stack = stack[:len(stack)-1]
			if t == ")" && fnParen[len(stack)] {
				delete(fnParen, len(stack))
				stack = append(stack, "F")
			}
		case "end":
			if len(stack) > 0 && stack[len(stack)-1] == "F" {
				stack = stack[:len(stack)-1]
			}
		}
	}
	return out
}

var errTemplates = []errTemplate{
	{toks: strings.Fields("x = 1 if a then y = 2 end z = 3"), del: []int{1, 5, 7}, delEnd: []int{9}, gaps: []int{0, 1, 2, 3, 4, 5, 6, 7, 8, 9, 10, 11, 12, 13}},
	{toks: strings.Fields("local a = 1 while a do b = a end c = 2"), del: []int{2, 6, 8}, delEnd: []int{10}, gaps: []int{0, 1, 2, 3, 4, 5, 6, 7, 8, 9, 10, 11, 12, 13, 14}},
	{toks: strings.Fields("for i = 1 , 2 do x = i end y = 1"), del: []int{2, 4, 6, 8}, delEnd: []int{10}, gaps: []int{0, 1, 2, 3, 4, 5, 6, 7, 8, 9, 10, 11, 12, 13, 14}},
	{toks: strings.Fields("for k , v in p do x = k end y = 1"), del: []int{4, 6, 8}, delEnd: []int{10}, gaps: []int{0, 1, 2, 3, 4, 5, 6, 7, 8, 9, 10, 11, 12, 13, 14}},
	{toks: strings.Fields("if a then x = 1 elseif b then y = 2 else z = 3 end w = 4"), del: []int{2, 4, 8, 10, 14}, delEnd: []int{16}, gaps: []int{0, 3, 6, 7, 9, 12, 13, 16, 17, 20}},
	{toks: strings.Fields("do local x = 1 end repeat y = 2 until y z = 3"), del: []int{3, 8}, delEnd: []int{5}, gaps: []int{0, 1, 5, 6, 7, 10, 11, 12, 15}},
	{toks: strings.Fields("x = a + b * c y = a .. b z = not a"), del: []int{1, 8}, gaps: []int{0, 1, 2, 3, 4, 5, 6, 7, 8, 9, 10, 11, 12, 13, 14, 15, 16}},
	{toks: strings.Fields("local function f ( a ) y = a end x = f"), del: []int{7}, delEnd: []int{9}, gaps: []int{0, 1, 2, 3, 6, 7, 8, 9, 10, 11, 12, 13}},
	{toks: strings.Fields("repeat if a then x = 1 end until b y = 2"), del: []int{3, 5}, gaps: []int{0, 1, 4, 5, 6, 7, 8, 9, 10, 11, 12, 13}, delEndInner: []int{7}},
	{toks: strings.Fields("function t . m ( ) x = 1 end y = 2"), del: []int{7}, delEnd: []int{9}, gaps: []int{0, 1, 2, 3, 4, 10, 11, 12, 13}},
	{toks: strings.Fields("goto l ; :: l :: x = 1"), del: []int{7}, gaps: []int{0, 1, 2, 3, 4, 5, 6, 7, 8, 9}},
	// tokens that contain line breaks: long strings, backslash-newline and \z in short strings, long comments
	{toks: []string{"x", "=", "[[a§b§]]", "y", "=", "\"c\\§d\"", "z", "=", "[==[§§]==]", "w", "=", "\"e\\z §  §f\"", "v", "=", "1"}, gaps: []int{0, 1, 2, 3, 4, 5, 6, 7, 8, 9, 10, 11, 12, 13, 14, 15}},
	{toks: []string{"x", "=", "1", "--[[§§]]", "y", "=", "2", "--[=[§]]§]=]", "z", "=", "3"}, gaps: []int{0, 1, 2, 4, 5, 6, 8, 9, 10, 11}},
}

func errorLines(thorough bool) {
	rng := hlib.NewRng(hlib.Seed() ^ 0xe44)
	rounds := 2
	if thorough {
		rounds = 12
	}
	type sp struct {
		style int
		nl    string
	}
	// every kind of line break in every place a line break can stand: between tokens, ending a short
	// comment, inside and after a long comment (inside long / short strings: the `§` tokens)
	var spellings []sp
	for _, nl := range lineBreaks {
		spellings = append(spellings, sp{2, nl}, sp{5, nl}, sp{6, nl})
	}
	for r := 0; r < rounds; r++ {
		spellings = append(spellings, sp{3, lineBreaks[r%4]})
	}
	// valid chunks in every spelling must be accepted
	for _, c := range validChunks {
		for style := 0; style <= 1; style++ {
			src, _ := spellChunk(c, style, "\n", rng)
			emitChunk("ok", "valid", src)
		}
		for _, s := range spellings {
			src, _ := spellChunk(c, s.style, s.nl, rng)
			emitChunk("ok", "valid", src)
		}
	}
	for _, t := range errTemplates {
		src, _ := spellChunk(t.toks, 0, "\n", rng)
		emitChunk("ok", "valid", src)
		for _, s := range spellings {
			for _, g := range t.gaps {
				for _, bad := range []string{")", "]", "}", "$", "@", "!", "end", "until", "elseif"} {
					if !thorough && !rng.Chance(40) {
						continue
					}
					if bad == "end" || bad == "until" || bad == "elseif" {
						// only where an expression must follow (after `=`), there no block keyword can stand
						if g == 0 || t.toks[g-1] != "=" {
							continue
						}
					}
					m := append(append(append([]string{}, t.toks[:g]...), bad), t.toks[g:]...)
					src, lines := spellChunk(m, s.style, s.nl, rng)
					emitChunkNear(fmt.Sprint(lines[g]), "stray:"+bad, src, bad)
				}
			}
			for _, d := range t.del {
				m := append(append([]string{}, t.toks[:d]...), t.toks[d+1:]...)
				src, lines := spellChunk(m, s.style, s.nl, rng)
				emitChunkNear(fmt.Sprint(lines[d]), "del:"+t.toks[d], src, t.toks[d+1])
			}
			for _, d := range t.delEnd {
				m := append(append([]string{}, t.toks[:d]...), t.toks[d+1:]...)
				src, lines := spellChunk(m, s.style, s.nl, rng)
				kind := "delend:" + blockOf(t.toks, d)
				emitChunkNear(fmt.Sprint(lines[len(m)]), kind, src, "<eof>") // <eof> is on the last line
				emitChunk(fmt.Sprint(lines[len(m)]+2), kind, src+s.nl+s.nl)
				emitChunk(fmt.Sprint(lines[len(m)]+1), kind, src+" --c"+s.nl) // … after a final comment line
			}
			for _, d := range t.delEndInner {
				m := append(append([]string{}, t.toks[:d]...), t.toks[d+1:]...)
				src, lines := spellChunk(m, s.style, s.nl, rng)
				emitChunkNear(fmt.Sprint(lines[d]), "delend:"+blockOf(t.toks, d), src, t.toks[d+1]) // toks[d+1] is `until`
			}
		}
	}
	// `...` is only allowed directly inside a vararg function (manual §3.4.11); `!...` marks the offending one
	for _, src := range []string{
		"local function g ( a ) return !... end",
		"function t . f ( ) local x = !... end",
		"function t . a : m ( a , b ) return { !... } end",
		"x = function ( ... ) return function ( ) return f ( !... ) end end",
		"local function g ( ... ) local function h ( a ) return a , !... end return h ( ... ) end",
	} {
		toks := strings.Fields(src)
		at := -1
		for i, tk := range toks {
			if tk == "!..." {
				toks[i] = "..."
				at = i
			}
		}
		for _, s := range spellings {
			text, lines := spellChunk(toks, s.style, s.nl, rng)
			emitChunkNear(fmt.Sprint(lines[at]), "varargscope", text, "...")
		}
	}
	// bracketing constructs: the opener is on an earlier line than the offending token in every spelling
	// that breaks lines; the reported line must be the offending token's
	for _, t := range bracketTemplates {
		src, _ := spellChunk(t.toks, 0, "\n", rng)
		emitChunk("ok", "valid", src)
		cases := bracketCases(t.toks)
		for _, s := range spellings {
			for _, c := range cases {
				if !thorough && !rng.Chance(22) {
					continue
				}
				var m []string
				if c.replace {
					m = append(append(append([]string{}, t.toks[:c.pos]...), c.tok), t.toks[c.pos+1:]...)
				} else {
					m = append(append(append([]string{}, t.toks[:c.pos]...), c.tok), t.toks[c.pos:]...)
				}
				src, lines := spellChunk(m, s.style, s.nl, rng)
				emitChunkNear(fmt.Sprint(lines[c.pos]), c.kind, src, c.tok)
			}
			for _, d := range t.del {
				m := append(append([]string{}, t.toks[:d]...), t.toks[d+1:]...)
				src, lines := spellChunk(m, s.style, s.nl, rng)
				emitChunkNear(fmt.Sprint(lines[d]), "del:"+t.toks[d], src, t.toks[d+1])
			}
			for _, d := range t.delEnd {
				m := append(append([]string{}, t.toks[:d]...), t.toks[d+1:]...)
				src, lines := spellChunk(m, s.style, s.nl, rng)
				emitChunkNear(fmt.Sprint(lines[len(m)]), "delend:function", src, "<eof>")
			}
		}
	}
}

// ---------------------------------------------------------------------------
// multi-valued expressions: how many values does an expression list deliver?

const mvPrelude = `local rec = 0
local function it(s, c) rec = 1 + (s ~= nil and 1 or 0) + (c ~= nil and 1 or 0) return nil end
local function main(...)
local v1, v2, v3 = ...
local function f() return v1, v2, v3 end
local o = {m = function(self) return v1, v2, v3 end}
`

var mvContexts = []struct {
	name string
	cap  int
	body string // %s = the expression list
}{
	{"return", 0, "local function g(...) return %s end return select('#', g(...))"},
	{"args", 0, "return select('#', %s)"},
	{"method-args", 0, "local q = {n = function(self, ...) return select('#', ...) end} return q:n(%s)"},
	{"table", 0, "return #{%s}"},
	{"table-sep", 0, "return #{%s;}"},
	{"assign", 6, "local t = {} t[1], t[2], t[3], t[4], t[5], t[6] = %s local n = 0 for i = 1, 6 do if t[i] ~= nil then n = n + 1 end end return n"},
	{"local", 6, "local a1, a2, a3, a4, a5, a6 = %s return (a1 ~= nil and 1 or 0) + (a2 ~= nil and 1 or 0) + (a3 ~= nil and 1 or 0) + (a4 ~= nil and 1 or 0) + (a5 ~= nil and 1 or 0) + (a6 ~= nil and 1 or 0)"},
	{"for-in", 3, "for _ in %s do end return rec"},
}

var mvForms = []struct{ name, multi, paren string }{
	{"call", "f()", "(f())"}, {"method", "o:m()", "(o:m())"}, {"vararg", "...", "(...)"},
	{"call2", "f()", "((f()))"}, {"vararg2", "...", "( ( ... ) )"},
}

func runChunk(src string) (res string) {
	defer func() {
		if p := recover(); p != nil {
			res = "P"
		}
	}()
	if theRuntime == nil {
		theRuntime, _ = hlib.NewRuntime(os.Stderr)
	}
	c, err := hlib.Load(theRuntime, "c12", src)
	if err != nil {
		return "E"
	}
	class, vals, _ := hlib.PCall(theRuntime, rt.FunctionValue(c))
	switch class {
	case hlib.OK:
		if len(vals) == 1 && vals[0].Type() == rt.IntType {
			return fmt.Sprint(vals[0].AsInt())
		}
		return "?"
	case hlib.ERR:
		return "E"
	}
	return "P"
}

func astMarks(explist string) (res string) {
	defer func() {
		if p := recover(); p != nil {
			res = "P"
		}
	}()
	b, r := parseChunkSrc("return " + explist)
	if r != "ok" {
		return r
	}
	var marks []string
	for _, e := range b.Return {
		switch e.(type) {
		case ast.FunctionCall, ast.Etc:
			marks = append(marks, "m")
		case *ast.BFunctionCall, ast.BFunctionCall, ast.BEtc:
			marks = append(marks, "p")
		default:
			marks = append(marks, "s")
		}
	}
	return strings.Join(marks, ",")
}

func multiValues() {
	var shapes [][]byte
	var rec func(cur []byte)
	rec = func(cur []byte) {
		if len(cur) > 0 {
			shapes = append(shapes, append([]byte{}, cur...))
		}
		if len(cur) == 3 {
			return
		}
		for _, c := range []byte("smp") {
			rec(append(cur, c))
		}
	}
	rec(nil)
	for _, form := range mvForms {
		for _, sh := range shapes {
			var items, codes []string
			for _, c := range sh {
				switch c {
				case 's':
					items = append(items, "v1")
					codes = append(codes, "s")
				case 'm':
					items = append(items, form.multi)
					codes = append(codes, "m3")
				default:
					items = append(items, form.paren)
					codes = append(codes, "p3")
				}
			}
			explist := strings.Join(items, ", ")
			shape := strings.Join(codes, ",")
			for _, ctx := range mvContexts {
				if ctx.name == "for-in" {
					// a 4th value would be the loop's to-be-closed variable, and 7 / 8 are not closable
					n := len(sh)
					if sh[len(sh)-1] == 'm' {
						n += 2
					}
					if n > 3 {
						continue
					}
				}
				src := mvPrelude + fmt.Sprintf(ctx.body, explist) + "\nend\nreturn main(it, 7, 8)\n"
				hlib.Emit("mv", fmt.Sprint(ctx.cap), shape, "=", runChunk(src)+"|"+ctx.name+"|"+form.name+"|"+hex.EncodeToString([]byte(src)))
			}
			hlib.Emit("mvast", shape, "=", astMarks(explist)+"|"+form.name+"|"+hex.EncodeToString([]byte("return "+explist)))
		}
	}
}

// for replays: names map to their letters, every other leaf is shown structurally
func nameBack() map[string]string {
	m := map[string]string{}
	for i, l := range nameLeaves() {
		m[l.dump] = string(rune('a' + i))
	}
	return m
}

// ---------------------------------------------------------------------------
// corrupted expressions: at which token does golua report the error?  (oracle: Spec.Grammar.firstBad)

func errIndex(src string, viaChunk bool) (res string) {
	defer func() {
		if p := recover(); p != nil {
			res = "P"
		}
	}()
	var err error
	off := 1
	if viaChunk {
		_, err = parsing.ParseChunk(scanner.New("c12", []byte("return\n"+src)))
		off = 2
	} else {
		_, err = parsing.ParseExp(scanner.New("c12", []byte(src)))
	}
	if err == nil {
		return "ok"
	}
	var pe parsing.Error
	if errors.As(err, &pe) && pe.Got != nil {
		return fmt.Sprint(pe.Got.Line - off)
	}
	return "E:?"
}

func badExps(thorough bool) {
	rng := hlib.NewRng(hlib.Seed() ^ 0xbad)
	n := 6000
	if thorough {
		n = 120000
	}
	var alphabet []tok
	for i := 0; i < 8; i++ {
		alphabet = append(alphabet, tok{byte('a' + i), string(rune('a' + i))})
	}
	for _, o := range binops {
		alphabet = append(alphabet, tok{o.code, o.lua})
	}
	alphabet = append(alphabet, tok{'2', "not"}, tok{'3', "#"}, tok{'(', "("}, tok{')', ")"}, tok{'(', "("}, tok{')', ")"})
	var gen func(d int) *node
	gen = func(d int) *node {
		if d == 0 || rng.Chance(20) {
			return atom(rng.Below(8))
		}
		if rng.Chance(25) {
			return un(rng.Below(len(unops)), gen(d-1))
		}
		return bin(rng.Below(len(binops)), gen(d-1), gen(d-1))
	}
	names := nameLeaves()
	for i := 0; i < n; i++ {
		t := gen(1 + rng.Below(4))
		setParens(t, func(int) int {
			if rng.Chance(25) {
				return 1
			}
			return 0
		}, 0)
		var ts []tok
		t.render(0, &ts, names)
		// one or two corruptions
		for k := 1 + rng.Below(2); k > 0 && len(ts) > 0; k-- {
			pos := rng.Below(len(ts) + 1)
			c := alphabet[rng.Below(len(alphabet))]
			switch rng.Below(3) {
			case 0:
				ts = append(ts[:pos:pos], append([]tok{c}, ts[pos:]...)...)
			case 1:
				if pos == len(ts) {
					pos--
				}
				ts = append(ts[:pos:pos], append([]tok{c}, ts[pos+1:]...)...)
			default:
				if pos == len(ts) {
					pos--
				}
				ts = append(ts[:pos:pos], ts[pos+1:]...)
			}
		}
		if len(ts) == 0 {
			continue
		}
		// `name (` and `) (` are calls, which this token language does not have
		callLike := false
		for j := 1; j < len(ts); j++ {
			if ts[j].code == '(' && (ts[j-1].code == ')' || ts[j-1].code >= 'a' && ts[j-1].code <= 'h') {
				callLike = true
			}
		}
		if callLike {
			continue
		}
		nl := lineBreaks[rng.Below(4)]
		var src, code strings.Builder
		for _, t := range ts {
			src.WriteString(t.lua)
			src.WriteString(nl)
			code.WriteByte(t.code)
		}
		viaChunk := rng.Bool()
		mode := "e"
		if viaChunk {
			mode = "c"
		}
		hlib.Emit("badexp", code.String(), "=", errIndex(src.String(), viaChunk)+"|"+hex.EncodeToString([]byte(src.String()))+"|"+mode)
	}
}

// ---------------------------------------------------------------------------
// function STATEMENTS: `function t.a.b:m(params) body end` is `t.a.b.m = function(self, params) body end`
// (manual §3.4.11), whatever the name chain and the parameter list.  Each form is parsed (AST of the
// desugared assignment) and run inside a vararg function, so that a wrong binding of `...` is visible.

type fparams struct {
	fixed  int
	vararg bool
}

func (p fparams) toks() []string {
	var out []string
	for i := 1; i <= p.fixed; i++ {
		if i > 1 {
			out = append(out, ",")
		}
		out = append(out, fmt.Sprintf("p%d", i))
	}
	if p.vararg {
		if p.fixed > 0 {
			out = append(out, ",")
		}
		out = append(out, "...")
	}
	return out
}

func funcStats(thorough bool) {
	rng := hlib.NewRng(hlib.Seed() ^ 0xf57)
	plists := []fparams{{0, false}, {1, false}, {2, false}, {0, true}, {1, true}, {2, true}}
	chains := [][]string{{}, {"a"}, {"a", "b"}, {"a", "b", "c"}}
	type form struct {
		kind  string // stat | local | expr
		chain []string
		colon bool
	}
	var forms []form
	for _, ch := range chains {
		forms = append(forms, form{"stat", ch, false}, form{"stat", ch, true}, form{"expr", ch, false})
	}
	forms = append(forms, form{"local", nil, false}, form{"global", nil, false})
	for _, f := range forms {
		for _, pl := range plists {
			// receiver expression t.a.b…, and the head of the definition
			recv := []string{"t"}
			for _, c := range f.chain {
				recv = append(recv, ".", c)
			}
			var head, call []string
			switch f.kind {
			case "stat":
				head = append([]string{"function"}, recv...)
				if f.colon {
					head = append(head, ":", "m")
					call = append(append([]string{}, recv...), ":", "m")
				} else {
					head = append(head, ".", "f")
					call = append(append([]string{}, recv...), ".", "f")
				}
			case "expr":
				head = append(append([]string{}, recv...), ".", "f", "=", "function")
				call = append(append([]string{}, recv...), ".", "f")
			case "local":
				head = []string{"local", "function", "lf"}
				call = []string{"lf"}
			default:
				head = []string{"function", "gf"}
				call = []string{"gf"}
			}
			// observation: self ok ×1000, p1 ok ×100, p2 ok ×10, number of extra arguments
			obs := []string{"return", "0"}
			if f.colon {
				obs = append(obs, "+", "(", "self", "==")
				obs = append(obs, recv...)
				obs = append(obs, "and", "1000", "or", "0", ")")
			}
			if pl.fixed >= 1 {
				obs = append(obs, "+", "(", "p1", "==", "11", "and", "100", "or", "0", ")")
			}
			if pl.fixed >= 2 {
				obs = append(obs, "+", "(", "p2", "==", "22", "and", "10", "or", "0", ")")
			}
			if pl.vararg {
				obs = append(obs, "+", "select", "(", "'#'", ",", "...", ")")
			}
			def := append(append([]string{}, head...), "(")
			def = append(def, pl.toks()...)
			def = append(def, ")")
			def = append(def, obs...)
			def = append(def, "end")
			prog := strings.Fields("local function outer ( ... ) local t = { a = { b = { c = { } } } }")
			prog = append(prog, def...)
			prog = append(prog, "return")
			prog = append(prog, call...)
			prog = append(prog, strings.Fields("( 11 , 22 , 33 , 44 , 55 ) end return outer ( 'X' , 'Y' )")...)
			want := 0
			if f.colon {
				want += 1000
			}
			if pl.fixed >= 1 {
				want += 100
			}
			if pl.fixed >= 2 {
				want += 10
			}
			if pl.vararg {
				want += 5 - pl.fixed
			}
			desc := fmt.Sprintf("%s/%d%v/%d/%v", f.kind, len(f.chain), f.colon, pl.fixed, pl.vararg)
			styles := []int{0, 2, 3}
			if thorough {
				styles = []int{0, 1, 2, 3, 3, 5, 6}
			}
			for _, st := range styles {
				src, _ := spellChunk(prog, st, lineBreaks[rng.Below(4)], rng)
				hlib.Emit("fstat", fmt.Sprint(want), "=", runChunk(src)+"|"+desc+"|"+hex.EncodeToString([]byte(src)))
			}
			// AST of the definition alone: destination chain, parameter names, HasDots
			defSrc, _ := spellChunk(def, 0, "\n", rng)
			wantParams := []string{}
			if f.colon {
				wantParams = append(wantParams, "self")
			}
			for i := 1; i <= pl.fixed; i++ {
				wantParams = append(wantParams, fmt.Sprintf("p%d", i))
			}
			wantAst := fmt.Sprintf("%s(%s;%v)", map[string]string{"stat": "assign", "expr": "assign", "global": "assign", "local": "localfn"}[f.kind],
				strings.Join(wantParams, ","), pl.vararg)
			hlib.Emit("fstat", wantAst, "=", fstatAst(defSrc)+"|"+desc+"|"+hex.EncodeToString([]byte(defSrc)))
		}
	}
}

func fstatAst(src string) (res string) {
	defer func() {
		if p := recover(); p != nil {
			res = "P"
		}
	}()
	b, r := parseChunkSrc(src)
	if r != "ok" {
		return r
	}
	if len(b.Stats) != 1 {
		return "?shape"
	}
	fn := func(f ast.Function) string {
		var ps []string
		for _, p := range f.Params {
			ps = append(ps, p.Val)
		}
		return fmt.Sprintf("(%s;%v)", strings.Join(ps, ","), f.HasDots)
	}
	switch st := b.Stats[0].(type) {
	case ast.AssignStat:
		if len(st.Src) == 1 {
			if f, ok := st.Src[0].(ast.Function); ok {
				return "assign" + fn(f)
			}
		}
	case ast.LocalFunctionStat:
		return "localfn" + fn(st.Function)
	}
	return fmt.Sprintf("?%T", b.Stats[0])
}

func main() {
	if len(os.Args) < 2 {
		fmt.Fprintln(os.Stderr, "usage: c12 all quick|thorough | stdin")
		os.Exit(2)
	}
	defer hlib.Out.Flush()
	switch os.Args[1] {
	case "all":
		thorough := len(os.Args) > 2 && os.Args[2] == "thorough"
		exprs(thorough)
		literals(thorough)
		errorLines(thorough)
		multiValues()
		funcStats(thorough)
		badExps(thorough)
	case "stdin":
		// lines: short s<hex> | long s<hex> | chunk <expect> s<hex> | expsrc s<hex> | retsrc s<hex>
		sc := bufio.NewScanner(os.Stdin)
		sc.Buffer(make([]byte, 1<<20), 1<<26)
		for sc.Scan() {
			f := strings.Fields(sc.Text())
			if len(f) < 2 {
				continue
			}
			arg := f[len(f)-1]
			raw, err := hex.DecodeString(strings.TrimPrefix(arg, "s"))
			if err != nil {
				fmt.Fprintln(os.Stderr, "bad hex", arg)
				os.Exit(2)
			}
			switch f[0] {
			case "short", "long":
				emitLit(f[0], string(raw))
			case "chunk":
				emitChunk(f[1], f[2], string(raw))
			case "badexpe", "badexpc":
				hlib.Emit(f[0], arg, "=", errIndex(string(raw), f[0] == "badexpc"))
			case "fstatast":
				hlib.Emit("fstatast", arg, "=", fstatAst(string(raw)))
			case "run":
				hlib.Emit("run", arg, "=", runChunk(string(raw)))
			case "expsrc":
				hlib.Emit("expsrc", arg, "=", parseExpSrc(string(raw), nameBack()))
			case "retsrc":
				hlib.Emit("retsrc", arg, "=", parseReturnExp(string(raw), nameBack()))
			case "evalsrc":
				hlib.Emit("evalsrc", arg, "=", evalSrc(string(raw)))
			}
		}
	default:
		fmt.Fprintln(os.Stderr, "unknown mode")
		os.Exit(2)
	}
}
