package main

// validCorpus: ~40 valid Lua 5.4 programs that together cover every syntactic form and most of the
// library surface that is safe under a limited context.  Each must compile and run to completion
// (checked on every run: class must be ok).  They are the seeds of the token-level mutations.
var validCorpus = []string{
	// 0 locals with attribs, multiple assignment
	`local a <const>, b = 1, 2
local c, d, e = (function() return 1, 2, 3 end)()
a1, b1 = b, a
local x, y = 1
x, y = y, x
do local z <close> = nil end
return a + b + c + d + e`,
	// 1 if / elseif / else
	`local function sign(n) if n < 0 then return -1 elseif n > 0 then return 1 else return 0 end end
local s = 0
for i = -2, 2 do s = s + sign(i) * i end
if s ~= 6 then error("bad") end
if nil then elseif false then else s = 0 end
return s`,
	// 2 while / break / repeat-until (local visible in condition)
	`local i, n = 0, 0
while true do i = i + 1 if i > 10 then break end n = n + i end
repeat local k = n % 7 n = n - 1 until k == 0
while i > 0 do i = i - 3 end
return n, i`,
	// 3 numeric for: int, float, negative step, no iteration
	`local t = {}
for i = 1, 3 do t[#t + 1] = i end
for i = 3, 1, -1 do t[#t + 1] = i end
for x = 0.5, 2.5, 0.5 do t[#t + 1] = x end
for i = 1, 0 do t[#t + 1] = "never" end
for i = math.maxinteger - 1, math.maxinteger do t[#t + 1] = i end
return #t`,
	// 4 generic for: pairs, ipairs, custom stateless iterator, closing value
	`local t = {10, 20, 30, x = 1, y = 2}
local s = 0
for k, v in pairs(t) do s = s + v end
for i, v in ipairs(t) do s = s + i * v end
local function iter(n, i) if i < n then return i + 1, i * i end end
for i, sq in iter, 5, 0 do s = s + sq end
local closed = false
local c = setmetatable({}, {__close = function() closed = true end})
for i in iter, 2, 0, c do s = s + 1 end
assert(closed)
return s`,
	// 5 goto / labels: continue, nested break-out, backward jump
	`local s = 0
for i = 1, 10 do
  if i % 2 == 0 then goto continue end
  s = s + i
  ::continue::
end
do
  local i = 1
  ::top::
  if i <= 3 then s = s + i; i = i + 1; goto top end
end
for i = 1, 3 do for j = 1, 3 do if i * j == 4 then goto out end end end
::out::
return s`,
	// 6 functions: varargs, select, pack/unpack
	`local function f(...) local a, b = ... return select("#", ...), a, b end
local function g(...) return ... end
local function h(a, b, ...) local t = {...} return #t, (g(...)) end
local n, a, b = f(1, nil, 3)
local p = table.pack(g(1, 2, nil))
local u1, u2, u3 = table.unpack({1, 2, 3}, 2)
local m = select(-1, 1, 2, 3)
return n, a, b, p.n, u1, u2, u3, m, h(1, 2, 3, 4)`,
	// 7 methods and dotted function names
	`local a = {b = {c = {}}}
function a.b.c:m(x) self.v = (self.v or 0) + x return self end
function a.b.f(x) return x * 2 end
local function loc() return a end
a.b.c:m(1):m(2)
local s = ("x"):rep(3)
return a.b.c.v, a.b.f(4), loc().b.c.v, s, #s, ("%d"):format(3)`,
	// 8 closures / upvalues / fresh loop variables
	`local function counter() local n = 0 return function() n = n + 1 return n end, function() return n end end
local inc, get = counter()
inc() inc()
local fs = {}
for i = 1, 3 do fs[i] = function() i = i + 1 return i end end
local k = 0
while k < 3 do k = k + 1 local j = k fs[#fs + 1] = function() return j end end
return get(), fs[1](), fs[1](), fs[2](), fs[4](), fs[6]()`,
	// 9 table constructors
	`local function two() return 1, 2 end
local function va(...) return {...}, {..., "x"}, {"x", ...} end
local t = {1, 2; 3, x = 1, ["y z"] = 2, [1 + 1] = "two", {nested = {deep = {}}}, two()}
local u = {two(), two()}
local v = {(two())}
local a, b, c = va(7, 8, 9)
local e = {}
local f = {[1] = 1, [2.0] = 2, [3.5] = 3, [true] = 4, [e] = 5, }
return #t, #u, #v, #a, #b, #c, f[2], f[3.5], f[true], f[e]`,
	// 10 arithmetic and bitwise operators, precedence, associativity
	`local a, b = 7, 2
local r = {a + b, a - b, a * b, a / b, a // b, a % b, a ^ b, -a, a & b, a | b, a ~ b, ~a, a << b, a >> b}
local p = 2 ^ 3 ^ 2 == 512 and -2 ^ 2 == -4 and 1 + 2 * 3 == 7 and (1 + 2) * 3 == 9
local q = 1 .. 2 .. 3 == "123" and "a" .. "b" .. "c" == "abc"
local s = 1 << 63 == math.mininteger and 1 << 64 == 0 and -1 >> 1 == math.maxinteger
local t = 7 // 0.0 == 1 / 0 and -7 // 2 == -4 and -7 % 2 == 1 and 7 % -2 == -1 and 5.5 % 2 == 1.5
local u = 3 | 4 & 5 ~ 6 << 1 == (3 | ((4 & 5) ~ (6 << 1)))
local w = not nil == true and not 0 == false and #"abc" + 1 == 4
assert(p and q and s and t and u and w)
return #r`,
	// 11 comparisons, and / or / not, short circuit
	`local calls = 0
local function f(v) calls = calls + 1 return v end
local a = f(nil) and f(1)
local b = f(false) or f(2)
local c = f(1) and f(nil) or f(3)
local d = 1 < 2 and 2 <= 2 and 3 > 2 and 3 >= 3 and 1 ~= 2 and "a" < "b" and "a" <= "a" and 1 == 1.0
local e = not (1 == "1") and not (nil == false) and "10" + 1 == 11 and 10 .. "" == "10"
local g = math.type(1) == "integer" and math.type(1.0) == "float" and math.type("1") == nil
assert(d and e and g)
return a, b, c, calls`,
	// 12 strings: escapes and long strings
	"local s = \"\\a\\b\\f\\n\\r\\t\\v\\\\\\\"\\'\\65\\065\\x41\\u{48}\\u{7FFFFFFF}\\z\n    end\"\n" +
		"local t = 'single \"double\" \\\n newline'\n" +
		"local l0 = [[long\nstring]]\nlocal l1 = [=[with ]] inside]=]\nlocal l2 = [==[\nfirst newline skipped]==]\n" +
		"local l3 = [[ ]] local l4 = [=[x]=] local l5 = [[\n\n]]\n" +
		"return #s, #t, #l0, #l1, #l2, #l3, #l4, #l5, '\\0\\00\\000' == \"\\x00\\x00\\x00\"",
	// 13 numbers
	`local t = {0, 1, 007, 3.0, 3.14, .5, 5., 1e2, 1E+2, 1e-2, 0x10, 0XfF, 0x.8, 0x8., 0x1p4, 0xA.8p-1, 0x7fffffffffffffff,
  0xffffffffffffffff, 9223372036854775807, 9223372036854775808, 1e308, 1e309, 0x1P+2, 3e0}
local n = 0
for i, v in ipairs(t) do if math.type(v) == "integer" then n = n + 1 end end
return #t, n, 1 // 1, 1.0 // 1, 2^53 == 2^53 + 1, math.maxinteger + 1 == math.mininteger, 1e15, 0.1`,
	// 14 comments
	"-- short comment\n--[[ long\ncomment ]] local a = 1 --[==[ level 2 ]] still ]==] local b = 2\n--[ not long\nlocal c = 3 ---[[ also short\n--[[\n]]-- tail\nreturn a + b + c --[[ at eof" +
		"]]",
	// 15 metatables: arithmetic / comparison / concat / len / index / newindex / call / unm / tostring
	`local mt = {}
local function V(x) return setmetatable({x = x}, mt) end
mt.__add = function(a, b) return V(a.x + b.x) end
mt.__sub = function(a, b) return V(a.x - b.x) end
mt.__mul = function(a, b) return V(a.x * (type(b) == "number" and b or b.x)) end
mt.__div = function(a, b) return V(a.x / b.x) end
mt.__mod = function(a, b) return V(a.x % b.x) end
mt.__pow = function(a, b) return V(a.x ^ b.x) end
mt.__idiv = function(a, b) return V(a.x // b.x) end
mt.__unm = function(a) return V(-a.x) end
mt.__band = function(a, b) return V(a.x & b.x) end
mt.__bor = function(a, b) return V(a.x | b.x) end
mt.__bxor = function(a, b) return V(a.x ~ b.x) end
mt.__bnot = function(a) return V(~a.x) end
mt.__shl = function(a, b) return V(a.x << b.x) end
mt.__shr = function(a, b) return V(a.x >> b.x) end
mt.__concat = function(a, b) return "cat" end
mt.__len = function(a) return 42 end
mt.__eq = function(a, b) return a.x == b.x end
mt.__lt = function(a, b) return a.x < b.x end
mt.__le = function(a, b) return a.x <= b.x end
mt.__call = function(self, y) return self.x + y end
mt.__tostring = function(a) return "V" .. a.x end
mt.__index = function(t, k) return k end
mt.__newindex = function(t, k, v) rawset(t, k, v * 2) end
mt.__name = "Vec"
local a, b = V(6), V(3)
local r = (a + b).x + (a - b).x + (a * b).x + (a * 2).x + (a // b).x + (a % b).x + (-a).x + (a & b).x + (a | b).x + (a ~ b).x + (~a).x + (a << b).x + (a >> b).x
a.y = 5
return r, (a / b).x, (a ^ b).x, a .. b, a .. "s", 1 .. a, #a, a == b, a ~= V(6), a < b, a <= b, a > b, a >= b, a(1), tostring(a), a.zzz, rawget(a, "y")`,
	// 16 coroutines
	`local co = coroutine.create(function(a, b)
  local c = coroutine.yield(a + b)
  local d, e = coroutine.yield(c * 2)
  return d + e
end)
local r = {}
r[1] = select(2, coroutine.resume(co, 1, 2))
r[2] = select(2, coroutine.resume(co, 10))
r[3] = select(2, coroutine.resume(co, 3, 4))
r[4] = coroutine.status(co)
r[5] = coroutine.resume(co)
local gen = coroutine.wrap(function() for i = 1, 3 do coroutine.yield(i) end end)
r[6] = gen() + gen() + gen()
local co2 = coroutine.create(function() local x <close> = setmetatable({}, {__close = function() r[7] = "closed" end}) coroutine.yield() end)
coroutine.resume(co2)
r[8] = coroutine.close(co2)
r[9] = coroutine.isyieldable()
r[10] = coroutine.running() ~= nil
r[11] = select(2, pcall(coroutine.wrap(function() error("in co") end)))
return r[1], r[2], r[3], r[4], r[5], r[6], r[7], r[8], r[9], r[10]`,
	// 17 errors: pcall / error / xpcall / error objects / levels
	`local ok1, e1 = pcall(error, "msg")
local ok2, e2 = pcall(error, {code = 1})
local ok3, e3 = pcall(error)
local ok4, e4 = pcall(function() local x = nil; return x.y end)
local ok5, e5 = pcall(function() return 1 + {} end)
local ok6, e6 = pcall(function() return #5 end)
local ok7, e7 = pcall(function() return {} < {} end)
local ok8, e8 = pcall(function() error("lvl2", 2) end)
local ok9, e9 = xpcall(function() error("x") end, function(m) return "handled: " .. tostring(m) end)
local ok10, e10 = xpcall(function(a, b) return a + b end, print, 1, 2)
local ok11, e11 = pcall(pcall)
local ok12, e12 = pcall(function() undefinedfunction() end)
local ok13, e13 = pcall(string.rep)
local ok14, e14 = pcall(setmetatable, 1, 2)
assert(not ok1 and not ok2 and not ok3 and not ok4 and not ok5 and not ok6 and not ok7 and not ok8 and not ok9 and ok10)
return e1, e2.code, e3, type(e4), type(e5), e9, e10, ok11, type(e12)`,
	// 18 string library incl. patterns
	`local s = "hello world from Lua 5.4"
local r = {}
r[#r + 1] = s:len() + #s:upper() + #s:lower()
r[#r + 1] = s:sub(1, 5) .. s:sub(-3) .. s:sub(7, -10) .. s:sub(100) .. s:sub(-100, 2)
r[#r + 1] = s:find("world") + select(2, s:find("o w", 1, true))
r[#r + 1] = s:match("(%a+) (%a+)") .. (s:match("%d+%.%d+") or "")
r[#r + 1] = s:gsub("o", "0") .. select(2, s:gsub("%w+", "%0 %0", 2))
r[#r + 1] = s:gsub("(%w+) (%w+)", "%2 %1", 1)
r[#r + 1] = s:gsub("%w+", {hello = "bye", world = false})
r[#r + 1] = s:gsub("l+", function(m) return #m end)
local words = {}
for w in s:gmatch("%a+") do words[#words + 1] = w end
for k, v in ("a=1, b=2"):gmatch("(%w+)=(%w+)") do words[#words + 1] = k .. v end
r[#r + 1] = table.concat(words, ",")
r[#r + 1] = s:byte(1) + select("#", s:byte(1, -1)) + #string.char(104, 105)
r[#r + 1] = ("x"):rep(3, "-") .. ("ab"):reverse() .. ("%5.2f|%-5d|%05d|%x|%X|%o|%e|%g|%q|%s|%c|%%|%i|%a"):format(3.14159, 42, 42, 255, 255, 8, 1e10, 0.1, "q\n", nil, 65, 7, 1)
r[#r + 1] = ("  trim  "):match("^%s*(.-)%s*$") .. ("f(a(b)c)d"):match("%b()") .. ("THE (quick) fox"):find("%((%a+)%)") .. ("key = value"):match("^(%w+)%s*=%s*(%w+)$")
r[#r + 1] = ("abc"):find("b", -10) + ("aXb"):find("%u") + (("x"):find("") or 0) + ("hello"):match(".-(l+)(.*)"):len() + #("%f[%w]%w+"):rep(2)
r[#r + 1] = ("hello world"):gsub("%f[%w]%w+", string.upper) .. ("a.b"):gsub("%.", "%%") .. ("abc"):gsub("", "-")
r[#r + 1] = tostring(("x"):find("[a-z]")) .. tostring(("]"):find("[]]")) .. tostring(("^"):find("[%^]")) .. tostring(("-"):find("[a%-z]")) .. tostring(("\0"):find("%z"))
return #r, r[2], r[9]`,
	// 19 table library
	`local t = {5, 2, 8, 1, 9, 3}
table.sort(t)
table.sort(t, function(a, b) return a > b end)
table.insert(t, 7) table.insert(t, 1, 0) table.insert(t, #t + 1, 100)
local r1 = table.remove(t) local r2 = table.remove(t, 1) local r3 = table.remove({}, 0)
local c = table.concat(t, ",") .. table.concat(t, "", 2, 3) .. table.concat({}, "x") .. table.concat({1, 2.5, "s"}, "-")
local m = table.move({1, 2, 3}, 1, 3, 2) local m2 = table.move({1, 2, 3}, 2, 3, 1, {})
local p = table.pack() local u = {table.unpack({1, 2, nil, 4}, 1, 4)}
local words = {"banana", "apple", "Cherry", "date"} table.sort(words)
local proxy = setmetatable({}, {__index = function(_, i) if i <= 3 then return i * 10 end end, __len = function() return 3 end})
return c, r1, r2, r3, #m, #m2, p.n, #u, words[1], table.concat(proxy, "+"), table.unpack(proxy)`,
	// 20 math library
	`local r = {math.abs(-3), math.ceil(2.1), math.floor(-2.1), math.max(1, 5, 3), math.min(2, -1), math.sqrt(16), math.pi, math.huge, -math.huge,
  math.fmod(7, 3), math.fmod(-7, 3), math.tointeger(3.0), math.tointeger(3.5), math.tointeger("8"), math.type(2^31), math.ult(1, -1),
  math.exp(0), math.log(8, 2), math.log(100, 10), math.log(1), math.sin(0), math.cos(0), math.tan(0), math.asin(0), math.acos(1), math.atan(1, 1),
  math.modf(3.7), math.modf(-3.7), math.maxinteger // -1, math.mininteger // -1, math.mininteger % -1, 5 // 0.0, -5 % math.huge, 0/0 ~= 0/0,
  math.floor(2^62) == 2^62, math.ceil(-0.0), 3 % -2, 3.0 % -2, math.abs(math.mininteger), math.tointeger(2^63)}
math.randomseed(42) local x = math.random() local y = math.random(10) local z = math.random(5, 6)
assert(x >= 0 and x < 1 and y >= 1 and y <= 10 and z >= 5 and z <= 6)
assert(not pcall(math.random, 2, 1) and not pcall(math.floor, "x"))
return #r`,
	// 21 recursion, tail calls, mutual recursion
	`local function fib(n) if n < 2 then return n end return fib(n - 1) + fib(n - 2) end
local function loop(n, acc) if n == 0 then return acc end return loop(n - 1, acc + n) end
local even, odd
function even(n) if n == 0 then return true end return odd(n - 1) end
function odd(n) if n == 0 then return false end return even(n - 1) end
local function depth(n) if n == 0 then return 0 end return 1 + depth(n - 1) end
local Y = function(f) return (function(x) return x(x) end)(function(x) return f(function(...) return x(x)(...) end) end) end
local fact = Y(function(self) return function(n) if n == 0 then return 1 end return n * self(n - 1) end end)
return fib(15), loop(10000, 0), even(1001), depth(150), fact(10)`,
	// 22 load with string / reader / env / mode; dump
	`local f = load("return 1 + 1")
local g = load("local a, b = ... return a * b")
local parts = {"return ", "10", " + ", "5", nil}
local i = 0
local h = load(function() i = i + 1 return parts[i] end)
local env = {x = 5}
local k = load("x = x + 1 return x", "chunk", "t", env)
local bad, err = load("return +")
local bad2, err2 = load("x = = 1", "=name")
local bad3, err3 = load(function() error("reader fails") end)
local bad4, err4 = load(function() return 1 end)
local bad5, err5 = load("return 1", "c", "b")
local d = string.dump(function(a) return a + 1 end)
local l = load(d, "d", "b")
local ok6, err6 = pcall(load, "goto nowhere")
return f(), g(6, 7), h(), k(), env.x, bad, type(err), bad2, bad3, bad4, bad5, l(41), ok6`,
	// 23 utf8 library
	`local s = "héllo wörld ✓"
local n = 0
for p, c in utf8.codes(s) do n = n + c end
local r = {utf8.len(s), utf8.char(72, 228, 8364, 0x10FFFF), utf8.codepoint(s, 1, 3), utf8.offset(s, 3), utf8.offset(s, -1), utf8.len("\xff"), utf8.charpattern,
  utf8.len(s, 3), utf8.len("", 1), pcall(utf8.codepoint, s, 3), utf8.char(), utf8.len("abc", 4), pcall(utf8.len, "abc", 5), utf8.offset("abc", 0, 2)}
for _, c in utf8.codes("") do n = n + 1 end
assert(not pcall(function() for _ in utf8.codes("\xff") do end end))
return n, #r`,
	// 24 semicolons, empty statements, trailing label, return forms
	`;;; local a = 1; ; local b = 2;
do ; end
local function f() return end
local function g() return; end
local function h() return (f()) end
local function k() do return 1, 2 end end
local t = {f(), g(), h()}
do goto e; ::e:: end
do ::l1:: ::l2:: end
return a + b, select("#", f()), select("#", h()), #t;`,
	// 25 scoping and shadowing
	`local x = 1
do local x = x + 1; do local x = x + 1; assert(x == 3) end assert(x == 2) end
local function f(x) local x = x or 10 return x end
for x = 1, 2 do local x = x * 2 end
local y = 1 local y = y + 1 local y = y + 1
local function outer() local a = 1 local function mid() local function inner() a = a + 1 return a end return inner end return mid()() end
z = 5 local z = z + 1
local _ENV = {assert = assert, z2 = 1}
z2 = z2 + 1
assert(z2 == 2)
return x, y, z`,
	// 26 call syntax sugar
	`local function f(...) return select("#", ...), ... end
local o = {m = function(self, a) return a end}
local t = {f"str", f'str', f[[long]], f{1, 2}, f(), f(nil), f(f()), (f(1, 2)), o:m"x", o:m{1}, o.m(o, 2), o["m"](o, 3), f
(1)}
local s = ("a"):upper():lower():rep(2)
local q = #"abc" + #[[ab]] + #{1, 2}
local chain = string.format("%s", "x"):rep(2):len()
return #t, s, q, chain, type(f"a" == 1), ({1, 2, 3})[2], (function() return 4 end)(), ("x"):byte()`,
	// 27 integer / float semantics
	`local r = {math.maxinteger + 1 == math.mininteger, math.mininteger - 1 == math.maxinteger, math.maxinteger * 2 == -2,
  1 // 0.0, -1 // 0.0, 0.0 / 0.0 ~= 0.0 / 0.0, 3 / 2, 4 / 2, 2 ^ 2, 7 // 2, 7.0 // 2, -7 // 2, 7 % 3, -7 % 3, 7 % -3, 7.5 % 2,
  1e100 // 1, 5 // 0.5, 1 < 1.5, 1 == 1.0, math.maxinteger < math.huge, math.mininteger > -math.huge, 2^53 + 1.0 == 2^53,
  "0x10" + 0, "1e1" + 0, " 5 " + 0, 10 == "10", "abc" < "abd", "" < "a", "a" < "B", 255 // 1 | 0, 3.0 | 0, "7" // 2,
  1 << 62, 1 << 63, 1 << 64, 1 << -1, -1 >> 63, -1 >> 64, 5 & -1, ~0, 3 ~ 5, math.tointeger(-0.0)}
assert(not pcall(function() return 1 // 0 end) and not pcall(function() return 1 % 0 end) and not pcall(function() return 1.5 | 0 end))
assert(not pcall(function() return "a" + 1 end) and not pcall(function() return 2^63 | 0 end) and not pcall(function() return {} .. "" end))
for i = math.maxinteger - 2, math.maxinteger do r[#r + 1] = i end
for i = math.mininteger + 2, math.mininteger, -1 do r[#r + 1] = i end
for i = 1, 3 do local j = i // 1 | 0 r[#r + 1] = j end
return #r, tostring(1e15), tostring(2^63), tostring(-0.0), tostring(1/0), tostring(3) == "3", tostring(3.0) == "3.0", 10 // 3 .. ""`,
	// 28 varargs in main chunk and nested
	`local a, b = ...
local n = select("#", ...)
local function outer(...)
  local function inner(...) return select("#", ...) end
  return inner(...), inner(..., 1), inner(1, ...), inner((...))
end
local t = {n = select("#", ...), ...}
local p = table.pack(outer(1, 2, 3))
return n, a, b, p.n, p[1], p[2], p[3], p[4], #t`,
	// 29 to-be-closed variables
	`local log = {}
local function C(n) return setmetatable({}, {__close = function(self, e) log[#log + 1] = n .. (e and ":" .. tostring(e) or "") end}) end
do local a <close> = C("a") local b <close> = C("b") local c <close> = nil local d <close> = false end
for i = 1, 2 do local x <close> = C("loop" .. i) if i == 2 then break end end
local function f() local x <close> = C("f") return "ret" end
f()
pcall(function() local x <close> = C("err") error("boom", 0) end)
local function g() local x <close> = C("tail") return f() end
g()
for i = 1, 3 do local y <close> = C("goto" .. i) if i < 3 then goto cont end do break end ::cont:: end
assert(not pcall(function() local bad <close> = 42 end))
local co = coroutine.wrap(function() local z <close> = C("co") coroutine.yield(1) return 2 end)
co() co()
pcall(function() local p <close> = C("p1") local q <close> = setmetatable({}, {__close = function() error("in close", 0) end}) end)
return #log, table.concat(log, " ")`,
	// 30 finalisers and weak tables (collectgarbage itself is not available in a limited context)
	`local n = 0
do
  for i = 1, 10 do setmetatable({}, {__gc = function() n = n + 1 end}) end
end
local weak = setmetatable({}, {__mode = "k"})
weak[{}] = 1
local wv = setmetatable({}, {__mode = "v"})
wv[1] = {}
local wkv = setmetatable({}, {__mode = "kv"})
wkv[{}] = {}
local m = setmetatable({}, {__gc = function() error("in gc") end})
m = nil
local junk = {} for i = 1, 2000 do junk[i % 10 + 1] = {i, tostring(i)} end
return type(n), not pcall(collectgarbage, "bogus option")`,
	// 31 basic functions: next, raw*, type, tostring, tonumber, select, ipairs stopping, getmetatable protection
	`local t = {1, 2, nil, 4, a = 1}
local k, v = next(t) local k2 = next({}) local k3 = next(t, "a")
local r = {rawlen(t), rawlen("abc"), rawequal(t, t), rawequal("a", "a"), rawget(t, "a"), rawset(t, "b", 2) == t,
  type(nil), type(1), type("s"), type({}), type(print), type(coroutine.create(print)),
  tostring(nil), tostring(true), tostring(12), tostring(1.5), tostring("s"), tostring(print):sub(1, 8), tostring({}):sub(1, 5),
  tonumber("10"), tonumber("0x1p4"), tonumber("  12  "), tonumber("1e1"), tonumber("z", 36), tonumber("ff", 16), tonumber("8", 8), tonumber("1.5e"), tonumber(""), tonumber("0x"),
  tonumber(nil), tonumber("10", 2), tonumber("7fffffffffffffff", 16), tonumber("-ff", 16), tonumber({}), tonumber("1 2"), tonumber("１"),
  select("#"), select("#", nil, nil), select(2, "a", "b", "c"), select(-2, "a", "b", "c")}
local c = 0 for i, v in ipairs(t) do c = c + 1 end
local p = setmetatable({}, {__metatable = "locked"})
assert(getmetatable(p) == "locked" and not pcall(setmetatable, p, {}))
assert(getmetatable("").__index == string)
assert(not pcall(next, t, "nokey") and not pcall(rawset, 1, 2, 3) and not pcall(tonumber, "1", 99) and not pcall(select, 0) and not pcall(rawlen, 5) and not pcall(ipairs))
local pp = setmetatable({}, {__pairs = function(t) return function(_, k) if not k then return 1, "one" end end, t, nil end})
for k, v in pairs(pp) do c = c + k end
print() print(nil, 1, "x", {})
return c, k ~= nil, v, k2, k3`,
	// 32 string.pack / unpack / packsize
	`local p = string.pack("<i4 >I2 b B h H l j J T f d n s1 s2 z x", 1, 2, -3, 4, -5, 6, 7, 8, 9, 10, 1.5, 2.5, 3.5, "ab", "cd", "ef")
local r = {string.unpack("<i4 >I2 b B h H l j J T f d n s1 s2 z x", p)}
local sz = string.packsize("<i4 >I2 b B h H l j J T f d n") + string.packsize("!8 i1 i8") + string.packsize("=i3 Xi4")
local q = string.pack("i16", -1) .. string.pack(">I3", 0x010203) .. string.pack("c5", "ab") .. string.pack("!4 i1 !2 i4", 1, 2)
assert(not pcall(string.pack, "i17", 1) and not pcall(string.pack, "i1", 200) and not pcall(string.unpack, "i4", "abc") and not pcall(string.pack, "q", 1))
assert(not pcall(string.unpack, "z", "abc") and not pcall(string.unpack, "s1", "\5ab") and not pcall(string.packsize, "s") and not pcall(string.pack, "z", "a\0b"))
assert(string.unpack("<I2", "\1\2", -2) == 513 and not pcall(string.unpack, "b", "a", 3) and select("#", string.unpack("", "")) == 1)
return #p, #r, sz, #q`,
	// 33 deep-ish nesting of every bracket kind
	`local t = {{{{{{{{{{1}}}}}}}}}}
local v = ((((((((((t[1][1][1][1][1][1][1][1][1][1]))))))))))
local function f() return function() return function() return function() return v end end end end
do do do do do v = v + f()()()() end end end end end
if v then if v then if v then if v then v = v + 1 else v = 0 end end end end
while true do while true do while true do break end break end break end
repeat repeat repeat until true until true until true
for i = 1, 1 do for j = 1, 1 do for k = 1, 1 do v = v + i + j + k end end end
local s = - - - -v + (not not not nil and 1 or 0) + #{#{#{}}} + ~ ~ ~ ~v
local c = "a" .. "b" .. "c" .. "d" .. "e" .. 1 .. 2 .. 3.5
local x = 1 + 2 - 3 * 4 / 5 // 6 % 7 ^ 8 ^ 9 .. "" == "" and 1 < 2 == true ~= false
return v, s, c, x`,
	// 34 many locals, upvalues, arguments, returns, list items (below every limit)
	`local a1, a2, a3, a4, a5, a6, a7, a8, a9, a10, a11, a12, a13, a14, a15, a16, a17, a18, a19, a20 = 1, 2, 3, 4, 5, 6, 7, 8, 9, 10, 11, 12, 13, 14, 15, 16, 17, 18, 19, 20
local function up() return a1 + a2 + a3 + a4 + a5 + a6 + a7 + a8 + a9 + a10 + a11 + a12 + a13 + a14 + a15 + a16 + a17 + a18 + a19 + a20 end
local function many(p1, p2, p3, p4, p5, p6, p7, p8, p9, p10, p11, p12, ...) return p12, p11, p10, p9, p8, p7, p6, p5, p4, p3, p2, p1, ... end
local t = {many(1, 2, 3, 4, 5, 6, 7, 8, 9, 10, 11, 12, 13, 14, 15, 16, 17, 18, 19, 20, 21, 22, 23, 24, 25, 26, 27, 28, 29, 30)}
local big = {1, 2, 3, 4, 5, 6, 7, 8, 9, 10, 11, 12, 13, 14, 15, 16, 17, 18, 19, 20, 21, 22, 23, 24, 25, 26, 27, 28, 29, 30, 31, 32, 33, 34, 35, 36, 37, 38, 39, 40, 41, 42, 43, 44, 45, 46, 47, 48, 49, 50, 51, 52, 53, 54, 55, 56, 57, 58, 59, 60, 61, 62, 63, 64, table.unpack(t)}
return up(), #t, #big, select("#", table.unpack(big))`,
	// 35 metamethod edge cases: __index chains, __newindex tables, __call chains, __eq on different types, inherited
	`local base = {greet = function() return "hi" end}
local mid = setmetatable({}, {__index = base})
local obj = setmetatable({}, {__index = mid})
local store = {}
local w = setmetatable({}, {__newindex = store})
w.k = 1
local callable = setmetatable({}, {__call = setmetatable({}, {__call = function(self, inner, x) return x end})})
local e1 = setmetatable({}, {__eq = function() return true end})
local e2 = setmetatable({}, {__eq = function() return false end})
local lt = setmetatable({}, {__lt = function() return 1 end, __le = function() return nil end})
local cc = setmetatable({}, {__concat = function(a, b) return type(a) .. type(b) end})
local idx = setmetatable({}, {__index = function(t, k) return k .. "!" end})
local ln = setmetatable({}, {__len = function() return "notnumber" end})
local ts = setmetatable({}, {__tostring = function() return "custom" end, __name = "MyType"})
local okts = pcall(tostring, setmetatable({}, {__tostring = function() return 1 end}))
return obj.greet(), rawget(w, "k"), store.k, callable(7), e1 == e2, e2 == e1, e1 == 1, lt < lt, lt <= lt, cc .. 1, 1 .. cc, cc .. cc, idx.x, idx[1], #ln, tostring(ts)`,
	// 36 operators on strings & coercions in for / concat / comparisons errors caught
	`local r = {}
for i = "1", "3" do r[#r + 1] = i end
r[#r + 1] = pcall(function() for i = 1, "x" do end end)
r[#r + 1] = pcall(function() for i = 1, 10, 0 do end end)
r[#r + 1] = pcall(function() return 1 < "2" end)
r[#r + 1] = pcall(function() return {} == {} end)
r[#r + 1] = pcall(function() return nil .. "x" end)
r[#r + 1] = pcall(function() local t = nil; t.x = 1 end)
r[#r + 1] = pcall(function() local t = {} t[nil] = 1 end)
r[#r + 1] = pcall(function() local t = {} t[0/0] = 1 end)
r[#r + 1] = pcall(function() return -{} end)
r[#r + 1] = pcall(function() return ("x")() end)
r[#r + 1] = pcall(function() return math.maxinteger // 0 end)
r[#r + 1] = pcall(string.format, "%d", 1.5)
r[#r + 1] = pcall(string.format, "%d", "1")
r[#r + 1] = pcall(string.rep, "x", -1)
return #r`,
	// 37 upvalues shared between closures and coroutines, loops with closures and break
	`local function mk()
  local shared = 0
  local function a() shared = shared + 1 return shared end
  local function b() shared = shared * 2 return shared end
  local co = coroutine.wrap(function() while true do shared = shared + 10 coroutine.yield(shared) end end)
  return a, b, co
end
local a, b, co = mk()
local r = {a(), b(), co(), a(), co(), b()}
local fns = {}
for i = 1, 5 do
  local j = i
  fns[#fns + 1] = function() j = j + 1 return i, j end
  if i == 3 then break end
end
local x, y = fns[3]()
local function curry(f, n, ...) local args = {...} if #args >= n then return f(...) end return function(...) local all = {table.unpack(args)} for _, v in ipairs({...}) do all[#all + 1] = v end return curry(f, n, table.unpack(all)) end end
return r[6], x, y, curry(function(a, b, c) return a + b + c end, 3)(1)(2)(3)`,
	// 38 attribs const errors are compile-time; labels visibility; integer keys normalisation
	`local K <const> = 10
local t = {}
t[1.0] = "a" t[2^53] = "b" t[-1.0] = "z"
t["1"] = "s"
local n = 0 for _ in pairs(t) do n = n + 1 end
local bad1 = load("local x <const> = 1; x = 2")
local bad2 = load("goto l1; local a; ::l1:: print(a)")
local bad3 = load("break")
local bad4 = load("::a:: ::a::")
local bad5 = load("local x <foo> = 1")
local bad6 = load("local a <close>, b <close> = 1, 2")
local bad7 = load("for i = 1 do end")
local bad8 = load("x = }")
local bad9 = load("return ... ")
local bad10 = load("function f() return ... end")
return K, t[1], t[2^53 | 0], t[-1], n, bad1, bad2, bad3, bad4, bad5, bad6, bad7, bad8, bad9 ~= nil, bad10`,
	// 39 a mixed "realistic" program: queue, class, string building, memoisation
	`local Queue = {} Queue.__index = Queue
function Queue.new() return setmetatable({first = 1, last = 0, items = {}}, Queue) end
function Queue:push(v) self.last = self.last + 1 self.items[self.last] = v end
function Queue:pop() if self.first > self.last then return nil end local v = self.items[self.first] self.items[self.first] = nil self.first = self.first + 1 return v end
local q = Queue.new() for i = 1, 20 do q:push(i * i) end
local sum = 0 while true do local v = q:pop() if not v then break end sum = sum + v end
local memo = setmetatable({}, {__mode = "k", __index = function(t, k) local v = k * 2 rawset(t, k, v) return v end})
local parts = {} for i = 1, 10 do parts[#parts + 1] = ("%02d:%s"):format(i, memo[i]) end
local Animal = {} Animal.__index = Animal
function Animal.new(name, sound) return setmetatable({name = name, sound = sound}, Animal) end
function Animal:speak() return self.name .. " says " .. self.sound end
local Dog = setmetatable({}, {__index = Animal}) Dog.__index = Dog
function Dog.new(name) local d = Animal.new(name, "woof") return setmetatable(d, Dog) end
function Dog:fetch() return self.name .. " fetches" end
local d = Dog.new("Rex")
local grid = {} for y = 1, 5 do grid[y] = {} for x = 1, 5 do grid[y][x] = (x + y) % 2 end end
local cnt = 0 for _, row in ipairs(grid) do for _, c in ipairs(row) do cnt = cnt + c end end
return sum, table.concat(parts, " "), d:speak(), d:fetch(), cnt`,
}
