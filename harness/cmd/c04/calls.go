package main

import (
	"bufio"
	"fmt"
	"os"
	"sort"
	"strconv"
	"strings"
	"syscall"
	"time"

	rt "github.com/arnodel/golua/runtime"
	"verifharness/hlib"
)

// pool: the edge-value pool of DESIGN §13 as Lua expressions (evaluated afresh for every call so
// that mutation by one call cannot leak into the next).
var pool = []struct{ name, expr string }{
	{"nil", "nil"}, {"true", "true"}, {"false", "false"},
	{"0", "0"}, {"-0.0", "-0.0"}, {"1", "1"}, {"-1", "-1"}, {"2^31", "1 << 31"}, {"2^53", "1 << 53"},
	{"maxint", "math.maxinteger"}, {"minint", "math.mininteger"}, {"0.5", "0.5"}, {"inf", "1/0"}, {"-inf", "-1/0"}, {"nan", "0/0"},
	{"''", `""`}, {"'a'", `"a"`}, {"'10'", `"10"`}, {"'0x10'", `"0x10"`}, {"'_7_'", `" 7 "`}, {"s300", `("x"):rep(300)`},
	{"'\\0'", `"\0"`}, {"'%'", `"%"`}, {"'['", `"["`}, {"'%b'", `"%b"`},
	{"{}", "{}"}, {"{1,2,3}", "{1, 2, 3}"}, {"MT", "MT()"}, {"PROXY", "PROXY()"},
	{"luafn", "function(...) return ... end"}, {"gofn", "print"},
	{"co-susp", "CO_S()"}, {"co-dead", "CO_D()"}, {"file", "FILE()"},
}

const poolPrelude = `
local names = {"__index", "__newindex", "__call", "__add", "__sub", "__mul", "__div", "__mod", "__pow", "__unm", "__idiv", "__band", "__bor", "__bxor",
  "__shl", "__shr", "__bnot", "__concat", "__len", "__eq", "__lt", "__le", "__tostring", "__close", "__gc", "__pairs", "__name", "__mode", "__metatable"}
function MT() local mt = {} for _, n in ipairs(names) do mt[n] = function(...) return ... end end return setmetatable({}, mt) end
function PROXY() return setmetatable({}, {__len = function() return 1 << 40 end, __index = function(t, i) return i end, __newindex = function() end, __name = 7, __tostring = function() return 5 end}) end
function CO_S() local co = coroutine.create(function(...) while true do coroutine.yield(...) end end) coroutine.resume(co, 1) return co end
function CO_D() local co = coroutine.create(function() end) coroutine.resume(co) return co end
function FILE() return IOOPEN("pool.txt", "w+") end
`

type goFn struct {
	path string
	fn   rt.Value
}

// enumerate every Go function reachable from _G (this includes package.loaded.*) and from the
// metatables of strings, files, contexts; one path per distinct function (the smallest).
func enumerateGoFunctions(r *rt.Runtime) []goFn {
	best := map[*rt.GoFunction]string{}
	vals := map[*rt.GoFunction]rt.Value{}
	seen := map[*rt.Table]bool{}
	type item struct {
		v     rt.Value
		path  string
		depth int
	}
	var queue []item
	// breadth first, so that every function gets (one of) its shortest paths: string.format rather
	// than _VERSION<mt>.__index.format
	walk := func(v rt.Value, path string, depth int) { queue = append(queue, item{v, path, depth}) }
	visit := func(v rt.Value, path string, depth int) {
		if c, ok := v.TryCallable(); ok {
			if g, ok := c.(*rt.GoFunction); ok {
				if _, ok := best[g]; !ok {
					best[g] = path
					vals[g] = v
				}
			}
			return
		}
		t, ok := v.TryTable()
		if !ok || depth > 6 {
			if mt := r.RawMetatable(v); mt != nil && !seen[mt] {
				walk(rt.TableValue(mt), path+"<mt>", depth+1)
			}
			return
		}
		if seen[t] {
			return
		}
		seen[t] = true
		type kv struct {
			k string
			v rt.Value
		}
		var items []kv
		k := rt.NilValue
		for {
			nk, nv, ok := t.Next(k)
			if !ok || nk.IsNil() {
				break
			}
			k = nk
			if s, ok := nk.TryString(); ok {
				items = append(items, kv{s, nv})
			}
		}
		sort.Slice(items, func(i, j int) bool { return items[i].k < items[j].k })
		for _, it := range items {
			p := it.k
			if path != "" {
				p = path + "." + it.k
			}
			walk(it.v, p, depth+1)
		}
		if mt := t.Metatable(); mt != nil {
			walk(rt.TableValue(mt), path+"<mt>", depth+1)
		}
	}
	drain := func() {
		for len(queue) > 0 {
			it := queue[0]
			queue = queue[1:]
			visit(it.v, it.path, it.depth)
		}
	}
	g := r.GlobalEnv()
	walk(rt.TableValue(g), "", 0)
	drain()
	// metatables of standard values
	if v := evalLua(r, `return getmetatable("")`); !v.IsNil() {
		walk(v, `("")<mt>`, 1)
	}
	if v := evalLua(r, `return io and io.stdout`); !v.IsNil() {
		walk(v, "io.stdout", 1)
	}
	if v := evalLua(r, `return runtime and runtime.context()`); !v.IsNil() {
		walk(v, "runtime.context()", 1)
	}
	if v := evalLua(r, `return runtime and runtime.context().kill`); !v.IsNil() {
		walk(v, "runtime.context().kill", 1)
	}
	drain()
	var out []goFn
	for g, p := range best {
		out = append(out, goFn{p, vals[g]})
	}
	sort.Slice(out, func(i, j int) bool { return out[i].path < out[j].path })
	return out
}

func evalLua(r *rt.Runtime, src string) rt.Value {
	clos, err := r.CompileAndLoadLuaChunk("eval", []byte(src), rt.TableValue(r.GlobalEnv()))
	if err != nil {
		return rt.NilValue
	}
	term := rt.NewTerminationWith(nil, 0, true)
	if err := rt.Call(r.MainThread(), rt.FunctionValue(clos), nil, term); err != nil || len(term.Etc()) == 0 {
		return rt.NilValue
	}
	return term.Etc()[0]
}

// argument tuples: index space per function
//
//	[0, 1)                 ()
//	[1, 1+P)               (a)
//	[1+P, 1+P+P*P)         (a, b)         quick: exhaustive too
//	then nSampled tuples of length 3 or 4 drawn from the seed
type callPlan struct {
	fns      []string
	perFn    int
	nSampled int
	nPairs   int // number of arity-2 tuples run per function (P*P = exhaustive)
	tier     string
}

func buildCallPlan(tier string, fns []goFn) *callPlan {
	p := &callPlan{tier: tier}
	for _, f := range fns {
		p.fns = append(p.fns, f.path)
	}
	P := len(pool)
	p.nSampled = 60
	p.nPairs = 150
	if tier == "thorough" {
		p.nSampled = 12000
		p.nPairs = P * P
	}
	p.perFn = 1 + P + p.nPairs + p.nSampled
	return p
}

// witness tuples of recorded defects: always run (the quick tier only samples the pairs)
var witnessTuples = map[string][]string{
	"debug.setmetatable": {"file", "{}"},
}

func poolIndex(name string) int {
	for k, p := range pool {
		if p.name == name {
			return k
		}
	}
	return 0
}

func (p *callPlan) tuple(fnIdx, i int) []int {
	P := len(pool)
	switch {
	case i == 0:
		if w, ok := witnessTuples[p.fns[fnIdx]]; ok && p.nPairs < P*P {
			var t []int
			for _, n := range w {
				t = append(t, poolIndex(n))
			}
			return t
		}
		return nil
	case i < 1+P:
		return []int{i - 1}
	case i < 1+P+p.nPairs:
		j := i - 1 - P
		if p.nPairs < P*P {
			// quick tier: a seeded subset of the pairs
			rng := hlib.NewRng(hlib.Seed()*999983 + uint64(fnIdx)*104729 + uint64(j))
			j = rng.Below(P * P)
		}
		return []int{j / P, j % P}
	}
	rng := hlib.NewRng(hlib.Seed()*1000003 + uint64(fnIdx)*7919 + uint64(i))
	n := 3 + rng.Below(2)
	t := make([]int, n)
	for k := range t {
		t[k] = rng.Below(P)
	}
	return t
}

// restricted first arguments for functions that start processes
var processArgs = []string{"nil", `"true"`, `"echo x"`, "true", "{}", "print", "MT()"}
var processArgNames = []string{"nil", "'true'", "'echo_x'", "true", "{}", "gofn", "MT"}

func isProcessFn(path string) bool {
	return path == "io.popen" || path == "os.execute"
}

func skipFn(path string) bool {
	return path == "os.exit"
}

var callLimits = rt.RuntimeResources{Cpu: 1_000_000, Memory: 64 << 20}

type callEnv struct {
	r       *rt.Runtime
	cleanup func()
	mk      []rt.Value // constructor closures, one per pool entry
	mkProc  []rt.Value
	fns     map[string]rt.Value
}

func newCallEnv() *callEnv {
	r, cleanup := hlib.NewRuntime(devNull())
	e := &callEnv{r: r, cleanup: cleanup, fns: map[string]rt.Value{}}
	for _, f := range enumerateGoFunctions(r) {
		e.fns[f.path] = f.fn
	}
	var sb strings.Builder
	sb.WriteString("local IOOPEN = io.open\n")
	sb.WriteString(poolPrelude)
	sb.WriteString("return {")
	for _, p := range pool {
		sb.WriteString("function() return " + p.expr + " end,\n")
	}
	sb.WriteString("}, {")
	for _, p := range processArgs {
		sb.WriteString("function() return " + p + " end,\n")
	}
	sb.WriteString("}")
	clos, err := r.CompileAndLoadLuaChunk("pool", []byte(sb.String()), rt.TableValue(r.GlobalEnv()))
	if err != nil {
		fmt.Fprintln(os.Stderr, "pool does not compile:", err)
		os.Exit(2)
	}
	term := rt.NewTerminationWith(nil, 0, true)
	if err := rt.Call(r.MainThread(), rt.FunctionValue(clos), nil, term); err != nil {
		fmt.Fprintln(os.Stderr, "pool does not run:", err)
		os.Exit(2)
	}
	tbl := func(v rt.Value) []rt.Value {
		t, _ := v.TryTable()
		var out []rt.Value
		for i := int64(1); ; i++ {
			x := t.Get(rt.IntValue(i))
			if x.IsNil() {
				break
			}
			out = append(out, x)
		}
		return out
	}
	e.mk = tbl(term.Etc()[0])
	e.mkProc = tbl(term.Etc()[1])
	return e
}

func (e *callEnv) build(mk rt.Value) (rt.Value, error) {
	term := rt.NewTerminationWith(nil, 0, true)
	if err := rt.Call(e.r.MainThread(), mk, nil, term); err != nil {
		return rt.NilValue, err
	}
	if len(term.Etc()) == 0 {
		return rt.NilValue, nil
	}
	return term.Etc()[0], nil
}

// call runs fn(args...) under a limited context (and, if the function is refused there because it
// lacks compliance flags, once more at the root context).
func (e *callEnv) call(fn rt.Value, args []rt.Value) (cls, detail, flags string) {
	run := func(limited bool) (string, string) {
		return guard(func() (string, string) {
			th := e.r.MainThread()
			term := rt.NewTerminationWith(nil, 0, true)
			if !limited {
				if err := rt.Call(th, fn, args, term); err != nil {
					return clsErr, err.Error()
				}
				return clsOK, ""
			}
			ctx, err := th.CallContext(rt.RuntimeContextDef{HardLimits: callLimits}, func() error {
				return rt.Call(th, fn, args, term)
			})
			switch ctx.Status() {
			case rt.StatusKilled:
				return clsKilled, ""
			case rt.StatusError:
				if err != nil {
					return clsErr, err.Error()
				}
				return clsErr, ""
			}
			return clsOK, ""
		})
	}
	cls, detail = run(true)
	flags = "L"
	if cls == clsErr && strings.Contains(detail, "missing flags") {
		cls, detail = run(false)
		flags = "U"
	}
	if cls == clsErr {
		if d, ok := internalErr(detail); ok {
			return clsInternal, d, flags
		}
		if isArityError(detail) {
			flags += "a"
		}
		detail = errClass(detail)
	}
	return
}

func isArityError(msg string) bool {
	return strings.Contains(msg, "value needed") || strings.Contains(msg, "values needed") || strings.Contains(msg, "bad argument #1") && strings.Contains(msg, "no value")
}

func callWorkerSetup() *watchdog {
	setChildLimits(8 << 30)
	// protocol goes to a dup of fd 1; Lua's io.stdout / io.stderr / io.stdin see /dev/null
	fd, err := syscall.Dup(1)
	if err != nil {
		fmt.Fprintln(os.Stderr, err)
		os.Exit(2)
	}
	proto := os.NewFile(uintptr(fd), "proto")
	dn, _ := os.OpenFile(os.DevNull, os.O_RDWR, 0)
	syscall.Dup2(int(dn.Fd()), 0)
	syscall.Dup2(int(dn.Fd()), 1)
	os.Stdout = dn
	os.Stdin = dn
	os.Stderr = dn // Go's own crash output still goes to fd 2
	dir, err := os.MkdirTemp("", "c04-calls-")
	if err != nil {
		fmt.Fprintln(os.Stderr, err)
		os.Exit(2)
	}
	os.Chdir(dir)
	os.Setenv("TMPDIR", dir)
	os.Setenv("HOME", dir)
	tmpDirToRemove = dir
	return newWatchdog(bufio.NewWriter(proto))
}

var tmpDirToRemove string

func callsParent(tier string) {
	r, cleanup := hlib.NewRuntime(devNull())
	fns := enumerateGoFunctions(r)
	cleanup()
	p := buildCallPlan(tier, fns)
	bcs := boundaryCases(tier)
	base0 := len(p.fns) * p.perFn
	total := base0 + len(bcs)
	if base, err := os.MkdirTemp("", "c04-base-"); err == nil {
		os.Setenv("TMPDIR", base)
		defer os.RemoveAll(base)
	}
	fmt.Fprintf(os.Stderr, "c04 calls: %d Go functions x %d tuples + %d boundary cases = %d calls\n", len(p.fns), p.perFn, len(bcs), total)
	for _, f := range p.fns {
		fmt.Printf("fn %s\n", f)
	}
	superviseWorkers("callworker", tier, total, nil,
		func(l string) int { return 0 },
		func(idx int, cls, detail string) string {
			if idx >= base0 {
				c := bcs[idx-base0]
				return fmt.Sprintf("call %s lua:%s %s %s -", c.path, c.args, cls, hx(detail))
			}
			fi, ti := idx/p.perFn, idx%p.perFn
			return fmt.Sprintf("call %s %s %s %s -", p.fns[fi], tupleName(p.fns[fi], p.tuple(fi, ti)), cls, hx(detail))
		}, 50*time.Millisecond)
}

func tupleName(path string, t []int) string {
	if len(t) == 0 {
		return "()"
	}
	var parts []string
	for i, k := range t {
		if i == 0 && isProcessFn(path) {
			parts = append(parts, "proc:"+processArgNames[k%len(processArgs)])
			continue
		}
		parts = append(parts, pool[k].name)
	}
	return strings.Join(parts, ",")
}

func callWorker(tier string, from, to int) {
	out := callWorkerSetup()
	defer func() {
		if tmpDirToRemove != "" && strings.Contains(tmpDirToRemove, "c04-calls-") {
			os.RemoveAll(tmpDirToRemove)
		}
	}()
	var e *callEnv
	var p *callPlan
	var bcs []boundaryCase
	curFn := -1
	curPath := ""
	for i := from; i < to; i++ {
		if e == nil {
			e = newCallEnv()
			if p == nil {
				var fns []goFn
				for path, v := range e.fns {
					fns = append(fns, goFn{path, v})
				}
				sort.Slice(fns, func(a, b int) bool { return fns[a].path < fns[b].path })
				p = buildCallPlan(tier, fns)
				bcs = boundaryCases(tier)
			}
		}
		if base0 := len(p.fns) * p.perFn; i >= base0 {
			// boundary-aware cases: (function, Lua argument list)
			if i-base0 >= len(bcs) {
				break
			}
			c := bcs[i-base0]
			if c.path != curPath && curPath != "" {
				guard(func() (string, string) { e.cleanup(); return "", "" })
				e = newCallEnv()
			}
			curPath = c.path
			out.arm(caseTimeout(), fmt.Sprintf("call %s lua:%s %s - -", c.path, c.args, clsTimeo))
			cls, detail, flags := e.runBoundary(c)
			out.emit(fmt.Sprintf("call %s lua:%s %s %s %s", c.path, c.args, cls, hx(detail), dash(flags)))
			if cls == clsPanic || cls == clsKilled {
				guard(func() (string, string) { e.cleanup(); return "", "" })
				e = nil
				curPath = ""
			}
			continue
		}
		fi, ti := i/p.perFn, i%p.perFn
		if fi != curFn && curFn >= 0 {
			// fresh runtime per function
			guard(func() (string, string) { e.cleanup(); return "", "" })
			e = newCallEnv()
		}
		curFn = fi
		path := p.fns[fi]
		tup := p.tuple(fi, ti)
		if skipFn(path) {
			out.emit(fmt.Sprintf("call %s %s skipped - -", path, tupleName(path, tup)))
			continue
		}
		out.arm(caseTimeout(), fmt.Sprintf("call %s %s %s - -", path, tupleName(path, tup), clsTimeo))
		cls, detail, flags := e.runTuple(path, tup)
		out.emit(fmt.Sprintf("call %s %s %s %s %s", path, tupleName(path, tup), cls, hx(detail), dash(flags)))
		if cls == clsPanic || cls == clsKilled {
			// state may be inconsistent after a panic / kill: start afresh
			guard(func() (string, string) { e.cleanup(); return "", "" })
			e = nil
			curFn = -1
		}
	}
	if e != nil {
		guard(func() (string, string) { e.cleanup(); return "", "" })
	}
}

func (e *callEnv) runTuple(path string, tup []int) (cls, detail, flags string) {
	fn, ok := e.fns[path]
	if !ok {
		return clsErr, "function not found in this runtime", "-"
	}
	args := make([]rt.Value, len(tup))
	settle := false
	for i, k := range tup {
		mk := e.mk[k]
		if i == 0 && isProcessFn(path) {
			mk = e.mkProc[k%len(e.mkProc)]
		}
		v, err := e.build(mk)
		if err != nil {
			return clsErr, "pool value construction failed: " + err.Error(), "-"
		}
		args[i] = v
		if strings.HasPrefix(pool[k].name, "co-") {
			settle = true
		}
	}
	_ = settle
	return e.call(fn, args)
}

func replayCall(path string, argNames []string) {
	out := callWorkerSetup()
	e := newCallEnv()
	if len(argNames) == 1 && strings.HasPrefix(argNames[0], "lua:") {
		c := boundaryCase{path, strings.TrimPrefix(argNames[0], "lua:")}
		out.arm(120*time.Second, fmt.Sprintf("call %s lua:%s %s - -", c.path, c.args, clsTimeo))
		cls, detail, flags := e.runBoundary(c)
		out.emit(fmt.Sprintf("call %s lua:%s %s %s %s\n# outcome: %s %s", c.path, c.args, cls, hx(detail), dash(flags), cls, detail))
		if tmpDirToRemove != "" && strings.Contains(tmpDirToRemove, "c04-calls-") {
			os.RemoveAll(tmpDirToRemove)
		}
		return
	}
	var tup []int
	for _, a := range argNames {
		for _, a1 := range strings.Split(a, ",") {
			if a1 == "()" || a1 == "" {
				continue
			}
			found := -1
			for k, p := range pool {
				if p.name == a1 {
					found = k
				}
			}
			if strings.HasPrefix(a1, "proc:") {
				for k, p := range processArgNames {
					if "proc:"+p == a1 {
						found = k
					}
				}
			}
			if found < 0 {
				if n, err := strconv.Atoi(a1); err == nil {
					found = n
				} else {
					out.emit("unknown pool value " + a1)
					os.Exit(2)
				}
			}
			tup = append(tup, found)
		}
	}
	out.arm(120*time.Second, fmt.Sprintf("call %s %s %s - -", path, tupleName(path, tup), clsTimeo))
	cls, detail, flags := e.runTuple(path, tup)
	out.emit(fmt.Sprintf("call %s %s %s %s %s\n# outcome: %s %s", path, tupleName(path, tup), cls, hx(detail), dash(flags), cls, detail))
	if tmpDirToRemove != "" && strings.Contains(tmpDirToRemove, "c04-calls-") {
		os.RemoveAll(tmpDirToRemove)
	}
}
