package main

// mmgraphPrelude: Lua code building metamethod graphs (see templates.go, family "mmgraph") and
// triggering one event in every way.  run(event, shape) returns true when everything answered.
const mmgraphPrelude = `
local callable_events = {__eq = true, __lt = true, __le = true, __concat = true, __len = true, __unm = true, __add = true, __mod = true, __pow = true,
  __idiv = true, __band = true, __shl = true, __bnot = true, __close = true, __gc = true, __tostring = true, __pairs = true}

-- nodes[1] is the object; the handler of EVENT on node i is node i+1 (for events whose handler is called,
-- nodes 2.. are reached through their __call); the last node's handler is LAST (a function, a node, or nil)
local function build(event, shape)
  local hops, back
  if shape == "self" then hops, back = 1, 1
  elseif shape == "cycle2" then hops, back = 2, 1
  elseif shape == "cycle3" then hops, back = 3, 1
  else hops, back = tonumber(shape:match("%d+")), nil end
  local nodes, mts = {}, {}
  for i = 1, hops do mts[i] = {} nodes[i] = setmetatable({}, mts[i]) end
  local final
  if event == "__index" then final = function(t, k) return "found" end
  elseif event == "__newindex" then final = function(t, k, v) end
  elseif event == "__pairs" then final = function(t) return next, {}, nil end
  elseif event == "__tostring" then final = function() return "str" end
  elseif event == "__name" then final = "aname"
  else final = function(...) return 1 end end
  for i = 1, hops do
    local target = nodes[i + 1]
    if i == hops then if back then target = nodes[back] else target = final end end
    local key = event
    if i > 1 and (callable_events[event] or event == "__call") then key = "__call" end
    mts[i][key] = target
    if shape == "self" and callable_events[event] then mts[i].__call = target end
  end
  -- a twin of the object for binary events that need two operands with the same handler
  local twin = setmetatable({}, mts[1])
  return nodes[1], twin, mts[1]
end

local function triggers(event, o, twin)
  local T = {
    __call = {function() return o(1) end, function() return pcall(o, 1) end, function() return select("#", xpcall(o, o)) end,
      function() local t = {3, 2, 1} table.sort(t, o) return t end, function() return ("abc"):gsub(".", o) end, function() return load(o) end,
      function() return coroutine.wrap(o)(1) end, function() for w in o do break end end, function() return o:method(1) end,
      function() return select("#", pcall(pcall, o)) end, function() return string.format("%s", setmetatable({}, {__tostring = o})) end},
    __index = {function() return o.x end, function() return o[1] end, function() return table.concat(o, ",", 1, 2) end, function() return table.unpack(o, 1, 2) end,
      function() return o:method() end, function() for i, v in ipairs(o) do if i > 3 then break end end end, function() return rawget(o, 1), next(o) end,
      function() return string.rep(setmetatable({}, {__index = string}).rep and "x" or "y", 2) end, function() return table.move(o, 1, 2, 1, {}) end,
      function() return select("#", table.sort(setmetatable({}, {__index = o, __len = function() return 3 end}))) end},
    __newindex = {function() o.x = 1 end, function() o[1] = 1 end, function() table.insert(o, 1) end, function() table.move({1, 2}, 1, 2, 1, o) end,
      function() rawset(o, "k", 1) o.fresh = 2 end},
    __eq = {function() return o == twin end, function() return o ~= twin end},
    __lt = {function() return o < twin end, function() return o > twin end, function() local t = {o, twin, o} table.sort(t) return t end, function() return math.max(1, 2), o < 1 end},
    __le = {function() return o <= twin end, function() return o >= twin end},
    __concat = {function() return o .. "s" end, function() return "s" .. o end, function() return o .. twin end, function() return table.concat({o, twin}) end},
    __len = {function() return #o end, function() return table.unpack(o) end, function() table.insert(o, 1) end, function() return table.concat(o) end, function() return next(o), ipairs(o) end},
    __unm = {function() return -o end},
    __add = {function() return o + 1 end, function() return 1 + o end, function() return o + twin end},
    __mod = {function() return o % 2 end, function() return 2 % o end},
    __pow = {function() return o ^ 2 end, function() return 2 ^ o end},
    __idiv = {function() return o // 2 end, function() return 2 // o end},
    __band = {function() return o & 1 end, function() return 1 & o end},
    __shl = {function() return o << 1 end, function() return 1 << o end},
    __bnot = {function() return ~o end},
    __close = {function() do local x <close> = o end return 1 end, function() local co = coroutine.create(function() local x <close> = o coroutine.yield() end) coroutine.resume(co) return coroutine.close(co) end,
      function() local x <close> = o error("body") end, function() for i in function(s, c) if not c then return 1 end end, nil, nil, o do end end},
    __gc = {function() o = nil twin = nil collectgarbage() collectgarbage() return 1 end},
    __tostring = {function() return tostring(o) end, function() return string.format("%s|%s", o, twin) end, function() print(o) end, function() return table.concat({tostring(o)}) end,
      function() error(o) end, function() return select(2, pcall(error, o)) end},
    __name = {function() return tostring(o) end, function() return o + 1 end, function() return #o < 1 end, function() return string.rep(o, 2) end, function() return ("x"):rep(o) end, function() return math.floor(o) end},
    __pairs = {function() for k, v in pairs(o) do break end end, function() return pairs(o) end},
  }
  return T[event]
end

local function run1(event, shape)
  local answered = 0
  -- through pcall, and inside a coroutine
  local function each(f) for _, tr in ipairs(triggers(event, build(event, shape))) do f(tr) answered = answered + 1 end end
  each(function(tr) pcall(tr) end)
  each(function(tr) coroutine.wrap(function() return pcall(tr) end)() end)
  each(function(tr) local co = coroutine.wrap(tr) pcall(co) end)
  -- acyclic chains within the documented limit of 100 give a normal result for __index
  if event == "__index" and shape == "chain50" then local o = build(event, shape) assert(o.anykey == "found") end
  return answered > 0
end

function run(event, shape)
  if shape == "chains" then
    for _, hops in ipairs{50, 99, 100, 101, 1000} do run1(event, "chain" .. hops) end
    return true
  end
  run1(event, shape)
  -- from Lua code, unprotected: done last, an error simply ends the chunk
  local trs = triggers(event, build(event, shape))
  trs[1]()
  return true
end
`
