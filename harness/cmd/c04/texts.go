package main

import (
	"bufio"
	"bytes"
	"encoding/hex"
	"fmt"
	"os"
	"os/exec"
	"strings"
	"time"

	"verifharness/hlib"
)

// alphabet: short strings covering every lexical class of Lua.
var alphabet = []string{
	// identifiers / keywords / letters that matter inside numerals
	"a", "_", "e", "x", "p", "if", "end", "do", "local", "function", "return", "nil", "not", "and", "or", "goto", "for", "in",
	"then", "else", "elseif", "while", "repeat", "until", "break", "true", "false",
	// digits and numeral prefixes
	"0", "1", "9", "0x", "0X", "1e", "0xp",
	// dots
	".", "..", "...",
	// quotes and escapes
	"\"", "'", "\\", "\\x", "\\u{", "\\z", "\\1", "\\999", "\\xZ", "\\u{110000000}",
	// brackets incl. long brackets and comments
	"[", "]", "[[", "]]", "[=[", "]=]", "[==", "--", "--[", "--[[", "--[=[", "(", ")", "{", "}",
	// whitespace / line ends / odd bytes
	" ", "\n", "\r", "\t", "\x00", "\x80", "\xff", "\xe2\x9c\x93", "\x0b",
	// operators and punctuation
	"+", "-", "*", "/", "//", "%", "^", "#", "&", "~", "|", "<<", ">>", "==", "~=", "<=", ">=", "<", ">", "=",
	";", ":", "::", ",", "<const>", "<close>", "!", "@", "$", "`", "?",
}

// frames: a text t is also tried as prefix+t+suffix to reach the inside of strings / comments / expressions
var frames = [][2]string{
	{"return ", ""}, {"x=\"", "\""}, {"x='", "'"}, {"x=[[", "]]"}, {"--[[", "]]"}, {"x=", " y=1"}, {"f(", ")"}, {"local a<", ">=1"},
	{"x=0x", ""}, {"x=1", ""}, {"goto ", ""}, {"x={", "}"}, {"x=[=[", ""}, {"x=\"\\", "\""},
}

type textCase struct {
	src  string
	kind string
}

type textPlan struct {
	files    []string
	nA       int
	len3     []uint32 // indices (i*nA*nA + j*nA + k) of the length-3 strings to run
	len3All  bool
	len4     []uint32    // sampled length-4 strings
	framed   [][2]uint32 // (frame, len<=2 index)
	muts     []mutation
	total    int
	progToks [][]string
	bounds   [6]int
}

type mutation struct {
	prog int
	kind byte // d delete, u duplicate, s swap, i insert, r replace, t truncate, v valid (unmutated)
	pos  int
	tok  int
}

func buildTextPlan(tier string, files []string) *textPlan {
	p := &textPlan{files: files, nA: len(alphabet)}
	rng := hlib.NewRng(hlib.Seed()*0x9E37 + 4)
	nA := p.nA
	if tier == "thorough" {
		p.len3All = true
		for i := 0; i < 300000; i++ {
			p.len4 = append(p.len4, uint32(rng.Below(nA*nA*nA*nA)))
		}
	} else {
		for i := 0; i < 15000; i++ {
			p.len3 = append(p.len3, uint32(rng.Below(nA*nA*nA)))
		}
		for i := 0; i < 5000; i++ {
			p.len4 = append(p.len4, uint32(rng.Below(nA*nA*nA*nA)))
		}
	}
	nShort := 1 + nA + nA*nA
	if tier == "thorough" {
		for f := range frames {
			for i := 0; i < nShort; i++ {
				p.framed = append(p.framed, [2]uint32{uint32(f), uint32(i)})
			}
		}
	} else {
		for f := range frames {
			for i := 0; i < 1+nA; i++ {
				p.framed = append(p.framed, [2]uint32{uint32(f), uint32(i)})
			}
			for i := 0; i < 700; i++ {
				p.framed = append(p.framed, [2]uint32{uint32(f), uint32(1 + nA + rng.Below(nA*nA))})
			}
		}
	}
	// mutations of the valid corpus
	for pi, src := range validCorpus {
		toks := tokenize(src)
		p.progToks = append(p.progToks, toks)
		p.muts = append(p.muts, mutation{pi, 'v', 0, 0})
		keep := func() bool { return tier == "thorough" || rng.Below(100) < 15 }
		for i := range toks {
			if keep() {
				p.muts = append(p.muts, mutation{pi, 'd', i, 0})
			}
			if keep() {
				p.muts = append(p.muts, mutation{pi, 'u', i, 0})
			}
			if i+1 < len(toks) && keep() {
				p.muts = append(p.muts, mutation{pi, 's', i, 0})
			}
			nIns := 1
			if tier == "thorough" {
				nIns = 4
			}
			for k := 0; k < nIns; k++ {
				if keep() {
					p.muts = append(p.muts, mutation{pi, 'i', i, rng.Below(nA)})
				}
				if keep() {
					p.muts = append(p.muts, mutation{pi, 'r', i, rng.Below(nA)})
				}
			}
		}
		for off := 0; off < len(src); off++ {
			if keep() {
				p.muts = append(p.muts, mutation{pi, 't', off, 0})
			}
		}
	}
	n3 := len(p.len3)
	if p.len3All {
		n3 = nA * nA * nA
	}
	p.bounds[0] = len(files)
	p.bounds[1] = p.bounds[0] + nShort
	p.bounds[2] = p.bounds[1] + n3
	p.bounds[3] = p.bounds[2] + len(p.len4)
	p.bounds[4] = p.bounds[3] + len(p.framed)
	p.bounds[5] = p.bounds[4] + len(p.muts)
	p.total = p.bounds[5]
	return p
}

func (p *textPlan) alphaString(n int, idx int) string {
	var parts [4]string
	for i := n - 1; i >= 0; i-- {
		parts[i] = alphabet[idx%p.nA]
		idx /= p.nA
	}
	return strings.Join(parts[:n], "")
}

func (p *textPlan) shortString(i int) string {
	nA := p.nA
	switch {
	case i == 0:
		return ""
	case i < 1+nA:
		return alphabet[i-1]
	default:
		return p.alphaString(2, i-1-nA)
	}
}

func (p *textPlan) caseAt(i int) textCase {
	switch {
	case i < p.bounds[0]:
		b, err := os.ReadFile(p.files[i])
		if err != nil {
			fmt.Fprintln(os.Stderr, err)
			os.Exit(2)
		}
		return textCase{string(b), "corpus-file"}
	case i < p.bounds[1]:
		return textCase{p.shortString(i - p.bounds[0]), "alpha<=2"}
	case i < p.bounds[2]:
		j := i - p.bounds[1]
		if !p.len3All {
			j = int(p.len3[j])
		}
		return textCase{p.alphaString(3, j), "alpha3"}
	case i < p.bounds[3]:
		return textCase{p.alphaString(4, int(p.len4[i-p.bounds[2]])), "alpha4"}
	case i < p.bounds[4]:
		fr := p.framed[i-p.bounds[3]]
		return textCase{frames[fr[0]][0] + p.shortString(int(fr[1])) + frames[fr[0]][1], "framed"}
	default:
		m := p.muts[i-p.bounds[4]]
		return textCase{p.mutate(m), "mut-" + string(m.kind)}
	}
}

func (p *textPlan) mutate(m mutation) string {
	src := validCorpus[m.prog]
	toks := p.progToks[m.prog]
	var out []string
	switch m.kind {
	case 'v':
		return src
	case 't':
		return src[:m.pos]
	case 'd':
		out = append(append(out, toks[:m.pos]...), toks[m.pos+1:]...)
	case 'u':
		out = append(append(append(out, toks[:m.pos+1]...), toks[m.pos]), toks[m.pos+1:]...)
	case 's':
		out = append(out, toks...)
		out[m.pos], out[m.pos+1] = out[m.pos+1], out[m.pos]
	case 'i':
		out = append(append(append(out, toks[:m.pos]...), alphabet[m.tok]), toks[m.pos:]...)
	case 'r':
		out = append(out, toks...)
		out[m.pos] = alphabet[m.tok]
	}
	return strings.Join(out, "")
}

// tokenize splits Lua source into tokens (whitespace and comments are tokens too, so that joining
// gives back the source).  It is independent of golua's scanner.
func tokenize(s string) []string {
	var out []string
	i := 0
	isAl := func(c byte) bool { return c == '_' || c >= 'a' && c <= 'z' || c >= 'A' && c <= 'Z' || c >= 0x80 }
	isDig := func(c byte) bool { return c >= '0' && c <= '9' }
	longBracket := func(j int) int { // s[j]=='[' ; returns end index after closing bracket or -1
		k := j + 1
		lvl := 0
		for k < len(s) && s[k] == '=' {
			lvl++
			k++
		}
		if k >= len(s) || s[k] != '[' {
			return -1
		}
		closer := "]" + strings.Repeat("=", lvl) + "]"
		e := strings.Index(s[k+1:], closer)
		if e < 0 {
			return len(s)
		}
		return k + 1 + e + len(closer)
	}
	for i < len(s) {
		c := s[i]
		j := i
		switch {
		case c == ' ' || c == '\n' || c == '\t' || c == '\r':
			for j < len(s) && (s[j] == ' ' || s[j] == '\n' || s[j] == '\t' || s[j] == '\r') {
				j++
			}
		case isAl(c):
			for j < len(s) && (isAl(s[j]) || isDig(s[j])) {
				j++
			}
		case isDig(c) || c == '.' && i+1 < len(s) && isDig(s[i+1]):
			for j < len(s) && (isAl(s[j]) || isDig(s[j]) || s[j] == '.' || (s[j] == '+' || s[j] == '-') && (s[j-1] == 'e' || s[j-1] == 'E' || s[j-1] == 'p' || s[j-1] == 'P')) {
				j++
			}
		case c == '"' || c == '\'':
			j++
			for j < len(s) && s[j] != c {
				if s[j] == '\\' {
					j++
				}
				j++
			}
			j++
			if j > len(s) {
				j = len(s)
			}
		case c == '-' && strings.HasPrefix(s[i:], "--"):
			if i+2 < len(s) && s[i+2] == '[' {
				if e := longBracket(i + 2); e >= 0 {
					j = e
					break
				}
			}
			for j < len(s) && s[j] != '\n' {
				j++
			}
		case c == '[':
			if e := longBracket(i); e >= 0 {
				j = e
			} else {
				j++
			}
		default:
			j++
			for _, op := range []string{"...", "..", "::", "<<", ">>", "//", "==", "~=", "<=", ">="} {
				if strings.HasPrefix(s[i:], op) {
					j = i + len(op)
					break
				}
			}
		}
		if j <= i {
			j = i + 1
		}
		out = append(out, s[i:j])
		i = j
	}
	return out
}

func textsParent(tier string, files []string) {
	p := buildTextPlan(tier, files)
	fmt.Fprintf(os.Stderr, "c04 texts: %d cases (files %d, alpha<=2 %d, alpha3 %d, alpha4 %d, framed %d, mutations %d)\n",
		p.total, p.bounds[0], p.bounds[1]-p.bounds[0], p.bounds[2]-p.bounds[1], p.bounds[3]-p.bounds[2], p.bounds[4]-p.bounds[3], p.bounds[5]-p.bounds[4])
	superviseWorkers("textworker", tier, p.total, files,
		func(l string) int { return 0 },
		func(idx int, cls, detail string) string {
			c := p.caseAt(idx)
			return fmt.Sprintf("text %s %s %s - %s", hx(c.src), cls, hx(detail), c.kind)
		}, 200*time.Millisecond)
}

func textWorker(tier string, from, to int, files []string) {
	setChildLimits(6 << 30)
	p := buildTextPlan(tier, files)
	wd := newWatchdog(bufio.NewWriter(os.Stdout))
	r, cleanup := newTextRuntime()
	used := 0 // programs run in r since it was created
	fresh := func() {
		guard(func() (string, string) { cleanup(); return "", "" })
		r, cleanup = newTextRuntime()
		used = 0
	}
	for i := from; i < to && i < p.total; i++ {
		c := p.caseAt(i)
		wd.arm(caseTimeout(), fmt.Sprintf("text %s %s - - %s", hx(c.src), clsTimeo, c.kind))
		cls, detail, flags := compileAndRun(r, []byte(c.src), runLimits)
		ran := strings.Contains(flags, "c")
		if ran {
			used++
		}
		if (cls == clsPanic || cls == clsInternal || cls == clsKilled) && used > 1 {
			// the runtime had run other programs before: confirm in a fresh one so that the outcome does
			// not depend on history
			fresh()
			cls, detail, flags = compileAndRun(r, []byte(c.src), runLimits)
			used = 1
		}
		if cls == clsPanic || cls == clsInternal || cls == clsKilled || used >= 25 {
			fresh()
		}
		if cls == clsPanic || cls == clsInternal {
			// shrink to a minimal text with the same panic class
			wd.arm(caseTimeout()+10*time.Second, fmt.Sprintf("text %s %s %s %s %s", hx(c.src), cls, hx(detail), dash(flags), c.kind))
			min := shrinkText(c.src, cls, detail)
			if min != c.src {
				wd.emit(fmt.Sprintf("text %s %s %s %s %s shrunk-from=%s", hx(min), cls, hx(detail), dash(flags), c.kind, hexCap(c.src)))
				continue
			}
		}
		wd.emit(fmt.Sprintf("text %s %s %s %s %s", hx(c.src), cls, hx(detail), dash(flags), c.kind))
	}
}

func caseTimeout() time.Duration {
	if v := os.Getenv("C04_CASE_TIMEOUT"); v != "" {
		return time.Duration(atoi(v)) * time.Second
	}
	return 10 * time.Second
}

func dash(s string) string {
	if s == "" {
		return "-"
	}
	return s
}

func hexCap(s string) string {
	if len(s) > 200 {
		s = s[:200]
	}
	return hex.EncodeToString([]byte(s))
}

// shrinkText: greedy delta debugging over bytes, keeping class and detail identical.
func shrinkText(src, cls, detail string) string {
	same := func(s string) bool {
		r, cleanup := newTextRuntime()
		defer cleanup()
		c, d, _ := compileAndRun(r, []byte(s), runLimits)
		return c == cls && d == detail
	}
	cur := src
	deadline := time.Now().Add(5 * time.Second)
	for chunk := len(cur) / 2; chunk >= 1; {
		changed := false
		for i := 0; i+chunk <= len(cur); {
			if time.Now().After(deadline) {
				return cur
			}
			cand := cur[:i] + cur[i+chunk:]
			if same(cand) {
				cur = cand
				changed = true
			} else {
				i += chunk
			}
		}
		if !changed || chunk > len(cur) {
			chunk /= 2
		}
	}
	// canonical letters: every identifier letter run -> keep as is (stable enough); done
	return cur
}

// runTextChild runs one text in a child process (used to shrink texts that kill the process).
func runTextChild(src string) (cls, detail string) {
	cmd := exec.Command(os.Args[0], "replay", "text", hex.EncodeToString([]byte(src)))
	if src == "" {
		return clsOK, ""
	}
	cmd.Env = childEnv()
	var stdout, stderrBuf bytes.Buffer
	stderr := &limitedWriter{buf: &stderrBuf, max: 1 << 16}
	cmd.Stdout = &stdout
	cmd.Stderr = stderr
	if err := cmd.Start(); err != nil {
		return clsCrash, "spawn"
	}
	done := make(chan error, 1)
	go func() { done <- cmd.Wait() }()
	select {
	case err := <-done:
		if err == nil {
			f := strings.Fields(firstLine(stdout.String()))
			if len(f) >= 4 {
				d := f[3]
				if b, e := hex.DecodeString(d); e == nil {
					d = string(b)
				}
				return f[2], d
			}
		}
		return clsCrash, fatalClass(stderr.String())
	case <-time.After(20 * time.Second):
		cmd.Process.Kill()
		<-done
		return clsTimeo, ""
	}
}

// shrinkCrashingText: delta debugging with one child process per candidate; the crash may be a
// race, so a candidate is tried up to `tries` times.
func shrinkCrashingText(src, cls, detail string, budget time.Duration) string {
	deadline := time.Now().Add(budget)
	same := func(s string) bool {
		for i := 0; i < 3; i++ {
			c, d := runTextChild(s)
			if c == cls && d == detail {
				return true
			}
		}
		return false
	}
	cur := src
	// token-level first (much faster), then bytes
	for pass := 0; pass < 2; pass++ {
		var units []string
		if pass == 0 {
			units = tokenize(cur)
		} else {
			for i := 0; i < len(cur); i++ {
				units = append(units, cur[i:i+1])
			}
		}
		for chunk := len(units) / 2; chunk >= 1; {
			changed := false
			for i := 0; i+chunk <= len(units); {
				if time.Now().After(deadline) {
					return strings.Join(units, "")
				}
				cand := append(append([]string{}, units[:i]...), units[i+chunk:]...)
				if same(strings.Join(cand, "")) {
					units = cand
					changed = true
				} else {
					i += chunk
				}
			}
			if !changed || chunk > len(units) {
				chunk /= 2
			}
		}
		cur = strings.Join(units, "")
	}
	return cur
}
